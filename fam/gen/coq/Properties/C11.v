(* C11 at the generated-code level (gen-C) -- the unchecked binary codec equals the checked one within its contract, for
   the code pilota-build EMITS: GenUnsafe.v is the emitted decode / encode (the same templates as Gen.v / GenKeep.v)
   running on TBinaryUnsafeInputProtocol / TBinaryUnsafeOutputProtocol (PV.Thrift.Unsafe: every raw access carries an
   explicit bounds test whose failure is the outcome [Panic SOob]; Bytes::advance / split_to beyond the end:
   [Panic SSplit]).  Primitive level: PV.Properties.C11.  Statements only; lemmas in Proofs/UnsafeGenP.v.

   [kb]: the build was made with keep_unknown_fields (gen_cdecode true = GenKeep.gen_decode_keep, false = Gen.gen_decode,
   both over the checked binary protocol).  [fk]: number of turns the iterative skipper's loop may take -- the loop has no
   bound in the code, so the statements hold for every sufficiently large [fk]. *)
From PV Require Import Thrift.Unsafe Proofs.UnsafeP.
From PVGen Require Import Gen GenKeep GenSpec KeepSpec GenUnsafe Proofs.UnsafeGenP.
Open Scope Z_scope.

(* Reader.  On EVERY input on which the emitted decoder over the checked binary reader returns a value -- every schema,
   every declared type, plain or keep build; unknown fields skipped (iterative skipper, entered through skip() which
   rewinds to the field header) or retained (get_bytes(Some(ptr), len): splits exactly the field, header included, off
   the re-windowed transport; get_bytes(None, remaining - 2) of `args` types) -- the emitted decoder over the unchecked
   reader returns the same value, never leaves its window (no Panic SOob / SSplit), and its cursor (bytes split off +
   index) stands exactly where the checked reader stopped. *)
Theorem C11_gen_read_eq : forall kb S f t l rcx v s',
  gen_cdecode kb S f t (mkS l rcx) = Ok (v, s') ->
  exists K u', (forall fk, (K <= fk)%nat -> gen_udecode kb S fk f t (mkU l 0) = Ok (v, u')) /\
               urest u' = rbuf s' /\ (uidx u' <= length (ubuf u'))%nat.
Proof. exact gen_unchecked_read_eq. Qed.
Print Assumptions C11_gen_read_eq.

(* the compositional form: from any pair of related states (RU: the unchecked window from its index on is what the
   checked reader still has), e.g. in the middle of a message *)
Theorem C11_gen_read_simulation : forall kb S f t s u v s',
  RU s u -> gen_cdecode kb S f t s = Ok (v, s') ->
  exists K u', (forall fk, (K <= fk)%nat -> gen_udecode kb S fk f t u = Ok (v, u')) /\ RU s' u'.
Proof. exact gen_unchecked_read_simulation. Qed.
Print Assumptions C11_gen_read_simulation.

(* Writer.  Whatever value the emitted encoder accepts over the checked binary writer (retained chunks of keep builds
   included: write_bytes_without_len), on a transport set up as the contract prescribes -- BytesMut pre-sized to [cap]
   initialised bytes with the window over them, or LinkedBytes with [cap] bytes of spare capacity, zero-copy on or off --
   with [cap] at least the bytes of the encoding: the emitted encoder over the unchecked writer produces EXACTLY the
   same segments (bytes and zero-copy nodes), never writes outside its window, uses exactly the copied bytes of its
   room, and on a contiguous transport ends with index() = bytes written. *)
Theorem C11_gen_write_eq : forall S k zc t v ss c' cap,
  (match k with BContig => True | BLinked z => z = zc end) ->
  enc_ty S PBinary k t v w0 = Ok (ss, c') ->
  Z.of_nat (length (flat ss)) <= cap ->
  exists u', uenc_ty S zc t v (match k with BContig => uw_contig cap | BLinked _ => uw_linked cap end) = Ok (ss, u') /\
    uw_room u' = cap - copy_len ss /\ uw_zc u' = zc_len ss /\
    (k = BContig -> uw_idx u' = Z.of_nat (length (flat ss))).
Proof. exact gen_unchecked_write_eq. Qed.
Print Assumptions C11_gen_write_eq.

(* ... into a window of exactly size() bytes: the reported size (C04_gen / C13_size) is what the unchecked writer needs,
   and on a contiguous transport nothing is left over *)
Theorem C11_gen_write_sized : forall S k zc t v b,
  (match k with BContig => True | BLinked z => z = zc end) -> uuids_ok v = true ->
  gen_encode S PBinary k t v = Ok b ->
  exists n ss u',
    gen_size S PBinary t v = Ok n /\ n = Z.of_nat (length b) /\ flat ss = b /\
    uenc_ty S zc t v (match k with BContig => uw_contig n | BLinked _ => uw_linked n end) = Ok (ss, u') /\
    uw_room u' = zc_len ss /\ (k = BContig -> uw_room u' = 0 /\ uw_idx u' = n).
Proof. exact gen_unchecked_write_sized. Qed.
Print Assumptions C11_gen_write_sized.

(* the compositional form, for any starting state of the unchecked writer with enough room *)
Theorem C11_gen_write_simulation : forall S k zc v t c ss c' u,
  enc_ty S PBinary k t v c = Ok (ss, c') -> kind_ok k zc u -> fits ss u ->
  exists u', uenc_ty S zc t v u = Ok (ss, u') /\ after ss u u' /\ kind_ok k zc u'.
Proof. exact (fun S k zc v t => uenc_UWR S k zc v t). Qed.
Print Assumptions C11_gen_write_simulation.
