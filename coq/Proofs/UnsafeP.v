(* C11: the unchecked binary codec against the checked one. *)
From PV Require Import Thrift.Unsafe Proofs.VarintP Proofs.TablesP Proofs.PrimP Proofs.HeaderP Proofs.RoundtripP Proofs.LenP Proofs.SkipP.
From Coq Require Import ZifyN ZifyNat ZifyBool.
Open Scope Z_scope.

(* ================================================================== *)
(* reader: whenever the checked binary reader returns a value, the unchecked reader returns the same
   value from the same bytes, stays inside its buffer, and stops at the same position *)

(* the unchecked reader's window, from its index on, is what the checked reader still has *)
Definition RU (s : rst) (u : ust) : Prop := rbuf s = urest u /\ (uidx u <= length (ubuf u))%nat.

Definition usim {A} (o1 : res (A * rst)) (o2 : res (A * ust)) : Prop :=
  match o1 with
  | Ok (x, s') => exists u', o2 = Ok (x, u') /\ RU s' u'
  | _ => True
  end.

Lemma usim_bind {A B} (o1 : res (A * rst)) (o2 : res (A * ust)) (f : A * rst -> res (B * rst)) (g : A * ust -> res (B * ust)) :
  usim o1 o2 -> (forall x s' u', RU s' u' -> usim (f (x, s')) (g (x, u'))) -> usim (bind o1 f) (bind o2 g).
Proof.
  intros H1 H2. destruct o1 as [[x s']| |]; cbn [bind usim] in *; auto.
  destruct H1 as (u' & -> & HR). cbn [bind]. apply H2. exact HR.
Qed.

Lemma usim_ret {A} (x : A) s u : RU s u -> usim (Ok (x, s)) (Ok (x, u)).
Proof. intros H. cbn. eauto. Qed.

Lemma usim_map {A B} (o1 : res (A * rst)) (o2 : res (A * ust)) (g : A -> B) :
  usim o1 o2 -> usim (let* (x, s') := o1 in Ok (g x, s')) (let* (x, s') := o2 in Ok (g x, s')).
Proof. intros H. eapply usim_bind; [exact H|]. intros. apply usim_ret; auto. Qed.

Lemma skipn_add {A} (x y : nat) (l : list A) : skipn x (skipn y l) = skipn (y + x) l.
Proof. revert l. induction y as [|y IH]; intros l; [reflexivity|]. destruct l; [destruct x; reflexivity|]. cbn [skipn Nat.add]. apply IH. Qed.

Lemma get_usim n s u : RU s u -> usim (r_take n s) (u_get n u).
Proof.
  intros [Hb Hi]. unfold r_take, u_get.
  destruct (take n (rbuf s)) as [[a r]|] eqn:E; [|exact I].
  apply take_some in E as [E1 E2]. cbn [usim].
  assert (Hl : length (urest u) = (length (ubuf u) - uidx u)%nat) by (unfold urest; apply skipn_length).
  assert (Hn : (n <= length (urest u))%nat) by (rewrite <- Hb, E1, app_length; lia).
  replace (Nat.leb (uidx u + n) (length (ubuf u))) with true by (symmetry; apply Nat.leb_le; lia).
  eexists. split; [f_equal; f_equal|].
  - fold (urest u). rewrite <- Hb, E1, <- E2. rewrite firstn_app, Nat.sub_diag, firstn_all, firstn_O, app_nil_r. reflexivity.
  - split; cbn [rbuf set_buf ubuf uidx urest]; [|lia].
    unfold urest at 1. cbn [ubuf uidx]. rewrite <- skipn_add. fold (urest u). rewrite <- Hb, E1, <- E2.
    rewrite skipn_app, Nat.sub_diag, skipn_all, skipn_O. reflexivity.
Qed.

Lemma byte_usim s u : RU s u -> usim (r_byte s) (u_byte u).
Proof. intros H. apply (usim_map _ _ of_le), get_usim, H. Qed.
Lemma i8_usim s u : RU s u -> usim (r_i8 s) (u_i8 u).
Proof. intros H. apply (usim_map _ _ (fun a => wrap_s 8 (of_le a))), get_usim, H. Qed.
Lemma fixed_usim n bits s u : RU s u -> usim (r_fixed PBinary n bits s) (u_fixed n bits u).
Proof. intros H. apply (usim_map _ _ (fun a => wrap_s bits (of_be a))), get_usim, H. Qed.
Lemma double_usim s u : RU s u -> usim (r_double PBinary s) (u_double u).
Proof. intros H. apply (usim_map _ _ of_be), get_usim, H. Qed.
Lemma bool_usim s u : RU s u -> usim (r_bool PBinary s) (u_bool u).
Proof. intros H. cbn [r_bool]. unfold u_bool. apply (usim_map _ _ (fun b => negb (b =? 0))), i8_usim, H. Qed.

Lemma ttype_usim s u : RU s u -> usim (r_ttype s) (u_ttype u).
Proof.
  intros H. unfold r_ttype, u_ttype. eapply usim_bind; [apply byte_usim, H|]. intros b s' u' HR.
  destruct (ttype_of_byte b); [apply usim_ret; auto|exact I].
Qed.

Lemma field_begin_usim s u : RU s u -> usim (r_field_begin PBinary s) (u_field_begin u).
Proof.
  intros H. cbn [r_field_begin]. unfold u_field_begin. eapply usim_bind; [apply ttype_usim, H|]. intros ty s' u' HR.
  destruct ty; try (apply usim_ret; auto);
    (eapply usim_bind; [apply (fixed_usim 2 16), HR|]; intros; apply usim_ret; auto).
Qed.

Lemma check_size_inv' n s m : check_size n s = Ok m -> m = n /\ 0 <= n.
Proof. unfold check_size. destruct (n <? 0) eqn:E; [discriminate|]. destruct (_ <? n); [discriminate|]. intros H. injection H as <-. lia. Qed.

Lemma i32_range' s n s' : r_i32 PBinary s = Ok (n, s') -> in_s 32 n.
Proof.
  cbn [r_i32]. unfold r_fixed. intros H. binv H. injection H as <- _. apply wrap_s_range. lia.
Qed.

Lemma wrap_u64_small n : 0 <= n -> in_s 32 n -> wrap_u 64 n = n.
Proof. intros H0 [_ H]. unfold wrap_u. apply Z.mod_small. change (2 ^ (32 - 1)) with 2147483648 in H. change (2 ^ 64) with 18446744073709551616. lia. Qed.

Lemma coll_begin_usim s u : RU s u -> usim (r_coll_begin PBinary s) (u_coll_begin u).
Proof.
  intros H. cbn [r_coll_begin]. unfold u_coll_begin. eapply usim_bind; [apply ttype_usim, H|]. intros et s1 u1 H1.
  destruct (r_i32 PBinary s1) as [[n s2]| |] eqn:E; cbn [bind usim]; auto.
  pose proof (fixed_usim 4 32 s1 u1 H1) as S. change (r_fixed PBinary 4 32 s1) with (r_i32 PBinary s1) in S. rewrite E in S.
  destruct S as (u2 & Eu & H2). fold u_i32 in Eu. rewrite Eu. cbn [bind].
  destruct (check_size n s2) as [m| |] eqn:Ec; cbn [bind]; try exact I.
  apply check_size_inv' in Ec as [-> Hn]. rewrite (wrap_u64_small n Hn (i32_range' _ _ _ E)). apply usim_ret; auto.
Qed.

Lemma map_begin_usim s u : RU s u -> usim (r_map_begin PBinary s) (u_map_begin u).
Proof.
  intros H. cbn [r_map_begin]. unfold u_map_begin. eapply usim_bind; [apply ttype_usim, H|]. intros kt s0 u0 H0.
  eapply usim_bind; [apply ttype_usim, H0|]. intros vt s1 u1 H1.
  destruct (r_i32 PBinary s1) as [[n s2]| |] eqn:E; cbn [bind usim]; auto.
  pose proof (fixed_usim 4 32 s1 u1 H1) as S. change (r_fixed PBinary 4 32 s1) with (r_i32 PBinary s1) in S. rewrite E in S.
  destruct S as (u2 & Eu & H2). fold u_i32 in Eu. rewrite Eu. cbn [bind].
  destruct (check_size n s2) as [m| |] eqn:Ec; cbn [bind]; try exact I.
  apply check_size_inv' in Ec as [-> Hn]. rewrite (wrap_u64_small n Hn (i32_range' _ _ _ E)). apply usim_ret; auto.
Qed.

Lemma bytes_usim s u : RU s u -> usim (r_bytes PBinary s) (u_bytes u).
Proof.
  intros H. unfold r_bytes, u_bytes. cbn [r_len].
  destruct (r_i32 PBinary s) as [[n s1]| |] eqn:E; cbn [bind usim]; auto.
  pose proof (fixed_usim 4 32 s u H) as S. change (r_fixed PBinary 4 32 s) with (r_i32 PBinary s) in S. rewrite E in S.
  destruct S as (u1 & Eu & [Hb Hi]). fold u_i32 in Eu. rewrite Eu. cbn [bind].
  unfold u_rewindow. replace (Nat.leb (uidx u1) (length (ubuf u1))) with true by (symmetry; apply Nat.leb_le; lia).
  cbn [bind]. unfold r_split, u_split. cbn [ubuf uidx]. fold (urest u1). rewrite <- Hb.
  destruct (wrap_u 64 n <=? Z.of_nat (length (rbuf s1))) eqn:El; [|exact I].
  unfold r_take. destruct (take (Z.to_nat (wrap_u 64 n)) (rbuf s1)) as [[a r]|] eqn:Et; [|exact I].
  unfold take in Et. destruct (Nat.leb _ _); [|discriminate]. injection Et as <- <-.
  cbn [usim]. eexists. split; [reflexivity|]. split; cbn [rbuf set_buf urest ubuf uidx skipn]; [reflexivity|lia].
Qed.

Section ULoopsSim.
  Variable rec : ttype -> rst -> res (tval * rst).
  Variable urec : ttype -> ust -> res (tval * ust).
  Hypothesis Hrec : forall ty s u, RU s u -> usim (rec ty s) (urec ty u).

  Lemma fields_usim : forall n s u acc, RU s u -> usim (fields_loop PBinary rec n s acc) (ufields_loop urec n u acc).
  Proof.
    induction n as [|n IH]; intros s u acc H; [exact I|]. cbn [fields_loop ufields_loop].
    eapply usim_bind; [apply field_begin_usim, H|]. intros h s1 u1 H1.
    destruct (ttype_eqb (fst h) TStop); [apply usim_ret; auto|].
    eapply usim_bind; [apply Hrec, H1|]. intros x s2 u2 H2. apply IH, H2.
  Qed.

  Lemma elems_usim : forall m et n s u acc, RU s u -> usim (elems_loop rec m et n s acc) (uelems_loop urec m et n u acc).
  Proof.
    induction m as [|m IH]; intros et n s u acc H; cbn [elems_loop uelems_loop].
    - destruct (n <=? 0); [apply usim_ret; auto|exact I].
    - destruct (n <=? 0); [apply usim_ret; auto|].
      eapply usim_bind; [apply Hrec, H|]. intros x s1 u1 H1. apply IH, H1.
  Qed.

  Lemma pairs_usim : forall m kt vt n s u acc, RU s u ->
    usim (pairs_loop rec m kt vt n s acc) (upairs_loop urec m kt vt n u acc).
  Proof.
    induction m as [|m IH]; intros kt vt n s u acc H; cbn [pairs_loop upairs_loop].
    - destruct (n <=? 0); [apply usim_ret; auto|exact I].
    - destruct (n <=? 0); [apply usim_ret; auto|].
      eapply usim_bind; [apply Hrec, H|]. intros a s1 u1 H1.
      eapply usim_bind; [apply Hrec, H1|]. intros b s2 u2 H2. apply IH, H2.
  Qed.
End ULoopsSim.

Theorem uread_val_sim : forall f ty s u, RU s u -> usim (read_val PBinary f ty s) (uread_val f ty u).
Proof.
  induction f as [|f IH]; intros ty s u H; [exact I|].
  rewrite read_val_S. cbn [uread_val].
  destruct ty; try exact I.
  - apply (usim_map _ _ VBool), bool_usim, H.
  - apply (usim_map _ _ VI8), i8_usim, H.
  - apply (usim_map _ _ VDouble), double_usim, H.
  - apply (usim_map _ _ VI16). apply (fixed_usim 2 16), H.
  - apply (usim_map _ _ VI32). apply (fixed_usim 4 32), H.
  - apply (usim_map _ _ VI64). apply (fixed_usim 8 64), H.
  - apply (usim_map _ _ VBinary), bytes_usim, H.
  - (* struct: begin / end are no-ops of the binary protocol *)
    cbn [r_struct_begin bind].
    eapply usim_bind; [apply fields_usim; auto|]. intros fs s1 u1 H1. cbn [r_struct_end bind]. apply usim_ret; auto.
  - eapply usim_bind; [apply map_begin_usim, H|]. intros h s0 u0 H0.
    eapply usim_bind; [apply pairs_usim; auto|]. intros l s1 u1 H1. apply usim_ret; auto.
  - eapply usim_bind; [apply coll_begin_usim, H|]. intros h s0 u0 H0.
    eapply usim_bind; [apply elems_usim; auto|]. intros l s1 u1 H1. apply usim_ret; auto.
  - eapply usim_bind; [apply coll_begin_usim, H|]. intros h s0 u0 H0.
    eapply usim_bind; [apply elems_usim; auto|]. intros l s1 u1 H1. apply usim_ret; auto.
  - apply (usim_map _ _ VUuid). unfold r_uuid, u_uuid. apply get_usim, H.
Qed.

(* C11_read_eq *)
Theorem unchecked_read_eq f ty l rcx v s' :
  read_val PBinary f ty (mkS l rcx) = Ok (v, s') ->
  exists u', uread_val f ty (mkU l 0) = Ok (v, u') /\ urest u' = rbuf s' /\ (uidx u' <= length (ubuf u'))%nat.
Proof.
  intros H. pose proof (uread_val_sim f ty (mkS l rcx) (mkU l 0)) as S.
  rewrite H in S. destruct S as (u' & E & [Hb Hi]).
  - split; [reflexivity|cbn; lia].
  - exists u'. auto.
Qed.

(* composed with C01: every well-formed input is decoded to the value written, never leaving the
   buffer, and the cursor accounts for exactly the bytes of the value *)
Corollary unchecked_roundtrip k v c :
  wt v = true -> w_pend c = None ->
  exists ss, write_val PBinary k v c = Ok (ss, c) /\
    forall fuel r, (vsize v <= fuel)%nat ->
      exists u', uread_val fuel (ttype_of v) (mkU (flat ss ++ r) 0) = Ok (v, u') /\ urest u' = r.
Proof.
  intros Hwt Hp. destruct (roundtrip_val PBinary k v Hwt c Hp) as (ss & Hw & _ & Hr).
  exists ss. split; [exact Hw|]. intros fuel r Hf.
  specialize (Hr fuel r r0 Hf idle_r0).
  destruct (unchecked_read_eq _ _ _ _ _ _ Hr) as (u' & E & Hb & _).
  exists u'. split; [|exact Hb].
  rewrite E. f_equal. f_equal.
  clear. induction v using tval_ind'; try reflexivity.
  - cbn [canon]. f_equal. induction fs as [|[i x] t IHt]; [reflexivity|]. inversion H; subst. cbn [map snd] in *. rewrite H2, IHt; auto.
  - cbn [canon]. f_equal. induction l as [|x t IHt]; [reflexivity|]. inversion H; subst. cbn [map]. rewrite H2, IHt; auto.
  - cbn [canon]. f_equal. induction l as [|x t IHt]; [reflexivity|]. inversion H; subst. cbn [map]. rewrite H2, IHt; auto.
  - cbn [canon canon1]. f_equal. induction l as [|[a b] t IHt]; [reflexivity|]. inversion H; subst. cbn [map fst snd] in *.
    destruct H2 as [Ha Hb]. rewrite Ha, Hb, IHt; auto.
Qed.

(* ================================================================== *)
(* writer: given room for the bytes that go through the window, the unchecked writer emits exactly
   the segments of the checked binary writer and never touches anything outside its window *)

Fixpoint copy_len (ss : list seg) : Z :=
  match ss with
  | [] => 0
  | Copy l :: t => Z.of_nat (length l) + copy_len t
  | Node _ :: t => copy_len t
  end.
Fixpoint zcl (ss : list seg) : Z :=
  match ss with
  | [] => 0
  | Copy _ :: t => zcl t
  | Node l :: t => Z.of_nat (length l) + zcl t
  end.
Lemma zc_len_zcl ss : zc_len ss = zcl ss.
Proof. induction ss as [|[l|l] t IH]; cbn [zc_len fold_right zcl]; auto; fold (zc_len t); lia. Qed.

Lemma copy_len_app a b : copy_len (a ++ b) = copy_len a + copy_len b.
Proof. induction a as [|[l|l] t IH]; cbn [copy_len app]; lia. Qed.
Lemma copy_len_nonneg a : 0 <= copy_len a.
Proof. induction a as [|[l|l] t IH]; cbn [copy_len]; lia. Qed.
Lemma zc_len_app a b : zc_len (a ++ b) = zc_len a + zc_len b.
Proof. rewrite (zc_len_zcl (a ++ b)), (zc_len_zcl a), (zc_len_zcl b). induction a as [|[l|l] t IH]; cbn [zcl app]; lia. Qed.
Lemma zc_len_nonneg a : 0 <= zc_len a.
Proof. rewrite zc_len_zcl. induction a as [|[l|l] t IH]; cbn [zcl]; lia. Qed.
Lemma flat_len ss : Z.of_nat (length (flat ss)) = copy_len ss + zc_len ss.
Proof.
  rewrite zc_len_zcl. induction ss as [|[l|l] t IH]; [reflexivity| |]; unfold flat in *; cbn [map concat seg_bytes copy_len zcl];
    rewrite app_length; lia.
Qed.

(* the transport matches the checked writer's buffer kind *)
Definition kind_ok (k : bk) (zc : bool) (u : uwst) : Prop :=
  match k with
  | BContig => uw_room_tr u <> None
  | BLinked z => uw_room_tr u = None /\ z = zc
  end.

Definition fits (ss : list seg) (u : uwst) : Prop :=
  copy_len ss <= uw_room u /\ (forall rt, uw_room_tr u = Some rt -> copy_len ss <= rt).

Definition after (ss : list seg) (u u' : uwst) : Prop :=
  uw_room u' = uw_room u - copy_len ss /\
  uw_room_tr u' = option_map (fun r => r - copy_len ss) (uw_room_tr u) /\
  uw_zc u' = uw_zc u + zc_len ss /\
  (uw_room_tr u <> None -> uw_idx u' = uw_idx u + copy_len ss).

Definition UWR (k : bk) (zc : bool) (w : wm) (uw : uwm) : Prop :=
  forall c ss c' u, w c = Ok (ss, c') -> kind_ok k zc u -> fits ss u ->
    exists u', uw u = Ok (ss, u') /\ after ss u u' /\ kind_ok k zc u'.

Lemma kind_ok_after k zc ss u u' : kind_ok k zc u -> after ss u u' -> kind_ok k zc u'.
Proof.
  intros Hk (_ & Ht & _). destruct k; cbn [kind_ok] in *.
  - rewrite Ht. destruct (uw_room_tr u); cbn; congruence.
  - destruct Hk as [Hn ->]. rewrite Ht, Hn. auto.
Qed.

Lemma UWR_seq k zc w1 u1 w2 u2 : UWR k zc w1 u1 -> UWR k zc w2 u2 -> UWR k zc (w1 ;; w2) (u1 ;;; u2).
Proof.
  intros H1 H2 c ss c' u Hw Hk [Hf1 Hf2].
  apply wseq_inv in Hw as (s1 & c1 & s2 & Ha & Hb & ->).
  pose proof (copy_len_nonneg s1). pose proof (copy_len_nonneg s2). rewrite copy_len_app in *.
  destruct (H1 c s1 c1 u Ha Hk) as (ua & Ea & (A1 & A2 & A3 & A4) & Hka).
  { split; [lia|]. intros rt Hrt. specialize (Hf2 rt Hrt). lia. }
  destruct (H2 c1 s2 c' ua Hb Hka) as (ub & Eb & (B1 & B2 & B3 & B4) & Hkb).
  { split; [lia|]. intros rt Hrt. rewrite A2 in Hrt. destruct (uw_room_tr u) as [r0|] eqn:Er; [|discriminate].
    cbn in Hrt. injection Hrt as <-. specialize (Hf2 r0 eq_refl). lia. }
  exists ub. split; [unfold uwseq; rewrite Ea; cbn [bind]; rewrite Eb; reflexivity|]. split; [|exact Hkb].
  unfold after. rewrite copy_len_app. repeat split.
  - lia.
  - rewrite B2, A2. destruct (uw_room_tr u); cbn; [f_equal; lia|reflexivity].
  - rewrite zc_len_app. lia.
  - intros Hn. rewrite B4, A4; auto; [lia|]. rewrite A2. destruct (uw_room_tr u); cbn; congruence.
Qed.

Lemma UWR_nop k zc : UWR k zc wnop uwnop.
Proof.
  intros c ss c' u Hw Hk _. unfold wnop in Hw. injection Hw as <- <-. exists u. split; [reflexivity|]. split; [|exact Hk].
  repeat split; cbn [copy_len zc_len fold_right length]; try lia. destruct (uw_room_tr u); cbn; [f_equal; lia|reflexivity].
Qed.


Lemma after_took l u : after [Copy l] u (took u (Z.of_nat (length l))).
Proof.
  unfold after, took. cbn [uw_room uw_room_tr uw_zc uw_idx copy_len zc_len fold_right].
  repeat split; try lia. destruct (uw_room_tr u); cbn; [f_equal; lia|reflexivity].
Qed.

Lemma UWR_buf k zc l : UWR k zc (wret l) (uw_buf l).
Proof.
  intros c ss c' u Hw Hk [Hf1 Hf2]. unfold wret in Hw. injection Hw as <- <-.
  cbn [copy_len] in *. unfold uw_buf.
  replace (Z.of_nat (length l) <=? uw_room u) with true by lia.
  eexists. split; [reflexivity|]. split; [apply after_took|].
  eapply kind_ok_after; [exact Hk|apply after_took].
Qed.

Lemma UWR_tr k zc l : UWR k zc (wret l) (uw_tr l).
Proof.
  intros c ss c' u Hw Hk [Hf1 Hf2]. unfold wret in Hw. injection Hw as <- <-.
  cbn [copy_len] in *. unfold uw_tr.
  pose proof (after_took l u) as A.
  destruct (uw_room_tr u) as [rt|] eqn:Er.
  - specialize (Hf2 rt eq_refl). replace (Z.of_nat (length l) <=? rt) with true by lia.
    eexists. split; [reflexivity|]. split; [exact A|]. eapply kind_ok_after; eauto.
  - replace (Z.of_nat (length l) <=? uw_room u) with true by lia.
    eexists. split; [reflexivity|]. split; [exact A|]. eapply kind_ok_after; eauto.
Qed.

(* advance_mut changes neither the room nor the bytes *)
Lemma UWR_commit k zc : UWR k zc wnop uw_commit.
Proof.
  intros c ss c' u Hw Hk _. unfold wnop in Hw. injection Hw as <- <-. unfold uw_commit.
  destruct (uw_room_tr u) as [rt|] eqn:Er.
  - exists u. split; [reflexivity|]. split; [|exact Hk].
    repeat split; cbn [copy_len zc_len fold_right length]; try lia. rewrite Er. cbn. f_equal. lia.
  - eexists. split; [reflexivity|]. split.
    + repeat split; cbn [uw_room uw_room_tr uw_zc copy_len zc_len fold_right length]; try lia.
      * rewrite Er. reflexivity.
      * rewrite Er. congruence.
    + destruct k; cbn [kind_ok uw_room_tr] in *; auto. congruence.
Qed.

Lemma wseq_wnop_r (w : wm) c : (w ;; wnop) c = match w c with Ok (ss, c') => Ok (ss ++ [], c') | Err e => Err e | Panic s => Panic s end.
Proof. unfold wseq, wnop. destruct (w c) as [[ss c']| |]; reflexivity. Qed.

Lemma UWR_ext k zc (w w' : wm) uw : (forall c, w c = w' c) -> UWR k zc w' uw -> UWR k zc w uw.
Proof. intros E H c ss c' u Hw. rewrite E in Hw. eauto. Qed.

Lemma UWR_field_begin k zc ty id : UWR k zc (w_field_begin PBinary ty id) (uw_field_begin ty id).
Proof.
  unfold uw_field_begin. cbn [w_field_begin fx].
  eapply UWR_ext; [|apply UWR_seq; [apply UWR_buf|apply UWR_commit]].
  intros c. unfold wseq, wnop, wret. cbn [bind]. rewrite app_nil_r. reflexivity.
Qed.

Lemma UWR_i16 k zc z : UWR k zc (w_i16 PBinary z) (uw_i16 z).
Proof. apply UWR_tr. Qed.
Lemma UWR_i32 k zc z : UWR k zc (w_i32 PBinary z) (uw_i32 z).
Proof. apply UWR_tr. Qed.
Lemma UWR_i64 k zc z : UWR k zc (w_i64 PBinary z) (uw_i64 z).
Proof. apply UWR_tr. Qed.
Lemma UWR_double k zc z : UWR k zc (w_double PBinary z) (uw_double z).
Proof. apply UWR_tr. Qed.
Lemma UWR_i8 k zc z : UWR k zc (w_i8 z) (uw_i8 z).
Proof. apply UWR_buf. Qed.
Lemma UWR_byte k zc z : UWR k zc (w_byte z) (uw_byte z).
Proof. apply UWR_buf. Qed.
Lemma UWR_uuid k zc l : UWR k zc (w_uuid l) (uw_uuid l).
Proof. apply UWR_buf. Qed.
Lemma UWR_bool k zc b : UWR k zc (w_bool PBinary b) (uw_bool b).
Proof. apply UWR_buf. Qed.

Lemma UWR_bytes k zc b : UWR k zc (w_bytes PBinary k b) (uw_bytes zc b).
Proof.
  unfold w_bytes, uw_bytes. cbn [w_len]. apply UWR_seq; [apply UWR_i32|].
  intros c ss c' u Hw Hk Hf. unfold w_bytes_without_len in Hw.
  destruct k as [|z]; cbn [kind_ok] in Hk.
  - destruct (uw_room_tr u) as [rt|] eqn:Er; [|congruence].
    apply (UWR_buf BContig zc b c ss c' u Hw); cbn [kind_ok]; [congruence|exact Hf].
  - destruct Hk as [Er ->]. rewrite Er.
    destruct zc.
    + destruct (zero_copy_threshold <=? Z.of_nat (length b)); cbn [andb].
      * injection Hw as <- <-. eexists. split; [reflexivity|]. split.
        -- repeat split; cbn [uw_room uw_room_tr uw_zc copy_len zc_len fold_right length]; try lia; rewrite Er; [reflexivity|congruence].
        -- cbn [kind_ok uw_room_tr]. auto.
      * apply (UWR_buf (BLinked true) true b c ss c' u Hw); [cbn [kind_ok]; auto|exact Hf].
    + cbn [andb]. apply (UWR_buf (BLinked false) false b c ss c' u Hw); [cbn [kind_ok]; auto|exact Hf].
Qed.

Lemma UWR_coll_begin k zc et n : UWR k zc (w_coll_begin PBinary et n) (uw_coll_begin et n).
Proof. unfold uw_coll_begin. cbn [w_coll_begin]. apply UWR_seq; [apply UWR_byte|apply UWR_i32]. Qed.
Lemma UWR_map_begin k zc kt vt n : UWR k zc (w_map_begin PBinary kt vt n) (uw_map_begin kt vt n).
Proof. unfold uw_map_begin. cbn [w_map_begin]. apply UWR_seq; [apply UWR_seq; apply UWR_byte|apply UWR_i32]. Qed.

Lemma w_struct_wrap k fs c :
  write_val PBinary k (VStruct fs) c = (write_fields PBinary k fs ;; w_byte (ttype_code TStop)) c.
Proof.
  change (write_val PBinary k (VStruct fs)) with
    (w_struct_begin PBinary ;; write_fields PBinary k fs ;; w_field_stop PBinary ;; w_struct_end PBinary).
  unfold wseq, w_field_stop, assert_no_pending_w, wseq, w_struct_begin, w_struct_end. cbn [bind app].
  destruct (write_fields PBinary k fs c) as [[s1 c1]| |]; cbn [bind]; auto.
  destruct (w_byte (ttype_code TStop) c1) as [[s2 c2]| |]; cbn [bind app]; auto. rewrite app_nil_r. reflexivity.
Qed.

Theorem uwrite_val_UWR k zc : forall v, UWR k zc (write_val PBinary k v) (uwrite_val zc v).
Proof.
  induction v as [b|z|z|z|z|z|l|l|fs HF|et l HF|et l HF|kt vt l HF] using tval_ind'.
  - apply UWR_bool.
  - apply UWR_i8.
  - apply UWR_i16.
  - apply UWR_i32.
  - apply UWR_i64.
  - apply UWR_double.
  - apply UWR_bytes.
  - apply UWR_uuid.
  - eapply UWR_ext; [apply w_struct_wrap|].
    change (uwrite_val zc (VStruct fs)) with (uwrite_fields zc fs ;;; uw_field_stop).
    apply UWR_seq; [|apply UWR_byte].
    induction fs as [|[id x] t IHt]; [apply UWR_nop|].
    inversion HF as [|? ? Hx Ht]; subst. cbn [snd] in Hx.
    change (uwrite_fields zc ((id, x) :: t)) with (uw_field_begin (ttype_of x) id ;;; uwrite_val zc x ;;; uwrite_fields zc t).
    eapply UWR_ext with (w' := w_field_begin PBinary (ttype_of x) id ;; write_val PBinary k x ;; write_fields PBinary k t).
    + intros c. cbn [write_fields]. unfold wseq. cbn [w_field_end assert_no_pending_w].
      destruct (w_field_begin PBinary (ttype_of x) id c) as [[s1 c1]| |]; cbn [bind]; auto.
      destruct (write_val PBinary k x c1) as [[s2 c2]| |]; cbn [bind]; auto.
      rewrite app_nil_r. reflexivity.
    + apply UWR_seq; [apply UWR_seq; [apply UWR_field_begin|exact Hx]|apply IHt, Ht].
  - change (write_val PBinary k (VList et l)) with (w_coll_begin PBinary et (Z.of_nat (length l)) ;; write_elems PBinary k l).
    change (uwrite_val zc (VList et l)) with (uw_coll_begin et (Z.of_nat (length l)) ;;; uwrite_elems zc l).
    apply UWR_seq; [apply UWR_coll_begin|].
    induction l as [|x t IHt]; [apply UWR_nop|]. inversion HF; subst.
    change (uwrite_elems zc (x :: t)) with (uwrite_val zc x ;;; uwrite_elems zc t).
    change (write_elems PBinary k (x :: t)) with (write_val PBinary k x ;; write_elems PBinary k t).
    apply UWR_seq; auto.
  - change (write_val PBinary k (VSet et l)) with (w_coll_begin PBinary et (Z.of_nat (length l)) ;; write_elems PBinary k l).
    change (uwrite_val zc (VSet et l)) with (uw_coll_begin et (Z.of_nat (length l)) ;;; uwrite_elems zc l).
    apply UWR_seq; [apply UWR_coll_begin|].
    induction l as [|x t IHt]; [apply UWR_nop|]. inversion HF; subst.
    change (uwrite_elems zc (x :: t)) with (uwrite_val zc x ;;; uwrite_elems zc t).
    change (write_elems PBinary k (x :: t)) with (write_val PBinary k x ;; write_elems PBinary k t).
    apply UWR_seq; auto.
  - change (write_val PBinary k (VMap kt vt l)) with (w_map_begin PBinary kt vt (Z.of_nat (length l)) ;; write_pairs PBinary k l).
    change (uwrite_val zc (VMap kt vt l)) with (uw_map_begin kt vt (Z.of_nat (length l)) ;;; uwrite_pairs zc l).
    apply UWR_seq; [apply UWR_map_begin|].
    induction l as [|[a b] t IHt]; [apply UWR_nop|]. inversion HF as [|? ? [Ha Hb] Ht]; subst. cbn [fst snd] in *.
    change (uwrite_pairs zc ((a, b) :: t)) with (uwrite_val zc a ;;; uwrite_val zc b ;;; uwrite_pairs zc t).
    change (write_pairs PBinary k ((a, b) :: t)) with (write_val PBinary k a ;; write_val PBinary k b ;; write_pairs PBinary k t).
    apply UWR_seq; [apply UWR_seq|]; auto.
Qed.

(* a contiguous buffer never receives a zero-copy node *)
Definition nonode (w : wm) : Prop := forall c ss c', w c = Ok (ss, c') -> zc_len ss = 0.
Lemma nonode_seq a b : nonode a -> nonode b -> nonode (a ;; b).
Proof.
  intros Ha Hb c ss c' H. apply wseq_inv in H as (s1 & c1 & s2 & H1 & H2 & ->).
  rewrite zc_len_app, (Ha _ _ _ H1), (Hb _ _ _ H2). reflexivity.
Qed.
Lemma nonode_ret l : nonode (wret l).
Proof. intros c ss c' H. unfold wret in H. injection H as <- _. reflexivity. Qed.
Lemma nonode_nop : nonode wnop.
Proof. intros c ss c' H. unfold wnop in H. injection H as <- _. reflexivity. Qed.
Lemma nonode_ext (w w' : wm) : (forall c, w c = w' c) -> nonode w' -> nonode w.
Proof. intros E H c ss c' Hw. rewrite E in Hw. eauto. Qed.

Lemma contig_nonode : forall v, nonode (write_val PBinary BContig v).
Proof.
  induction v as [b|z|z|z|z|z|l|l|fs HF|et l HF|et l HF|kt vt l HF] using tval_ind'.
  1-6,8: apply nonode_ret.
  - cbn [write_val]. unfold w_bytes. apply nonode_seq; [apply nonode_ret|].
    intros c ss c' H. unfold w_bytes_without_len in H. injection H as <- _. reflexivity.
  - eapply nonode_ext; [apply w_struct_wrap|]. apply nonode_seq; [|apply nonode_ret].
    induction fs as [|[id x] t IHt]; [apply nonode_nop|]. inversion HF as [|? ? Hx Ht]; subst. cbn [snd] in Hx.
    change (write_fields PBinary BContig ((id, x) :: t)) with
      (w_field_begin PBinary (ttype_of x) id ;; write_val PBinary BContig x ;; w_field_end PBinary ;; write_fields PBinary BContig t).
    apply nonode_seq; [apply nonode_seq; [apply nonode_seq; [apply nonode_ret|exact Hx]|]|apply IHt, Ht].
    intros c ss c' H. unfold w_field_end, assert_no_pending_w in H. injection H as <- _. reflexivity.
  - change (write_val PBinary BContig (VList et l)) with (w_coll_begin PBinary et (Z.of_nat (length l)) ;; write_elems PBinary BContig l).
    apply nonode_seq; [cbn [w_coll_begin]; apply nonode_seq; apply nonode_ret|].
    induction l as [|x t IHt]; [apply nonode_nop|]. inversion HF; subst.
    change (write_elems PBinary BContig (x :: t)) with (write_val PBinary BContig x ;; write_elems PBinary BContig t).
    apply nonode_seq; auto.
  - change (write_val PBinary BContig (VSet et l)) with (w_coll_begin PBinary et (Z.of_nat (length l)) ;; write_elems PBinary BContig l).
    apply nonode_seq; [cbn [w_coll_begin]; apply nonode_seq; apply nonode_ret|].
    induction l as [|x t IHt]; [apply nonode_nop|]. inversion HF; subst.
    change (write_elems PBinary BContig (x :: t)) with (write_val PBinary BContig x ;; write_elems PBinary BContig t).
    apply nonode_seq; auto.
  - change (write_val PBinary BContig (VMap kt vt l)) with (w_map_begin PBinary kt vt (Z.of_nat (length l)) ;; write_pairs PBinary BContig l).
    apply nonode_seq; [cbn [w_map_begin]; apply nonode_seq; [apply nonode_seq|]; apply nonode_ret|].
    induction l as [|[a b] t IHt]; [apply nonode_nop|]. inversion HF as [|? ? [Ha Hb] Ht]; subst. cbn [fst snd] in *.
    change (write_pairs PBinary BContig ((a, b) :: t)) with (write_val PBinary BContig a ;; write_val PBinary BContig b ;; write_pairs PBinary BContig t).
    apply nonode_seq; [apply nonode_seq|]; auto.
Qed.

(* C11_write_eq: a transport set up as the contract prescribes, with room for the reported size *)
Theorem unchecked_write_eq k zc v cap :
  wt v = true ->
  (match k with BContig => True | BLinked z => z = zc end) ->
  exists ss, write_val PBinary k v w0 = Ok (ss, w0) /\
    (Z.of_nat (length (flat ss)) <= cap ->
     exists u', uwrite_val zc v (match k with BContig => uw_contig cap | BLinked _ => uw_linked cap end) = Ok (ss, u') /\
       uw_room u' = cap - copy_len ss /\ uw_zc u' = zc_len ss /\
       (k = BContig -> uw_idx u' = Z.of_nat (length (flat ss)))).
Proof.
  intros Hwt Hk. destruct (roundtrip_val PBinary k v Hwt w0 eq_refl) as (ss & Hw & _ & _).
  exists ss. split; [exact Hw|]. intros Hcap.
  pose proof (flat_len ss) as FL. pose proof (zc_len_nonneg ss) as Hz.
  destruct k as [|z].
  - destruct (uwrite_val_UWR BContig zc v w0 ss w0 (uw_contig cap) Hw) as (u' & E & (A1 & A2 & A3 & A4) & _).
    + cbn. congruence.
    + split; cbn [uw_contig uw_room uw_room_tr]; [lia|]. intros rt H. injection H as <-. lia.
    + exists u'. split; [exact E|]. cbn [uw_contig uw_room uw_zc uw_idx uw_room_tr] in *.
      split; [lia|]. split; [lia|]. intros _. rewrite A4 by congruence.
      pose proof (contig_nonode v _ _ _ Hw). lia.
  - subst z. destruct (uwrite_val_UWR (BLinked zc) zc v w0 ss w0 (uw_linked cap) Hw) as (u' & E & (A1 & A2 & A3 & A4) & _).
    + cbn. auto.
    + split; cbn [uw_linked uw_room uw_room_tr]; [lia|]. intros rt H. discriminate.
    + exists u'. split; [exact E|]. cbn [uw_linked uw_room uw_zc] in *. split; [lia|]. split; [lia|]. intros H. discriminate.
Qed.

(* non-vacuity *)
Example unchecked_example :
  let v := VStruct [(1, VI32 7); (2, VBinary (repeat x61 5000)); (3, VList TI16 [VI16 1; VI16 (-1)])] in
  wt v = true /\
  (exists ss u, uwrite_val true v (uw_linked 5040) = Ok (ss, u) /\ zc_len ss = 5000 /\ uw_room u = 5040 - 27) /\
  uwrite_val true v (uw_linked 26) = Panic SOob.
Proof. split; [reflexivity|]. split; [eexists; eexists; split; [vm_compute; reflexivity|split; reflexivity]|vm_compute; reflexivity]. Qed.
