(* C15: the look-ahead functions of Print.v ("where a word or a number ends"): their relation to the scanning
   primitives of Comb.v, and locality (a look-ahead never reads past a byte that can continue no token). *)
From PVIdl Require Import Comb Ast Parser Print Proofs.Total Proofs.RoundTok Proofs.RoundPath Proofs.RoundAnn Proofs.RoundTy
  Proofs.RoundKit.
From Coq Require Import ZifyN ZifyNat ZifyBool.
From Coq Require String.
Import String.StringSyntax.
Open Scope nat_scope.

Lemma hexdigit_identch b : is_hexdigit b = true -> identch b = true.
Proof. destruct b; vm_compute; intro H; try reflexivity; discriminate H. Qed.
Lemma digit_hexdigit b : is_digit b = true -> is_hexdigit b = true.
Proof. destruct b; vm_compute; intro H; try reflexivity; discriminate H. Qed.
Lemma digit_identch b : is_digit b = true -> identch b = true.
Proof. intros H. apply hexdigit_identch, digit_hexdigit, H. Qed.
Lemma hexdigit_nominus b : is_hexdigit b = true -> negb (Byte.eqb b x2d) = true.
Proof. destruct b; vm_compute; intro H; try reflexivity; discriminate H. Qed.

Lemma hd_is_sat f k : hd_is f k = false -> hd_sat (fun b => negb (f b)) k = true.
Proof. destruct k as [|b k]; cbn; [reflexivity|]. intros ->. reflexivity. Qed.
Lemma hd_sat_is f k : hd_sat (fun b => negb (f b)) k = true -> hd_is f k = false.
Proof. destruct k as [|b k]; cbn; [reflexivity|]. intros H. now apply negb_true_iff in H. Qed.
Lemma hd_is_imp (f g : byte -> bool) k : (forall b, f b = true -> g b = true) -> hd_is g k = false -> hd_is f k = false.
Proof. destruct k as [|b k]; cbn; [reflexivity|]. intros H Hg. destruct (f b) eqn:E; [|reflexivity]. rewrite (H b E) in Hg. discriminate. Qed.

(* [run] is the first component of [span] *)
Lemma span_run f k : exists r, span f k = (run f k, r) /\ k = run f k ++ r /\ hd_is f r = false /\ forallb f (run f k) = true.
Proof.
  induction k as [|b k IH]; cbn [span run].
  - exists []. repeat split.
  - destruct (f b) eqn:E.
    + destruct IH as [r [-> [E2 [Hr Hf]]]]. exists r. cbn [app forallb]. rewrite E. repeat split; auto. now rewrite <- E2.
    + exists (b :: k). cbn [hd_is]. repeat split; auto.
Qed.

Lemma run_app_stop f s k : forallb f s = true -> hd_is f k = false -> run f (s ++ k) = s.
Proof.
  intros Hs Hk. induction s as [|b s IH]; cbn [app run].
  - destruct k as [|c k]; [reflexivity|]. cbn in Hk. cbn [run]. now rewrite Hk.
  - cbn [forallb] in Hs. apply andb_prop in Hs. destruct Hs as [Hb Hs]. rewrite Hb, (IH Hs). reflexivity.
Qed.

(* [skip_minus] strips a run of minus signs *)
Lemma skip_minus_spec k : exists n, k = minus_run n (skip_minus k) /\ hd_is (fun b => Byte.eqb b x2d) (skip_minus k) = false.
Proof.
  induction k as [|b k IH]; cbn [skip_minus].
  - exists 0. split; reflexivity.
  - destruct (Byte.eqb b x2d) eqn:E.
    + destruct IH as [n [E2 H]]. exists (S n). cbn [minus_run]. apply byte_dec_bl in E. subst b. split; [now rewrite <- E2|exact H].
    + exists 0. cbn [minus_run hd_is]. split; [reflexivity|exact E].
Qed.
Lemma skip_minus_run n k : hd_is (fun b => Byte.eqb b x2d) k = false -> skip_minus (minus_run n k) = k.
Proof.
  intros H. induction n as [|n IH]; cbn [minus_run skip_minus]; [|exact IH].
  destruct k as [|b k]; [reflexivity|]. cbn in H. cbn [skip_minus]. now rewrite H.
Qed.

(* ---------- what the old follow classes give ---------- *)
Definition endc (b : byte) : bool := negb (identch b) && negb (Byte.eqb b x2e).
Definition endk (k : list byte) : bool := hd_sat endc k.

Lemma endk_hd_word k : endk k = true -> hd_is wordch k = false.
Proof. destruct k as [|b k]; cbn; [reflexivity|]. unfold endc, identch, wordch. intros H. apply andb_prop in H. destruct H as [H _]. now apply negb_true_iff in H. Qed.
Lemma endk_hd (f : byte -> bool) k : (forall b, f b = true -> identch b = true) -> endk k = true -> hd_is f k = false.
Proof. intros Hf H. apply (hd_is_imp f wordch); [exact Hf|]. now apply endk_hd_word. Qed.
Lemma endk_nodot k : endk k = true -> hd_is (fun b => Byte.eqb b x2e) k = false.
Proof.
  destruct k as [|b k]; cbn [endk hd_sat hd_is]; [reflexivity|]. unfold endc. intros H. apply andb_prop in H. destruct H as [_ H].
  now apply negb_true_iff in H.
Qed.
Lemma e_identch b : (Byte.eqb b x65 || Byte.eqb b x45) = true -> identch b = true.
Proof. destruct b; vm_compute; intro H; try reflexivity; discriminate H. Qed.
Lemma x_identch b : Byte.eqb b x78 = true -> identch b = true.
Proof. intros H. apply byte_dec_bl in H. subst. reflexivity. Qed.
Lemma endk_noexp k : endk k = true -> exp_starts k = false.
Proof.
  destruct k as [|b k]; cbn; [reflexivity|]. unfold endc. intros H. apply andb_prop in H. destruct H as [H _].
  destruct (Byte.eqb b x65 || Byte.eqb b x45) eqn:E; [|reflexivity]. rewrite (e_identch b E) in H. discriminate.
Qed.
Lemma endk_nohex k : endk k = true -> hex_continues k = false.
Proof.
  destruct k as [|b k]; cbn; [reflexivity|]. unfold endc. intros H. apply andb_prop in H. destruct H as [H _].
  destruct (Byte.eqb b x78) eqn:E; [|reflexivity]. rewrite (x_identch b E) in H. discriminate.
Qed.


Lemma int_stops_end i k : endk k = true -> int_stops i k = true.
Proof.
  intros H. unfold int_stops. rewrite (endk_hd is_hexdigit k hexdigit_identch H), (endk_hd is_digit k digit_identch H), (endk_nohex k H).
  rewrite andb_false_r. destruct (ci_hex i); reflexivity.
Qed.
Lemma int_not_double_end i k : endk k = true -> int_not_double i k = true.
Proof. intros H. unfold int_not_double. rewrite (endk_nodot k H), (endk_noexp k H). cbn. now rewrite !orb_true_r. Qed.
Lemma dbl_stops_end d k : endk k = true -> dbl_stops d k = true.
Proof.
  intros H. unfold dbl_stops. destruct (cd_body d) as [ip fp [e|]|fp [e|]|ip e]; auto using int_stops_end;
    now rewrite (endk_hd is_digit k digit_identch H), (endk_noexp k H).
Qed.
(* a text that begins with a byte that is neither a word character nor '.' continues no value *)
Lemma cont_ok_end v k : endk k = true -> cont_ok v k = true.
Proof.
  intros H. destruct v; cbn [cont_ok]; try reflexivity.
  - now rewrite (endk_hd_word k H).
  - now rewrite (endk_hd_word k H).
  - now apply dbl_stops_end.
  - now rewrite int_stops_end, int_not_double_end.
Qed.
Lemma wstop_endk k : wstop k = true -> endk k = true.
Proof. apply hd_sat_imp. intros b H. unfold wstopc in H. bsplit H. unfold endc. now rewrite W0, W. Qed.

(* ---------- locality: the look-ahead does not read past a byte that is no word character, no '-' and no '.' ---------- *)
Definition lstopc (b : byte) : bool := negb (identch b) && negb (Byte.eqb b x2d) && negb (Byte.eqb b x2e).
Definition lstopk (k : list byte) : bool := hd_sat lstopc k.

Lemma lstopk_endk k : lstopk k = true -> endk k = true.
Proof. apply hd_sat_imp. intros b H. unfold lstopc in H. bsplit H. unfold endc. now rewrite H, W. Qed.

Lemma hd_is_local (f : byte -> bool) t X : hd_is f X = false -> hd_is f (t ++ X) = hd_is f t.
Proof. destruct t; cbn [app hd_is]; auto. Qed.

Lemma run_local f t X : hd_is f X = false -> run f (t ++ X) = run f t.
Proof.
  intros H. induction t as [|b t IH]; cbn [app run].
  - destruct X as [|c X]; [reflexivity|]. cbn in H. cbn [run]. now rewrite H.
  - destruct (f b); [now rewrite IH|reflexivity].
Qed.

Lemma lstopk_nominus X : lstopk X = true -> hd_is (fun b => Byte.eqb b x2d) X = false.
Proof. destruct X as [|c X]; cbn; [reflexivity|]. unfold lstopc. intros H. bsplit H. now apply negb_true_iff in W0. Qed.

Lemma skip_minus_local t X : lstopk X = true -> skip_minus (t ++ X) = skip_minus t ++ X.
Proof.
  intros H. induction t as [|b t IH]; cbn [app skip_minus].
  - pose proof (lstopk_nominus X H) as Hm. destruct X as [|c X]; [reflexivity|]. cbn in Hm. cbn [skip_minus]. now rewrite Hm.
  - destruct (Byte.eqb b x2d); [exact IH|reflexivity].
Qed.

Lemma int_starts_local t X : lstopk X = true -> int_starts (t ++ X) = int_starts t.
Proof.
  intros H. unfold int_starts. rewrite (skip_minus_local t X H).
  now rewrite (run_local is_digit (skip_minus t) X (endk_hd is_digit X digit_identch (lstopk_endk X H))).
Qed.
Lemma exp_starts_local t X : lstopk X = true -> exp_starts (t ++ X) = exp_starts t.
Proof.
  intros H. destruct t as [|b t]; cbn [app exp_starts].
  - now apply endk_noexp, lstopk_endk.
  - now rewrite (int_starts_local t X H).
Qed.
Lemma hex_continues_local t X : lstopk X = true -> hex_continues (t ++ X) = hex_continues t.
Proof.
  intros H. destruct t as [|b t]; cbn [app hex_continues].
  - now apply endk_nohex, lstopk_endk.
  - now rewrite (run_local is_hexdigit t X (endk_hd is_hexdigit X hexdigit_identch (lstopk_endk X H))).
Qed.
Lemma int_stops_local i t X : lstopk X = true -> int_stops i (t ++ X) = int_stops i t.
Proof.
  intros H. pose proof (lstopk_endk X H) as He. unfold int_stops.
  rewrite (hd_is_local is_hexdigit t X (endk_hd _ X hexdigit_identch He)), (hd_is_local is_digit t X (endk_hd _ X digit_identch He)).
  now rewrite (hex_continues_local t X H).
Qed.
Lemma int_not_double_local i t X : lstopk X = true -> int_not_double i (t ++ X) = int_not_double i t.
Proof.
  intros H. unfold int_not_double. rewrite (hd_is_local (fun b => Byte.eqb b x2e) t X (endk_nodot X (lstopk_endk X H))).
  now rewrite (exp_starts_local t X H).
Qed.
Lemma dbl_stops_local d t X : lstopk X = true -> dbl_stops d (t ++ X) = dbl_stops d t.
Proof.
  intros H. pose proof (lstopk_endk X H) as He. unfold dbl_stops.
  destruct (cd_body d) as [ip fp [e|]|fp [e|]|ip e]; auto using int_stops_local;
    now rewrite (hd_is_local is_digit t X (endk_hd _ X digit_identch He)), (exp_starts_local t X H).
Qed.
Theorem cont_ok_local v t X : lstopk X = true -> cont_ok v (t ++ X) = cont_ok v t.
Proof.
  intros H. pose proof (lstopk_endk X H) as He. destruct v; cbn [cont_ok]; try reflexivity.
  - now rewrite (hd_is_local wordch t X (endk_hd_word X He)).
  - now rewrite (hd_is_local wordch t X (endk_hd_word X He)).
  - now apply dbl_stops_local.
  - now rewrite int_stops_local, int_not_double_local.
Qed.

(* what a value that ends with a word or a number excludes as the next byte: a digit *)
Lemma cont_ok_nodigit v k : const_ends_word v = true -> cont_ok v k = true -> hd_is is_digit k = false.
Proof.
  intros He H. destruct v as [l|b|p|d|i|b0 els|b0 els]; cbn [const_ends_word cont_ok] in *; try discriminate.
  - apply negb_true_iff in H. apply (hd_is_imp is_digit wordch); [exact digit_identch|exact H].
  - apply negb_true_iff in H. apply (hd_is_imp is_digit wordch); [exact digit_identch|exact H].
  - unfold dbl_stops in H. destruct (cd_body d) as [ip fp [e|]|fp [e|]|ip e]; unfold int_stops in H;
      try (apply andb_prop in H; destruct H as [H _]; now apply negb_true_iff in H);
      (destruct (ci_hex (ce_int e)); [apply negb_true_iff in H; apply (hd_is_imp is_digit is_hexdigit); [exact digit_hexdigit|exact H]|
        apply andb_prop in H; destruct H as [H _]; now apply negb_true_iff in H]).
  - apply andb_prop in H. destruct H as [H _]. unfold int_stops in H.
    destruct (ci_hex i); [apply negb_true_iff in H; apply (hd_is_imp is_digit is_hexdigit); [exact digit_hexdigit|exact H]|
      apply andb_prop in H; destruct H as [H _]; now apply negb_true_iff in H].
Qed.

(* ---------- ASCII heads: every token of the grammar begins with an ASCII byte ---------- *)
Definition hd_ascii (k : list byte) : bool := hd_sat (fun b => N.ltb (bn b) 128) k.
Lemma bs_ascii b : blank_start b = true -> N.ltb (bn b) 128 = true.
Proof. destruct b; vm_compute; intro H; try reflexivity; discriminate H. Qed.
Lemma wordend_of r : hd_ascii r = true -> nid r = true -> wordend r = true.
Proof. destruct r as [|b r]; [reflexivity|]. unfold hd_ascii, nid, wordend. cbn [hd_sat]. intros -> ->. reflexivity. Qed.
Lemma idh_ascii b : (is_alpha b || is_underscore b) = true -> N.ltb (bn b) 128 = true.
Proof. destruct b; vm_compute; intro H; try reflexivity; discriminate H. Qed.
Lemma ident_ascii s k : is_ident s = true -> hd_ascii (s ++ k) = true.
Proof.
  destruct s as [|h t]; [discriminate|]. cbn [is_ident]. intros H. apply andb_prop in H. destruct H as [H _].
  unfold hd_ascii. cbn [app hd_sat]. now apply idh_ascii.
Qed.
Lemma digit_ascii b : is_digit b = true -> N.ltb (bn b) 128 = true.
Proof. destruct b; vm_compute; intro H; try reflexivity; discriminate H. Qed.
