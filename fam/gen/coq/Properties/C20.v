(* C20 at the generated-code level: the emitted decoder maps the empty struct (the single byte 00) to
   Default::default() of the emitted type.  Statements only; lemmas in Proofs/DefaultP.v. *)
From PVGen Require Import Gen GenSpec Defaults Proofs.DefaultP.
From PV Require Import Proofs.HeaderP.
Open Scope Z_scope.

(* every protocol, every fuel, ANY reader context, arbitrary trailing bytes: if decoding the empty struct at a
   declared struct type succeeds, the result is exactly the Default value of that type (explicit Default impl:
   IDL defaults, None for optionals), and exactly the one byte has been consumed with the reader context restored *)
Theorem C20_decode_empty : forall S p fuel n fs kp ia r rcx x s',
  wf_schema S = true -> lookup S n = Some (DStruct fs kp ia) ->
  gen_decode S p fuel (TyRef n) (mkS (x00 :: r) rcx) = Ok (x, s') -> idle rcx ->
  default_of S (TyRef n) = Some x.
Proof. exact decode_empty_is_default. Qed.
Print Assumptions C20_decode_empty.

(* stronger: neither well-formedness nor an idle reader is needed, and the rest state is determined
   (clrp: the compact reader has dropped a pending bool field announcement, if there was one) *)
Theorem C20_decode_empty_strong : forall S p fuel n fs kp ia r rcx x s',
  lookup S n = Some (DStruct fs kp ia) ->
  gen_decode S p fuel (TyRef n) (mkS (x00 :: r) rcx) = Ok (x, s') ->
  default_of S (TyRef n) = Some x /\ s' = mkS r (clrp p rcx).
Proof. exact decode_empty_default. Qed.
Print Assumptions C20_decode_empty_strong.

(* it succeeds iff the post-loop pass over the initial variables does, i.e. no required field lacks a default *)
Theorem C20_decode_empty_succeeds : forall S p f n fs kp ia r rcx out,
  lookup S n = Some (DStruct fs kp ia) -> idle rcx ->
  finish_fields fs (map init_var fs) = Ok out ->
  gen_decode S p (Datatypes.S f) (TyRef n) (mkS (x00 :: r) rcx) = Ok (GStruct out [], mkS r rcx).
Proof. exact decode_empty_succeeds. Qed.
Print Assumptions C20_decode_empty_succeeds.
