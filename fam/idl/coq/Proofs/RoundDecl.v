(* C15: kit for the declarations -- suffix bookkeeping of all printers, blank slots at the end of input, the shared
   tails  [blank] [annotations] [separator]  and  [annotations [blank]] [separator]. *)
From PVIdl Require Import Comb Ast Parser Print Proofs.Total Proofs.RoundTok Proofs.RoundPath Proofs.RoundAnn Proofs.RoundTy
  Proofs.RoundKit Proofs.Lex Proofs.RoundNum Proofs.RoundConst.
From Coq Require Import ZifyN ZifyNat ZifyBool.
From Coq Require String.
Import String.StringSyntax.
Open Scope nat_scope.

(* ---------- suffixes ---------- *)
Lemma sfx_tail r t k : sfx r k -> sfx r (pr_tail t k).
Proof. intros H. unfold pr_tail. apply sfx_blank, sfx_oanns, sfx_sep, H. Qed.
Lemma sfx_tail2 r a s k : sfx r k -> sfx r (pr_tail2 a s k).
Proof. intros H. destruct a as [[l b]|]; cbn [pr_tail2]; [apply sfx_anns, sfx_blank, sfx_sep, H|apply sfx_sep, H]. Qed.
Lemma sfx_attr r a k : sfx r k -> sfx r (pr_attr a k).
Proof. intros H. destruct a as [[[|] b]|]; cbn [pr_attr]; [apply sfx_app_r, sfx_blank, H|apply sfx_app_r, sfx_blank, H|exact H]. Qed.
Lemma sfx_default r d k : sfx r k -> sfx r (pr_default d k).
Proof. intros H. destruct d as [[[b1 v] b2]|]; cbn [pr_default]; [|exact H]. apply sfx_app_r, sfx_blank, sfx_const, sfx_blank, H. Qed.
Lemma sfx_field r f k : sfx r k -> sfx r (pr_field f k).
Proof.
  intros H. unfold pr_field.
  apply sfx_app_r, sfx_blank, sfx_app_r, sfx_blank, sfx_attr, sfx_type, sfx_blank, sfx_app_r, sfx_blank, sfx_default, sfx_tail2, H.
Qed.
Lemma sfx_fields r fs k : sfx r k -> sfx r (pr_fields fs k).
Proof. induction fs; cbn [pr_fields]; intros H; [exact H|]. apply sfx_field. auto. Qed.
Lemma sfx_struct_like r c k : sfx r k -> sfx r (pr_struct_like c k).
Proof. intros H. unfold pr_struct_like. apply sfx_app_r, sfx_blank, sfx_app_r, sfx_blank, sfx_fields, sfx_app_r, sfx_tail, H. Qed.
Lemma sfx_evalue r v k : sfx r k -> sfx r (pr_evalue v k).
Proof. intros H. destruct v as [[[b1 i] b2]|]; cbn [pr_evalue]; [|exact H]. apply sfx_app_r, sfx_blank, sfx_int, sfx_blank, H. Qed.
Lemma sfx_enumval r e k : sfx r k -> sfx r (pr_enumval e k).
Proof. intros H. unfold pr_enumval. apply sfx_app_r, sfx_blank, sfx_evalue, sfx_oanns, sfx_sep, sfx_blank, H. Qed.
Lemma sfx_enumvals r l k : sfx r k -> sfx r (pr_enumvals l k).
Proof. induction l; cbn [pr_enumvals]; intros H; [exact H|]. apply sfx_enumval. auto. Qed.
Lemma sfx_enum r c k : sfx r k -> sfx r (pr_enum c k).
Proof.
  intros H. unfold pr_enum. apply sfx_app_r, sfx_blank, sfx_app_r, sfx_blank, sfx_app_r, sfx_blank, sfx_enumvals, sfx_app_r,
    sfx_blank, sfx_oanns, H.
Qed.
Lemma sfx_throws r t k : sfx r k -> sfx r (pr_throws t k).
Proof.
  intros H. destruct t as [t|]; cbn [pr_throws]; [|exact H].
  apply sfx_app_r, sfx_blank, sfx_app_r, sfx_blank, sfx_fields, sfx_app_r, sfx_blank, H.
Qed.
Lemma sfx_function r f k : sfx r k -> sfx r (pr_function f k).
Proof.
  intros H. unfold pr_function.
  assert (X : sfx r (pr_type (fn_type f) (pr_blank (fn_b1 f) (fn_cname f ++ pr_blank (fn_b2 f)
     (txt "(" ++ pr_blank (fn_b0 f) (pr_fields (fn_args f) (txt ")" ++ pr_blank (fn_b3 f) (pr_throws (fn_cthrows f)
       (pr_oanns (fn_canns f) (pr_sep (fn_sep f) k))))))))))
    by (apply sfx_type, sfx_blank, sfx_app_r, sfx_blank, sfx_app_r, sfx_blank, sfx_fields, sfx_app_r, sfx_blank, sfx_throws,
          sfx_oanns, sfx_sep, H).
  destruct (fn_coneway f); [apply sfx_app_r, sfx_blank, X|exact X].
Qed.
Lemma sfx_fns r l k : sfx r k -> sfx r (pr_fns l k).
Proof. induction l as [|[b f] l IH]; cbn [pr_fns]; intros H; [exact H|]. apply sfx_blank, sfx_function. auto. Qed.
Lemma sfx_extends r e k : sfx r k -> sfx r (pr_extends e k).
Proof. intros H. destruct e as [[[b1 b2] p]|]; cbn [pr_extends]; [|exact H]. apply sfx_blank, sfx_app_r, sfx_blank, sfx_path, H. Qed.
Lemma sfx_service r c k : sfx r k -> sfx r (pr_service c k).
Proof.
  intros H. unfold pr_service.
  apply sfx_app_r, sfx_blank, sfx_app_r, sfx_extends, sfx_blank, sfx_app_r, sfx_fns, sfx_blank, sfx_app_r, sfx_tail, H.
Qed.
Lemma sfx_namespace r c k : sfx r k -> sfx r (pr_namespace c k).
Proof. intros H. unfold pr_namespace. apply sfx_app_r, sfx_blank, sfx_app_r, sfx_blank, sfx_path, sfx_blank, sfx_tail2, H. Qed.
Lemma sfx_typedef r c k : sfx r k -> sfx r (pr_typedef c k).
Proof. intros H. unfold pr_typedef. apply sfx_app_r, sfx_blank, sfx_type, sfx_blank, sfx_app_r, sfx_tail, H. Qed.
Lemma sfx_constant r c k : sfx r k -> sfx r (pr_constant c k).
Proof.
  intros H. unfold pr_constant.
  apply sfx_app_r, sfx_blank, sfx_type, sfx_blank, sfx_app_r, sfx_blank, sfx_app_r, sfx_blank, sfx_const, sfx_tail, H.
Qed.
Lemma sfx_item r it k : sfx r k -> sfx r (pr_item it k).
Proof.
  intros H. destruct it; cbn [pr_item].
  - apply sfx_app_r, sfx_blank, sfx_lit, sfx_sep, H.
  - apply sfx_app_r, sfx_blank, sfx_lit, sfx_sep, H.
  - apply sfx_namespace, H.
  - apply sfx_typedef, H.
  - apply sfx_constant, H.
  - apply sfx_enum, H.
  - apply sfx_app_r, sfx_blank, sfx_struct_like, H.
  - apply sfx_service, H.
Qed.
Lemma sfx_items r l k : sfx r k -> sfx r (pr_items l k).
Proof. induction l as [|[it b] l IH]; cbn [pr_items]; intros H; [exact H|]. apply sfx_item, sfx_blank. auto. Qed.

Ltac sfx_step ::=
  first [ apply sfx_refl | apply sfx_blank | apply sfx_type | apply sfx_ty
        | apply sfx_ocpp | apply sfx_path_tail | apply sfx_path | apply sfx_lit | apply sfx_sep | apply sfx_anns | apply sfx_oanns
        | apply sfx_const | apply sfx_clist | apply sfx_cmapl | apply sfx_int | apply sfx_dbl
        | apply sfx_tail | apply sfx_tail2 | apply sfx_attr | apply sfx_default | apply sfx_fields | apply sfx_field
        | apply sfx_evalue | apply sfx_enumvals | apply sfx_enumval | apply sfx_throws | apply sfx_fns | apply sfx_function
        | apply sfx_extends | apply sfx_items | apply sfx_item | apply sfx_ann_list | apply sfx_ann
        | apply sfx_app_r | apply sfx_cons_r ].

(* ---------- blank slots that may be the last of the text ---------- *)
Section Decl.
Variable lf : nat.
Variable whole : list byte.
Hypothesis Hlf : length whole < lf.

Lemma osep_e eof s k : wf_sep_at eof s = true -> (eof = true -> k = []) -> nb k = true -> nosep k = true ->
  sfx (pr_sep s k) whole -> exists o, opt (p_list_separator lf) (pr_sep s k) = POk k o.
Proof.
  intros Hw He Hk1 Hk2 S. destruct s as [|semi bl]; cbn [pr_sep wf_sep_at] in *.
  - exists None. apply opt_err. unfold p_list_separator. apply pbind_err. destruct k as [|b k]; [exact I|].
    unfold nosep in Hk2. cbn [hd_sat] in Hk2. cbn [one_of]. destruct (bmem b set_list_separator); [discriminate|exact I].
  - destruct (oblank_e lf whole Hlf eof bl k Hw He Hk1 ltac:(sfx_of S)) as [o E].
    exists (Some (sep_byte semi)). apply opt_ok. unfold p_list_separator. cbn [one_of].
    assert (M : bmem (sep_byte semi) set_list_separator = true) by (destruct semi; reflexivity).
    rewrite M. cbn [pbind]. rewrite E. reflexivity.
Qed.

(* the tail  [blank] [annotations] [separator] *)
Lemma tail_steps eof t k : wf_tail eof t = true -> (eof = true -> k = []) -> nosep k = true ->
  (tail_open t = true -> stop k = true) -> sfx (pr_tail t k) whole ->
  exists o1 o3,
    opt (p_blank lf) (pr_tail t k) = POk (pr_oanns (t_anns t) (pr_sep (t_sep t) k)) o1 /\
    opt (p_annotations lf) (pr_oanns (t_anns t) (pr_sep (t_sep t) k)) = POk (pr_sep (t_sep t) k) (option_map erase_anns (t_anns t)) /\
    opt (p_list_separator lf) (pr_sep (t_sep t) k) = POk k o3.
Proof.
  intros Hw He Hns Hop S. destruct t as [b a s]. unfold wf_tail, pr_tail, tail_open in *. cbn [t_b t_anns t_sep] in *.
  bsplit Hw.
  assert (E1 : exists o1, opt (p_blank lf) (pr_blank b (pr_oanns a (pr_sep s k))) = POk (pr_oanns a (pr_sep s k)) o1).
  { destruct a as [l|].
    - rewrite andb_false_r in Hw. cbn [andb wfb] in Hw. apply (oblank lf whole Hlf); auto.
    - destruct s as [|semi bl].
      + cbn [is_none sep_none andb] in *. rewrite !andb_true_r in Hw. cbn [pr_oanns pr_sep] in *.
        apply (oblank_e lf whole Hlf eof); auto. apply stop_nb. auto.
      + cbn [sep_none] in Hw. rewrite andb_false_r in Hw. cbn [wfb] in Hw. apply (oblank lf whole Hlf); auto.
        cbn [pr_oanns pr_sep]. destruct semi; reflexivity. }
  destruct E1 as [o1 E1].
  assert (E2 : opt (p_annotations lf) (pr_oanns a (pr_sep s k)) = POk (pr_sep s k) (option_map erase_anns a)).
  { apply (oanns_ok lf whole Hlf); auto; [|sfx_of S]. intros ->. destruct s as [|[|] bl]; cbn [pr_sep sep_byte]; try reflexivity.
    apply stop_noparen. auto. }
  assert (E3 : exists o3, opt (p_list_separator lf) (pr_sep s k) = POk k o3).
  { destruct s as [|semi bl].
    - exists None. apply opt_err. unfold p_list_separator. apply pbind_err. destruct k as [|c k]; [exact I|].
      unfold nosep in Hns. cbn [hd_sat] in Hns. cbn [pr_sep one_of]. destruct (bmem c set_list_separator); [discriminate|exact I].
    - apply (osep_e eof); auto; [apply stop_nb; auto|sfx_of S]. }
  destruct E3 as [o3 E3]. exists o1, o3. auto.
Qed.

Lemma tail_head (f : byte -> bool) eof t k : wf_tail eof t = true -> (forall b, blank_start b = true -> f b = true) ->
  f x28 = true -> f x2c = true -> f x3b = true -> (tail_bare t = true -> hd_sat f k = true) -> hd_sat f (pr_tail t k) = true.
Proof.
  intros Hw Hb H1 H2 H3 Hk. destruct t as [b a s]. unfold wf_tail, pr_tail, tail_bare in *. cbn [t_b t_anns t_sep] in *.
  bsplit Hw. eapply blank_then_e; eauto. intros ->. destruct a; cbn [pr_oanns pr_anns]; [exact H1|].
  destruct s as [|[|] bl]; cbn [pr_sep sep_byte]; auto.
Qed.

(* the tail  [annotations [blank]] [separator]  (after a blank slot) *)
Lemma tail2_steps eof a s k : wf_tail2 eof a s = true -> (eof = true -> k = []) -> stop k = true ->
  sfx (pr_tail2 a s k) whole ->
  exists X o2 o3,
    opt (p_annotations lf) (pr_tail2 a s k) = POk X (erase_anns2 a) /\
    opt (p_blank lf) X = POk (pr_sep s k) o2 /\
    opt (p_list_separator lf) (pr_sep s k) = POk k o3.
Proof.
  intros Hw He Hk S. unfold wf_tail2 in Hw. apply andb_prop in Hw. destruct Hw as [Hw Hs].
  assert (Nsep : nb (pr_sep s k) = true) by (apply sep_nb, stop_nb, Hk).
  assert (E3 : exists o3, opt (p_list_separator lf) (pr_sep s k) = POk k o3).
  { apply (osep_e eof); [exact Hs|exact He|apply stop_nb, Hk|apply stop_nosep, Hk|]. destruct a as [[l b]|]; cbn [pr_tail2] in S; sfx_of S. }
  destruct E3 as [o3 E3].
  destruct a as [[l b]|]; cbn [pr_tail2 erase_anns2 option_map fst] in *.
  - bsplit Hw.
    assert (E2 : exists o2, opt (p_blank lf) (pr_blank b (pr_sep s k)) = POk (pr_sep s k) o2).
    { destruct s as [|semi bl]; cbn [sep_none] in *.
      - rewrite andb_true_r in W. cbn [pr_sep] in *. apply (oblank_e lf whole Hlf eof); auto. sfx_of S.
      - rewrite andb_false_r in W. cbn [wfb] in W. apply (oblank lf whole Hlf); auto. sfx_of S. }
    destruct E2 as [o2 E2]. exists (pr_blank b (pr_sep s k)), o2, o3. split; [|auto].
    apply opt_ok. now apply (rt_anns lf whole Hlf).
  - exists (pr_sep s k), None, o3. split; [|split; auto].
    + apply opt_err, noparen_noann. destruct s as [|[|] bl]; cbn [pr_sep sep_byte]; try reflexivity. now apply stop_noparen.
    + apply opt_err, blank_err, Nsep.
Qed.

Lemma tail2_head (f : byte -> bool) a s k : f x28 = true -> f x2c = true -> f x3b = true -> hd_sat f k = true ->
  hd_sat f (pr_tail2 a s k) = true.
Proof.
  intros H1 H2 H3 Hk. destruct a as [[l b]|]; cbn [pr_tail2 pr_anns]; [exact H1|].
  destruct s as [|[|] bl]; cbn [pr_sep sep_byte]; auto.
Qed.

End Decl.

Section Decl2.
Variable lf : nat.
Variable whole : list byte.
Hypothesis Hlf : length whole < lf.

(* a mandatory blank that may be the last of the text *)
Lemma mblank_e eof bl k : wfb eof bl = true -> bl <> [] -> (eof = true -> k = []) -> nb k = true -> sfx (pr_blank bl k) whole ->
  p_blank lf (pr_blank bl k) = POk k tt.
Proof.
  intros Hw Hne He Hk S. destruct eof; cbn [wfb] in Hw.
  - rewrite (He eq_refl) in *. apply rt_blank_eof; auto. eapply sfx_lt; eauto.
  - apply rt_blank; auto. eapply sfx_lt; eauto.
Qed.

Lemma name_not_cpp_e eof s bl rest : is_ident s = true -> wfb eof bl = true -> (eof = true -> rest = []) -> nb rest = true ->
  noquote rest = true -> (bl = [] -> nid rest = true) -> sfx (pr_blank bl rest) whole ->
  is_perr (p_cpp_type lf (s ++ pr_blank bl rest)).
Proof.
  intros Hs Hw He Hn Hq Hi S.
  assert (Hrest : nid (pr_blank bl rest) = true) by (eapply blank_then_e; eauto with bsdb).
  destruct (bytes_eq s kw_cpp_type) eqn:E.
  - apply bytes_eq_eq in E. subst s. unfold p_cpp_type. rewrite tag_ok. cbn [pbind]. destruct bl as [|a bl].
    + cbn [pr_blank]. apply pbind_err, blank_err, Hn.
    + rewrite (mblank_e eof (a :: bl) rest Hw ltac:(discriminate) He Hn S). cbn [pbind]. now apply lit_err.
  - apply (container_word_err kw_cpp_type (fun i => do i, _ <- p_blank lf i ;; p_literal lf i) s _ eq_refl Hs Hrest E).
    intros c r Hc. apply pbind_err. now apply identch_not_blank.
Qed.

Lemma tyfollow_name_e eof e b s bl rest : wf_blank b = true -> (b = [] -> e = false) -> is_ident s = true ->
  wfb eof bl = true -> (eof = true -> rest = []) -> nb rest = true -> noquote rest = true -> (bl = [] -> nid rest = true) ->
  sfx (pr_blank bl rest) whole ->
  tyfollow lf e (pr_blank b (s ++ pr_blank bl rest)).
Proof.
  intros Hb He Hs Hw Hf Hn Hq Hi S. exists b, (s ++ pr_blank bl rest). split; [reflexivity|]. split; [exact Hb|].
  split; [now apply ident_nb|]. split; [now apply (name_not_cpp_e eof)|].
  split; [apply dot_err; now apply ident_nodot|].
  split; [apply noparen_noann; now apply ident_noparen|].
  split; [now apply ident_nolt|].
  intros -> E. rewrite (He eq_refl) in E. discriminate.
Qed.

(* a name followed by the tail [blank] [annotations] [separator] *)
Lemma tyfollow_name_tail eof e b s t k : wf_blank b = true -> (b = [] -> e = false) -> is_ident s = true ->
  wf_tail eof t = true -> (eof = true -> k = []) -> (tail_open t = true -> stop k = true) ->
  (tail_bare t = true -> wstop k = true) -> sfx (pr_tail t k) whole ->
  tyfollow lf e (pr_blank b (s ++ pr_tail t k)).
Proof.
  intros Hb He Hs Hw Hf Hop Hbare S. destruct t as [bl a sp]. unfold pr_tail, wf_tail, tail_open, tail_bare in *.
  cbn [t_b t_anns t_sep] in *. bsplit Hw.
  apply (tyfollow_name_e (eof && is_none a && sep_none sp)); auto.
  - intros E. destruct a; [rewrite andb_false_r in E; discriminate|]. destruct sp; [|rewrite andb_false_r in E; discriminate].
    cbn [pr_oanns pr_sep]. apply Hf. now destruct eof.
  - destruct a; [reflexivity|]. destruct sp as [|[|] ?]; try reflexivity. apply stop_nb; auto.
  - destruct a; [reflexivity|]. destruct sp as [|[|] ?]; try reflexivity. apply stop_noquote; auto.
  - intros ->. destruct a; [reflexivity|]. destruct sp as [|[|] ?]; try reflexivity. apply wstop_nid; auto.
Qed.

End Decl2.

(* a constant value followed by the tail [blank] [annotations] [separator] *)
Lemma cvfollow_tail eof ew isp t k : wf_tail eof t = true -> (eof = true -> k = []) -> (tail_open t = true -> stop k = true) ->
  (ew = true -> tail_bare t = true -> wstop k = true) -> cvfollow ew isp (pr_tail t k).
Proof.
  intros Hw He Hop Hbare Ev. destruct t as [bl a sp]. unfold pr_tail, wf_tail, tail_open, tail_bare in *. cbn [t_b t_anns t_sep] in *.
  bsplit Hw. exists (eof && is_none a && sep_none sp), bl, (pr_oanns a (pr_sep sp k)). split; [reflexivity|]. split; [assumption|].
  destruct a as [l|]; [|destruct sp as [|semi bs]]; cbn [is_none sep_none andb pr_oanns pr_sep pr_anns is_nil] in *.
  - rewrite andb_false_r. repeat split; try reflexivity; discriminate.
  - rewrite !andb_true_r in *. split; [exact He|]. split; [apply stop_nb; auto|]. split; [intros ->; auto|].
    intros _. apply stop_nodot; auto.
  - rewrite andb_false_r. repeat split; try discriminate; destruct semi; reflexivity.
Qed.

Lemma unwrap_oanns' a : unwrap_or_default (option_map erase_anns a) = erase_oanns a.
Proof. destruct a; reflexivity. Qed.

(* ---------- depth fuel: a printed type / constant is at least as long as it is deep ---------- *)
Fixpoint ty_depth_len (t : cty) : forall k, ty_depth t + length k <= length (pr_ty t k)
with type_depth_len (t : ctype) : forall k, type_depth t + length k <= length (pr_type t k).
Proof.
  - destruct t as [b|b1 b2 inner b3 cpp|cpp b1 b2 inner b3|cpp b1 b2 key b3 semi b4 value b5|p]; intros k; cbn [pr_ty ty_depth].
    + rewrite app_length. lia.
    + set (X3 := txt ">" ++ pr_ocpp cpp k). set (X2 := pr_blank b3 X3). set (X1 := pr_type inner X2).
      set (X0 := txt "<" ++ pr_blank b2 X1).
      assert (A3 : length k <= length X3).
      { unfold X3. rewrite app_length. pose proof (sfx_len _ _ (sfx_ocpp k cpp k (sfx_refl k))). lia. }
      assert (A2 : length X3 <= length X2) by apply len_blank.
      assert (A1 : type_depth inner + length X2 <= length X1) by apply type_depth_len.
      assert (A0 : 1 + length X1 <= length X0).
      { unfold X0. rewrite app_length. change (length (txt "<")) with 1. pose proof (len_blank b2 X1). lia. }
      pose proof (len_blank b1 X0) as A. rewrite app_length. change (length (txt "list")) with 4.
      clearbody X0 X1 X2 X3. clear - A A0 A1 A2 A3. lia.
    + set (X3 := txt ">" ++ k). set (X2 := pr_blank b3 X3). set (X1 := pr_type inner X2).
      set (X0 := txt "<" ++ pr_blank b2 X1).
      assert (A3 : length k <= length X3) by (unfold X3; rewrite app_length; lia).
      assert (A2 : length X3 <= length X2) by apply len_blank.
      assert (A1 : type_depth inner + length X2 <= length X1) by apply type_depth_len.
      assert (A0 : 1 + length X1 <= length X0).
      { unfold X0. rewrite app_length. change (length (txt "<")) with 1. pose proof (len_blank b2 X1). lia. }
      pose proof (len_blank b1 X0) as A.
      pose proof (sfx_len _ _ (sfx_ocpp _ cpp _ (sfx_refl (pr_blank b1 X0)))) as B.
      rewrite app_length. change (length (txt "set")) with 3.
      clearbody X0 X1 X2 X3. clear - A B A0 A1 A2 A3. lia.
    + set (Y3 := txt ">" ++ k). set (Y2 := pr_blank b5 Y3). set (Y1 := pr_type value Y2).
      set (Z2 := pr_blank b3 (sep_byte semi :: pr_blank b4 Y1)). set (Z1 := pr_type key Z2).
      set (X0 := txt "<" ++ pr_blank b2 Z1).
      assert (A3 : length k <= length Y3) by (unfold Y3; rewrite app_length; lia).
      assert (A2 : length Y3 <= length Y2) by apply len_blank.
      assert (A1 : type_depth value + length Y2 <= length Y1) by apply type_depth_len.
      assert (C2 : length Y1 <= length Z2).
      { unfold Z2. pose proof (len_blank b3 (sep_byte semi :: pr_blank b4 Y1)) as H. cbn [length] in H.
        pose proof (len_blank b4 Y1). lia. }
      assert (C1 : type_depth key + length Z2 <= length Z1) by apply type_depth_len.
      assert (A0 : 1 + length Z1 <= length X0).
      { unfold X0. rewrite app_length. change (length (txt "<")) with 1. pose proof (len_blank b2 Z1). lia. }
      pose proof (len_blank b1 X0) as A.
      pose proof (sfx_len _ _ (sfx_ocpp _ cpp _ (sfx_refl (pr_blank b1 X0)))) as B.
      rewrite app_length. change (length (txt "map")) with 3.
      clearbody X0 Z1 Z2 Y1 Y2 Y3. clear - A B A0 A1 A2 A3 C1 C2. lia.
    + pose proof (sfx_len _ _ (sfx_path k p k (sfx_refl k))). lia.
  - destruct t as [t [[bl a]|]]; intros k; cbn [pr_type type_depth].
    + pose proof (ty_depth_len t (pr_blank bl (pr_anns a k))) as L1. pose proof (len_blank bl (pr_anns a k)) as L2.
      pose proof (sfx_len _ _ (sfx_anns k a k (sfx_refl k))) as L3. lia.
    + apply ty_depth_len.
Qed.

Fixpoint cv_depth_len (v : cconst) : forall k, cv_depth v + length k <= length (pr_const v k)
with clist_depth_len (l : clist) : forall k, clist_depth l + length k <= length (pr_clist l k)
with cmapl_depth_len (l : cmapl) : forall k, cmapl_depth l + length k <= length (pr_cmapl l k).
Proof.
  - destruct v as [l|b|p|d|i|b0 els|b0 els]; intros k; cbn [pr_const cv_depth].
    + pose proof (sfx_len _ _ (sfx_lit k l k (sfx_refl k))). lia.
    + rewrite app_length. lia.
    + pose proof (sfx_len _ _ (sfx_path k p k (sfx_refl k))). lia.
    + pose proof (sfx_len _ _ (sfx_dbl k d k (sfx_refl k))). lia.
    + pose proof (sfx_len _ _ (sfx_int k i k (sfx_refl k))). lia.
    + set (X := txt "]" ++ k). assert (A : 1 + length k <= length X) by (unfold X; rewrite app_length; cbn; lia).
      pose proof (len_blank b0 (pr_clist els X)) as L1. pose proof (clist_depth_len els X) as L2.
      rewrite app_length. change (length (txt "[")) with 1. clearbody X. clear - A L1 L2. lia.
    + set (X := txt "}" ++ k). assert (A : 1 + length k <= length X) by (unfold X; rewrite app_length; cbn; lia).
      pose proof (len_blank b0 (pr_cmapl els X)) as L1. pose proof (cmapl_depth_len els X) as L2.
      rewrite app_length. change (length (txt "{")) with 1. clearbody X. clear - A L1 L2. lia.
  - destruct l as [|v b s rest]; intros k; cbn [pr_clist clist_depth]; [lia|].
    pose proof (cv_depth_len v (pr_blank b (pr_sep s (pr_clist rest k)))) as L1.
    pose proof (len_blank b (pr_sep s (pr_clist rest k))) as L2. pose proof (len_sep s (pr_clist rest k)) as L3.
    pose proof (clist_depth_len rest k) as L4. clear - L1 L2 L3 L4. lia.
  - destruct l as [|key b1 b2 v b3 s rest]; intros k; cbn [pr_cmapl cmapl_depth]; [lia|].
    set (Y := pr_blank b3 (pr_sep s (pr_cmapl rest k))).
    pose proof (cv_depth_len key (pr_blank b1 (txt ":" ++ pr_blank b2 (pr_const v Y)))) as L1.
    pose proof (len_blank b1 (txt ":" ++ pr_blank b2 (pr_const v Y))) as L2. rewrite app_length in L2.
    change (length (txt ":")) with 1 in L2.
    pose proof (len_blank b2 (pr_const v Y)) as L3. pose proof (cv_depth_len v Y) as L4.
    pose proof (len_blank b3 (pr_sep s (pr_cmapl rest k))) as L5. pose proof (len_sep s (pr_cmapl rest k)) as L6.
    pose proof (cmapl_depth_len rest k) as L7. fold Y in L5. clearbody Y. clear - L1 L2 L3 L4 L5 L6 L7. lia.
Qed.

Lemma type_depth_sfx whole df t X : sfx (pr_type t X) whole -> length whole < df -> type_depth t < df.
Proof. intros S H. apply sfx_len in S. pose proof (type_depth_len t X). lia. Qed.
Lemma cv_depth_sfx whole df v X : sfx (pr_const v X) whole -> length whole < df -> cv_depth v < df.
Proof. intros S H. apply sfx_len in S. pose proof (cv_depth_len v X). lia. Qed.

(* first-byte goals, extended to the tails *)
Ltac hd_close2 :=
  first
    [ hd_close
    | match goal with H : _ -> wstop ?k = true |- hd_sat _ ?k = true =>
        first [apply wstop_nid | apply wstop_wordend | apply wstop_nodot | idtac]; apply H;
        first [reflexivity | assumption | (apply andb_true_intro; split; first [assumption | reflexivity])] end
    | match goal with H : _ -> stop ?k = true |- hd_sat _ ?k = true =>
        first [apply stop_nb | apply stop_nosep | apply stop_noparen | apply stop_noquote | apply stop_nodot]; apply H;
        first [reflexivity | assumption] end ].

Ltac hdt ::=
  unfold nid, nosep, noparen, noquote, nodot, nb, wordend;
  repeat first
    [ hd_close2
    | match goal with |- hd_sat _ (pr_oanns ?a _) = true => destruct a; cbn [pr_oanns pr_anns app txt] end
    | match goal with |- hd_sat _ (pr_sep ?s _) = true => destruct s as [|[|] ?]; cbn [pr_sep sep_byte] end
    | match goal with |- hd_sat _ (pr_default ?d _) = true => destruct d as [[[? ?] ?]|]; cbn [pr_default] end
    | match goal with |- hd_sat _ (pr_tail2 _ _ _) = true => apply tail2_head; [reflexivity | reflexivity | reflexivity |] end
    | match goal with |- hd_sat _ (pr_tail _ _) = true =>
        eapply tail_head; [eassumption | intros ? ?; auto with bsdb | reflexivity | reflexivity | reflexivity | intros ?] end
    | match goal with |- hd_sat _ (pr_blank ?b _) = true =>
        apply blank_then; [assumption | intros ? ?; auto with bsdb | let E := fresh in intros E; try subst] end ].
