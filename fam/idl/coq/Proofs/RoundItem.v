(* C15, stage 3 (begun): the typedef production, for simple types and no annotation list. *)
From PVIdl Require Import Comb Ast Parser Print Proofs.Total Proofs.RoundTok Proofs.RoundTy.
From Coq Require Import ZifyN ZifyNat ZifyBool.
From Coq Require String.
Import String.StringSyntax.
Open Scope nat_scope.

(* what may follow a declaration that ends with an optional separator: not a blank start, not a word character, not
   a separator, not an annotation list *)
Definition declfollow (lf : nat) (k : list byte) : Prop :=
  nb k = true /\ hd_sat (fun b => negb (identch b)) k = true /\
  hd_sat (fun b => negb (bmem b set_list_separator)) k = true /\ is_perr (p_annotations lf k).

Section Items.
Variable lf : nat.
Variable whole : list byte.
Hypothesis Hlf : length whole < lf.

Lemma sep_head (f : byte -> bool) s k : f x2c = true -> f x3b = true -> hd_sat f k = true -> hd_sat f (pr_sep s k) = true.
Proof. intros H1 H2 Hk. destruct s as [|[|] bl]; cbn [pr_sep sep_byte hd_sat]; auto. Qed.

Lemma sep_noann s k : is_perr (p_annotations lf k) -> is_perr (p_annotations lf (pr_sep s k)).
Proof. intros H. destruct s as [|[|] bl]; cbn [pr_sep sep_byte]; auto; unfold p_annotations; apply pbind_err; exact I. Qed.

Theorem rt_typedef df c k :
  wf_typedef c = true -> simple_type (ctd_type c) = true -> ctd_anns c = None -> type_depth (ctd_type c) < df ->
  declfollow lf k -> sfx (pr_typedef c k) whole ->
  p_typedef lf df (pr_typedef c k) = POk k (erase_typedef c).
Proof.
  intros Hw Hs Ha Hd [Hk1 [Hk2 [Hk3 Hk4]]] S.
  destruct c as [b1 t b2 alias b3 anns sep]. cbn [ctd_anns ctd_type] in *. subst anns.
  unfold wf_typedef, pr_typedef, erase_typedef in *. cbn [ctd_b1 ctd_type ctd_b2 ctd_alias ctd_b3 ctd_anns ctd_sep pr_oanns] in *.
  apply andb_prop in Hw; destruct Hw as [Hw W10]. apply andb_prop in Hw; destruct Hw as [Hw W9].
  apply andb_prop in Hw; destruct Hw as [Hw W8]. apply andb_prop in Hw; destruct Hw as [Hw W7].
  apply andb_prop in Hw; destruct Hw as [Hw W6]. apply andb_prop in Hw; destruct Hw as [Hw W5].
  apply andb_prop in Hw; destruct Hw as [Hw W4]. apply andb_prop in Hw; destruct Hw as [Hw W3].
  apply andb_prop in Hw; destruct Hw as [W1 W2].
  apply negb_true_iff in W2, W5, W7.
  assert (N1 : b1 <> []) by (destruct b1; discriminate).
  assert (N2 : b2 <> []) by (destruct b2; discriminate).
  unfold p_typedef. change kw_typedef with (txt "typedef"). rewrite tag_ok. cbn [pbind].
  rewrite (rt_blank lf b1 _ W1 N1 (type_head_nb t _ W3 Hs)) by (eapply sfx_lt; [exact Hlf|sfx_of S]). cbn [pbind].
  (* the type *)
  assert (Hrest : hd_sat (fun b => negb (identch b)) (pr_blank b3 (pr_sep sep k)) = true).
  { apply blank_then; [exact W8| |].
    - intros b Hb. now rewrite (blank_start_not_identch b Hb).
    - intros _. apply sep_head; auto. }
  assert (F : tyfollow lf (type_ends_word t) (pr_blank b2 (alias ++ pr_blank b3 (pr_sep sep k)))).
  { exists b2, (alias ++ pr_blank b3 (pr_sep sep k)). split; [reflexivity|]. split; [exact W4|].
    split; [now apply ident_nb|].
    destruct alias as [|h tl] eqn:Ea; [discriminate|]. rewrite <- Ea in *.
    split.
    { apply (container_word_err kw_cpp_type (fun i => do i, _ <- p_blank lf i ;; p_literal lf i) alias _ eq_refl W6 Hrest W7).
      intros c0 r Hc. apply pbind_err. now apply identch_not_blank. }
    assert (Hh : (is_alpha h || is_underscore h) = true).
    { rewrite Ea in W6. cbn [is_ident] in W6. apply andb_prop in W6. tauto. }
    rewrite Ea. cbn [app].
    split; [|split].
    - apply tag_hd_ne. destruct (Byte.eqb h x2e) eqn:E; [|reflexivity]. apply byte_dec_bl in E. subst h. discriminate.
    - unfold p_annotations. apply pbind_err. apply tag_hd_ne.
      destruct (Byte.eqb h x28) eqn:E; [|reflexivity]. apply byte_dec_bl in E. subst h. discriminate.
    - intros ->. contradiction. }
  rewrite (rt_type lf whole Hlf df t _ Hd W3 Hs F) by (sfx_of S). cbn [pbind].
  rewrite (rt_blank lf b2 _ W4 N2 (ident_nb alias _ W6)) by (eapply sfx_lt; [exact Hlf|sfx_of S]). cbn [pbind].
  rewrite (rt_ident alias _ W6 Hrest). cbn [pbind].
  assert (Nsep : nb (pr_sep sep k) = true) by (apply sep_head; auto).
  destruct (oblank lf whole Hlf b3 _ W8 Nsep ltac:(sfx_of S)) as [o ->]. cbn [pbind].
  rewrite (opt_err (p_annotations lf)) by (now apply sep_noann). cbn [pbind].
  destruct (rt_sep lf sep k W10 Hk1 Hk3 ltac:(eapply sfx_lt; [exact Hlf|sfx_of S])) as [o2 ->]. reflexivity.
Qed.

End Items.

(* non-vacuity: "typedef/**/map<string,listing> required_t ;" followed by a newline and the next declaration *)
Example rt_typedef_example :
  let c := mkCTypedef [BBlock []] (CType (CTMap None [] [] (CType (CTBase BString) None) [] false []
                                     (CType (CTPath (mkCPath (txt "listing") [])) None) []) None)
                      [BWs (txt " ")] (txt "required_t") [BWs (txt " ")] None (SepSome true []) in
  let k := x0a :: txt "typedef i8 T" in
  wf_typedef c = true /\ p_typedef 100 5 (pr_typedef c []) = POk [] (erase_typedef c) /\
  pr_typedef c [] = txt "typedef/**/map<string,listing> required_t ;".
Proof. vm_compute. repeat split. Qed.
