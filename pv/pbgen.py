"""pb family, generated-message level: corpus schema, an INDEPENDENT reference protobuf codec
(written from the protobuf encoding guide, protobuf.dev/programming-guides/encoding, not from
pilota's sources), value generator, parser for Rust `{:?}` output of the generated types, glue for
the extracted Coq model runner, and the oracle entry points used by pv/props/c05,c06,c10,c18.

Pure Python 3, importable without building anything.

Canonical value shape (the same for ref_decode, debug_to_canon, parse_model_value):
  message            list, one entry per *slot* of the generated Rust struct, in struct order
  slot 's' (bare T)  value
  slot 'o' (Option)  None | value
  slot 'r' (Vec)     list of values
  slot 'm' (map)     list of (key, value) sorted by key
  slot 'u' (oneof)   None | (member_index, value)
  slot 'w'           value              (well-known wrapper pseudo messages: the single bare value)
  integer scalars    int (the numeric value of the declared type), bool = 0/1, enum = int (i32)
  float / double     ("f", 32|64, bits)   -- the IEEE bit pattern
  string / bytes     bytes
"""
import json, os, random, re, struct, sys
from fractions import Fraction

ROOT = os.path.dirname(os.path.dirname(os.path.abspath(__file__)))
PROTO_DIR = os.path.join(ROOT, "fam", "pb", "proto")
HARNESS_DIR = os.path.join(ROOT, "fam", "pb", "harness")
CACHE = os.path.join(ROOT, ".cache")

SCALARS = ["double", "float", "int32", "int64", "uint32", "uint64", "sint32", "sint64",
           "fixed32", "fixed64", "sfixed32", "sfixed64", "bool", "string", "bytes"]
NUMERIC = [t for t in SCALARS if t not in ("string", "bytes")]
MAP_KEY_TYPES = ["int32", "int64", "uint32", "uint64", "sint32", "sint64", "fixed32", "fixed64",
                 "sfixed32", "sfixed64", "bool", "string"]
# the Message impls of pilota/src/prost/types.rs, addressed after the corpus messages
WRAPPERS = [("bool", "bool"), ("u32", "uint32"), ("u64", "uint64"), ("i32", "int32"), ("i64", "int64"),
            ("f32", "float"), ("f64", "double"), ("String", "string"), ("Vec<u8>", "bytes"),
            ("Bytes", "bytes"), ("()", None)]

# ======================================================================================
# 1. a small .proto reader (the subset used by the corpus) -> <name>.schema.json
# ======================================================================================

_TOK = re.compile(r'\s+|//[^\n]*|("(?:[^"\\]|\\.)*")|([A-Za-z_][A-Za-z0-9_.]*)|(-?\d+)|([{}=;<>,\[\]()])')


def _tokens(text):
    out, pos = [], 0
    while pos < len(text):
        m = _TOK.match(text, pos)
        if not m:
            raise ValueError("proto: cannot tokenise at %r" % text[pos:pos + 30])
        pos = m.end()
        tok = m.group(1) or m.group(2) or m.group(3) or m.group(4)
        if tok is not None:
            out.append(tok)
    return out


def snake(name):
    s = re.sub(r"(?<=[a-z0-9])([A-Z])", r"_\1", name)
    return s.lower()


class _P:
    def __init__(self, toks):
        self.t, self.i = toks, 0
    def peek(self):
        return self.t[self.i] if self.i < len(self.t) else None
    def next(self):
        x = self.t[self.i]; self.i += 1; return x
    def expect(self, x):
        y = self.next()
        if y != x:
            raise ValueError("proto: expected %r, got %r (token %d)" % (x, y, self.i))


def parse_proto(text, fname):
    """returns the schema dict of one .proto file (see the checked-in *.schema.json)"""
    p = _P(_tokens(text))
    p.expect("syntax"); p.expect("=")
    syntax = p.next().strip('"'); p.expect(";")
    package = ""
    messages, enums = [], []

    def parse_enum(scope):
        name = p.next(); p.expect("{")
        vals = []
        while p.peek() != "}":
            n = p.next(); p.expect("="); v = int(p.next()); p.expect(";")
            vals.append([n, v])
        p.expect("}")
        if p.peek() == ";":
            p.next()
        enums.append(dict(name=name, full_name=".".join(scope + [name]), scope=list(scope), values=vals))

    def parse_field(label, oneof):
        ty = p.next()
        f = dict(name=None, number=None, type=None, label=label, packed=None, oneof=oneof, type_name=None, map=None)
        if ty == "map":
            p.expect("<"); k = p.next(); p.expect(","); v = p.next(); p.expect(">")
            f["type"] = "map"
            f["map"] = dict(key=k, value=v if v in SCALARS else None, value_type_name=None if v in SCALARS else v)
            f["label"] = "map"
        elif ty in SCALARS:
            f["type"] = ty
        else:
            f["type"] = "ref"; f["type_name"] = ty
        f["name"] = p.next(); p.expect("="); f["number"] = int(p.next())
        if p.peek() == "[":
            p.next(); opt = p.next(); p.expect("="); val = p.next(); p.expect("]")
            if opt != "packed":
                raise ValueError("proto: unsupported option " + opt)
            f["packed"] = (val == "true")
        p.expect(";")
        return f

    def parse_message(scope):
        name = p.next(); p.expect("{")
        m = dict(name=name, full_name=".".join(scope + [name]), scope=list(scope), fields=[], oneofs=[])
        messages.append(m)
        while p.peek() != "}":
            t = p.next()
            if t == "message":
                parse_message(scope + [name])
            elif t == "enum":
                parse_enum(scope + [name])
            elif t == "oneof":
                on = p.next(); p.expect("{")
                mem = []
                while p.peek() != "}":
                    f = parse_field("singular", on)
                    m["fields"].append(f); mem.append(f["name"])
                p.expect("}")
                m["oneofs"].append(dict(name=on, members=mem))
            elif t in ("optional", "required", "repeated"):
                m["fields"].append(parse_field(t, None))
            else:
                p.i -= 1
                m["fields"].append(parse_field("singular", None))
        p.expect("}")

    while p.peek() is not None:
        t = p.next()
        if t == "package":
            package = p.next(); p.expect(";")
        elif t == "message":
            parse_message([])
        elif t == "enum":
            parse_enum([])
        else:
            raise ValueError("proto: unexpected top-level token %r" % t)

    stem = os.path.splitext(os.path.basename(fname))[0]
    pkg = package.split(".") if package else []
    msg_names = {m["full_name"] for m in messages}
    enum_names = {e["full_name"] for e in enums}

    def resolve(ref, scope_full):
        parts = scope_full.split(".")
        for k in range(len(parts), -1, -1):
            cand = ".".join(parts[:k] + [ref])
            if cand in msg_names:
                return "message", cand
            if cand in enum_names:
                return "enum", cand
        raise ValueError("proto: unresolved type %s in %s" % (ref, scope_full))

    def rust_path(scope, name):
        return "::".join([stem] + pkg + [snake(s) for s in scope] + [name])

    for e in enums:
        e["rust_path"] = rust_path(e["scope"], e["name"])
        e["proto_name"] = ".".join(pkg + [e["full_name"]])
    for m in messages:
        m["rust_path"] = rust_path(m["scope"], m["name"])
        m["proto_name"] = ".".join(pkg + [m["full_name"]])
        for f in m["fields"]:
            if f["type"] == "ref":
                kind, full = resolve(f["type_name"], m["full_name"])
                f["type"] = kind; f["type_name"] = full
            elif f["type"] == "map" and f["map"]["value_type_name"]:
                kind, full = resolve(f["map"]["value_type_name"], m["full_name"])
                f["map"]["value"] = kind; f["map"]["value_type_name"] = full
            if syntax == "proto2" and f["label"] == "singular" and f["oneof"] is None:
                raise ValueError("proto2 field without label: " + f["name"])
    for x in messages + enums:
        del x["scope"]
    return dict(file=os.path.basename(fname), syntax=syntax, package=package, rust_mod=stem,
                enums=enums, messages=messages)


def _dump_schema(s):
    """stable, diff-friendly JSON: one field per line"""
    def j(x):
        return json.dumps(x, sort_keys=False)
    out = ["{", ' "file": %s, "syntax": %s, "package": %s, "rust_mod": %s,' %
           (j(s["file"]), j(s["syntax"]), j(s["package"]), j(s["rust_mod"])), ' "enums": [']
    out.append(",\n".join("  " + j(e) for e in s["enums"]))
    out.append(" ],")
    out.append(' "messages": [')
    ms = []
    for m in s["messages"]:
        head = '  {"name": %s, "full_name": %s, "proto_name": %s, "rust_path": %s,\n   "oneofs": %s,\n   "fields": [\n' % (
            j(m["name"]), j(m["full_name"]), j(m["proto_name"]), j(m["rust_path"]), j(m["oneofs"]))
        ms.append(head + ",\n".join("    " + j(f) for f in m["fields"]) + "\n   ]}")
    out.append(",\n".join(ms))
    out.append(" ]")
    out.append("}")
    return "\n".join(out) + "\n"


def proto_files(proto_dir=None):
    d = proto_dir or PROTO_DIR
    return sorted(os.path.join(d, f) for f in os.listdir(d) if f.endswith(".proto"))


def write_schemas(proto_dir=None):
    """(re)generates <name>.schema.json next to every corpus .proto; the JSONs are checked in"""
    done = []
    for pf in proto_files(proto_dir):
        s = parse_proto(open(pf).read(), pf)
        out = pf[:-len(".proto")] + ".schema.json"
        open(out, "w").write(_dump_schema(s))
        done.append(out)
    return done


def schemas_stale(proto_dir=None):
    """names of schema JSONs that do not correspond to their .proto any more"""
    bad = []
    for pf in proto_files(proto_dir):
        out = pf[:-len(".proto")] + ".schema.json"
        want = _dump_schema(parse_proto(open(pf).read(), pf))
        if not os.path.exists(out) or open(out).read() != want:
            bad.append(out)
    return bad


# ======================================================================================
# 2. descriptors
# ======================================================================================

class Slot:
    """one field of the generated Rust struct.
    kind 's' bare T | 'o' Option<T> | 'r' Vec<T> | 'm' map | 'u' oneof | 'w' wrapper value
    ty / kty: declared scalar type name, 'enum' or 'message'; ref: MsgDesc of a message type"""
    def __init__(self, kind, name):
        self.kind, self.name = kind, name
        self.number = None
        self.ty = None
        self.ref = None            # MsgDesc for ty == 'message'
        self.enum = None           # enum schema dict for ty == 'enum'
        self.kty = None            # map key type
        self.members = []          # oneof: list of Slot(kind 's') with number/ty/ref
        self.packed_decl = False   # what a conforming encoder puts on the wire for this repeated field
        self.packed_opt = None     # the explicit [packed=..] option, if any
        self.implicit = False      # proto3 implicit presence: a conforming encoder omits the default
        self.label = None

    def numbers(self):
        return [m.number for m in self.members] if self.kind == "u" else [self.number]


class MsgDesc:
    def __init__(self, idx, name):
        self.idx, self.name = idx, name       # name: the fully qualified proto name
        self.file = None
        self.syntax = "proto3"
        self.rust_path = None
        self.slots = []
        self.wrapper = None                   # Rust type name for the well-known wrapper impls
        self.by_number = {}                   # field number -> (slot_index, member_index or None)

    def finish(self):
        self.by_number = {}
        for si, s in enumerate(self.slots):
            if s.kind == "u":
                for mi, m in enumerate(s.members):
                    self.by_number[m.number] = (si, mi)
            elif s.number is not None:
                self.by_number[s.number] = (si, None)

    def __repr__(self):
        return "<Msg %d %s>" % (self.idx, self.name)


def _packable(ty):
    return ty in NUMERIC or ty == "enum"


def load_corpus(proto_dir=None, wrappers=True):
    """list of MsgDesc in the global index order of the driver: files sorted by name, messages of a
    file in declaration order (pre-order for nested declarations), then the wrapper pseudo types"""
    d = proto_dir or PROTO_DIR
    schemas = []
    for f in sorted(os.listdir(d)):
        if f.endswith(".schema.json"):
            schemas.append(json.load(open(os.path.join(d, f))))
    corpus, by_name, enums = [], {}, {}
    for s in schemas:
        for e in s["enums"]:
            enums[(s["file"], e["full_name"])] = e
        for m in s["messages"]:
            md = MsgDesc(len(corpus), m["proto_name"])
            md.file, md.syntax, md.rust_path = s["file"], s["syntax"], m["rust_path"]
            md._schema = m
            corpus.append(md)
            by_name[(s["file"], m["full_name"])] = md
    for md in corpus:
        m = md._schema
        seen_oneof = {}
        for f in m["fields"]:
            def fill(sl, ty, tname):
                sl.ty = ty
                if ty == "message":
                    sl.ref = by_name[(md.file, tname)]
                elif ty == "enum":
                    sl.enum = enums[(md.file, tname)]
            if f["oneof"] is not None:
                if f["oneof"] not in seen_oneof:
                    u = Slot("u", f["oneof"])
                    seen_oneof[f["oneof"]] = u
                    md.slots.append(u)            # a oneof sits at the position of its first member
                mem = Slot("s", f["name"]); mem.number = f["number"]
                fill(mem, f["type"], f["type_name"])
                seen_oneof[f["oneof"]].members.append(mem)
                continue
            if f["type"] == "map":
                sl = Slot("m", f["name"]); sl.number = f["number"]
                sl.kty = f["map"]["key"]
                fill(sl, f["map"]["value"], f["map"]["value_type_name"])
            else:
                lab = f["label"]
                if lab == "repeated":
                    kind = "r"
                elif md.syntax == "proto3":
                    kind = "o" if (lab == "optional" or f["type"] == "message") else "s"
                else:
                    kind = "o" if lab == "optional" else "s"
                sl = Slot(kind, f["name"]); sl.number = f["number"]
                fill(sl, f["type"], f["type_name"])
                if kind == "r":
                    sl.packed_opt = f["packed"]
                    if _packable(sl.ty):
                        sl.packed_decl = f["packed"] if f["packed"] is not None else (md.syntax == "proto3")
                sl.implicit = (kind == "s" and md.syntax == "proto3")
            sl.label = f["label"]
            md.slots.append(sl)
        md.finish()
    if wrappers:
        for rust, ty in WRAPPERS:
            md = MsgDesc(len(corpus), "wrapper." + rust)
            md.file, md.wrapper, md.rust_path = "-", rust, rust
            if ty is not None:
                sl = Slot("w", "value"); sl.number = 1; sl.ty = ty; sl.implicit = True
                md.slots.append(sl)
            md.finish()
            corpus.append(md)
    return corpus


def msg_by_name(corpus, name):
    for m in corpus:
        if m.name == name or m.name.endswith("." + name):
            return m
    raise KeyError(name)


def reachable(msg):
    seen, todo = {}, [msg]
    while todo:
        m = todo.pop()
        if m.idx in seen:
            continue
        seen[m.idx] = m
        for s in m.slots:
            for x in ([s] + s.members):
                if x.ref is not None:
                    todo.append(x.ref)
    return list(seen.values())
