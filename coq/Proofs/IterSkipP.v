(* C07 / C11: the ITERATIVE skipper of the unchecked binary codec (binary_unsafe.rs skip_till_depth:
   explicit SmallVec<SkipData> stack, `len & 1` key/value alternation, `continue` fast path for
   fixed-size struct fields, fixed-size fast paths for list / set / map driven by the REGENERATED
   BINARY_BASIC_TYPE_FIXED_SIZE table) simulates the recursive skipper of the checked binary protocol
   with an UNBOUNDED depth budget: on every input on which [skip_val PBinary f d] succeeds -- for any
   budget [d], hence for every nesting depth -- the stack machine consumes exactly the same bytes and
   reports exactly the same count, never touching a byte outside its window.
   Invariant: the stack is the list of pending continuation frames; [reach t0 t] = "the loop started
   in turn [t0] arrives in turn [t] after finitely many turns". *)
From PV Require Import Thrift.Unsafe Proofs.VarintP Proofs.TablesP Proofs.PrimP Proofs.HeaderP Proofs.RoundtripP
  Proofs.TotalP Proofs.AsyncP Proofs.SkipP Proofs.UnsafeP.
From Coq Require Import ZifyN ZifyNat ZifyBool.
Open Scope Z_scope.

(* ------------------------------------------------------------------ *)
(* the fixed-size table (regenerated from BINARY_BASIC_TYPE_FIXED_SIZE) *)

(* the entries, by computation on the regenerated table: a wrong entry breaks this lemma *)
Lemma fixed_table :
  fixed_size TBool = 1 /\ fixed_size TI8 = 1 /\ fixed_size TI16 = 2 /\ fixed_size TI32 = 4 /\
  fixed_size TI64 = 8 /\ fixed_size TDouble = 8 /\ fixed_size TUuid = 16 /\
  fixed_size TBinary = 0 /\ fixed_size TStruct = 0 /\ fixed_size TMap = 0 /\ fixed_size TSet = 0 /\
  fixed_size TList = 0 /\ fixed_size TStop = 0 /\ fixed_size TVoid = 0.
Proof. repeat split; reflexivity. Qed.

(* every well-typed value of a wire type with a positive entry encodes to exactly that many bytes
   under the binary protocol (whatever the buffer kind and the writer context) *)
Lemma fixed_table_encoded t n : fixed_size t = n -> 0 < n ->
  forall v, ttype_of v = t -> wt v = true ->
  forall k c ss c', write_val PBinary k v c = Ok (ss, c') -> Z.of_nat (length (flat ss)) = n.
Proof.
  intros Hn Hpos v Ht Hwt k c ss c' Hw. subst t n.
  destruct v; cbn [ttype_of] in *; try (vm_compute in Hpos; discriminate); cbn [write_val] in Hw.
  - (* bool *) cbn [w_bool] in Hw. unfold w_i8, wret in Hw. injection Hw as <- _. reflexivity.
  - unfold w_i8, wret in Hw. injection Hw as <- _. reflexivity.
  - cbn [w_i16] in Hw. unfold wret in Hw. injection Hw as <- _. rewrite flat_copy, be_bytes_length. reflexivity.
  - cbn [w_i32] in Hw. unfold wret in Hw. injection Hw as <- _. rewrite flat_copy, be_bytes_length. reflexivity.
  - cbn [w_i64] in Hw. unfold wret in Hw. injection Hw as <- _. rewrite flat_copy, be_bytes_length. reflexivity.
  - cbn [w_double] in Hw. unfold wret in Hw. injection Hw as <- _. rewrite flat_copy, be_bytes_length. reflexivity.
  - unfold w_uuid, wret in Hw. injection Hw as <- _. rewrite flat_copy. cbn [wt] in Hwt.
    apply Nat.eqb_eq in Hwt. rewrite Hwt. reflexivity.
Qed.

(* ... and every value of such a type that the binary reader accepts occupies exactly that many bytes *)
Lemma skip_val_bin_S f d ty s : skip_val PBinary (S f) (S d) ty s =
  match ty with
  | TBool | TI8 => adv 1 s
  | TI16 => adv 2 s
  | TI32 => adv 4 s
  | TI64 | TDouble => adv 8 s
  | TUuid => adv 16 s
  | TBinary =>
      let* (n, s1) := r_i32 PBinary s in
      let n := wrap_u 64 n in
      if n <=? Z.of_nat (blen s1)
      then let* (_, s2) := r_take (Z.to_nat n) s1 in Ok (4 + n, s2)
      else Err EInvalidData
  | TStruct =>
      let* (_, s1) := r_struct_begin PBinary s in
      let* (n, s2) := skip_fields PBinary (skip_val PBinary f d) (S f) s1 0 in
      let* (_, s3) := r_struct_end PBinary s2 in
      Ok (n, s3)
  | TList | TSet =>
      let* (h, s1) := r_coll_begin PBinary s in
      skip_elems (skip_val PBinary f d) (S f) (fst h) (snd h) s1 5
  | TMap =>
      let* (h, s1) := r_map_begin PBinary s in
      skip_pairs (skip_val PBinary f d) (S f) (fst (fst h)) (snd (fst h)) (snd h) s1 6
  | TStop | TVoid => Err EDepthLimit
  end.
Proof. destruct ty; reflexivity. Qed.

Lemma skip_fixed f d ty s c s' : skip_val PBinary f d ty s = Ok (c, s') -> 0 < fixed_size ty ->
  c = fixed_size ty /\ exists a, r_take (Z.to_nat (fixed_size ty)) s = Ok (a, s').
Proof.
  intros H Hf. destruct f as [|f]; [discriminate|]. destruct d as [|d]; [discriminate|].
  rewrite skip_val_bin_S in H.
  destruct ty; try (vm_compute in Hf; discriminate); unfold adv in H;
    match type of H with context [r_take ?n s] => destruct (r_take n s) as [[a s1]| |] eqn:E end;
    cbn [bind] in H; try discriminate; injection H as <- <-; (split; [reflexivity|exists a; exact E]).
Qed.

(* ------------------------------------------------------------------ *)
(* the stack machine *)

Definition sel (f : frame) : ttype := if Z.land (fr_len f) 1 =? 0 then fr_t0 f else fr_t1 f.
(* the struct arm pops the frame of the struct it is reading when it meets Stop: that frame must be
   there and must have selected Struct *)
Definition top_struct (st : list frame) : Prop :=
  match st with top :: _ => sel top = TStruct | [] => False end.
Definition post (ty : ttype) (st : list frame) : list frame :=
  if ttype_eqb ty TStruct then stack_pop st else st.

Definition resume (fuel : nat) (t : turn) : res (Z * ust) :=
  match t with Done n s => Ok (n, s) | Next ty len st s => iter_loop fuel ty len st s end.
Definition reach (t0 t : turn) : Prop := exists k, forall fuel, resume (k + fuel) t0 = resume fuel t.

Lemma reach_refl t : reach t t.
Proof. exists O. reflexivity. Qed.
Lemma reach_trans a b c : reach a b -> reach b c -> reach a c.
Proof.
  intros [k1 H1] [k2 H2]. exists (k1 + k2)%nat. intros fuel. rewrite <- Nat.add_assoc, H1, H2. reflexivity.
Qed.
Lemma reach_step ty len st u t : iter_turn ty len st u = Ok t -> reach (Next ty len st u) t.
Proof.
  intros H. exists 1%nat. intros fuel. cbn [resume Nat.add iter_loop]. rewrite H. cbn [bind]. destruct t; reflexivity.
Qed.

Lemma after_match_cons len f st u :
  after_match len (f :: st) u =
    if ttype_eqb (sel f) TStruct then Next (sel f) len (f :: st) u else Next (sel f) len (stack_pop (f :: st)) u.
Proof. reflexivity. Qed.

Lemma after_match_struct len st u : top_struct st -> after_match len st u = Next TStruct len st u.
Proof. destruct st as [|f t]; [intros []|]. cbn [top_struct]. intros H. rewrite after_match_cons, H. reflexivity. Qed.

Lemma sel_same t n : sel (mkF t t n) = t.
Proof. unfold sel. cbn [fr_len fr_t0 fr_t1]. destruct (_ =? 0); reflexivity. Qed.

Lemma land1 z : Z.land z 1 = z mod 2.
Proof. change 1 with (Z.ones 1) at 1. rewrite Z.land_ones by lia. reflexivity. Qed.
Lemma sel_even kt vt n : sel (mkF kt vt (2 * n)) = kt.
Proof. unfold sel. cbn [fr_len fr_t0 fr_t1]. rewrite land1. replace (2 * n mod 2 =? 0) with true by lia. reflexivity. Qed.
Lemma sel_odd kt vt n : sel (mkF kt vt (2 * n - 1)) = vt.
Proof. unfold sel. cbn [fr_len fr_t0 fr_t1]. rewrite land1. replace ((2 * n - 1) mod 2 =? 0) with false by lia. reflexivity. Qed.

Lemma post_struct st : post TStruct st = stack_pop st.
Proof. reflexivity. Qed.
Lemma post_other ty st : ty <> TStruct -> post ty st = st.
Proof. unfold post. destruct (ttype_eqb_spec ty TStruct); congruence. Qed.

(* ------------------------------------------------------------------ *)
(* the unchecked primitives keep the window *)
Lemma get_keeps n u a u' : u_get n u = Ok (a, u') -> ubuf u' = ubuf u.
Proof. unfold u_get. destruct (Nat.leb _ _); [|discriminate]. intros H. injection H as _ <-. reflexivity. Qed.
Lemma byte_keeps u b u' : u_byte u = Ok (b, u') -> ubuf u' = ubuf u.
Proof. unfold u_byte. intros H. binv H. injection H as _ <-. eapply get_keeps; eauto. Qed.
Lemma ufixed_keeps n bits u z u' : u_fixed n bits u = Ok (z, u') -> ubuf u' = ubuf u.
Proof. unfold u_fixed. intros H. binv H. injection H as _ <-. eapply get_keeps; eauto. Qed.
Lemma uttype_keeps u t u' : u_ttype u = Ok (t, u') -> ubuf u' = ubuf u.
Proof. unfold u_ttype. intros H. binv H. destruct (ttype_of_byte x); [|discriminate]. injection H as _ <-. eapply byte_keeps; eauto. Qed.
Lemma ufield_keeps u h u' : u_field_begin u = Ok (h, u') -> ubuf u' = ubuf u.
Proof.
  unfold u_field_begin. intros H. binv H. pose proof (uttype_keeps _ _ _ E) as K.
  destruct x; try (injection H as _ <-; exact K);
    (binv H; injection H as _ <-; unfold u_i16 in E0; rewrite (ufixed_keeps _ _ _ _ _ E0); exact K).
Qed.
Lemma ucoll_keeps u h u' : u_coll_begin u = Ok (h, u') -> ubuf u' = ubuf u.
Proof.
  unfold u_coll_begin. intros H. binv H. binv H. injection H as _ <-.
  unfold u_i32 in E0. rewrite (ufixed_keeps _ _ _ _ _ E0). eapply uttype_keeps; eauto.
Qed.
Lemma umap_keeps u h u' : u_map_begin u = Ok (h, u') -> ubuf u' = ubuf u.
Proof.
  unfold u_map_begin. intros H. binv H. binv H. binv H. injection H as _ <-.
  unfold u_i32 in E1. rewrite (ufixed_keeps _ _ _ _ _ E1), (uttype_keeps _ _ _ E0). eapply uttype_keeps; eauto.
Qed.

(* advancing the index over bytes the checked reader took *)
Lemma take_bump n s a s' u : r_take n s = Ok (a, s') -> RU s u -> RU s' (mkU (ubuf u) (uidx u + n)).
Proof.
  intros E R. pose proof (get_usim n s u R) as S. rewrite E in S. destruct S as (u' & Eu & R').
  unfold u_get in Eu. destruct (Nat.leb _ _); [|discriminate]. injection Eu as _ <-. exact R'.
Qed.

(* sizes accepted by the checked binary headers *)
Lemma coll_size_range s h s' : r_coll_begin PBinary s = Ok (h, s') -> 0 <= snd h < 2 ^ 31.
Proof.
  cbn [r_coll_begin]. intros H. binv H. binv H. pose proof (i32_range' _ _ _ E0) as [_ R].
  destruct (check_size x0 s1) as [m| |] eqn:Ec; cbn [bind] in H; try discriminate. injection H as <- _.
  apply check_size_inv' in Ec as [-> Hn]. cbn [snd]. change (2 ^ (32 - 1)) with (2 ^ 31) in R. lia.
Qed.
Lemma map_size_range s h s' : r_map_begin PBinary s = Ok (h, s') -> 0 <= snd h < 2 ^ 31.
Proof.
  cbn [r_map_begin]. intros H. binv H. binv H. binv H. pose proof (i32_range' _ _ _ E1) as [_ R].
  destruct (check_size x1 s2) as [m| |] eqn:Ec; cbn [bind] in H; try discriminate. injection H as <- _.
  apply check_size_inv' in Ec as [-> Hn]. cbn [snd]. change (2 ^ (32 - 1)) with (2 ^ 31) in R. lia.
Qed.

Lemma wrap_u32_lt n : 0 <= n < 2 ^ 32 -> wrap_u 32 n = n.
Proof. intros. unfold wrap_u. apply Z.mod_small. lia. Qed.

(* a fixed-size leaf: one turn *)
Lemma iter_fixed ty len st u : 0 < fixed_size ty ->
  iter_turn ty len st u = Ok (after_match (len + fixed_size ty) st (mkU (ubuf u) (uidx u + Z.to_nat (fixed_size ty)))).
Proof. destruct ty; intros H; try (vm_compute in H; discriminate); reflexivity. Qed.

(* ------------------------------------------------------------------ *)
(* the simulation invariant for one value of type [ty] skipped by the recursive skipper [rec] *)
Definition ITER (rec : ttype -> rst -> res (Z * rst)) : Prop :=
  forall ty s c s', rec ty s = Ok (c, s') ->
    forall u len st, RU s u -> (ty = TStruct -> top_struct st) ->
      exists u', RU s' u' /\ ubuf u' = ubuf u /\
                 reach (Next ty len st u) (after_match (len + c) (post ty st) u').
Definition FIX (rec : ttype -> rst -> res (Z * rst)) : Prop :=
  forall ty s c s', rec ty s = Ok (c, s') -> 0 < fixed_size ty ->
    c = fixed_size ty /\ exists a, r_take (Z.to_nat (fixed_size ty)) s = Ok (a, s').

Section IterLoops.
  Variable rec : ttype -> rst -> res (Z * rst).
  Hypothesis Hrec : ITER rec.
  Hypothesis Hfix : FIX rec.

  (* one value below a frame that selects its type: the frame is popped (by after_match for
     non-structs, by the Stop of the struct otherwise) *)
  Lemma under_frame fr st ty s c s' u len : sel fr = ty -> rec ty s = Ok (c, s') -> RU s u ->
    exists u', RU s' u' /\ ubuf u' = ubuf u /\
      reach (after_match len (fr :: st) u) (after_match (len + c) (stack_pop (fr :: st)) u').
  Proof.
    intros Hs E R. rewrite after_match_cons, Hs.
    destruct (ttype_eqb_spec ty TStruct) as [->|Hne].
    - destruct (Hrec _ _ _ _ E u len (fr :: st) R (fun _ => Hs)) as (u' & R' & K & Hr).
      exists u'. rewrite post_struct in Hr. auto.
    - destruct (Hrec _ _ _ _ E u len (stack_pop (fr :: st)) R (fun H => False_ind _ (Hne H))) as (u' & R' & K & Hr).
      exists u'. rewrite (post_other _ _ Hne) in Hr. auto.
  Qed.

  Lemma elems_iter : forall m et n s acc c s', skip_elems rec m et n s acc = Ok (c, s') -> 0 < n ->
    forall u len st, RU s u ->
      exists u', RU s' u' /\ ubuf u' = ubuf u /\
        reach (after_match len (mkF et et n :: st) u) (after_match (len + (c - acc)) st u').
  Proof.
    induction m as [|m IH]; intros et n s acc c s' H Hn u len st R; cbn [skip_elems] in H;
      replace (n <=? 0) with false in H by lia; [discriminate|].
    binv H.
    destruct (under_frame (mkF et et n) st et s x s0 u len (sel_same et n) E R) as (u1 & R1 & K1 & Hr1).
    cbn [stack_pop fr_len fr_t0 fr_t1] in Hr1.
    destruct (Z.eqb_spec (n - 1) 0) as [E1|E1].
    - assert (c = acc + x /\ s' = s0) as [-> ->].
      { rewrite E1 in H. destruct m; cbn [skip_elems Z.leb Z.compare] in H; injection H as <- <-; auto. }
      exists u1. split; [exact R1|]. split; [exact K1|]. replace (acc + x - acc) with x by lia. exact Hr1.
    - destruct (IH et (n - 1) s0 (acc + x) c s' H ltac:(lia) u1 (len + x) st R1) as (u' & R' & K' & Hr').
      exists u'. split; [exact R'|]. split; [congruence|].
      eapply reach_trans; [exact Hr1|]. replace (len + (c - acc)) with (len + x + (c - (acc + x))) by lia. exact Hr'.
  Qed.

  Lemma pairs_iter : forall m kt vt n s acc c s', skip_pairs rec m kt vt n s acc = Ok (c, s') -> 0 < n ->
    forall u len st, RU s u ->
      exists u', RU s' u' /\ ubuf u' = ubuf u /\
        reach (after_match len (mkF kt vt (2 * n) :: st) u) (after_match (len + (c - acc)) st u').
  Proof.
    induction m as [|m IH]; intros kt vt n s acc c s' H Hn u len st R; cbn [skip_pairs] in H;
      replace (n <=? 0) with false in H by lia; [discriminate|].
    binv H. binv H.
    destruct (under_frame (mkF kt vt (2 * n)) st kt s x s0 u len (sel_even kt vt n) E R) as (u1 & R1 & K1 & Hr1).
    cbn [stack_pop fr_len fr_t0 fr_t1] in Hr1. replace (2 * n - 1 =? 0) with false in Hr1 by lia.
    destruct (under_frame (mkF kt vt (2 * n - 1)) st vt s0 x0 s1 u1 (len + x) (sel_odd kt vt n) E0 R1) as (u2 & R2 & K2 & Hr2).
    cbn [stack_pop fr_len fr_t0 fr_t1] in Hr2.
    pose proof (reach_trans _ _ _ Hr1 Hr2) as Hr12.
    destruct (Z.eqb_spec (2 * n - 1 - 1) 0) as [E1|E1].
    - assert (Hn1 : n - 1 = 0) by lia.
      assert (c = acc + x + x0 /\ s' = s1) as [-> ->].
      { rewrite Hn1 in H. destruct m; cbn [skip_pairs Z.leb Z.compare] in H; injection H as <- <-; auto. }
      exists u2. split; [exact R2|]. split; [congruence|]. replace (len + (acc + x + x0 - acc)) with (len + x + x0) by lia. exact Hr12.
    - replace (2 * n - 1 - 1) with (2 * (n - 1)) in Hr12 by lia.
      destruct (IH kt vt (n - 1) s1 (acc + x + x0) c s' H ltac:(lia) u2 (len + x + x0) st R2) as (u' & R' & K' & Hr').
      exists u'. split; [exact R'|]. split; [congruence|].
      eapply reach_trans; [exact Hr12|]. replace (len + (c - acc)) with (len + x + x0 + (c - (acc + x + x0))) by lia. exact Hr'.
  Qed.

  Lemma fields_iter : forall n s acc c s', skip_fields PBinary rec n s acc = Ok (c, s') ->
    forall u len st, RU s u -> top_struct st ->
      exists u', RU s' u' /\ ubuf u' = ubuf u /\
        reach (Next TStruct len st u) (after_match (len + (c - acc)) (stack_pop st) u').
  Proof.
    induction n as [|n IH]; intros s acc c s' H u len st R Ht; [discriminate|].
    cbn [skip_fields] in H. binv H.
    change (hdr_count PBinary 1 s s0) with 1 in H. change (hdr_count PBinary 3 s s0) with 3 in H.
    pose proof (field_begin_usim s u R) as S. rewrite E in S. destruct S as (u1 & Eu & R1).
    pose proof (ufield_keeps _ _ _ Eu) as K1.
    destruct (ttype_eqb (fst x) TStop) eqn:Es.
    - injection H as <- <-. exists u1. split; [exact R1|]. split; [exact K1|].
      replace (acc + 1 - acc) with 1 by lia. apply reach_step.
      cbn [iter_turn]. rewrite Eu. cbn [bind]. rewrite Es.
      destruct st as [|top t]; [destruct Ht|]. reflexivity.
    - binv H.
      destruct (Z.ltb_spec 0 (fixed_size (fst x))) as [Hf|Hf].
      + (* fast path: `continue` *)
        destruct (Hfix _ _ _ _ E0 Hf) as (-> & a & Et).
        pose proof (take_bump _ _ _ _ u1 Et R1) as R2.
        destruct (IH s1 (acc + 3 + fixed_size (fst x)) c s' H
                    (mkU (ubuf u1) (uidx u1 + Z.to_nat (fixed_size (fst x)))) (len + 3 + fixed_size (fst x)) st R2 Ht)
          as (u' & R' & K' & Hr').
        exists u'. split; [exact R'|]. split; [cbn [ubuf] in K'; congruence|].
        eapply reach_trans; [|replace (len + (c - acc)) with (len + 3 + fixed_size (fst x) + (c - (acc + 3 + fixed_size (fst x)))) by lia; exact Hr'].
        apply reach_step. cbn [iter_turn]. rewrite Eu. cbn [bind]. rewrite Es.
        replace (0 <? fixed_size (fst x)) with true by lia. reflexivity.
      + (* slow path: a frame of one value *)
        destruct (under_frame (mkF (fst x) (fst x) 1) st (fst x) s0 x0 s1 u1 (len + 3) (sel_same _ _) E0 R1)
          as (u2 & R2 & K2 & Hr2).
        cbn [stack_pop fr_len Z.sub Z.add Z.opp Z.pos_sub Z.eqb] in Hr2.
        rewrite (after_match_struct _ _ _ Ht) in Hr2.
        destruct (IH s1 (acc + 3 + x0) c s' H u2 (len + 3 + x0) st R2 Ht) as (u' & R' & K' & Hr').
        exists u'. split; [exact R'|]. split; [congruence|].
        eapply reach_trans; [|eapply reach_trans; [exact Hr2|]].
        * apply reach_step. cbn [iter_turn]. rewrite Eu. cbn [bind]. rewrite Es.
          replace (0 <? fixed_size (fst x)) with false by lia. reflexivity.
        * replace (len + (c - acc)) with (len + 3 + x0 + (c - (acc + 3 + x0))) by lia. exact Hr'.
  Qed.

  (* fast paths of the containers: n values of a fixed-size type *)
  Lemma elems_fixed : forall m et n s acc c s', skip_elems rec m et n s acc = Ok (c, s') ->
    0 < fixed_size et -> 0 <= n ->
    forall u, RU s u ->
      c = acc + fixed_size et * n /\ RU s' (mkU (ubuf u) (uidx u + Z.to_nat (fixed_size et * n))).
  Proof.
    induction m as [|m IH]; intros et n s acc c s' H Hf Hn u R; cbn [skip_elems] in H.
    - destruct (Z.leb_spec n 0); [|discriminate]. injection H as <- <-. replace n with 0 by lia.
      rewrite Z.mul_0_r, Z.add_0_r. split; [reflexivity|]. cbn [Z.to_nat]. rewrite Nat.add_0_r. destruct u; exact R.
    - destruct (Z.leb_spec n 0).
      + injection H as <- <-. replace n with 0 by lia.
        rewrite Z.mul_0_r, Z.add_0_r. split; [reflexivity|]. cbn [Z.to_nat]. rewrite Nat.add_0_r. destruct u; exact R.
      + binv H. destruct (Hfix _ _ _ _ E Hf) as (-> & a & Et).
        pose proof (take_bump _ _ _ _ u Et R) as R1.
        destruct (IH et (n - 1) s0 (acc + fixed_size et) c s' H Hf ltac:(lia) _ R1) as [-> R'].
        split; [lia|]. cbn [ubuf uidx] in R'.
        replace (uidx u + Z.to_nat (fixed_size et * n))%nat
          with (uidx u + Z.to_nat (fixed_size et) + Z.to_nat (fixed_size et * (n - 1)))%nat; [exact R'|].
        rewrite <- Nat.add_assoc. f_equal. rewrite <- Z2Nat.inj_add by nia. f_equal. lia.
  Qed.

  Lemma pairs_fixed : forall m kt vt n s acc c s', skip_pairs rec m kt vt n s acc = Ok (c, s') ->
    0 < fixed_size kt -> 0 < fixed_size vt -> 0 <= n ->
    forall u, RU s u ->
      c = acc + (fixed_size kt + fixed_size vt) * n /\
      RU s' (mkU (ubuf u) (uidx u + Z.to_nat ((fixed_size kt + fixed_size vt) * n))).
  Proof.
    induction m as [|m IH]; intros kt vt n s acc c s' H Hk Hv Hn u R; cbn [skip_pairs] in H.
    - destruct (Z.leb_spec n 0); [|discriminate]. injection H as <- <-. replace n with 0 by lia.
      rewrite Z.mul_0_r, Z.add_0_r. split; [reflexivity|]. cbn [Z.to_nat]. rewrite Nat.add_0_r. destruct u; exact R.
    - destruct (Z.leb_spec n 0).
      + injection H as <- <-. replace n with 0 by lia.
        rewrite Z.mul_0_r, Z.add_0_r. split; [reflexivity|]. cbn [Z.to_nat]. rewrite Nat.add_0_r. destruct u; exact R.
      + binv H. binv H.
        destruct (Hfix _ _ _ _ E Hk) as (-> & a & Et). destruct (Hfix _ _ _ _ E0 Hv) as (-> & b & Et2).
        pose proof (take_bump _ _ _ _ u Et R) as R1. pose proof (take_bump _ _ _ _ _ Et2 R1) as R2.
        destruct (IH kt vt (n - 1) s1 (acc + fixed_size kt + fixed_size vt) c s' H Hk Hv ltac:(lia) _ R2) as [-> R'].
        split; [lia|]. cbn [ubuf uidx] in R'.
        replace (uidx u + Z.to_nat ((fixed_size kt + fixed_size vt) * n))%nat
          with (uidx u + Z.to_nat (fixed_size kt) + Z.to_nat (fixed_size vt) + Z.to_nat ((fixed_size kt + fixed_size vt) * (n - 1)))%nat; [exact R'|].
        rewrite <- !Nat.add_assoc. f_equal. rewrite <- !Z2Nat.inj_add by nia. f_equal. lia.
  Qed.
End IterLoops.

Lemma FIX_skip f d : FIX (skip_val PBinary f d).
Proof. intros ty s c s' H Hf. eapply skip_fixed; eauto. Qed.

Theorem iter_sim : forall f d, ITER (skip_val PBinary f d).
Proof.
  induction f as [|f IH]; intros d ty s c s' H u len st R Hst; [discriminate|].
  destruct d as [|d]; [discriminate|].
  destruct (Z.ltb_spec 0 (fixed_size ty)) as [Hf|Hf].
  - (* fixed-size leaf *)
    destruct (skip_fixed _ _ _ _ _ _ H Hf) as (-> & a & Et).
    assert (Hne : ty <> TStruct) by (intros ->; vm_compute in Hf; discriminate).
    eexists. split; [exact (take_bump _ _ _ _ u Et R)|]. split; [reflexivity|].
    rewrite (post_other _ _ Hne). apply reach_step, iter_fixed, Hf.
  - rewrite skip_val_bin_S in H.
    destruct ty; try discriminate; try (vm_compute in Hf; congruence).
    + (* binary *)
      binv H. pose proof (fixed_usim 4 32 s u R) as S. change (r_fixed PBinary 4 32 s) with (r_i32 PBinary s) in S.
      rewrite E in S. destruct S as (u1 & Eu & R1). fold u_i32 in Eu. pose proof (ufixed_keeps _ _ _ _ _ Eu) as K1.
      cbv beta iota zeta in H. destruct (wrap_u 64 x <=? Z.of_nat (blen s0)); [|discriminate]. binv H. injection H as <- <-.
      pose proof (take_bump _ _ _ _ u1 E0 R1) as R2.
      eexists. split; [exact R2|]. split; [exact K1|].
      rewrite post_other by discriminate. apply reach_step. cbn [iter_turn]. rewrite Eu. cbn [bind u_bump].
      replace (len + 4 + wrap_u 64 x) with (len + (4 + wrap_u 64 x)) by lia. reflexivity.
    + (* struct *)
      cbn [r_struct_begin bind] in H. binv H. cbn [r_struct_end bind] in H. injection H as <- <-.
      destruct (fields_iter (skip_val PBinary f d) (IH d) (FIX_skip f d) (S f) s 0 x s0 E u len st R (Hst eq_refl))
        as (u' & R' & K' & Hr').
      exists u'. split; [exact R'|]. split; [exact K'|]. rewrite post_struct. replace (x - 0) with x in Hr' by lia. exact Hr'.
    + (* map *)
      binv H. pose proof (map_begin_usim s u R) as S. rewrite E in S. destruct S as (u1 & Eu & R1).
      pose proof (umap_keeps _ _ _ Eu) as K1. pose proof (map_size_range _ _ _ E) as Hsz.
      rewrite post_other by discriminate.
      destruct (Z.leb_spec (snd x) 0) as [Hz|Hz].
      * assert (c = 6 /\ s' = s0) as [-> ->].
        { destruct f; cbn [skip_pairs] in H; replace (snd x <=? 0) with true in H by lia; injection H as <- <-; auto. }
        exists u1. split; [exact R1|]. split; [exact K1|]. apply reach_step. cbn [iter_turn]. rewrite Eu. cbn [bind].
        replace (snd x <=? 0) with true by lia. reflexivity.
      * destruct ((0 <? fixed_size (fst (fst x))) && (0 <? fixed_size (snd (fst x)))) eqn:Eb.
        -- apply andb_prop in Eb as [Hk Hv]. apply Z.ltb_lt in Hk, Hv.
           destruct (pairs_fixed (skip_val PBinary f d) (FIX_skip f d) _ _ _ _ _ _ _ _ H Hk Hv ltac:(lia) u1 R1) as [-> R2].
           eexists. split; [exact R2|]. split; [exact K1|]. apply reach_step. cbn [iter_turn]. rewrite Eu. cbn [bind u_bump].
           replace (snd x <=? 0) with false by lia. apply Z.ltb_lt in Hk, Hv. rewrite Hk, Hv. cbn [andb].
           replace (len + 6 + (fixed_size (fst (fst x)) + fixed_size (snd (fst x))) * snd x)
             with (len + (6 + (fixed_size (fst (fst x)) + fixed_size (snd (fst x))) * snd x)) by lia. reflexivity.
        -- destruct (pairs_iter (skip_val PBinary f d) (IH d) _ _ _ _ _ _ _ _ H Hz u1 (len + 6) st R1) as (u' & R' & K' & Hr').
           exists u'. split; [exact R'|]. split; [congruence|].
           eapply reach_trans; [|replace (len + c) with (len + 6 + (c - 6)) by lia; exact Hr'].
           apply reach_step. cbn [iter_turn]. rewrite Eu. cbn [bind].
           replace (snd x <=? 0) with false by lia. rewrite Eb.
           rewrite wrap_u32_lt by (change (2 ^ 32) with (2 * 2 ^ 31); lia). replace (snd x * 2) with (2 * snd x) by lia. reflexivity.
    + (* set *)
      binv H. pose proof (coll_begin_usim s u R) as S. rewrite E in S. destruct S as (u1 & Eu & R1).
      pose proof (ucoll_keeps _ _ _ Eu) as K1. pose proof (coll_size_range _ _ _ E) as Hsz.
      rewrite post_other by discriminate.
      destruct (Z.eqb_spec (snd x) 0) as [Hz|Hz].
      * assert (c = 5 /\ s' = s0) as [-> ->].
        { destruct f; cbn [skip_elems] in H; replace (snd x <=? 0) with true in H by lia; injection H as <- <-; auto. }
        exists u1. split; [exact R1|]. split; [exact K1|]. apply reach_step. cbn [iter_turn]. rewrite Eu. cbn [bind].
        replace (snd x =? 0) with true by lia. reflexivity.
      * destruct (Z.ltb_spec 0 (fixed_size (fst x))) as [Hk|Hk].
        -- destruct (elems_fixed (skip_val PBinary f d) (FIX_skip f d) _ _ _ _ _ _ _ H Hk ltac:(lia) u1 R1) as [-> R2].
           eexists. split; [exact R2|]. split; [exact K1|]. apply reach_step. cbn [iter_turn]. rewrite Eu. cbn [bind u_bump].
           replace (snd x =? 0) with false by lia. replace (0 <? fixed_size (fst x)) with true by lia.
           replace (len + 5 + fixed_size (fst x) * snd x) with (len + (5 + fixed_size (fst x) * snd x)) by lia. reflexivity.
        -- destruct (elems_iter (skip_val PBinary f d) (IH d) _ _ _ _ _ _ _ H ltac:(lia) u1 (len + 5) st R1) as (u' & R' & K' & Hr').
           exists u'. split; [exact R'|]. split; [congruence|].
           eapply reach_trans; [|replace (len + c) with (len + 5 + (c - 5)) by lia; exact Hr'].
           apply reach_step. cbn [iter_turn]. rewrite Eu. cbn [bind].
           replace (snd x =? 0) with false by lia. replace (0 <? fixed_size (fst x)) with false by lia.
           rewrite wrap_u32_lt by (change (2 ^ 32) with (2 * 2 ^ 31); lia). reflexivity.
    + (* list *)
      binv H. pose proof (coll_begin_usim s u R) as S. rewrite E in S. destruct S as (u1 & Eu & R1).
      pose proof (ucoll_keeps _ _ _ Eu) as K1. pose proof (coll_size_range _ _ _ E) as Hsz.
      rewrite post_other by discriminate.
      destruct (Z.eqb_spec (snd x) 0) as [Hz|Hz].
      * assert (c = 5 /\ s' = s0) as [-> ->].
        { destruct f; cbn [skip_elems] in H; replace (snd x <=? 0) with true in H by lia; injection H as <- <-; auto. }
        exists u1. split; [exact R1|]. split; [exact K1|]. apply reach_step. cbn [iter_turn]. rewrite Eu. cbn [bind].
        replace (snd x =? 0) with true by lia. reflexivity.
      * destruct (Z.ltb_spec 0 (fixed_size (fst x))) as [Hk|Hk].
        -- destruct (elems_fixed (skip_val PBinary f d) (FIX_skip f d) _ _ _ _ _ _ _ H Hk ltac:(lia) u1 R1) as [-> R2].
           eexists. split; [exact R2|]. split; [exact K1|]. apply reach_step. cbn [iter_turn]. rewrite Eu. cbn [bind u_bump].
           replace (snd x =? 0) with false by lia. replace (0 <? fixed_size (fst x)) with true by lia.
           replace (len + 5 + fixed_size (fst x) * snd x) with (len + (5 + fixed_size (fst x) * snd x)) by lia. reflexivity.
        -- destruct (elems_iter (skip_val PBinary f d) (IH d) _ _ _ _ _ _ _ H ltac:(lia) u1 (len + 5) st R1) as (u' & R' & K' & Hr').
           exists u'. split; [exact R'|]. split; [congruence|].
           eapply reach_trans; [|replace (len + c) with (len + 5 + (c - 5)) by lia; exact Hr'].
           apply reach_step. cbn [iter_turn]. rewrite Eu. cbn [bind].
           replace (snd x =? 0) with false by lia. replace (0 <? fixed_size (fst x)) with false by lia.
           rewrite wrap_u32_lt by (change (2 ^ 32) with (2 * 2 ^ 31); lia). reflexivity.
Qed.

(* ------------------------------------------------------------------ *)
(* skip_till_depth of the unchecked reader *)

(* C07_iter / C11_skip_eq: on EVERY input on which the recursive skipper of the checked binary protocol
   succeeds -- with whatever depth budget [d], so for every nesting depth -- the iterative skipper
   reports the same count, stops at the same position (RU: what is left of its window is what the
   checked reader has left), keeps its window, and has advanced its index by exactly that count;
   [k] turns of the loop suffice and more fuel changes nothing *)
Theorem iter_simulates_skip f d ty s c s' u :
  skip_val PBinary f d ty s = Ok (c, s') -> RU s u ->
  exists k u', (forall fuel, skip_iter (k + fuel) ty u = Ok (c, u')) /\
               RU s' u' /\ ubuf u' = ubuf u /\ Z.of_nat (uidx u') = Z.of_nat (uidx u) + consumed s s'.
Proof.
  intros H R.
  set (st0 := match ty with TStruct => [mkF TStruct TStruct 1] | _ => [] end).
  assert (Hst : ty = TStruct -> top_struct st0) by (intros ->; reflexivity).
  destruct (iter_sim f d ty s c s' H u 0 st0 R Hst) as (u' & R' & K' & [k Hk]).
  assert (Hp : post ty st0 = []) by (destruct ty; reflexivity).
  rewrite Hp in Hk. cbn [after_match resume] in Hk.
  exists k, u'. split; [intros fuel; specialize (Hk fuel); rewrite Z.add_0_l in Hk; rewrite <- Hk; reflexivity|]. split; [exact R'|]. split; [exact K'|].
  destruct R as [Rb Ri]. destruct R' as [Rb' Ri']. unfold consumed, blen. rewrite Rb, Rb'. unfold urest.
  rewrite !skipn_length, K'. rewrite K' in Ri'. lia.
Qed.

(* the same against the recursive READER: whatever value the checked binary reader returns, of any
   nesting depth, the iterative skipper passes over exactly its bytes *)
Theorem iter_simulates_read f ty s v s' u :
  read_val PBinary f ty s = Ok (v, s') -> RU s u ->
  exists k u', (forall fuel, skip_iter (k + fuel) ty u = Ok (consumed s s', u')) /\
               RU s' u' /\ ubuf u' = ubuf u /\ Z.of_nat (uidx u') = Z.of_nat (uidx u) + consumed s s'.
Proof.
  intros H R. destruct (skip_sim PBinary f ty s v s' H (vdepth v)) as [Hs _].
  eapply iter_simulates_skip; [apply Hs; lia|exact R].
Qed.

(* TInputProtocol::skip of the unchecked reader: rewinds over the 3-byte field header it has just read,
   re-windows, then runs the loop *)
Theorem u_skip_simulates f d ty s c s' u :
  skip_val PBinary f d ty s = Ok (c, s') -> RU s u -> (3 <= uidx u)%nat ->
  exists k u', (forall fuel, u_skip (k + fuel) ty u = Ok (c, u')) /\ RU s' u'.
Proof.
  intros H [Rb Ri] H3.
  assert (R0 : RU s (mkU (skipn (uidx u - 3) (ubuf u)) 3)).
  { split; cbn [ubuf uidx].
    - rewrite Rb. unfold urest. cbn [ubuf uidx]. rewrite skipn_add. f_equal. lia.
    - rewrite skipn_length. lia. }
  destruct (iter_simulates_skip f d ty s c s' _ H R0) as (k & u' & Hk & R' & _).
  exists k, u'. split; [|exact R']. intros fuel. unfold u_skip.
  replace (Nat.ltb (uidx u) 3) with false by (symmetry; apply Nat.ltb_ge; lia).
  replace (Nat.leb (uidx u - 3) (length (ubuf u))) with true by (symmetry; apply Nat.leb_le; lia).
  apply Hk.
Qed.

(* C07_iter_written: composed with C01 -- every well-typed value written by pilota's binary writer,
   of ANY nesting depth (no depth limit in the iterative skipper), followed by arbitrary bytes [r]:
   the iterative skipper reports exactly the number of bytes written and leaves exactly [r] *)
Theorem iter_skip_written k v c :
  wt v = true -> w_pend c = None ->
  exists ss, write_val PBinary k v c = Ok (ss, c) /\
    forall r, exists n u', (forall fuel, skip_iter (n + fuel) (ttype_of v) (mkU (flat ss ++ r) 0) = Ok (Z.of_nat (length (flat ss)), u')) /\
                           urest u' = r /\ uidx u' = length (flat ss).
Proof.
  intros Hwt Hp. destruct (roundtrip_val PBinary k v Hwt c Hp) as (ss & Hw & _ & Hr).
  exists ss. split; [exact Hw|]. intros r.
  specialize (Hr (vsize v) r r0 (le_n _) idle_r0).
  assert (R : RU (mkS (flat ss ++ r) r0) (mkU (flat ss ++ r) 0)) by (split; [reflexivity|cbn; lia]).
  destruct (iter_simulates_read _ _ _ _ _ _ Hr R) as (n & u' & Hn & [Rb _] & _ & Hi).
  rewrite consumed_app in Hn, Hi. exists n, u'. split; [exact Hn|]. split; [symmetry; exact Rb|]. cbn [uidx] in Hi. lia.
Qed.

(* non-vacuity.  (a) all arms of the loop: fixed-size struct fields (`continue`), a list of structs,
   a map with a variable-size key (slow path, key/value alternation), a fixed-size map and a
   fixed-size list (fast paths), a nested struct, a uuid; (b) a struct nested 70 deep: the recursive
   skipper refuses (MAXIMUM_SKIP_DEPTH = 64), the iterative one skips it *)
Fixpoint nest (n : nat) : tval := match n with O => VStruct [] | S k => VStruct [(1, nest k)] end.

Example iter_examples :
  let v := VStruct [(1, VI32 7); (2, VList TStruct [VStruct [(5, VBool true)]; VStruct []]);
                    (3, VMap TBinary TI64 [(VBinary [x61], VI64 (-5)); (VBinary [], VI64 9)]);
                    (4, VMap TI8 TI16 [(VI8 1, VI16 2)]); (5, VList TDouble [VDouble 0; VDouble 1]);
                    (6, VStruct [(1, VSet TBinary [VBinary [x62]])]); (9, VUuid (repeat x00 16))] in
  wt v = true /\
  match write_val PBinary BContig v w0 with
  | Ok (ss, _) =>
      skip PBinary 40 TStruct (mkS (flat ss ++ [xff]) r0) = Ok (Z.of_nat (length (flat ss)), mkS [xff] r0) /\
      skip_iter 60 TStruct (mkU (flat ss ++ [xff]) 0) = Ok (Z.of_nat (length (flat ss)), mkU (flat ss ++ [xff]) (length (flat ss)))
  | _ => False
  end /\
  wt (nest 70) = true /\
  match write_val PBinary BContig (nest 70) w0 with
  | Ok (ss, _) =>
      skip PBinary 100 TStruct (mkS (flat ss) r0) = Err EDepthLimit /\
      skip_iter 200 TStruct (mkU (flat ss) 0) = Ok (Z.of_nat (length (flat ss)), mkU (flat ss) (length (flat ss)))
  | _ => False
  end.
Proof. split; [reflexivity|]. split; [vm_compute; split; reflexivity|]. split; [reflexivity|]. vm_compute. split; reflexivity. Qed.

(* C11_skip_eq: both entry points in one statement *)
Theorem unchecked_skip_eq f d ty s c s' u :
  skip_val PBinary f d ty s = Ok (c, s') -> RU s u ->
  (exists k u', (forall fuel, skip_iter (k + fuel) ty u = Ok (c, u')) /\ RU s' u' /\ ubuf u' = ubuf u) /\
  ((3 <= uidx u)%nat -> exists k u', (forall fuel, u_skip (k + fuel) ty u = Ok (c, u')) /\ RU s' u').
Proof.
  intros H R. split.
  - destruct (iter_simulates_skip f d ty s c s' u H R) as (k & u' & A & B & C & _). exists k, u'. auto.
  - intros H3. eapply u_skip_simulates; eauto.
Qed.
