(* An independent specification of the protobuf wire format, written from the encoding guide
   (protobuf.dev/programming-guides/encoding) and NOT from pilota's code:
     - base-128 varints, least significant group first, as arithmetic (div/mod);
     - a record is key = (field_number << 3) | wire_type followed by the payload;
       wire types 0 VARINT, 1 I64, 2 LEN, 3 SGROUP, 4 EGROUP, 5 I32;
     - int32 / int64 / enum: two's complement, sign-extended to 64 bits (negative values take ten bytes);
       uint32 / uint64 / bool: the number itself; sint32 / sint64: ZigZag (n << 1) ^ (n >> 31|63),
       i.e. 0 -> 0, -1 -> 1, 1 -> 2, -2 -> 3 ...;
     - fixed32 / sfixed32 / float: four bytes little endian; fixed64 / sfixed64 / double: eight;
     - string / bytes / embedded messages / packed repeated fields: LEN = varint length + payload;
     - map<K,V> field = repeated message { K key = 1; V value = 2; };
     - records may come in any order, unknown fields are skipped, last one wins for singular scalars,
       repeated fields accumulate (packed or not), embedded messages merge.
   The reference decoder works in two passes (tokenise into records, then interpret by the schema) --
   a different architecture from pilota's streaming merge_field.
   Model only -- lemmas live in Proofs/. *)
From PVPb Require Export Msg.
Open Scope Z_scope.

(* ---------------------------------------------------------------- varints, keys *)
Fixpoint spec_varint_f (fuel : nat) (n : Z) : list byte :=
  match fuel with
  | O => [z2b n]
  | S f => if n <? 128 then [z2b n] else z2b (128 + n mod 128) :: spec_varint_f f (n / 128)
  end.
(* a 64-bit number needs at most ten groups of seven bits *)
Definition spec_varint (n : Z) : list byte := spec_varint_f 9 n.

Inductive spec_wt := W_VARINT | W_I64 | W_LEN | W_SGROUP | W_EGROUP | W_I32.
Definition spec_wt_code (w : spec_wt) : Z :=
  match w with W_VARINT => 0 | W_I64 => 1 | W_LEN => 2 | W_SGROUP => 3 | W_EGROUP => 4 | W_I32 => 5 end.
Definition spec_key (field_number : Z) (w : spec_wt) : list byte := spec_varint (field_number * 8 + spec_wt_code w).

(* ---------------------------------------------------------------- scalar types *)
Definition spec_zigzag (n : Z) : Z := if n <? 0 then - 2 * n - 1 else 2 * n.
Definition spec_unzigzag (u : Z) : Z := if Z.even u then u / 2 else - ((u + 1) / 2).

Definition spec_wire_type (t : proto_type) : spec_wt :=
  match t with
  | TYPE_INT32 | TYPE_INT64 | TYPE_UINT32 | TYPE_UINT64 | TYPE_SINT32 | TYPE_SINT64 | TYPE_BOOL | TYPE_ENUM => W_VARINT
  | TYPE_FIXED64 | TYPE_SFIXED64 | TYPE_DOUBLE => W_I64
  | TYPE_FIXED32 | TYPE_SFIXED32 | TYPE_FLOAT => W_I32
  | TYPE_STRING | TYPE_BYTES | TYPE_MESSAGE => W_LEN
  | TYPE_GROUP => W_SGROUP
  end.

(* little endian, [n] bytes *)
Fixpoint spec_le (n : nat) (z : Z) : list byte :=
  match n with O => [] | S k => z2b (z mod 256) :: spec_le k (z / 256) end.

Definition spec_payload (t : proto_type) (v : val) : list byte :=
  match t, v with
  | (TYPE_INT32 | TYPE_INT64 | TYPE_ENUM), VI z => spec_varint (if z <? 0 then z + 2 ^ 64 else z)
  | (TYPE_UINT32 | TYPE_UINT64 | TYPE_BOOL), VI z => spec_varint z
  | (TYPE_SINT32 | TYPE_SINT64), VI z => spec_varint (spec_zigzag z)
  | (TYPE_FIXED32 | TYPE_FLOAT), VI z => spec_le 4 z
  | TYPE_SFIXED32, VI z => spec_le 4 (if z <? 0 then z + 2 ^ 32 else z)
  | (TYPE_FIXED64 | TYPE_DOUBLE), VI z => spec_le 8 z
  | TYPE_SFIXED64, VI z => spec_le 8 (if z <? 0 then z + 2 ^ 64 else z)
  | (TYPE_STRING | TYPE_BYTES), VB l => spec_varint (Z.of_nat (length l)) ++ l
  | _, _ => []
  end.

Definition spec_encode_field (t : proto_type) (field_number : Z) (v : val) : list byte :=
  spec_key field_number (spec_wire_type t) ++ spec_payload t v.

(* packed repeated field: one LEN record holding the concatenated payloads *)
Definition spec_encode_packed (t : proto_type) (field_number : Z) (vs : list val) : list byte :=
  let body := flat_map (spec_payload t) vs in
  spec_key field_number W_LEN ++ spec_varint (Z.of_nat (length body)) ++ body.

(* the value range of each declared scalar type *)
Definition spec_value_ok (t : proto_type) (v : val) : bool :=
  match t, v with
  | (TYPE_INT32 | TYPE_SINT32 | TYPE_SFIXED32 | TYPE_ENUM), VI z => (- 2 ^ 31 <=? z) && (z <? 2 ^ 31)
  | (TYPE_INT64 | TYPE_SINT64 | TYPE_SFIXED64), VI z => (- 2 ^ 63 <=? z) && (z <? 2 ^ 63)
  | (TYPE_UINT32 | TYPE_FIXED32 | TYPE_FLOAT), VI z => (0 <=? z) && (z <? 2 ^ 32)
  | (TYPE_UINT64 | TYPE_FIXED64 | TYPE_DOUBLE), VI z => (0 <=? z) && (z <? 2 ^ 64)
  | TYPE_BOOL, VI z => (z =? 0) || (z =? 1)
  | TYPE_STRING, VB l => (Z.of_nat (length l) <? 2 ^ 64) && utf8_valid l      (* "a string must always contain UTF-8 encoded text" *)
  | TYPE_BYTES, VB l => Z.of_nat (length l) <? 2 ^ 64
  | _, _ => false
  end.

(* the codec module the encoding guide prescribes for a declared type, in pilota's vocabulary
   (string fields are FastStr in generated code) *)
Definition spec_module (t : proto_type) : option codec_module :=
  match t with
  | TYPE_DOUBLE => Some MDouble | TYPE_FLOAT => Some MFloat
  | TYPE_INT64 => Some MInt64 | TYPE_UINT64 => Some MUInt64 | TYPE_INT32 => Some MInt32
  | TYPE_FIXED64 => Some MFixed64 | TYPE_FIXED32 => Some MFixed32 | TYPE_BOOL => Some MBool
  | TYPE_STRING => Some MFastStr | TYPE_BYTES => Some MBytes | TYPE_UINT32 => Some MUInt32
  | TYPE_ENUM => Some MInt32
  | TYPE_SFIXED32 => Some MSFixed32 | TYPE_SFIXED64 => Some MSFixed64
  | TYPE_SINT32 => Some MSInt32 | TYPE_SINT64 => Some MSInt64
  | TYPE_MESSAGE => Some MMessage
  | TYPE_GROUP => None
  end.

Definition declared_scalars : list proto_type :=
  [TYPE_DOUBLE; TYPE_FLOAT; TYPE_INT64; TYPE_UINT64; TYPE_INT32; TYPE_FIXED64; TYPE_FIXED32; TYPE_BOOL;
   TYPE_STRING; TYPE_BYTES; TYPE_UINT32; TYPE_ENUM; TYPE_SFIXED32; TYPE_SFIXED64; TYPE_SINT32; TYPE_SINT64].

(* ---------------------------------------------------------------- reference decoder: pass 1, records *)
Inductive spayload :=
| PVar (u : Z)                 (* VARINT *)
| PI64 (bs : list byte)        (* 8 bytes *)
| PI32 (bs : list byte)        (* 4 bytes *)
| PLen (bs : list byte)        (* LEN *)
| PGroup.                      (* a well-nested group, content dropped (no field of the supported grammar is a group) *)

(* varint reader: at most ten bytes, value below 2^64 *)
Fixpoint spec_read_varint (n : nat) (shift : Z) (l : list byte) : option (Z * list byte) :=
  match n, l with
  | S n', b :: rest =>
      let x := b2z b in
      if x <? 128 then Some (x * 2 ^ shift, rest)
      else match spec_read_varint n' (shift + 7) rest with
           | Some (hi, rest') => Some ((x - 128) * 2 ^ shift + hi, rest')
           | None => None
           end
  | _, _ => None
  end.
Definition spec_varint_dec (l : list byte) : option (Z * list byte) :=
  match spec_read_varint 10 0 l with
  | Some (v, rest) => if v <? 2 ^ 64 then Some (v, rest) else None
  | None => None
  end.

Definition spec_split (n : nat) (l : list byte) : option (list byte * list byte) :=
  if Nat.leb n (length l) then Some (firstn n l, skipn n l) else None.

(* one record: (field number, payload, rest); groups are skipped recursively ([fuel] >= length suffices) *)
Fixpoint spec_record (fuel : nat) (l : list byte) : option (Z * spayload * list byte) :=
  match fuel with
  | O => None
  | S f =>
      match spec_varint_dec l with
      | None => None
      | Some (key, rest) =>
          if 2 ^ 32 <=? key then None else
          let fnum := key / 8 in
          if fnum <? 1 then None else
          let w := key mod 8 in
          if w =? 0 then match spec_varint_dec rest with Some (u, r) => Some (fnum, PVar u, r) | None => None end
          else if w =? 1 then match spec_split 8 rest with Some (bs, r) => Some (fnum, PI64 bs, r) | None => None end
          else if w =? 5 then match spec_split 4 rest with Some (bs, r) => Some (fnum, PI32 bs, r) | None => None end
          else if w =? 2 then
            match spec_varint_dec rest with
            | Some (len, r) =>
                if Z.of_nat (length r) <? len then None else
                match spec_split (Z.to_nat len) r with
                | Some (bs, r') => Some (fnum, PLen bs, r')
                | None => None
                end
            | None => None
            end
          else if w =? 3 then
            (fix group (k : nat) (cur : list byte) : option (Z * spayload * list byte) :=
               match k with
               | O => None
               | S k' =>
                   match spec_varint_dec cur with
                   | Some (ikey, irest) =>
                       if (ikey mod 8 =? 4) && (ikey <? 2 ^ 32) then
                         if ikey / 8 =? fnum then Some (fnum, PGroup, irest) else None
                       else match spec_record f cur with
                            | Some (_, _, after) => group k' after
                            | None => None
                            end
                   | None => None
                   end
               end) (S (length rest)) rest
          else None
      end
  end.

Fixpoint spec_records (fuel : nat) (l : list byte) : option (list (Z * spayload)) :=
  match l, fuel with
  | [], _ => Some []
  | _, O => None
  | _, S f =>
      match spec_record (S (length l)) l with
      | Some (fnum, p, rest) =>
          match spec_records f rest with Some more => Some ((fnum, p) :: more) | None => None end
      | None => None
      end
  end.

(* ---------------------------------------------------------------- pass 2: interpretation by the schema *)
Definition spec_of_le (bs : list byte) : Z := fold_right (fun b acc => b2z b + 256 * acc) 0 bs.
Definition spec_signed (bits : Z) (u : Z) : Z := if u <? 2 ^ (bits - 1) then u else u - 2 ^ bits.

(* value of a declared scalar type from a payload of the right wire type *)
Definition spec_scalar_value (t : proto_type) (p : spayload) : option val :=
  match t, p with
  | TYPE_INT32, PVar u | TYPE_ENUM, PVar u => Some (VI (spec_signed 32 (u mod 2 ^ 32)))
  | TYPE_INT64, PVar u => Some (VI (spec_signed 64 u))
  | TYPE_UINT32, PVar u => Some (VI (u mod 2 ^ 32))
  | TYPE_UINT64, PVar u => Some (VI u)
  | TYPE_SINT32, PVar u => Some (VI (spec_unzigzag (u mod 2 ^ 32)))
  | TYPE_SINT64, PVar u => Some (VI (spec_unzigzag u))
  | TYPE_BOOL, PVar u => Some (VI (if u =? 0 then 0 else 1))
  | (TYPE_FIXED32 | TYPE_FLOAT), PI32 bs => Some (VI (spec_of_le bs))
  | TYPE_SFIXED32, PI32 bs => Some (VI (spec_signed 32 (spec_of_le bs)))
  | (TYPE_FIXED64 | TYPE_DOUBLE), PI64 bs => Some (VI (spec_of_le bs))
  | TYPE_SFIXED64, PI64 bs => Some (VI (spec_signed 64 (spec_of_le bs)))
  | TYPE_STRING, PLen bs => if utf8_valid bs then Some (VB bs) else None
  | TYPE_BYTES, PLen bs => Some (VB bs)
  | _, _ => None
  end.

Definition spec_is_numeric (t : proto_type) : bool :=
  match t with TYPE_STRING | TYPE_BYTES | TYPE_MESSAGE | TYPE_GROUP => false | _ => true end.

(* the elements of a packed payload *)
Fixpoint spec_unpack (fuel : nat) (t : proto_type) (bs : list byte) : option (list val) :=
  match bs, fuel with
  | [], _ => Some []
  | _, O => None
  | _, S f =>
      let one :=
        match spec_wire_type t with
        | W_VARINT => match spec_varint_dec bs with Some (u, r) => Some (PVar u, r) | None => None end
        | W_I64 => match spec_split 8 bs with Some (x, r) => Some (PI64 x, r) | None => None end
        | W_I32 => match spec_split 4 bs with Some (x, r) => Some (PI32 x, r) | None => None end
        | _ => None
        end in
      match one with
      | Some (p, r) =>
          match spec_scalar_value t p, spec_unpack f t r with
          | Some v, Some more => Some (v :: more)
          | _, _ => None
          end
      | None => None
      end
  end.

Section SpecStep.
  Variable sc : schema.
  Variable rec : nat -> val -> list byte -> option val.   (* merge the encoding of message #i into a value *)
  Variable dflt : ty -> val.

  (* one value of type t from a payload, merged into [cur] *)
  Definition spec_value (t : ty) (cur : val) (p : spayload) : option val :=
    match t with
    | TScalar s => spec_scalar_value s p
    | TMsg i => match p with PLen bs => rec i cur bs | _ => None end
    end.

  Definition spec_map_entry (k : proto_type) (vt : ty) (bs : list byte) : option (val * val) :=
    match spec_records (S (length bs)) bs with
    | None => None
    | Some recs =>
        fold_left (fun acc r =>
                     match acc with
                     | None => None
                     | Some (kv, vv) =>
                         if fst r =? 1 then match spec_value (TScalar k) kv (snd r) with Some k' => Some (k', vv) | None => None end
                         else if fst r =? 2 then match spec_value vt vv (snd r) with Some v' => Some (kv, v') | None => None end
                         else Some (kv, vv)
                     end) recs (Some (dflt (TScalar k), dflt vt))
    end.

  Definition spec_apply_field (f : field) (x : val) (fnum : Z) (p : spayload) : option val :=
    match f with
    | FSingular _ t => spec_value t x p
    | FOptional _ t =>
        let cur := match x with VL NSome [v] => v | _ => dflt t end in
        match spec_value t cur p with Some v => Some (VL NSome [v]) | None => None end
    | FRepeated _ t =>
        match x with
        | VL NRep xs =>
            match t, p with
            | TScalar s, PLen bs =>
                if spec_is_numeric s then
                  match spec_unpack (S (length bs)) s bs with Some vs => Some (VL NRep (xs ++ vs)) | None => None end
                else match spec_value t (dflt t) p with Some v => Some (VL NRep (xs ++ [v])) | None => None end
            | _, _ => match spec_value t (dflt t) p with Some v => Some (VL NRep (xs ++ [v])) | None => None end
            end
        | _ => None
        end
    | FMap _ k vt =>
        match x, p with
        | VL NMap es, PLen bs =>
            match spec_map_entry k vt bs with Some (kv, vv) => Some (VL NMap (map_insert kv vv es)) | None => None end
        | _, _ => None
        end
    | FOneof ms =>
        match find_member ms fnum 0 with
        | None => None
        | Some (idx, t) =>
            let start := match x with VL (NOne j) [v] => if Nat.eqb j idx then v else dflt t | _ => dflt t end in
            match spec_value t start p with Some v => Some (VL (NOne idx) [v]) | None => None end
        end
    end.

  Fixpoint spec_apply (fs : list field) (xs : list val) (fnum : Z) (p : spayload) : option (list val) :=
    match fs, xs with
    | f :: fs', x :: xs' =>
        if existsb (Z.eqb fnum) (field_tags f) then
          match spec_apply_field f x fnum p with Some x' => Some (x' :: xs') | None => None end
        else match spec_apply fs' xs' fnum p with Some r => Some (x :: r) | None => None end
    | _, _ => Some xs      (* unknown field: ignored *)
    end.
End SpecStep.

(* merge the records of [bs] into the value [x] of message #i; [d] bounds the nesting *)
Fixpoint spec_merge_msg (d : nat) (sc : schema) (i : nat) (x : val) (bs : list byte) : option val :=
  match d with
  | O => None
  | S d' =>
      match nth_error sc i, x, spec_records (S (length bs)) bs with
      | Some fs, VL NMsg xs, Some recs =>
          match fold_left (fun acc r => match acc with
                                        | Some cur => spec_apply (spec_merge_msg d' sc) (default_ty d' sc) fs cur (fst r) (snd r)
                                        | None => None
                                        end) recs (Some xs) with
          | Some xs' => Some (VL NMsg xs')
          | None => None
          end
      | _, _, _ => None
      end
  end.

Definition spec_decode_msg (sc : schema) (i : nat) (bs : list byte) : option val :=
  spec_merge_msg depth_fuel sc i (default_msg depth_fuel sc i) bs.

(* ---------------------------------------------------------------- defaults, from the guide *)
(* "If a field is absent the parser uses the default value: numeric types 0, bool false, string and bytes empty, enums the
   first defined value (which must be 0), message fields not set (the generated struct holds the message with all its fields
   at their defaults for a bare field), repeated fields and maps empty."  Written here on their own -- the reference decoder
   above and Conform.v take the model's defaults; C06_defaults_spec shows they are these. *)
Definition spec_default_scalar (p : proto_type) : val :=
  match p with
  | TYPE_STRING | TYPE_BYTES => VB []
  | _ => VI 0
  end.

Definition spec_default_field (dm : nat -> val) (f : field) : val :=
  match f with
  | FSingular _ (TScalar p) => spec_default_scalar p
  | FSingular _ (TMsg j) => dm j
  | FOptional _ _ => VL NNone []
  | FRepeated _ _ => VL NRep []
  | FMap _ _ _ => VL NMap []
  | FOneof _ => VL NNone []
  end.

Fixpoint spec_default_msg (d : nat) (sc : schema) (i : nat) : val :=
  match d with
  | O => VL NMsg []
  | S d' => match nth_error sc i with
            | Some fs => VL NMsg (map (spec_default_field (spec_default_msg d' sc)) fs)
            | None => VL NMsg []
            end
  end.
