(* Model runner of the protobuf family: one case per input line, one result per output line.
   Hand-written glue (trusted): parsing of case lines, printing.  The behaviour comes from the
   extracted model (model.ml) only.
     runner [--schema <file>] [--edv]
   Codec-level lines: vi ve key dkey enc encr encp mrg mrgr skip ld
   Message-level lines (need --schema): dec decq merge declen lendelim
     grp <idx> <opt|~> <req> <many|~> <tail> / grpdec <idx> <hex>   the group codec through GroupMsg.gh_* (as pv-gen-pb)
     own <idx> <hex>   the ownership model (Own.own_decode / own_wrapper_decode):
                       ok|err|panic H<live heap blocks> R<live handles on the input> T<handles of empty tail slices> when decode has returned
                       (ok: what the returned value holds), B<number of places in the value where the Rust type may
                       be a Box: message values not inside a Vec / map> *)
open Model
open Util

let wt_of_int = function
  | 0 -> Varint | 1 -> SixtyFourBit | 2 -> LengthDelimited | 3 -> StartGroup | 4 -> EndGroup | 5 -> ThirtyTwoBit
  | _ -> failwith "bad wire type"
let int_of_wt = function
  | Varint -> 0 | SixtyFourBit -> 1 | LengthDelimited -> 2 | StartGroup -> 3 | EndGroup -> 4 | ThirtyTwoBit -> 5

let module_of_name = function
  | "bool" -> MBool | "int32" -> MInt32 | "int64" -> MInt64 | "uint32" -> MUInt32 | "uint64" -> MUInt64
  | "sint32" -> MSInt32 | "sint64" -> MSInt64 | "float" -> MFloat | "double" -> MDouble
  | "fixed32" -> MFixed32 | "fixed64" -> MFixed64 | "sfixed32" -> MSFixed32 | "sfixed64" -> MSFixed64
  | "string" -> MString | "faststr" -> MFastStr | "bytes" -> MBytes | "bytesvec" -> MBytes
  | s -> failwith ("unknown module " ^ s)

let decl_of_name = function
  | "double" -> TYPE_DOUBLE | "float" -> TYPE_FLOAT | "int64" -> TYPE_INT64 | "uint64" -> TYPE_UINT64
  | "int32" -> TYPE_INT32 | "fixed64" -> TYPE_FIXED64 | "fixed32" -> TYPE_FIXED32 | "bool" -> TYPE_BOOL
  | "string" -> TYPE_STRING | "bytes" -> TYPE_BYTES | "uint32" -> TYPE_UINT32 | "enum" -> TYPE_ENUM
  | "sfixed32" -> TYPE_SFIXED32 | "sfixed64" -> TYPE_SFIXED64 | "sint32" -> TYPE_SINT32 | "sint64" -> TYPE_SINT64
  | s -> failwith ("unknown declared type " ^ s)

let string_of_perr = function
  | PVarint -> "varint" | PKey -> "key" | PWireTypeValue -> "wiretypevalue" | PTagZero -> "tagzero"
  | PWireType -> "wiretype" | PUnderflow -> "underflow" | PDelimited -> "delimited" | PEndGroup -> "endgroup"
  | PRecursion -> "recursion" | PUtf8 -> "utf8" | PLenUsize -> "lenusize" | POutOfFuel -> "OUTOFFUEL"
  | PIllTyped -> "ILLTYPED"

let string_of_psite = function
  | SAssertSlice -> "AssertSlice" | SGetUnchecked -> "GetUnchecked" | SArithOverflow -> "ArithOverflow"
  | SEnterRecursion -> "EnterRecursion" | SOneofTag -> "OneofTag" | SAdvance -> "Advance"
  | SDebugAssertTag -> "DebugAssertTag"

let rec int_of_nat = function O -> 0 | S n -> 1 + int_of_nat n

(* ---- values *)
let rec print_val buf (v : val0) =
  let add = Buffer.add_string buf in
  match v with
  | VI z -> add "i"; add (string_of_z z)
  | VB l -> add "b"; add (hex_of_bytes l)
  | VL (NMsg, xs) -> add "{"; List.iter (fun x -> add " "; print_val buf x) xs; add " }"
  | VL (NNone, _) -> add "N"
  | VL (NSome, [x]) -> add "S "; print_val buf x
  | VL (NRep, xs) -> add "["; List.iter (fun x -> add " "; print_val buf x) xs; add " ]"
  | VL (NMap, es) ->
    add "<";
    List.iter (fun e -> match e with
        | VL (NPair, [k; x]) -> add " "; print_val buf k; add " "; print_val buf x
        | _ -> add " ?") es;
    add " >"
  | VL (NOne i, [x]) -> add "O"; add (string_of_int (int_of_nat i)); add " "; print_val buf x
  | VL (_, _) -> add "?"

let string_of_val v = let b = Buffer.create 64 in print_val b v; Buffer.contents b

let rec parse_val (t : toks) : val0 =
  let tok = next t in
  let n = String.length tok in
  if n = 0 then failwith "empty value token" else
  match tok.[0] with
  | 'i' -> VI (z_of_string (String.sub tok 1 (n - 1)))
  | 'b' -> VB (bytes_of_hex (String.sub tok 1 (n - 1)))
  | '{' -> VL (NMsg, parse_until t "}")
  | '[' -> VL (NRep, parse_until t "]")
  | 'N' -> VL (NNone, [])
  | 'S' -> VL (NSome, [parse_val t])
  | 'O' -> let i = int_of_string (String.sub tok 1 (n - 1)) in VL (NOne (nat_of_int i), [parse_val t])
  | '<' ->
    let rec go acc =
      match t.rest with
      | ">" :: r -> t.rest <- r; List.rev acc
      | _ -> let k = parse_val t in let v = parse_val t in go (VL (NPair, [k; v]) :: acc) in
    VL (NMap, go [])
  | _ -> failwith ("bad value token " ^ tok)
and parse_until t close =
  let rec go acc =
    match t.rest with
    | x :: r when x = close -> t.rest <- r; List.rev acc
    | [] -> failwith "unterminated value"
    | _ -> go (parse_val t :: acc) in
  go []

let rest_vals t = let rec go acc = if t.rest = [] then List.rev acc else go (parse_val t :: acc) in go []

(* ---- schema file *)
let parse_ty s =
  if String.length s > 1 && s.[0] = 'M' && s.[1] >= '0' && s.[1] <= '9' then
    TMsg (nat_of_int (int_of_string (String.sub s 1 (String.length s - 1))))
  else TScalar (decl_of_name s)

(* well-known wrapper pseudo messages (pilota/src/prost/types.rs): global index -> codec module *)
let wrappers : (int * codec_module option) list ref = ref []

let parse_schema_line (line : string) : field list =
  let t = { rest = List.filter (fun s -> s <> "") (String.split_on_char ' ' (String.trim line)) } in
  (match next t with "M" -> () | _ -> failwith "schema line must start with M");
  let idx = next_int t in
  let nf = next_int t in
  if nf = 1 && (match t.rest with "w" :: _ -> true | _ -> false) then begin
    (* M <idx> 1 w 1 <module> : the value is the bare scalar *)
    ignore (next t); ignore (next_z t);
    wrappers := (idx, Some (module_of_name (next t))) :: !wrappers;
    []
  end else
  let rec fields k acc =
    if k = 0 then List.rev acc else
    let f = match next t with
      | "s" -> let tag = next_z t in FSingular (tag, parse_ty (next t))
      | "o" -> let tag = next_z t in FOptional (tag, parse_ty (next t))
      | "r" -> let tag = next_z t in FRepeated (tag, parse_ty (next t))
      | "m" -> let tag = next_z t in let k = decl_of_name (next t) in FMap (tag, k, parse_ty (next t))
      | "u" -> let n = next_int t in
        let rec ms j acc = if j = 0 then List.rev acc else
            let tag = next_z t in let ty = parse_ty (next t) in ms (j - 1) ((tag, ty) :: acc) in
        FOneof (ms n [])
      | s -> failwith ("bad field kind " ^ s) in
    fields (k - 1) (f :: acc) in
  fields nf []

let schema : field list list ref = ref []
let edv = ref false

let load_schema path =
  let ic = open_in path in
  let acc = ref [] in
  (try while true do
       let l = input_line ic in
       if String.trim l <> "" then acc := parse_schema_line l :: !acc
     done with End_of_file -> ());
  close_in ic;
  schema := List.rev !acc

(* ---- running *)
let big_fuel = nat_of_int 400
let mk bytes = { rb = bytes; ra = Z0 }
let rem_of s = List.length s.rb

let out_m (r : 'a out) (show : 'a -> rd -> string) : string =
  match r with
  | OOk (a, s) -> "OK " ^ show a s ^ " A" ^ string_of_z s.ra
  | OErr (e, s) -> "ERR " ^ string_of_perr e ^ " A" ^ string_of_z s.ra
  | OPanic p -> "PANIC " ^ string_of_psite p

let vres_str = function
  | Inl (Some (v, rest)) -> Printf.sprintf "OK %s R%d" (string_of_z v) (List.length rest)
  | Inl None -> "ERR varint"
  | Inr p -> "PANIC " ^ string_of_psite p

let cmd_vi t =
  let bytes = bytes_of_hex (next t) in
  let main = vres_str (decode_varint_b bytes) in
  let slow = vres_str (decode_varint_slow_b bytes) in
  let n = List.length bytes in
  let chunks = List.filter (fun c -> c >= 1 && c <= n) [1; 2; 5; 9; 10; 11] in
  let bad = List.exists (fun c -> vres_str (decode_varint_chunk_b (nat_of_int c) bytes) <> main) chunks in
  if slow <> main || bad then "MODEL-PATHS-DISAGREE " ^ main ^ " / " ^ slow else main

let cmd_ve t =
  let v = next_z t in
  Printf.sprintf "%s L%s" (hex_of_bytes (encode_varint v)) (string_of_z (encoded_len_varint v))

let cmd_key t =
  let tag = next_z t in
  let wt = wt_of_int (next_int t) in
  match encode_key_dbg tag wt with
  | Inl bs -> Printf.sprintf "%s L%s" (hex_of_bytes bs) (string_of_z (key_len tag))
  | Inr p -> "PANIC " ^ string_of_psite p

let cmd_dkey t =
  let bytes = bytes_of_hex (next t) in
  out_m (decode_key (mk bytes)) (fun (tag, wt) s -> Printf.sprintf "%s %d R%d" (string_of_z tag) (int_of_wt wt) (rem_of s))

let cmd_enc t =
  let m = module_of_name (next t) in
  let tag = next_z t in
  let v = parse_val t in
  Printf.sprintf "%s L%s" (hex_of_bytes (encode_scalar m tag v)) (string_of_z (encoded_len_scalar m tag v))

let cmd_encr t =
  let m = module_of_name (next t) in
  let tag = next_z t in
  let vs = rest_vals t in
  Printf.sprintf "%s L%s" (hex_of_bytes (encode_repeated m tag vs)) (string_of_z (encoded_len_repeated m tag vs))

let cmd_encp t =
  let m = module_of_name (next t) in
  let tag = next_z t in
  let vs = rest_vals t in
  Printf.sprintf "%s L%s" (hex_of_bytes (encode_packed m tag vs)) (string_of_z (encoded_len_packed m tag vs))

let cmd_mrg t =
  let m = module_of_name (next t) in
  let wt = wt_of_int (next_int t) in
  let bytes = bytes_of_hex (next t) in
  out_m (merge_scalar m wt (mk bytes)) (fun v s -> Printf.sprintf "%s R%d" (string_of_val v) (rem_of s))

let cmd_mrgr t =
  let m = module_of_name (next t) in
  let wt = wt_of_int (next_int t) in
  let bytes = bytes_of_hex (next t) in
  out_m (merge_repeated m wt [] (mk bytes))
    (fun vs s -> Printf.sprintf "%s R%d" (string_of_val (VL (NRep, vs))) (rem_of s))

let cmd_skip t =
  let wt = wt_of_int (next_int t) in
  let tag = next_z t in
  let bytes = bytes_of_hex (next t) in
  out_m (skip_field depth_fuel wt tag ctx_default (mk bytes)) (fun () s -> Printf.sprintf "R%d" (rem_of s))

let cmd_ld t =
  let bytes = bytes_of_hex (next t) in
  out_m (decode_length_delimiter (mk bytes)) (fun v _ -> string_of_z v)

let cmd_lendelim t =
  let bytes = bytes_of_hex (next t) in
  out_m (decode_length_delimiter (mk bytes)) (fun v _ -> "L" ^ string_of_z v)

let show_msg i v _s =
  let e = enc_msg !edv big_fuel !schema i v in
  let l = len_msg !edv big_fuel !schema i v in
  Printf.sprintf "%s L%s E%s" (string_of_val v) (string_of_z l) (hex_of_bytes e)

let show_wrapper m v _s =
  Printf.sprintf "%s L%s E%s" (string_of_val v) (string_of_z (wrapper_len m v)) (hex_of_bytes (wrapper_enc m v))

let cmd_dec t =
  let ii = next_int t in
  let i = nat_of_int ii in
  let bytes = bytes_of_hex (next t) in
  match List.assoc_opt ii !wrappers with
  | Some m -> out_m (wrapper_decode m (mk bytes)) (show_wrapper m)
  | None -> out_m (msg_decode !schema i (mk bytes)) (show_msg i)

let cmd_declen t =
  let ii = next_int t in
  let i = nat_of_int ii in
  let bytes = bytes_of_hex (next t) in
  match List.assoc_opt ii !wrappers with
  | Some m -> out_m (wrapper_decode_length_delimited m (mk bytes)) (show_wrapper m)
  | None -> out_m (msg_decode_length_delimited !schema i (mk bytes)) (show_msg i)

let cmd_merge t =
  let ii = next_int t in
  let i = nat_of_int ii in
  let b1 = bytes_of_hex (next t) in
  let b2 = bytes_of_hex (next t) in
  match List.assoc_opt ii !wrappers with
  | Some m ->
    (match wrapper_decode m (mk b1) with
     | OOk (v, s) -> out_m (wrapper_merge m v { rb = b2; ra = s.ra }) (show_wrapper m)
     | r -> out_m r (show_wrapper m))
  | None ->
    match msg_decode !schema i (mk b1) with
    | OOk (v, s) -> out_m (msg_merge !schema i v { rb = b2; ra = s.ra }) (show_msg i)
    | r -> out_m r (show_msg i)

(* ---- the group codec through the model of the harness's GroupHolder<M> (GroupMsg.v) *)
let holder_parts i (h : val0) : string =
  let e v = hex_of_bytes (enc_msg !edv big_fuel !schema i v) in
  match h with
  | VL (NMsg, [o; r; VL (NRep, ms); VI t]) ->
    let opt = (match o with VL (NSome, [v]) -> e v | _ -> "~") in
    let many = if ms = [] then "~" else String.concat "," (List.map e ms) in
    Printf.sprintf "%s %s %s %s" opt (e r) many (string_of_z t)
  | _ -> "?"

let cmd_grp t =
  let ii = next_int t in
  let i = nat_of_int ii in
  let part s = match msg_decode !schema i (mk (bytes_of_hex s)) with
    | OOk (v, _) -> v
    | _ -> failwith "a part does not decode" in
  let o = (match next t with "~" -> VL (NNone, []) | s -> VL (NSome, [part s])) in
  let r = part (next t) in
  let ms = (match next t with "~" -> [] | s -> List.map part (String.split_on_char ',' s)) in
  let tail = next_z t in
  let h = VL (NMsg, [o; r; VL (NRep, ms); VI tail]) in
  let e = gh_enc !schema i !edv big_fuel h in
  let l = gh_len !schema i !edv big_fuel h in
  let back = (match gh_decode !schema i (mk e) with
      | OOk (h2, _) -> holder_parts i h2
      | OErr (er, _) -> "ERR " ^ string_of_perr er
      | OPanic p -> "PANIC " ^ string_of_psite p) in
  Printf.sprintf "OK L%s E%s I %s B %s" (string_of_z l) (hex_of_bytes e) (holder_parts i h) back

let cmd_grpdec t =
  let ii = next_int t in
  let i = nat_of_int ii in
  let bytes = bytes_of_hex (next t) in
  out_m (gh_decode !schema i (mk bytes))
    (fun h _ -> Printf.sprintf "L%s E%s B %s" (string_of_z (gh_len !schema i !edv big_fuel h))
        (hex_of_bytes (gh_enc !schema i !edv big_fuel h)) (holder_parts i h))

(* message values at positions where the generated struct may hold a Box (upper bound for the blocks the model does not count) *)
let rec boxable (inside : bool) (v : val0) : int =
  match v with
  | VL (NMsg, xs) -> (if inside then 1 else 0) + List.fold_left (fun a x -> a + boxable true x) 0 xs
  | VL (NSome, xs) | VL (NOne _, xs) -> List.fold_left (fun a x -> a + boxable true x) 0 xs
  | VL (NRep, xs) -> List.fold_left (fun a x -> a + boxable false x) 0 xs
  | VL (NMap, es) -> List.fold_left (fun a e -> match e with VL (NPair, [_; x]) -> a + boxable false x | _ -> a) 0 es
  | _ -> 0

let cmd_own t =
  let ii = next_int t in
  let i = nat_of_int ii in
  let bytes = bytes_of_hex (next t) in
  let (r, l) = match List.assoc_opt ii !wrappers with
    | Some m -> own_wrapper_decode m (mk bytes)
    | None -> own_decode !schema i (mk bytes) in
  let hr = Printf.sprintf "H%s R%s T%s" (string_of_z l.l_heap) (string_of_z l.l_refs) (string_of_z l.l_tail) in
  match r with
  | OOk (v, _) -> Printf.sprintf "ok %s B%d" hr (boxable false v)
  | OErr (e, _) -> Printf.sprintf "err %s %s" hr (string_of_perr e)
  | OPanic p -> Printf.sprintf "panic %s %s" hr (string_of_psite p)

(* encode a given value of message #i: the model's encode_raw / encoded_len / typing *)
let cmd_encm t =
  let i = nat_of_int (next_int t) in
  let v = parse_val t in
  let ok = wt_msg big_fuel !schema i v in
  Printf.sprintf "%s L%s T%d" (hex_of_bytes (enc_msg !edv big_fuel !schema i v))
    (string_of_z (len_msg !edv big_fuel !schema i v)) (if ok then 1 else 0)

(* round trips: encode, append trailing bytes, decode_key, merge *)
let cmd_rt t =
  let m = module_of_name (next t) in
  let tag = next_z t in
  let trail = bytes_of_hex (next t) in
  let v = parse_val t in
  let e = encode_scalar m tag v in
  let head = Printf.sprintf "%s L%s " (hex_of_bytes e) (string_of_z (encoded_len_scalar m tag v)) in
  head ^ out_m (bind decode_key (fun (tg, wt) -> bind (merge_scalar m wt) (fun v -> ret ((tg, wt), v))) (mk (e @ trail)))
    (fun ((tg, wt), v) s -> Printf.sprintf "K%s,%d %s R%d" (string_of_z tg) (int_of_wt wt) (string_of_val v) (rem_of s))

let rec merge_n m n vs : val0 list m =
  if n = 0 then ret vs else
  bind decode_key (fun (_, wt) -> bind (merge_repeated m wt vs) (fun vs' -> merge_n m (n - 1) vs'))

let cmd_rtr t =
  let m = module_of_name (next t) in
  let tag = next_z t in
  let trail = bytes_of_hex (next t) in
  let vs = rest_vals t in
  let e = encode_repeated m tag vs in
  let head = Printf.sprintf "%s L%s " (hex_of_bytes e) (string_of_z (encoded_len_repeated m tag vs)) in
  head ^ out_m (merge_n m (List.length vs) [] (mk (e @ trail)))
    (fun vs s -> Printf.sprintf "%s R%d" (string_of_val (VL (NRep, vs))) (rem_of s))

let cmd_rtp t =
  let m = module_of_name (next t) in
  let tag = next_z t in
  let trail = bytes_of_hex (next t) in
  let vs = rest_vals t in
  let e = encode_packed m tag vs in
  let head = Printf.sprintf "%s L%s " (hex_of_bytes e) (string_of_z (encoded_len_packed m tag vs)) in
  head ^ out_m (merge_n m (if vs = [] then 0 else 1) [] (mk (e @ trail)))
    (fun vs s -> Printf.sprintf "%s R%d" (string_of_val (VL (NRep, vs))) (rem_of s))

let suites : (string * (toks -> string)) list = [
  "vi", cmd_vi; "ve", cmd_ve; "key", cmd_key; "dkey", cmd_dkey; "enc", cmd_enc; "encr", cmd_encr;
  "encp", cmd_encp; "mrg", cmd_mrg; "mrgr", cmd_mrgr; "skip", cmd_skip; "ld", cmd_ld; "lendelim", cmd_lendelim;
  "rt", cmd_rt; "rtr", cmd_rtr; "rtp", cmd_rtp;
  "dec", cmd_dec; "decq", cmd_dec; "declen", cmd_declen; "merge", cmd_merge; "encm", cmd_encm; "own", cmd_own; "grp", cmd_grp; "grpdec", cmd_grpdec ]

let () =
  let args = Array.to_list Sys.argv |> List.tl in
  let rec parse = function
    | "--schema" :: p :: r -> load_schema p; parse r
    | "--edv" :: r -> edv := true; parse r
    | _ :: r -> parse r
    | [] -> () in
  parse args;
  (try
     while true do
       let line = input_line stdin in
       let out =
         match List.filter (fun s -> s <> "") (String.split_on_char ' ' (String.trim line)) with
         | [] -> ""
         | suite :: rest ->
           (try
              let f = List.assoc suite suites in
              f { rest = rest }
            with
            | Not_found -> "BADCASE unknown suite " ^ suite
            | Failure m -> "BADCASE " ^ m
            | Stack_overflow -> "BADCASE stack overflow"
            | Invalid_argument m -> "BADCASE " ^ m)
       in
       print_string out; print_char '\n'
     done
   with End_of_file -> ());
  flush stdout
