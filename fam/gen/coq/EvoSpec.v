(* Specification side of C08 (schema evolution): what a tolerant reader with schema S must make of a
   self-describing value tree (PV.Thrift.Value.tval).  A tval is what ANY writer schema produces -- field ids and
   wire types are in the tree, names and declared types are not -- so quantifying over all well-typed tvals of wire
   type Struct subsumes "all writer schemas obtained by adding / removing / retyping / reordering fields and
   variants".  Executable Gallina only (no proofs); no bytes, protocols, contexts or skipping occur here.

     view S t v            the value the reader must produce (Err = the reader must fail)
     evo_dom S t v         v is in the domain of the property: container headers announce the wire type of the
                           declared element type (re-typing that keeps the container's wire type is not an evolution
                           any Thrift reader can notice, DESIGN.md 5.8) and ignored values nest at most
                           MAXIMUM_SKIP_DEPTH deep (C07: deeper ones are answered by DepthLimit)
     no_retyped_variant    no union variant the reader knows arrives with another wire type (finding F-08a)
     must_fail S t v       declarative reading of "a required field is absent or a union carries no / more than
                           one known variant", hereditarily along the known fields *)
From PVGen Require Export Gen GenSpec.
Open Scope Z_scope.

Section Evo.
  Variable S : schema.     (* the READER's schema *)

  (* the union variant a wire field (id, wire type) denotes for the reader: declared id, not the void `Ok`
     variant, and the declared type has this wire type *)
  Definition known_variant (vs : list (Z * ty)) (id : Z) (ft : ttype) : option ty :=
    match find_variant vs id with
    | Some vt => if is_void (resolve S vt) then None
                 else if ttype_eqb (ttype_of_ty S vt) ft then Some vt else None
    | None => None
    end.

  (* [match_field S dfs 0 (Some id) ft]: the declared field with this id AND this wire type (Gen.v; a pure
     lookup in the declaration list, characterised by find_field in Proofs/EvoViewP.v) *)

  Fixpoint view (t : ty) (v : tval) {struct v} : res gval :=
    match v with
    | VBool b => match resolve S t with TyBool => Ok (GBool b) | _ => Err EOther end
    | VI8 z => match resolve S t with TyI8 => Ok (GI8 z) | _ => Err EOther end
    | VI16 z => match resolve S t with TyI16 => Ok (GI16 z) | _ => Err EOther end
    | VI32 z =>
        match resolve S t with
        | TyI32 => Ok (GI32 z)
        | TyRef n => match lookup S n with Some (DEnum _) => Ok (GEnum z) | _ => Err EOther end   (* numbers kept as they are *)
        | _ => Err EOther
        end
    | VI64 z => match resolve S t with TyI64 => Ok (GI64 z) | _ => Err EOther end
    | VDouble b => match resolve S t with TyDouble => Ok (GDouble b) | _ => Err EOther end
    | VBinary l => match resolve S t with TyString | TyBinary => Ok (GBytes l) | _ => Err EOther end
    | VUuid l => match resolve S t with TyUuid => Ok (GUuid l) | _ => Err EOther end
    | VList _ l =>
        match resolve S t with
        | TyList et =>
            let* ys := (fix go (l : list tval) : res (list gval) :=
                          match l with
                          | [] => Ok []
                          | x :: r => let* y := view et x in let* ys := go r in Ok (y :: ys)
                          end) l in
            Ok (GList ys)
        | _ => Err EOther
        end
    | VSet _ l =>
        match resolve S t with
        | TySet et =>
            let* ys := (fix go (l : list tval) : res (list gval) :=
                          match l with
                          | [] => Ok []
                          | x :: r => let* y := view et x in let* ys := go r in Ok (y :: ys)
                          end) l in
            Ok (GSet ys)
        | _ => Err EOther
        end
    | VMap _ _ l =>
        match resolve S t with
        | TyMap kt vt =>
            let* ys := (fix go (l : list (tval * tval)) : res (list (gval * gval)) :=
                          match l with
                          | [] => Ok []
                          | (a, b) :: r =>
                              let* a' := view kt a in let* b' := view vt b in let* ys := go r in Ok ((a', b') :: ys)
                          end) l in
            Ok (GMap ys)
        | _ => Err EOther
        end
    | VStruct fs =>
        match resolve S t with
        | TyRef n =>
            match lookup S n with
            | Some (DStruct dfs _ _) =>
                (* wire fields in wire order; a field that is declared with this id and this wire type sets its
                   variable (a later occurrence replaces an earlier one), everything else is dropped *)
                let* vars :=
                  (fix go (fs : list (Z * tval)) (vars : list (option gval)) {struct fs} : res (list (option gval)) :=
                     match fs with
                     | [] => Ok vars
                     | (id, x) :: r =>
                         match match_field S dfs O (Some id) (ttype_of x) with
                         | Some (i, f) => let* y := view (f_ty f) x in go r (set_nth i (Some y) vars)
                         | None => go r vars
                         end
                     end) fs (map init_var dfs) in
                (* absent: IDL default, else empty (optional) or failure (required) *)
                let* out := finish_fields dfs vars in
                Ok (GStruct out [])
            | Some (DUnion vs void_ok _) =>
                let* ret :=
                  (fix go (fs : list (Z * tval)) (ret : option (Z * gval)) {struct fs} : res (option (Z * gval)) :=
                     match fs with
                     | [] => Ok ret
                     | (id, x) :: r =>
                         match known_variant vs id (ttype_of x) with
                         | Some vt =>
                             match ret with
                             | None => let* y := view vt x in go r (Some (id, y))
                             | Some _ => Err EInvalidData          (* more than one known variant *)
                             end
                         | None => go r ret
                         end
                     end) fs None in
                match ret with
                | Some (id, y) => Ok (GUnion id y)
                | None =>
                    if void_ok then
                      match vs with
                      | (id0, _) :: _ => Ok (GUnion id0 GVoid)     (* empty reply of a void method = success *)
                      | [] => Err EInvalidData
                      end
                    else Err EInvalidData                           (* no known variant *)
                end
            | _ => Err EOther
            end
        | _ => Err EOther
        end
    end.

  (* ---------- the domain of the property ---------- *)
  Section Walk.
    Variable on_drop : tval -> bool.     (* what is asked of a value the reader ignores *)
    Variable retyped_ok : bool.          (* may a union variant the reader knows arrive with another wire type? *)

    Fixpoint walk (t : ty) (v : tval) {struct v} : bool :=
      match v with
      | VList a l =>
          match resolve S t with
          | TyList et =>
              match l with [] => true | _ :: _ => ttype_eqb a (ttype_of_ty S et) end &&
              (fix go (l : list tval) : bool := match l with [] => true | x :: r => walk et x && go r end) l
          | _ => true
          end
      | VSet a l =>
          match resolve S t with
          | TySet et =>
              match l with [] => true | _ :: _ => ttype_eqb a (ttype_of_ty S et) end &&
              (fix go (l : list tval) : bool := match l with [] => true | x :: r => walk et x && go r end) l
          | _ => true
          end
      | VMap ka va l =>
          match resolve S t with
          | TyMap kt vt =>
              match l with [] => true | _ :: _ => ttype_eqb ka (ttype_of_ty S kt) && ttype_eqb va (ttype_of_ty S vt) end &&
              (fix go (l : list (tval * tval)) : bool :=
                 match l with [] => true | (a, b) :: r => walk kt a && walk vt b && go r end) l
          | _ => true
          end
      | VStruct fs =>
          match resolve S t with
          | TyRef n =>
              match lookup S n with
              | Some (DStruct dfs _ _) =>
                  (fix go (fs : list (Z * tval)) : bool :=
                     match fs with
                     | [] => true
                     | (id, x) :: r =>
                         match match_field S dfs O (Some id) (ttype_of x) with
                         | Some (_, f) => walk (f_ty f) x
                         | None => on_drop x
                         end && go r
                     end) fs
              | Some (DUnion vs _ _) =>
                  (fix go (fs : list (Z * tval)) : bool :=
                     match fs with
                     | [] => true
                     | (id, x) :: r =>
                         match find_variant vs id with
                         | Some vt =>
                             if is_void (resolve S vt) then on_drop x
                             else if ttype_eqb (ttype_of_ty S vt) (ttype_of x) then walk vt x
                                  else retyped_ok && on_drop x
                         | None => on_drop x
                         end && go r
                     end) fs
              | _ => true
              end
          | _ => true
          end
      | _ => true
      end.
  End Walk.

  Definition skippable (x : tval) : bool := Nat.leb (vdepth x) maximum_skip_depth_nat.
  Definition evo_dom : ty -> tval -> bool := walk skippable true.
  Definition no_retyped_variant : ty -> tval -> bool := walk (fun _ => true) false.

  (* ---------- the error conditions, declaratively ---------- *)
  (* a wire field carries the declared field f: same id, same wire type *)
  Definition carries (f : field) (q : Z * tval) : bool :=
    (f_id f =? fst q) && ttype_eqb (ttype_of_ty S (f_ty f)) (ttype_of (snd q)).

  (* every required field without IDL default is carried by some wire field *)
  Definition required_present (dfs : list field) (fs : list (Z * tval)) : bool :=
    forallb (fun f => match f_req f, f_dflt f with
                      | Required, None => existsb (carries f) fs
                      | _, _ => true
                      end) dfs.

  (* number of wire fields that denote a known variant *)
  Definition known_count (vs : list (Z * ty)) (fs : list (Z * tval)) : nat :=
    length (filter (fun q => match known_variant vs (fst q) (ttype_of (snd q)) with Some _ => true | None => false end) fs).

  Fixpoint must_fail (t : ty) (v : tval) {struct v} : bool :=
    match v with
    | VList _ l =>
        match resolve S t with
        | TyList et => (fix go (l : list tval) : bool := match l with [] => false | x :: r => must_fail et x || go r end) l
        | _ => false
        end
    | VSet _ l =>
        match resolve S t with
        | TySet et => (fix go (l : list tval) : bool := match l with [] => false | x :: r => must_fail et x || go r end) l
        | _ => false
        end
    | VMap _ _ l =>
        match resolve S t with
        | TyMap kt vt =>
            (fix go (l : list (tval * tval)) : bool :=
               match l with [] => false | (a, b) :: r => must_fail kt a || must_fail vt b || go r end) l
        | _ => false
        end
    | VStruct fs =>
        match resolve S t with
        | TyRef n =>
            match lookup S n with
            | Some (DStruct dfs _ _) =>
                (* a known field's value must fail, or a required field is absent *)
                (fix go (fs : list (Z * tval)) : bool :=
                   match fs with
                   | [] => false
                   | (id, x) :: r =>
                       match match_field S dfs O (Some id) (ttype_of x) with
                       | Some (_, f) => must_fail (f_ty f) x
                       | None => false
                       end || go r
                   end) fs
                || negb (required_present dfs fs)
            | Some (DUnion vs void_ok _) =>
                (* more than one known variant; none (unless the reply of a void method); or the one must fail *)
                Nat.leb 2 (known_count vs fs)
                || (Nat.eqb (known_count vs fs) 0 && negb (void_ok && match vs with [] => false | _ :: _ => true end))
                || (fix go (fs : list (Z * tval)) : bool :=
                      match fs with
                      | [] => false
                      | (id, x) :: r =>
                          match known_variant vs id (ttype_of x) with
                          | Some vt => must_fail vt x
                          | None => false
                          end || go r
                      end) fs
            | _ => false
            end
        | _ => false
        end
    | _ => false
    end.
End Evo.

(* ---------- the Ok side, declaratively (independent of the decoder model's match_field / init_var / finish_fields) ----------
   per declared field: the LAST wire field with its id and its declared wire type, viewed at the declared type; else the
   IDL default; else nothing *)
Section Declarative.
  Variable S : schema.

  Fixpoint last_carried (f : field) (fs : list (Z * tval)) : option tval :=
    match fs with
    | [] => None
    | q :: r =>
        match last_carried f r with
        | Some x => Some x
        | None => if carries S f q then Some (snd q) else None
        end
    end.

  Definition decl_field (fs : list (Z * tval)) (f : field) : list (Z * gval) :=
    match last_carried f fs with
    | Some x => match view S (f_ty f) x with Ok y => [(f_id f, y)] | _ => [] end
    | None => match f_dflt f with Some (_, d) => [(f_id f, d)] | None => [] end
    end.
End Declarative.

(* result of a decoder that must produce [o] and stop in state [s] *)
Definition lift_view {A} (o : res A) (s : rst) : res (A * rst) :=
  match o with
  | Ok x => Ok (x, s)
  | Err e => Err e
  | Panic q => Panic q
  end.
