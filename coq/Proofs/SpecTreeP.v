(* C03, reference -> pilota over WHOLE TREES: every spec-legal encoding of a well-typed value -- the
   independent encoder of Thrift/Spec.v run with ANY choice at every point the Apache specifications
   leave to the writer (any non-zero byte for a binary `true`; compact field headers in long form
   where the short one would fit and in short form for delta 15; long-form list / set headers for
   sizes <= 14; bool element type 1 or 2 in collection and map headers; the one-byte empty map) --
   is read back by pilota's reader to exactly that value, consuming exactly the encoding.
   The annotated tree [sval] IS the choice oracle: [sp p sv] for all [sv] with [erase sv = v]
   enumerates the legal encodings of [v] ([legal] below). *)
From PV Require Import Thrift.Spec Thrift.Interp Thrift.Msg Thrift.Skip
  Proofs.VarintP Proofs.TablesP Proofs.PrimP Proofs.HeaderP Proofs.RoundtripP Proofs.LenP Proofs.SpecP.
From Coq Require Import ZifyN ZifyNat ZifyBool.
Open Scope Z_scope.

(* induction principle for the nested type *)
Section sval_ind.
  Variable P : sval -> Prop.
  Hypothesis Hbool : forall b tb, P (SBool b tb).
  Hypothesis Hi8 : forall z, P (SI8 z).
  Hypothesis Hi16 : forall z, P (SI16 z).
  Hypothesis Hi32 : forall z, P (SI32 z).
  Hypothesis Hi64 : forall z, P (SI64 z).
  Hypothesis Hdouble : forall z, P (SDouble z).
  Hypothesis Hbinary : forall l, P (SBinary l).
  Hypothesis Huuid : forall l, P (SUuid l).
  Hypothesis Hstruct : forall fs, Forall (fun q => P (snd q)) fs -> P (SStruct fs).
  Hypothesis Hlist : forall et lg b2 l, Forall P l -> P (SList et lg b2 l).
  Hypothesis Hset : forall et lg b2 l, Forall P l -> P (SSet et lg b2 l).
  Hypothesis Hmap : forall kt vt kb vb l, Forall (fun q => P (fst q) /\ P (snd q)) l -> P (SMap kt vt kb vb l).

  Fixpoint sval_ind' (v : sval) : P v :=
    match v with
    | SBool b tb => Hbool b tb | SI8 z => Hi8 z | SI16 z => Hi16 z | SI32 z => Hi32 z | SI64 z => Hi64 z
    | SDouble z => Hdouble z | SBinary l => Hbinary l | SUuid l => Huuid l
    | SStruct fs => Hstruct fs
        ((fix go (fs : list (Z * bool * sval)) : Forall (fun q => P (snd q)) fs :=
            match fs with
            | [] => Forall_nil _
            | (i, lg, x) :: t => Forall_cons (i, lg, x) (sval_ind' x) (go t)
            end) fs)
    | SList et lg b2 l => Hlist et lg b2 l
        ((fix go (l : list sval) : Forall P l :=
            match l with [] => Forall_nil _ | x :: t => Forall_cons x (sval_ind' x) (go t) end) l)
    | SSet et lg b2 l => Hset et lg b2 l
        ((fix go (l : list sval) : Forall P l :=
            match l with [] => Forall_nil _ | x :: t => Forall_cons x (sval_ind' x) (go t) end) l)
    | SMap kt vt kb vb l => Hmap kt vt kb vb l
        ((fix go (l : list (sval * sval)) : Forall (fun q => P (fst q) /\ P (snd q)) l :=
            match l with
            | [] => Forall_nil _
            | (k, x) :: t => Forall_cons (k, x) (conj (sval_ind' k) (sval_ind' x)) (go t)
            end) l)
    end.
End sval_ind.

(* ------------------------------------------------------------------ *)
(* the encoder, by parts *)
Definition efs (fs : list (Z * bool * sval)) : list (Z * tval) := map (fun '(i, _, x) => (i, erase x)) fs.
Definition eps (l : list (sval * sval)) : list (tval * tval) := map (fun '(a, b) => (erase a, erase b)) l.

Definition selems (p : pk) (l : list sval) : list byte :=
  match p with PCompact => sencC_elems l | _ => sencB_elems l end.
Definition spairs (p : pk) (l : list (sval * sval)) : list byte :=
  match p with PCompact => sencC_pairs l | _ => sencB_pairs l end.
Definition sfields (p : pk) (last : Z) (fs : list (Z * bool * sval)) : list byte :=
  match p with PCompact => sencC_fields last fs | _ => sencB_fields fs end.
Definition field_bytes (p : pk) (last : Z) (q : Z * bool * sval) : list byte :=
  let '(id, long, x) := q in
  match p with
  | PCompact =>
      match x with
      | SBool b _ => s_fhdr last id long (if b then 1 else 2)
      | _ => s_fhdr last id long (oz (spec_ctype (stype x))) ++ sencC x
      end
  | _ => z2b (oz (spec_btype (stype x))) :: s_i 2 16 id ++ sencB x
  end.
Definition shdr_coll (p : pk) (et : ttype) (long b2 : bool) (n : Z) : list byte :=
  match p with
  | PCompact => s_lhdr n long (s_etype et b2)
  | _ => z2b (oz (spec_btype et)) :: s_i 4 32 n
  end.
Definition shdr_map (p : pk) (kt vt : ttype) (kb2 vb2 : bool) (n : Z) : list byte :=
  match p with
  | PCompact => if n =? 0 then [x00] else s_uv n ++ [z2b (s_etype kt kb2 * 16 + s_etype vt vb2)]
  | _ => z2b (oz (spec_btype kt)) :: z2b (oz (spec_btype vt)) :: s_i 4 32 n
  end.

Lemma sp_struct p fs : sp p (SStruct fs) = sfields p 0 fs.
Proof. destruct p; cbn [sp sfields]; try apply sencB_struct; apply sencC_struct. Qed.
Lemma sp_list p et lg b2 l : sp p (SList et lg b2 l) = shdr_coll p et lg b2 (Z.of_nat (length l)) ++ selems p l.
Proof. destruct p; reflexivity. Qed.
Lemma sp_set p et lg b2 l : sp p (SSet et lg b2 l) = shdr_coll p et lg b2 (Z.of_nat (length l)) ++ selems p l.
Proof. destruct p; reflexivity. Qed.
Lemma sp_map p kt vt kb vb l : sp p (SMap kt vt kb vb l) = shdr_map p kt vt kb vb (Z.of_nat (length l)) ++ spairs p l.
Proof.
  destruct p; try reflexivity. cbn [sp sencC shdr_map spairs]. rewrite sencC_pairs_eq.
  destruct l as [|q t]; [reflexivity|]. cbn [length]. replace (Z.of_nat (S (length t)) =? 0) with false by lia.
  rewrite <- app_assoc. reflexivity.
Qed.
Lemma sfields_nil p last : sfields p last [] = [x00].
Proof. destruct p; reflexivity. Qed.
Lemma sfields_cons p last id lg x t :
  sfields p last ((id, lg, x) :: t) = field_bytes p last (id, lg, x) ++ sfields p id t.
Proof.
  destruct p; cbn [sfields field_bytes sencB_fields sencC_fields].
  1,2: cbn [app]; rewrite <- app_assoc; reflexivity.
  destruct x; rewrite <- ?app_assoc; reflexivity.
Qed.
Lemma selems_cons p x t : selems p (x :: t) = sp p x ++ selems p t.
Proof. destruct p; reflexivity. Qed.
Lemma spairs_cons p a b t : spairs p ((a, b) :: t) = sp p a ++ sp p b ++ spairs p t.
Proof. destruct p; reflexivity. Qed.

(* ------------------------------------------------------------------ *)
(* every encoding is at least one byte (what makes an announced size <= the remaining input) *)
Lemma s_fhdr_len last id long t : (1 <= length (s_fhdr last id long t))%nat.
Proof. unfold s_fhdr. destruct (_ && _); cbn [length]; lia. Qed.
Lemma s_uv_len n : (1 <= length (s_uv n))%nat.
Proof. apply enc_var_len_pos. Qed.

Lemma sp_len_pos p x : wt (erase x) = true -> (1 <= length (sp p x))%nat.
Proof.
  intros Hwt.
  assert (HB : (1 <= length (sencB x))%nat).
  { destruct x as [b tb|z|z|z|z|z|l|l|fs|et lg b2 l|et lg b2 l|kt vt kb vb l]; cbn [sencB].
    - cbn [length]; lia.
    - cbn [length]; lia.
    - unfold s_i. rewrite be_bytes_length. lia.
    - unfold s_i. rewrite be_bytes_length. lia.
    - unfold s_i. rewrite be_bytes_length. lia.
    - rewrite be_bytes_length. lia.
    - unfold s_i. rewrite app_length, be_bytes_length. lia.
    - cbn [erase wt] in Hwt. apply Nat.eqb_eq in Hwt. lia.
    - destruct fs as [|[[i lg] y] t]; cbn [length]; lia.
    - cbn [length]; lia.
    - cbn [length]; lia.
    - cbn [length]; lia. }
  assert (HC : (1 <= length (sencC x))%nat).
  { destruct x as [b tb|z|z|z|z|z|l|l|fs|et lg b2 l|et lg b2 l|kt vt kb vb l]; cbn [sencC].
    - cbn [length]; lia.
    - cbn [length]; lia.
    - apply enc_var_len_pos.
    - apply enc_var_len_pos.
    - apply enc_var_len_pos.
    - rewrite le_bytes_length. lia.
    - rewrite app_length. pose proof (s_uv_len (Z.of_nat (length l))). lia.
    - cbn [erase wt] in Hwt. apply Nat.eqb_eq in Hwt. lia.
    - rewrite sencC_fields_eq. destruct fs as [|[[i lg] y] t]; cbn [sencC_fields length]; [lia|].
      destruct y; rewrite app_length;
        match goal with |- context [s_fhdr 0 i lg ?t] => pose proof (s_fhdr_len 0 i lg t) end; lia.
    - rewrite app_length. unfold s_lhdr. destruct (_ && _); cbn [length]; lia.
    - rewrite app_length. unfold s_lhdr. destruct (_ && _); cbn [length]; lia.
    - destruct l as [|q t]; cbn [length]; [lia|]. rewrite app_length. match goal with |- context [s_uv ?n] => pose proof (s_uv_len n) end. lia. }
  destruct p; assumption.
Qed.

(* ------------------------------------------------------------------ *)
(* the read-back statement for one annotated value *)
Definition SRB (p : pk) (x : sval) : Prop :=
  wt (erase x) = true ->
  forall fuel r rcx, (vsize (erase x) <= fuel)%nat -> idle rcx ->
    read_val p fuel (stype x) (mkS (sp p x ++ r) rcx) = Ok (canon p (erase x), mkS r rcx).

Ltac fuel1 fuel Hf := destruct fuel as [|fuel]; [cbn [erase vsize] in Hf; lia|].

Lemma SRB_bool p b tb : p <> PBinaryLE -> SRB p (SBool b tb).
Proof.
  intros Hp _ fuel r rcx Hf Hi. cbn [erase vsize] in Hf. cbn [stype erase ttype_of canon].
  rewrite read_val_bool by lia. destruct p; try congruence.
  - cbn [sp sencB app]. rewrite alt_bool_binary by congruence. cbn [bind]. f_equal. f_equal. f_equal.
    destruct b; [|reflexivity]. destruct (Byte.eqb tb x00) eqn:E; [reflexivity|rewrite E; reflexivity].
  - destruct (w_bool_ok PCompact b w0 eq_refl) as (l & Hw & _ & Hr).
    assert (l = [if b then x01 else x02]) as -> by (destruct b; cbv in Hw; injection Hw as <-; reflexivity).
    cbn [sp sencC]. destruct b; [rewrite Hr by exact Hi; reflexivity|].
    destruct (Byte.eqb tb x00); [|rewrite Hr by exact Hi; reflexivity].
    (* false spelled 0, as in the protocol document *)
    destruct rcx as [la st pb pf]. destruct Hi as [Hb Hpf]. cbn [r_pbool r_pfield] in Hb, Hpf. subst pb pf.
    cbn [app r_bool rc r_pbool r_last r_stack]. unfold set_rc. cbn [rbuf rc].
    change x00 with (z2b 0). rewrite r_byte_rt by lia. reflexivity.
Qed.

Lemma SRB_i8 p z : SRB p (SI8 z).
Proof.
  intros Hwt fuel r rcx Hf Hi. fuel1 fuel Hf. cbn [erase wt] in Hwt. apply in_sb_spec in Hwt.
  cbn [stype erase ttype_of canon]. rewrite read_val_S.
  assert (E : sp p (SI8 z) = [z2b z]) by (destruct p; reflexivity). rewrite E. cbn [app].
  rewrite r_i8_rt by exact Hwt. reflexivity.
Qed.

Lemma r_fixed_s_i n bits z r c : bits = 8 * Z.of_nat n -> (0 < n)%nat -> in_s bits z ->
  r_fixed PBinary n bits (mkS (s_i n bits z ++ r) c) = Ok (z, mkS r c).
Proof. exact (r_fixed_rt PBinary n bits z r c). Qed.

Lemma SRB_i16 p z : p <> PBinaryLE -> SRB p (SI16 z).
Proof.
  intros Hp Hwt fuel r rcx Hf Hi. fuel1 fuel Hf. cbn [erase wt] in Hwt. apply in_sb_spec in Hwt.
  cbn [stype erase ttype_of canon]. rewrite read_val_S. destruct p; try congruence; cbn [sp sencB sencC].
  - cbn [r_i16]. rewrite (r_fixed_s_i 2 16 z r rcx eq_refl ltac:(lia) Hwt). reflexivity.
  - rewrite r_i16_zz by exact Hwt. reflexivity.
Qed.

Lemma SRB_i32 p z : p <> PBinaryLE -> SRB p (SI32 z).
Proof.
  intros Hp Hwt fuel r rcx Hf Hi. fuel1 fuel Hf. cbn [erase wt] in Hwt. apply in_sb_spec in Hwt.
  cbn [stype erase ttype_of canon]. rewrite read_val_S. destruct p; try congruence; cbn [sp sencB sencC].
  - cbn [r_i32]. rewrite (r_fixed_s_i 4 32 z r rcx eq_refl ltac:(lia) Hwt). reflexivity.
  - cbn [r_i32]. unfold s_zz. rewrite (r_zz_rt 32 5) by (auto; try lia; vm_compute; discriminate). reflexivity.
Qed.

Lemma SRB_i64 p z : p <> PBinaryLE -> SRB p (SI64 z).
Proof.
  intros Hp Hwt fuel r rcx Hf Hi. fuel1 fuel Hf. cbn [erase wt] in Hwt. apply in_sb_spec in Hwt.
  cbn [stype erase ttype_of canon]. rewrite read_val_S. destruct p; try congruence; cbn [sp sencB sencC].
  - cbn [r_i64]. rewrite (r_fixed_s_i 8 64 z r rcx eq_refl ltac:(lia) Hwt). reflexivity.
  - cbn [r_i64]. unfold s_zz. rewrite (r_zz_rt 64 10) by (auto; try lia; vm_compute; discriminate). reflexivity.
Qed.

Lemma SRB_double p z : p <> PBinaryLE -> SRB p (SDouble z).
Proof.
  intros Hp Hwt fuel r rcx Hf Hi. fuel1 fuel Hf. cbn [erase wt] in Hwt.
  assert (Hz : 0 <= z < 256 ^ Z.of_nat 8) by (change (256 ^ Z.of_nat 8) with (2 ^ 64); lia).
  cbn [stype erase ttype_of canon]. rewrite read_val_S. unfold r_double. destruct p; try congruence; cbn [sp sencB sencC].
  - rewrite r_take_app by apply be_bytes_length. cbn [bind]. rewrite of_be_be_bytes by exact Hz. reflexivity.
  - rewrite r_take_app by apply le_bytes_length. cbn [bind]. rewrite of_le_le_bytes by exact Hz. reflexivity.
Qed.

Lemma SRB_binary p l : p <> PBinaryLE -> SRB p (SBinary l).
Proof.
  intros Hp Hwt fuel r rcx Hf Hi. fuel1 fuel Hf. cbn [erase wt] in Hwt.
  cbn [stype erase ttype_of canon]. rewrite read_val_S. destruct p; try congruence; cbn [sp sencB sencC]; rewrite <- app_assoc.
  - rewrite r_bytes_s_i by exact Hwt. reflexivity.
  - rewrite r_bytes_s_uv by exact Hwt. reflexivity.
Qed.

Lemma SRB_uuid p l : SRB p (SUuid l).
Proof.
  intros Hwt fuel r rcx Hf Hi. fuel1 fuel Hf. cbn [erase wt] in Hwt. apply Nat.eqb_eq in Hwt.
  cbn [stype erase ttype_of canon]. rewrite read_val_S.
  assert (E : sp p (SUuid l) = l) by (destruct p; reflexivity). rewrite E.
  rewrite (proj2 (w_uuid_ok l w0) Hwt). reflexivity.
Qed.

(* ------------------------------------------------------------------ *)
(* headers *)
Lemma shdr_coll_read p et long b2 n r rcx : p <> PBinaryLE ->
  elem_ttype_ok et = true -> 0 <= n < 2 ^ 31 -> n <= Z.of_nat (length r) ->
  r_coll_begin p (mkS (shdr_coll p et long b2 n ++ r) rcx) = Ok ((et, n), mkS r rcx).
Proof.
  intros Hp Het Hn Hr. destruct p; try congruence; cbn [shdr_coll].
  - destruct (w_coll_ok PBinary et n w0 Het Hn) as (ss & Hw & Hrd).
    destruct (w_coll_bytes PBinary et n w0 ss w0 ltac:(congruence) Het Hn Hw) as [_ E].
    rewrite <- E. apply Hrd. exact Hr.
  - apply alt_coll_header; auto.
Qed.

Lemma shdr_map_read p kt vt kb2 vb2 n r rcx : p <> PBinaryLE ->
  elem_ttype_ok kt = true -> elem_ttype_ok vt = true -> 0 <= n < 2 ^ 31 -> n <= Z.of_nat (length r) ->
  r_map_begin p (mkS (shdr_map p kt vt kb2 vb2 n ++ r) rcx) = Ok (map_hdr_canon p kt vt n, mkS r rcx).
Proof.
  intros Hp Hk Hv Hn Hr. destruct p; try congruence; cbn [shdr_map].
  - destruct (w_map_ok PBinary kt vt n w0 Hk Hv Hn) as (ss & Hw & Hrd).
    destruct (w_map_bytes PBinary kt vt n w0 ss w0 ltac:(congruence) Hk Hv Hn Hw) as [_ E].
    rewrite <- E. apply Hrd. exact Hr.
  - cbn [map_hdr_canon]. destruct (Z.eqb_spec n 0) as [->|Hnz].
    + apply alt_empty_map.
    + rewrite <- app_assoc. apply alt_map_header; auto. lia.
Qed.

(* one struct field: header, then the value; the field-id context moves to [id] *)
Lemma field_step p last id long x r rcx f : p <> PBinaryLE ->
  SRB p x -> wt (erase x) = true -> in_s 16 id -> in_s 16 last -> idle rcx ->
  (p = PCompact -> r_last rcx = last) -> (vsize (erase x) <= f)%nat ->
  exists s1, r_field_begin p (mkS (field_bytes p last (id, long, x) ++ r) rcx) = Ok ((stype x, Some id), s1) /\
             read_val p f (stype x) s1 = Ok (canon p (erase x), mkS r (rlast_upd p id rcx)).
Proof.
  intros Hp Hx Hwx Hid Hl Hi Hlast Hf.
  assert (Hns : stype x <> TStop) by apply ttype_of_nonstop.
  assert (Hok : elem_ttype_ok (stype x) = true) by apply ttype_of_val_ok.
  destruct p; try congruence; cbn [field_bytes rlast_upd].
  - (* binary *)
    exists (mkS (sencB x ++ r) rcx). split; [|apply (Hx Hwx f r rcx Hf Hi)].
    destruct (w_field_ok PBinary (stype x) id w0 ltac:(discriminate) Hns Hok Hid eq_refl ltac:(discriminate))
      as (ss & Hw & _ & Hrd).
    cbn [w_field_begin] in Hw. unfold wret in Hw. injection Hw as <-.
    specialize (Hrd (sencB x ++ r) rcx ltac:(discriminate) (proj2 Hi)). rewrite flat_copy in Hrd.
    rewrite (spec_btype_agrees _ Hok). cbn [oz app] in *. rewrite <- app_assoc. exact Hrd.
  - (* compact *)
    destruct Hi as [Hpb Hpf].
    assert (Hrcx : forall pb, mkR id (r_stack rcx) pb false = mkR id (r_stack rcx) pb (r_pfield rcx)) by (intros; rewrite Hpf; reflexivity).
    destruct (match x with SBool _ _ => true | _ => false end) eqn:Eb.
    + destruct x as [b tb| | | | | | | | | | |]; try discriminate Eb.
      pose proof (alt_field_header last id long (if b then CBooleanTrue else CBooleanFalse) TBool r rcx Hid Hl (Hlast eq_refl)
                    ltac:(destruct b; reflexivity) ltac:(discriminate)) as Hh.
      eexists. split.
      * replace (if b then 1 else 2) with (ctype_code (if b then CBooleanTrue else CBooleanFalse)) by (destruct b; reflexivity).
        exact Hh.
      * cbn [stype erase ttype_of canon vsize] in *. rewrite read_val_bool by lia.
        cbn [r_bool rc r_pbool r_last r_stack]. destruct b; cbn [bind set_rc rbuf rc r_last r_stack];
          rewrite Hpb, Hpf; reflexivity.
    + destruct (ctype_of_ttype_some _ Hok) as [ct Ect].
      assert (Hnb : stype x <> TBool) by (destruct x; discriminate).
      pose proof (alt_field_header last id long ct (stype x) (sencC x ++ r) rcx Hid Hl (Hlast eq_refl)
                    (ctype_ttype_inv _ _ Ect) Hns) as Hh.
      assert (Hpbk : match ct with CBooleanTrue => Some true | CBooleanFalse => Some false | _ => r_pbool rcx end = r_pbool rcx).
      { destruct (stype x); cbn in Ect; inversion Ect; subst; try reflexivity; congruence. }
      rewrite Hpbk in Hh.
      assert (Efb : match x with
                    | SBool b _ => s_fhdr last id long (if b then 1 else 2)
                    | _ => s_fhdr last id long (oz (spec_ctype (stype x))) ++ sencC x
                    end = s_fhdr last id long (ctype_code ct) ++ sencC x).
      { rewrite (spec_ctype_agrees _ _ Ect Hns). cbn [oz]. destruct x; try reflexivity. discriminate Eb. }
      rewrite Efb, <- app_assoc. eexists. split; [exact Hh|].
      rewrite Hrcx. apply (Hx Hwx f r _ Hf). split; cbn [r_pbool r_pfield]; auto.
Qed.

(* ------------------------------------------------------------------ *)
(* loops *)
Lemma selems_len p l : (forall x, In x l -> wt (erase x) = true) -> (length l <= length (selems p l))%nat.
Proof.
  induction l as [|x t IH]; intros Hwt; [cbn; lia|].
  rewrite selems_cons, app_length. cbn [length].
  pose proof (sp_len_pos p x (Hwt x (or_introl eq_refl))). specialize (IH (fun y Hy => Hwt y (or_intror Hy))). lia.
Qed.
Lemma spairs_len p l : (forall q, In q l -> wt (erase (fst q)) = true /\ wt (erase (snd q)) = true) ->
  (length l <= length (spairs p l))%nat.
Proof.
  induction l as [|[a b] t IH]; intros Hwt; [cbn; lia|].
  rewrite spairs_cons, !app_length. cbn [length].
  destruct (Hwt (a, b) (or_introl eq_refl)) as [Ha _]. cbn [fst] in Ha.
  pose proof (sp_len_pos p a Ha). specialize (IH (fun y Hy => Hwt y (or_intror Hy))). lia.
Qed.

Lemma selems_rb p et l :
  Forall (SRB p) l ->
  (forall x, In x l -> wt (erase x) = true /\ stype x = et) ->
  forall f m r rcx acc, (forall x, In x l -> (vsize (erase x) <= f)%nat) -> (length l <= m)%nat -> idle rcx ->
    elems_loop (read_val p f) m et (Z.of_nat (length l)) (mkS (selems p l ++ r) rcx) acc
    = Ok (rev acc ++ map (canon p) (map erase l), mkS r rcx).
Proof.
  induction l as [|x t IH]; intros HF Hwt f m r rcx acc Hv Hm Hi.
  - assert (E : selems p [] = []) by (destruct p; reflexivity). rewrite E. cbn [length Z.of_nat map app].
    destruct m; cbn [elems_loop Z.leb Z.compare]; rewrite app_nil_r; reflexivity.
  - inversion HF as [|? ? Hx Ht]; subst.
    destruct (Hwt x (or_introl eq_refl)) as [Hwx Hty].
    destruct m as [|m]; [cbn [length] in Hm; lia|].
    cbn [elems_loop].
    replace (Z.of_nat (length (x :: t)) <=? 0) with false by (cbn [length]; lia).
    rewrite selems_cons, <- app_assoc, <- Hty.
    rewrite (Hx Hwx f _ rcx (Hv x (or_introl eq_refl)) Hi). cbn [bind].
    replace (Z.of_nat (length (x :: t)) - 1) with (Z.of_nat (length t)) by (cbn [length]; lia).
    rewrite Hty. rewrite IH; auto.
    + cbn [rev map]. rewrite <- app_assoc. reflexivity.
    + intros y Hy. apply Hwt. right. exact Hy.
    + intros y Hy. apply Hv. right. exact Hy.
    + cbn [length] in Hm. lia.
Qed.

Lemma spairs_rb p kt vt l :
  Forall (fun q => SRB p (fst q) /\ SRB p (snd q)) l ->
  (forall q, In q l -> wt (erase (fst q)) = true /\ stype (fst q) = kt /\ wt (erase (snd q)) = true /\ stype (snd q) = vt) ->
  forall f m r rcx acc, (forall q, In q l -> (vsize (erase (fst q)) <= f)%nat /\ (vsize (erase (snd q)) <= f)%nat) ->
    (length l <= m)%nat -> idle rcx ->
    pairs_loop (read_val p f) m kt vt (Z.of_nat (length l)) (mkS (spairs p l ++ r) rcx) acc
    = Ok (rev acc ++ map (fun '(a, b) => (canon p a, canon p b)) (eps l), mkS r rcx).
Proof.
  induction l as [|[a b] t IH]; intros HF Hwt f m r rcx acc Hv Hm Hi.
  - assert (E : spairs p [] = []) by (destruct p; reflexivity). rewrite E. cbn [length Z.of_nat map eps app].
    destruct m; cbn [pairs_loop Z.leb Z.compare]; rewrite app_nil_r; reflexivity.
  - inversion HF as [|? ? Hx Ht]; subst. cbn [fst snd] in Hx. destruct Hx as [Ha Hb].
    destruct (Hwt (a, b) (or_introl eq_refl)) as (Hwa & Hta & Hwb & Htb). cbn [fst snd] in *.
    destruct (Hv (a, b) (or_introl eq_refl)) as [Hva Hvb]. cbn [fst snd] in *.
    destruct m as [|m]; [cbn [length] in Hm; lia|].
    cbn [pairs_loop].
    replace (Z.of_nat (length ((a, b) :: t)) <=? 0) with false by (cbn [length]; lia).
    rewrite spairs_cons, <- !app_assoc, <- Hta, <- Htb.
    rewrite (Ha Hwa f _ rcx Hva Hi). cbn [bind]. rewrite (Hb Hwb f _ rcx Hvb Hi). cbn [bind].
    replace (Z.of_nat (length ((a, b) :: t)) - 1) with (Z.of_nat (length t)) by (cbn [length]; lia).
    rewrite Hta, Htb. rewrite IH; auto.
    + cbn [rev map eps]. rewrite <- app_assoc. reflexivity.
    + intros y Hy. apply Hwt. right. exact Hy.
    + intros y Hy. apply Hv. right. exact Hy.
    + cbn [length] in Hm. lia.
Qed.

Definition last_id (last : Z) (fs : list (Z * bool * sval)) : Z :=
  fold_left (fun _ '(i, _, _) => i) fs last.

Lemma sfields_rb p fs : p <> PBinaryLE ->
  Forall (fun q => SRB p (snd q)) fs -> wtf (efs fs) = true ->
  forall last f n r rcx acc, in_s 16 last ->
    (forall q, In q fs -> (vsize (erase (snd q)) <= f)%nat) -> (length fs < n)%nat -> idle rcx ->
    (p = PCompact -> r_last rcx = last) ->
    fields_loop p (read_val p f) n (mkS (sfields p last fs ++ r) rcx) acc
    = Ok (rev acc ++ map (fun '(i, x) => (i, canon p x)) (efs fs), mkS r (rlast_upd p (last_id last fs) rcx)).
Proof.
  intros Hp. induction fs as [|[[id lg] x] t IH]; intros HF Hwt last f n r rcx acc Hl Hv Hn Hi Hlast.
  - destruct n as [|n]; [cbn in Hn; lia|]. rewrite sfields_nil. cbn [fields_loop app efs map last_id fold_left].
    destruct (r_field_begin_stop p r rcx) as (oid & Hs). rewrite Hs. cbn [bind fst ttype_eqb].
    rewrite app_nil_r, (clrp_idle _ _ (proj2 Hi)). f_equal. f_equal. f_equal.
    destruct p; cbn [rlast_upd]; auto. rewrite <- (Hlast eq_refl). symmetry. apply rctx_eta.
  - inversion HF as [|? ? Hx Ht]; subst. cbn [snd] in Hx.
    cbn [efs map wtf] in Hwt. apply andb_prop in Hwt as [Hwt Hwt3]. apply andb_prop in Hwt as [Hid Hwx].
    apply in_sb_spec in Hid.
    destruct n as [|n]; [cbn in Hn; lia|]. cbn [fields_loop].
    rewrite sfields_cons, <- app_assoc.
    destruct (field_step p last id lg x (sfields p id t ++ r) rcx f Hp Hx Hwx Hid Hl Hi Hlast (Hv (id, lg, x) (or_introl eq_refl)))
      as (s1 & Hfb & Hrd).
    rewrite Hfb. cbn [bind fst snd]. rewrite (ttype_eqb_nonstop (stype x) (ttype_of_nonstop (erase x))).
    rewrite Hrd. cbn [bind].
    rewrite (IH Ht Hwt3 id f n r (rlast_upd p id rcx)); auto.
    + cbn [rev map efs last_id fold_left]. rewrite <- app_assoc. f_equal. f_equal. f_equal.
      destruct p; reflexivity.
    + intros q Hq. apply Hv. right. exact Hq.
    + cbn [length] in Hn. lia.
    + apply idle_rlast_upd; exact Hi.
    + intros ->. reflexivity.
Qed.

(* ------------------------------------------------------------------ *)
(* containers and structs *)
Lemma erase_in l x : In x (map erase l) -> exists y, In y l /\ erase y = x.
Proof. intros H. apply in_map_iff in H as (y & E & Hy). eauto. Qed.

Lemma SRB_coll p (isl : bool) et lg b2 l : p <> PBinaryLE ->
  Forall (SRB p) l -> SRB p (if isl then SList et lg b2 l else SSet et lg b2 l).
Proof.
  intros Hp HF Hwt fuel r rcx Hf Hi.
  assert (Hwt' : wt (VList et (map erase l)) = true) by (destruct isl; exact Hwt).
  destruct (wt_list_inv _ _ Hwt') as (Het & Hlen & Hel). rewrite map_length in Hlen. apply len_ok_bound in Hlen.
  assert (Hel' : forall x, In x l -> wt (erase x) = true /\ stype x = et).
  { intros x Hx. apply Hel. apply in_map. exact Hx. }
  assert (Hsz : (vsize (VList et (map erase l)) <= fuel)%nat) by (destruct isl; exact Hf).
  destruct fuel as [|f]; [pose proof (vsize_pos (VList et (map erase l))); lia|].
  assert (Esp : sp p (if isl then SList et lg b2 l else SSet et lg b2 l)
                = shdr_coll p et lg b2 (Z.of_nat (length l)) ++ selems p l) by (destruct isl; [apply sp_list|apply sp_set]).
  rewrite Esp, <- app_assoc.
  assert (Hh : r_coll_begin p (mkS (shdr_coll p et lg b2 (Z.of_nat (length l)) ++ selems p l ++ r) rcx)
               = Ok ((et, Z.of_nat (length l)), mkS (selems p l ++ r) rcx)).
  { apply shdr_coll_read; auto. rewrite app_length. pose proof (selems_len p l (fun x Hx => proj1 (Hel' x Hx))). lia. }
  assert (Hlp : elems_loop (read_val p f) (S f) et (Z.of_nat (length l)) (mkS (selems p l ++ r) rcx) []
                = Ok (map (canon p) (map erase l), mkS r rcx)).
  { rewrite (selems_rb p et l HF Hel'); [reflexivity| | |exact Hi].
    - intros x Hx. pose proof (vsize_list_bound et (map erase l) (erase x) (in_map erase l x Hx)). lia.
    - pose proof (vsize_list_len et (map erase l)). rewrite map_length in H. lia. }
  destruct isl; cbn [stype erase ttype_of canon]; rewrite read_val_S, Hh; cbn [bind fst snd]; rewrite Hlp; reflexivity.
Qed.

Lemma SRB_map p kt vt kb vb l : p <> PBinaryLE ->
  Forall (fun q => SRB p (fst q) /\ SRB p (snd q)) l -> SRB p (SMap kt vt kb vb l).
Proof.
  intros Hp HF Hwt fuel r rcx Hf Hi. cbn [erase] in Hwt, Hf. fold (eps l) in Hwt, Hf.
  destruct (wt_map_inv _ _ _ Hwt) as (Hk & Hv & Hlen & Hel).
  assert (El : length (eps l) = length l) by apply map_length. rewrite El in Hlen. apply len_ok_bound in Hlen.
  assert (Hel' : forall q, In q l -> wt (erase (fst q)) = true /\ stype (fst q) = kt /\ wt (erase (snd q)) = true /\ stype (snd q) = vt).
  { intros [a b] Hq. apply (Hel (erase a, erase b)). unfold eps. apply (in_map (fun '(a, b) => (erase a, erase b)) l (a, b) Hq). }
  destruct fuel as [|f]; [pose proof (vsize_pos (VMap kt vt (eps l))); lia|].
  cbn [stype erase ttype_of]. fold (eps l). rewrite read_val_S, sp_map, <- app_assoc.
  rewrite shdr_map_read; auto.
  2:{ rewrite app_length. pose proof (spairs_len p l (fun q Hq => let '(conj a (conj _ (conj b _))) := Hel' q Hq in conj a b)). lia. }
  cbn [bind]. rewrite canon_map_eq, El.
  assert (Hlp : pairs_loop (read_val p f) (S f) kt vt (Z.of_nat (length l)) (mkS (spairs p l ++ r) rcx) []
                = Ok (map (fun '(x, y) => (canon p x, canon p y)) (eps l), mkS r rcx)).
  { rewrite (spairs_rb p kt vt l HF Hel'); [reflexivity| | |exact Hi].
    - intros [a b] Hq. cbn [fst snd].
      pose proof (vsize_map_bound kt vt (eps l) (erase a, erase b)
                    (in_map (fun '(a, b) => (erase a, erase b)) l (a, b) Hq)) as [H1 H2]. cbn [fst snd] in *. lia.
    - pose proof (vsize_map_len kt vt (eps l)). rewrite El in H. lia. }
  unfold map_hdr_canon. destruct p; try congruence; cbn [fst snd].
  - rewrite Hlp. reflexivity.
  - destruct (Z.eqb_spec (Z.of_nat (length l)) 0) as [Hz|Hnz]; cbn [fst snd].
    + destruct l; [|cbn [length] in Hz; lia]. cbn [spairs sencC_pairs app eps map].
      cbn [pairs_loop Z.leb Z.compare bind rev]. reflexivity.
    + rewrite Hlp. reflexivity.
Qed.

Lemma SRB_struct p fs : p <> PBinaryLE ->
  Forall (fun q => SRB p (snd q)) fs -> SRB p (SStruct fs).
Proof.
  intros Hp HF Hwt fuel r rcx Hf Hi. cbn [erase] in Hwt, Hf. fold (efs fs) in Hwt, Hf. rewrite wt_struct in Hwt.
  destruct fuel as [|f]; [pose proof (vsize_pos (VStruct (efs fs))); lia|].
  cbn [stype erase ttype_of]. fold (efs fs). rewrite read_val_S, sp_struct.
  set (rcx1 := match p with PCompact => mkR 0 (r_last rcx :: r_stack rcx) (r_pbool rcx) (r_pfield rcx) | _ => rcx end).
  assert (Hrb : r_struct_begin p (mkS (sfields p 0 fs ++ r) rcx) = Ok (tt, mkS (sfields p 0 fs ++ r) rcx1)).
  { subst rcx1. destruct p; reflexivity. }
  rewrite Hrb. cbn [bind].
  assert (Hi1 : idle rcx1) by (subst rcx1; destruct p; auto; destruct Hi; split; auto).
  assert (El : length (efs fs) = length fs) by apply map_length.
  rewrite (sfields_rb p fs Hp HF Hwt 0 f (S f) r rcx1 [] in_s16_0); [| |pose proof (vsize_struct_len (efs fs)); lia|exact Hi1|].
  - cbn [bind rev app].
    assert (Hre : r_struct_end p (mkS r (rlast_upd p (last_id 0 fs) rcx1)) = Ok (tt, mkS r rcx)).
    { subst rcx1. destruct p; cbn [r_struct_end rlast_upd]; try reflexivity.
      unfold set_rc. cbn [rc rbuf r_stack r_pbool r_pfield]. rewrite rctx_eta. reflexivity. }
    rewrite Hre. cbn [bind canon]. reflexivity.
  - intros [[i lg] x] Hq. cbn [snd].
    destruct (vsize_struct_bound (efs fs) (i, erase x)
                (in_map (fun '(i, _, x) => (i, erase x)) fs (i, lg, x) Hq)) as [H1 _]. cbn [snd] in H1. lia.
  - intros ->. subst rcx1. reflexivity.
Qed.

Theorem legal_read_back p : p <> PBinaryLE -> forall x, SRB p x.
Proof.
  intros Hp x. induction x using sval_ind'.
  - apply SRB_bool; auto. - apply SRB_i8. - apply SRB_i16; auto. - apply SRB_i32; auto. - apply SRB_i64; auto.
  - apply SRB_double; auto. - apply SRB_binary; auto. - apply SRB_uuid.
  - apply SRB_struct; auto.
  - apply (SRB_coll p true); auto.
  - apply (SRB_coll p false); auto.
  - apply SRB_map; auto.
Qed.

(* ------------------------------------------------------------------ *)
(* the relation of all spec-legal encodings, and the theorems *)

(* [l] is a spec-legal encoding of [v] under protocol [p]: the specification's encoder run on [v] with
   SOME choice at every point the specification leaves open (the annotations of [sval]) *)
Definition legal (p : pk) (v : tval) (l : list byte) : Prop :=
  exists sv, erase sv = v /\ wt v = true /\ l = sp p sv.

(* C03_legal_read_back, oracle form *)
Theorem legal_read_back_tree p sv : p <> PBinaryLE -> wt (erase sv) = true ->
  forall fuel r rcx, (vsize (erase sv) <= fuel)%nat -> idle rcx ->
    read_val p fuel (stype sv) (mkS (sp p sv ++ r) rcx) = Ok (canon p (erase sv), mkS r rcx).
Proof. intros Hp Hwt. exact (legal_read_back p Hp sv Hwt). Qed.

(* C03_legal_read_back, relational form *)
Theorem legal_read_back_rel p v l : p <> PBinaryLE -> legal p v l ->
  forall fuel r rcx, (vsize v <= fuel)%nat -> idle rcx ->
    read_val p fuel (ttype_of v) (mkS (l ++ r) rcx) = Ok (canon p v, mkS r rcx).
Proof.
  intros Hp (sv & <- & Hwt & ->) fuel r rcx Hf Hi. apply (legal_read_back p Hp sv Hwt); auto.
Qed.

(* the canonical annotation erases to the value, so the canonical encoding -- which is what pilota
   writes (C03_pilota_writes_spec) -- is one of the legal encodings *)
Lemma erase_annot_fields fs : Forall (fun q => erase (annot (snd q)) = snd q) fs ->
  forall last, efs (annot_fields last fs) = fs.
Proof.
  induction fs as [|[i x] t IH]; intros HF last; [reflexivity|].
  inversion HF as [|? ? Hx Ht]; subst. cbn [snd] in Hx. cbn [annot_fields efs map]. fold (efs (annot_fields i t)).
  rewrite Hx, (IH Ht). reflexivity.
Qed.

Lemma erase_annot v : erase (annot v) = v.
Proof.
  induction v using tval_ind'; try reflexivity.
  - rewrite annot_struct. cbn [erase]. fold (efs (annot_fields 0 fs)). rewrite erase_annot_fields; auto.
  - cbn [annot erase]. f_equal. induction l as [|x t IHt]; [reflexivity|]. inversion H; subst. cbn [map]. rewrite H2, IHt; auto.
  - cbn [annot erase]. f_equal. induction l as [|x t IHt]; [reflexivity|]. inversion H; subst. cbn [map]. rewrite H2, IHt; auto.
  - cbn [annot erase]. f_equal. induction l as [|[a b] t IHt]; [reflexivity|]. inversion H as [|? ? [Ha Hb] Ht]; subst.
    cbn [map fst snd] in *. rewrite Ha, Hb, IHt; auto.
Qed.

Theorem canonical_is_legal p v : wt v = true -> legal p v (sp p (annot v)).
Proof. intros Hwt. exists (annot v). split; [apply erase_annot|]. split; [exact Hwt|reflexivity]. Qed.

Theorem written_is_legal p k v c ss c' : p <> PBinaryLE -> wt v = true -> w_pend c = None ->
  write_val p k v c = Ok (ss, c') -> legal p v (flat ss).
Proof.
  intros Hp Hwt Hpn Hw. rewrite (writes_spec p k Hp v Hwt c ss c' Hpn Hw). apply canonical_is_legal, Hwt.
Qed.

(* non-vacuity: a tree that uses EVERY alternative form at once -- and whose encoding differs from the
   canonical one pilota writes -- is read back to the value, under both protocols *)
Definition alt_tree : sval :=
  SStruct [(1, true, SBool true xff);                                   (* long-form header where short fits; true = 0xff *)
           (16, false, SI32 (-1));                                      (* short form for delta 15 *)
           (17, true, SList TBool true true [SBool true x07; SBool false x00]);  (* long-form size 2, bool type 2 *)
           (18, false, SMap TI8 TBool false true []);                   (* one-byte empty map *)
           (19, false, SMap TBool TBool true false [(SBool false x00, SBool true x02)]);
           (20, true, SSet TBinary true false [SBinary [x61]]);
           (40, false, SStruct [(15, false, SBool false x00); (30, false, SUuid (repeat x2a 16))])].

Example alt_tree_example :
  wt (erase alt_tree) = true /\
  sencC alt_tree <> sencC (annot (erase alt_tree)) /\ sencB alt_tree <> sencB (annot (erase alt_tree)) /\
  read_val PCompact 30 TStruct (mkS (sencC alt_tree ++ [xee]) r0) = Ok (canon PCompact (erase alt_tree), mkS [xee] r0) /\
  read_val PBinary 30 TStruct (mkS (sencB alt_tree ++ [xee]) r0) = Ok (canon PBinary (erase alt_tree), mkS [xee] r0).
Proof.
  split; [reflexivity|]. split; [vm_compute; discriminate|]. split; [vm_compute; discriminate|].
  split; vm_compute; reflexivity.
Qed.

(* The TEXT of the compact specification encodes a bool ELEMENT (of a list / set / map) `false` as the byte 0, while
   every Apache implementation writes 2 (and reads "anything but 1" as false).  Both spellings are legal encodings
   in Thrift/Spec.v (annotation byte 00 of SBool selects 0) and both are read back (fix F-03a: pilota's compact
   read_bool used to reject 0). *)
Lemma compact_bool_elem_zero_accepted :
  read_val PCompact 9 TList (mkS [x11; x00] r0) = Ok (VList TBool [VBool false], mkS [] r0) /\
  read_val PCompact 9 TList (mkS [x11; x02] r0) = Ok (VList TBool [VBool false], mkS [] r0).
Proof. split; vm_compute; reflexivity. Qed.
