"""C07 -- skipping a Thrift value consumes exactly that value (recursive skippers: binary, binary-LE,
compact in memory; all three asynchronously)."""
import random, re
from .. import core, thriftgen as tg, malform as mf
from . import c09

PKS = ["binary", "binary_le", "compact"]
CODE = {"b": 2, "y": 3, "d": 4, "h": 6, "i": 8, "l": 10, "s": 11, "S": 12, "M": 13, "T": 14, "L": 15, "u": 16}
LIMIT = 64

FIXED = [
    "u000102030405060708090a0b0c0d0e0f", "S1 f1 u000102030405060708090a0b0c0d0e0f",
    "L3,0", "T8,0", "M11,8,0", "S0",
    "L8,15 " + " ".join("i%d" % i for i in range(15)), "L11,16 " + " ".join("s6162" for _ in range(16)),
    "T10,14 " + " ".join("l%d" % (i * 1000003) for i in range(14)),
    "M8,10,3 i1 l2 i3 l4 i5 l6", "M11,8,2 s61 i1 s6263 i2", "M8,11,2 i1 s61 i2 s", "M11,11,1 s61 s62",
    "M12,15,1 S1 f1 i1 L8,2 i1 i2", "M16,2,1 u000102030405060708090a0b0c0d0e0f b1",
    "S3 f1 b1 f2 b0 f3 L2,3 b1 b0 b1", "S2 f1 d4609434218613702656 f2 M4,3,1 d1 y1",
    "L12,3 S1 f1 i1 S0 S2 f5 b1 f6 s616263", "S2 f32767 i1 f-32768 i2",
]


LOOP_STRUCTS = [
    [(1, "b1"), (2, "L2,3 b1 b0 b1"), (3, "i7")],
    [(1, "b0"), (2, "L2,3 b1 b0 b1"), (3, "i7")],
    [(1, "b1"), (2, "i5"), (3, "T2,2 b0 b1"), (4, "M2,8,1 b1 i3")],
    [(1, "b0"), (2, "M8,2,2 i1 b1 i2 b0"), (3, "b1"), (4, "L2,1 b0")],
    [(5, "b1"), (6, "S2 f1 b0 f2 L2,2 b1 b1"), (7, "L2,2 b0 b1")],
    [(1, "s6162"), (2, "b1"), (20, "L12,1 S1 f1 L2,2 b1 b0"), (21, "b0"), (22, "M2,2,1 b0 b1")],
    [(1, "L2,2 b1 b0"), (2, "b1"), (3, "L2,2 b0 b0"), (4, "y3")],
    [(-3, "b1"), (300, "T2,1 b0"), (301, "d4609434218613702656")],
]

APP_EXTRAS = [[(3, "b1"), (4, "L2,3 b1 b0 b1")], [(3, "b0"), (4, "T2,2 b1 b0"), (5, "M2,2,1 b1 b0")],
              [(3, "S2 f1 b1 f2 L2,2 b1 b0")], [(7, "L12,2 S1 f1 b1 S2 f1 b0 f2 L2,1 b1")], [(3, "b1"), (4, "i9"), (5, "L2,1 b0")],
              [(3, "u000102030405060708090a0b0c0d0e0f"), (4, "M11,2,1 s61 b1")], [(3, "b1")], [(3, "L2,2 b1 b0")],
              [(9, "S3 f1 b1 f2 b0 f3 T2,2 b0 b1")], [(3, "d1"), (4, "l-5"), (5, "h3"), (6, "y1"), (8, "s6162")]]


def vdepth(toks):
    """nesting depth of a value given as tokens (leaf = 1), mirrors coq vdepth"""
    pos = [0]
    def go():
        t = toks[pos[0]]; pos[0] += 1
        c = t[0]
        if c == "S":
            n = int(t[1:]); m = 0
            for _ in range(n):
                pos[0] += 1
                m = max(m, go())
            return m + 1
        if c in "LT":
            n = int(t[1:].split(",")[1]); m = 0
            for _ in range(n):
                m = max(m, go())
            return m + 1
        if c == "M":
            n = int(t[1:].split(",")[2]); m = 0
            for _ in range(2 * n):
                m = max(m, go())
            return m + 1
        return 1
    return go()


def deep_values():
    out = []
    for k in [1, 2, 10, 31, 32, 62, 63, 64, 65, 66, 70, 80]:
        out.append(tg.nested_struct(k))                      # k structs + leaf
        out.append(" ".join(["L15,1"] * k + ["L3,0"]))       # k+1 lists
        out.append(" ".join(["M8,13,1 i1"] * k + ["M8,8,0"]))
        out.append(" ".join(["T14,1"] * k + ["T3,0"]))        # k+1 sets
        out.append(" ".join(["M13,3,1"] * k + ["M8,8,0"] + ["y1"] * k))   # nesting through the map KEY
        if k >= 4:
            out.append(" ".join(["L14,1", "T13,1", "M8,12,1 i1", "S1 f1"] * (k // 4) + ["L3,0"]))   # mixed
    for k in [63, 64, 65]:
        out.append("S2 f1 i1 f2 " + tg.nested_struct(k - 1))     # deep second field after a shallow one
        out.append("L12,2 S0 " + tg.nested_struct(k - 1))
    return out


def gen_cases(rng, n, runner):
    """returns list of (case line, meta) ; meta = dict(kind, enc_len, follow tokens, trailing, depth)"""
    vals = []
    for pk in PKS:
        for v in FIXED + deep_values():
            vals.append((pk, v))
    while len(vals) < n // 3:
        ty = rng.choice(["struct", "struct", "list", "set", "map", "binary", "uuid", "i64", "bool", "double", "i16"])
        vals.append((rng.choice(PKS), tg.gen_of_type(rng, ty, rng.choice([1, 2, 3, 4]), big_ok=False)))
    follows = [rng.choice(["i7", "S1 f1 b1", "s6162", "y-1", "S1 f2 i300", "L2,2 b1 b0"]) for _ in vals]
    enc_v = core.run_lines(runner, ["rt %s contig - 1 %s" % (pk, v) for pk, v in vals])
    enc_f = core.run_lines(runner, ["rt %s contig - 1 %s" % (pk, f) for (pk, _), f in zip(vals, follows)])
    cases = []
    for (pk, v), f, ov, of in zip(vals, follows, enc_v, enc_f):
        if not (ov.startswith("W ") and of.startswith("W ")):
            continue
        bv = bytes.fromhex(ov.split(" ")[1]) if ov.split(" ")[1] != "-" else b""
        bf = bytes.fromhex(of.split(" ")[1])
        trail = bytes(rng.randrange(256) for _ in range(rng.choice([0, 0, 2, 5])))
        ty, nty = CODE[v[0]], CODE[f[0]]
        d = vdepth(v.split(" "))
        meta = dict(kind="valid", enc_len=len(bv), follow=tg.canon_tokens(pk, f.split(" ")), trailing=len(trail), depth=d)
        inp = bv + bf + trail
        cases.append(("sk %s sync %d %s %d" % (pk, ty, tg.hx(inp), nty), meta))
        sched = rng.choice(["all", "b1", "h", "b1/p1", "all/p2"])
        cases.append(("sk %s async:%s %d %s %d" % (pk, sched, ty, tg.hx(inp), nty), dict(meta, kind="valid-async")))
        if len(bv) <= 60 and d <= 8:
            for m, kind in mf.truncations(bv, rng, cap=6) + mf.overwrites(bv, pk, rng, cap=5):
                cases.append(("sk %s sync %d %s -" % (pk, ty, tg.hx(m)), dict(kind=kind)))
                cases.append(("sk %s async:%s %d %s -" % (pk, rng.choice(["all", "b1"]), ty, tg.hx(m)), dict(kind="async-" + kind)))
    # skipping IN CONTEXT: the value is a field of an enclosing struct read by a tolerant reader which skips it and
    # decodes the fields that follow (short-form and long-form headers after it, under every protocol incl. unchecked)
    ctx = []
    for (pk, v), ov in zip(vals, enc_v):
        if not ov.startswith("W ") or vdepth(v.split(" ")) > 60 or len(ov) > 20000:
            continue
        a = rng.choice([1, 2, 5, 20])
        b = a + rng.choice([1, 1, 2, 14, 15, 16, 40])
        c = b + rng.choice([1, 3, 15])
        f1, f2 = rng.choice(["i7", "s6162", "S1 f1 b1", "L3,2 y1 y2", "b1"]), rng.choice(["y-1", "b0", "S2 f1 i1 f2 i2"])
        ctx.append((pk, v, "S3 f%d %s f%d %s f%d %s" % (a, v, b, f1, c, f2), a, (b, f1), (c, f2),
                    0 if (pk == "compact" and v[0] == "b") else (len(ov.split(" ")[1]) // 2 if ov.split(" ")[1] != "-" else 0)))
    enc_ctx = core.run_lines(runner, ["rt %s contig - 1 %s" % (pk, st) for pk, _, st, _, _, _, _ in ctx])
    for (pk, v, st, a, (b, f1), (c, f2), elen), oc in zip(ctx, enc_ctx):
        if not oc.startswith("W "):
            continue
        hx = oc.split(" ")[1]
        trail = bytes(rng.randrange(256) for _ in range(rng.choice([0, 3])))
        inp = hx + trail.hex()
        want_sync = ["S3", "f%d" % a, "L1,1", "l%d" % elen, "f%d" % b] + tg.canon_tokens(pk, f1.split(" ")) + ["f%d" % c] + f2.split(" ")
        meta = dict(kind="valid-ctx", want=want_sync, trailing=len(trail), depth=vdepth(v.split(" ")))
        cases.append(("rds %s sync %s %d" % (pk, inp, a), meta))
        cases.append(("rds %s async:%s %s %d" % (pk, rng.choice(["all", "b1", "h/p1"]), inp, a), dict(meta, kind="valid-ctx-async")))
        if pk == "binary":
            cases.append(("rds unsafe sync %s %d" % (hx + "00" * 16, a), dict(meta, kind="valid-ctx-unsafe", trailing=16)))
    # the public skip(ttype) entry driven from a FIELD LOOP (read_field_begin; skip(field type); read_field_end) as generated
    # decoders and ApplicationException::decode do: one or several skipped fields -- among them bool fields, whose value the
    # compact protocol parks in the reader -- followed by decoded fields incl. bool containers
    loop_structs = [list(x) for x in LOOP_STRUCTS]
    for _ in range(max(0, n // 400)):
        k = rng.randrange(2, 6)
        ids = sorted(rng.sample(range(1, 40), k))
        loop_structs.append([(i, rng.choice(["b0", "b1", "L2,2 b1 b0", "T2,1 b1", "M2,3,1 b1 y2", "M3,2,1 y1 b0", "i7", "s61",
                                             "S2 f1 b1 f2 L2,1 b0", "L12,1 S1 f1 b1"])) for i in ids])
    singles = sorted(set(v for st in loop_structs for _, v in st))
    for pk in PKS:
        lens = {}
        for v, o in zip(singles, core.run_lines(runner, ["rt %s contig - 1 %s" % (pk, v) for v in singles])):
            lens[v] = (len(o.split(" ")[1]) // 2) if o.startswith("W ") and o.split(" ")[1] != "-" else 0
        for st in loop_structs:
            text = "S%d %s" % (len(st), " ".join("f%d %s" % (i, v) for i, v in st))
            oc = core.run_lines(runner, ["rt %s contig - 1 %s" % (pk, text)])[0]
            if not oc.startswith("W "):
                continue
            hx = oc.split(" ")[1]
            skipsets = [[st[0][0]], [i for i, v in st if v[0] == "b"], [i for i, _ in st][::2], [i for i, _ in st]]
            for ids in skipsets:
                if not ids:
                    continue
                want = ["S%d" % len(st)]
                for i, v in st:
                    want.append("f%d" % i)
                    if i in ids:
                        ln = 0 if (pk == "compact" and v[0] == "b") else lens[v]
                        want += ["L1,1", "l%d" % ln]
                    else:
                        want += tg.canon_tokens(pk, v.split(" "))
                trail = bytes(rng.randrange(256) for _ in range(rng.choice([0, 3])))
                meta = dict(kind="valid-loop", want=want, trailing=len(trail), skipped=ids)
                idl = ",".join(str(i) for i in ids)
                cases.append(("rds %s sync %s %s" % (pk, hx + trail.hex(), idl), meta))
                cases.append(("rds %s async:%s %s %s" % (pk, rng.choice(["all", "b1", "h/p1"]), hx + trail.hex(), idl), dict(meta, kind="valid-loop-async")))
                if pk == "binary":
                    cases.append(("rds unsafe sync %s %s" % (hx + "00" * 16, idl), dict(meta, kind="valid-loop-unsafe", trailing=16)))
        # ApplicationException::decode / ::decode_async: an exception struct of a newer peer carrying unknown fields
        for extra in APP_EXTRAS:
            for order in (0, 1, 2):
                base = [(1, "s626f6f6d"), (2, "i6")]
                fl = (base + extra) if order == 0 else ([base[0]] + extra + [base[1]]) if order == 1 else (extra + base)
                text = "S%d %s" % (len(fl), " ".join("f%d %s" % (i, v) for i, v in fl))
                oc = core.run_lines(runner, ["rt %s contig - 1 %s" % (pk, text)])[0]
                if not oc.startswith("W "):
                    continue
                trail = bytes(rng.randrange(256) for _ in range(rng.choice([0, 2])))
                meta = dict(kind="valid-app", want="ok 626f6f6d 6 REM %d" % len(trail))
                cases.append(("appr %s %s" % (pk, oc.split(" ")[1] + trail.hex()), meta))
                cases.append(("aappr %s %s %s" % (pk, oc.split(" ")[1] + trail.hex(), rng.choice(["all", "b1", "h/p1"])), dict(meta, kind="valid-app-async")))
    # unskippable type codes
    for pk in PKS:
        for code in (0, 1):
            cases.append(("sk %s sync %d 0000 -" % (pk, code), dict(kind="bad-type")))
            cases.append(("sk %s async:all %d 0000 -" % (pk, code), dict(kind="bad-type")))
    if len(cases) > n:
        keep = [c for c in cases if c[1]["kind"].startswith("valid") or c[1]["kind"] == "bad-type"]
        keepset = set(id(c) for c in keep)
        rest = [c for c in cases if id(c) not in keepset]
        rng.shuffle(rest)
        cases = keep + rest[:max(0, n - len(keep))]
    return cases


def oracle(case, meta, out):
    """C07 on the implementation's output alone"""
    out = c09.strip_impl(out)
    if out.startswith("panic") or out.startswith("CRASH"):
        return "skipper panicked / crashed (stack exhaustion counts)"
    if out.startswith("HANG"):
        return "asynchronous skipper did not finish"
    if not meta["kind"].startswith("valid"):
        return None
    if meta["kind"].startswith("valid-app"):
        if out.split(" ORACLE-FAIL")[0] != meta["want"] or "ORACLE-FAIL" in out:
            return "ApplicationException with fields unknown to the reader is not decoded (skip in a field loop): " + out[:80]
        return None
    if meta["kind"].startswith("valid-loop"):
        if not out.startswith("ok "):
            return "a field loop skipping well-formed fields failed: " + out[:80]
        t = out.split(" ")
        j = t.index("REM")
        got = [("l*" if (x.startswith("l") and i > 0 and t[1:j][i - 1] == "L1,1") else x) for i, x in enumerate(t[1:j])]
        want = list(meta["want"])
        wantn = [("l*" if (x.startswith("l") and i > 0 and want[i - 1] == "L1,1") else x) for i, x in enumerate(want)]
        if got != wantn:
            return "fields decoded after skipped fields differ (skipped ids %s)" % meta["skipped"]
        if "async" not in meta["kind"] and t[1:j] != want:
            return "skip in a field loop reported a wrong byte count (skipped ids %s)" % meta["skipped"]
        if int(t[j + 1]) != meta["trailing"]:
            return "field loop consumed %d bytes too many" % (meta["trailing"] - int(t[j + 1]))
        return None
    if meta["kind"].startswith("valid-ctx"):
        if not out.startswith("ok "):
            return "a tolerant reader skipping a well-formed field failed: " + out[:80]
        t = out.split(" ")
        j = t.index("REM")
        got, want = t[1:j], list(meta["want"])
        if "async" in meta["kind"]:
            want[3] = "l-1"
        if got != want:
            if got[:4] == want[:4] or (got[:3] == want[:3] and "async" in meta["kind"]):
                return "fields following a skipped field decode differently (skipped field id %s)" % want[1]
            return "skip reported %s for a field occupying %s bytes" % (got[3] if len(got) > 3 else "?", want[3])
        if int(t[j + 1]) != meta["trailing"]:
            return "tolerant reader consumed %d bytes too many" % (meta["trailing"] - int(t[j + 1]))
        return None
    is_async = "async" in case.split(" ")[2]
    if meta["depth"] > LIMIT:
        if not out.startswith("err DepthLimit"):
            return "nesting %d exceeds the documented limit %d but the skipper answered: %s" % (meta["depth"], LIMIT, out[:60])
        return None
    if not out.startswith("ok "):
        return "skipping a well-formed value failed: " + out[:80]
    t = out.split(" ")
    want_rem_after = None
    if not is_async:
        if t[1] != str(meta["enc_len"]):
            return "skip reported %s bytes, the value occupies %d" % (t[1], meta["enc_len"])
    if "NEXT" not in t:
        return "malformed output"
    i = t.index("NEXT")
    rest = t[i + 1:]
    if rest and rest[0] == "err":
        return "the value following the skipped one no longer decodes: " + " ".join(rest)
    if "REM" not in rest:
        return "malformed output"
    j = rest.index("REM")
    if rest[:j] != meta["follow"]:
        return "the value following the skipped one decodes differently"
    if int(rest[j + 1]) != meta["trailing"]:
        return "skip + following value consumed %d bytes too many" % (meta["trailing"] - int(rest[j + 1]))
    return None


def run(chk, replay=None):
    gate, hb = core.std_setup(chk)
    rng = random.Random(chk.seed)
    n = 11000 if chk.tier == "quick" else 900000
    if replay is not None:
        items = [(replay["case"], replay["meta"])]
    else:
        items = gen_cases(rng, n, core.RUNNER)
    cases = [c for c, _ in items]
    chk.cov["rule"] = ("sk cases: <value to skip><following value><trailing bytes>; values: fixed list (uuid, empty and 14/15/16-element "
                       "containers, maps with fixed/variable key and value in all four combinations, struct/list/map nesting "
                       "1..80 around the limit 64, deep second field) + generated trees (depth<=4); x {binary, binary_le, compact} x "
                       "{in-memory skip, async skip under a delivery schedule}; plus truncations/boundary overwrites of short encodings "
                       "(model vs implementation only) and unskippable type codes. non-trivial = valid kinds; distinct by SHA-1")
    have_model = gate is not None and core.os.path.exists(core.RUNNER)
    bins = [("debug", hb)] if hb else []
    if hb and chk.tier == "thorough":
        ok, hb2, _ = core.build_harness(release=True)
        if ok:
            bins.append(("release", hb2))
    model = [re.sub(r"panic \w+", "panic", l) for l in core.run_lines(core.RUNNER, cases)] if have_model else None
    failing, mism, kinds, depths = [], [], {}, {}
    compared = oracled = 0
    for c, meta in items:
        chk.count(c, meta["kind"].startswith("valid"))
        kinds[meta["kind"]] = kinds.get(meta["kind"], 0) + 1
        if "depth" in meta and not meta["kind"].startswith("valid-ctx"):
            b = "<=8" if meta["depth"] <= 8 else "9..63" if meta["depth"] < 64 else "64" if meta["depth"] == 64 else ">64"
            depths[b] = depths.get(b, 0) + 1
    for prof, b in bins:
        impl = core.run_lines(b, cases)
        for (c, meta), o in zip(items, impl):
            oracled += 1
            why = oracle(c, meta, o)
            if why:
                failing.append((c, meta, "%s [%s build]" % (why, prof), o))
        if model is not None:
            for c, o, m in zip(cases, impl, model):
                if not (c09.answered(o) and c09.answered(m)):
                    if c09.answered(o) != c09.answered(m):
                        mism.append((c, o, m, prof))
                    continue
                compared += 1
                if c09.strip_impl(o) != m:
                    mism.append((c, o, m, prof))
    for c in (cases[0], cases[len(cases) // 2], cases[-1]):
        chk.sample(c[:300])
    chk.cov["disagreements_checked"] = compared
    chk.cov["oracle_checked"] = oracled
    chk.cov["model_impl_mismatches"] = len(mism)
    chk.cov["distribution"] = dict(kinds=kinds, nesting=depths)
    for c, meta, why, o in failing[:3]:
        chk.violation("C07 fails on the implementation: " + why, dict(kind="case", case=c, meta=meta, impl_output=o[:400]))
    if not failing:
        if mism:
            c, o, m, prof = mism[0]
            chk.violation("correspondence sk broken: skipper model and implementation disagree (%d cases) but the skip oracle "
                          "found no failing input" % len(mism),
                          dict(kind="correspondence", correspondence="sk (coq/Thrift/Skip.v vs pilota::thrift skip_till_depth)",
                               case=c, meta={"kind": "correspondence"}, impl_output=o[:400], model_output=m[:400], build=prof), no_input=True)
        if not gate["ok"]:
            chk.violation("proof obligation broken: %s (%s)" % (gate.get("failed"), gate.get("error", "")[:300]),
                          dict(kind="proof", theorem_file="coq/Properties/C07.v", failed=gate.get("failed"),
                               error=gate.get("error"), theorems=gate["theorems"]), no_input=True)
    return chk.finish()
