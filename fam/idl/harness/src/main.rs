//! pv-harness-idl: runs pilota-thrift-parser's real parsers on case lines (same text protocol as the
//! extracted Coq model runner of family `idl`): one case per stdin line, one result per stdout line.
//!
//! case line   :=  <entry> <hex of the UTF-8 text | ->
//! result line :=  OK <remaining bytes> <canonical AST>
//!              |  ERR E|F <remaining bytes at the error position> <nom ErrorKind>     (Error / Failure)
//!              |  PANIC <message>
//!              |  ABORT <how the worker process died>        (stack overflow of the fixed-size worker stack = SIGABRT)
//!              |  BADCASE <why>
//!
//! Process structure: a supervisor (this process) feeds lines to a worker child process (`--worker`) and
//! respawns it when it dies, because Rust turns a stack overflow into a process abort that cannot be caught.
//! Inside the worker every parse runs on one long-lived thread whose stack has a fixed size (default 2 MiB,
//! `--stack <bytes>`), panics are caught with catch_unwind under a silent panic hook.
mod canon;

use std::io::{BufRead, BufReader, Write};
use std::panic::{catch_unwind, AssertUnwindSafe};
use std::process::{Child, ChildStdin, ChildStdout, Command, Stdio};

use canon::Canon;
use pilota_thrift_parser::parser::Parser;
use pilota_thrift_parser::*;

fn unhex(s: &str) -> Result<Vec<u8>, String> {
    if s == "-" {
        return Ok(vec![]);
    }
    if s.len() % 2 != 0 {
        return Err("odd hex".into());
    }
    let b = s.as_bytes();
    let v = |c: u8| -> Result<u8, String> {
        match c {
            b'0'..=b'9' => Ok(c - b'0'),
            b'a'..=b'f' => Ok(c - b'a' + 10),
            b'A'..=b'F' => Ok(c - b'A' + 10),
            _ => Err("bad hex".into()),
        }
    };
    let mut out = Vec::with_capacity(b.len() / 2);
    for i in (0..b.len()).step_by(2) {
        out.push(v(b[i])? * 16 + v(b[i + 1])?);
    }
    Ok(out)
}

fn show<T: Canon>(r: nom::IResult<&str, T>) -> String {
    match r {
        Ok((rest, v)) => {
            let mut s = String::new();
            v.canon(&mut s);
            format!("OK {} {}", rest.len(), s)
        }
        Err(nom::Err::Error(e)) => format!("ERR E {} {:?}", e.input.len(), e.code),
        Err(nom::Err::Failure(e)) => format!("ERR F {} {:?}", e.input.len(), e.code),
        Err(nom::Err::Incomplete(_)) => "ERR I 0 Incomplete".to_string(),
    }
}

fn run_case(entry: &str, text: &str) -> Result<String, String> {
    Ok(match entry {
        "file" => show(File::parse(text)),
        "item" => show(Item::parse(text)),
        "include" => show(Include::parse(text)),
        "cppinclude" => show(CppInclude::parse(text)),
        "namespace" => show(Namespace::parse(text)),
        "scope" => show(Scope::parse(text)),
        "typedef" => show(Typedef::parse(text)),
        "constant" => show(Constant::parse(text)),
        "enum" => show(Enum::parse(text)),
        "enumvalue" => show(EnumValue::parse(text)),
        "struct" => show(Struct::parse(text)),
        "union" => show(Union::parse(text)),
        "exception" => show(Exception::parse(text)),
        "structlike" => show(StructLike::parse(text)),
        "service" => show(Service::parse(text)),
        "function" => show(Function::parse(text)),
        "field" => show(Field::parse(text)),
        "attribute" => show(Attribute::parse(text)),
        "type" => show(Type::parse(text)),
        "ty" => show(Ty::parse(text)),
        "cpptype" => show(CppType::parse(text)),
        "cv" => show(ConstValue::parse(text)),
        "int" => show(IntConstant::parse(text)),
        "double" => show(DoubleConstant::parse(text)),
        "annotations" => show(Annotations::parse(text)),
        "literal" => show(Literal::parse(text)),
        "ident" => show(Ident::parse(text)),
        "path" => show(Path::parse(text)),
        _ => return Err(format!("unknown entry {entry}")),
    })
}

fn run_line(line: &str) -> String {
    let mut it = line.split(' ');
    let entry = it.next().unwrap_or("");
    if entry == "selftest" {
        return selftest();
    }
    let hex = match it.next() {
        Some(h) => h,
        None => return "BADCASE missing text".into(),
    };
    let bytes = match unhex(hex) {
        Ok(b) => b,
        Err(e) => return format!("BADCASE {e}"),
    };
    let text = match String::from_utf8(bytes) {
        Ok(t) => t,
        Err(_) => return "BADCASE notutf8".into(),
    };
    match catch_unwind(AssertUnwindSafe(|| run_case(entry, &text))) {
        Ok(Ok(s)) => s,
        Ok(Err(e)) => format!("BADCASE {e}"),
        Err(p) => {
            let msg = if let Some(s) = p.downcast_ref::<&str>() {
                s.to_string()
            } else if let Some(s) = p.downcast_ref::<String>() {
                s.clone()
            } else {
                "?".to_string()
            };
            format!("PANIC {}", msg.replace('\n', " "))
        }
    }
}

/// Facts about std / nom the Coq model relies on, checked exhaustively over all `char`s:
///  * nom's `tag_no_case("e")` on &str lowercases with `char::to_lowercase`; the model matches the bytes
///    'e' and 'E' only: no other char has the same lowercase expansion as 'e';
///  * `char::is_alphanumeric` restricted to ASCII is [0-9A-Za-z];
///  * prints a digest of the set of non-ASCII alphanumeric code points (the model's table is regenerated
///    from the same toolchain by tools/extract_idl.py; the check compares the digests).
fn selftest() -> String {
    let mut bad = Vec::new();
    let mut h: u64 = 0xcbf29ce484222325;
    let mut n_alnum = 0u32;
    for cp in 0u32..=0x10FFFF {
        if let Some(c) = char::from_u32(cp) {
            if c != 'e' && c != 'E' && c.to_lowercase().eq('e'.to_lowercase()) {
                bad.push(format!("lower({cp:x})=e"));
            }
            if cp < 128 && c.is_alphanumeric() != c.is_ascii_alphanumeric() {
                bad.push(format!("ascii-alnum({cp:x})"));
            }
            if cp >= 128 && c.is_alphanumeric() {
                n_alnum += 1;
                for b in cp.to_le_bytes() {
                    h ^= b as u64;
                    h = h.wrapping_mul(0x100000001b3);
                }
            }
        }
    }
    if bad.is_empty() {
        format!("SELFTEST ok alnum_nonascii={n_alnum} fnv={h:016x}")
    } else {
        format!("SELFTEST FAIL {}", bad.join(","))
    }
}

fn worker(stack: usize) {
    std::panic::set_hook(Box::new(|_| {}));
    let th = std::thread::Builder::new()
        .stack_size(stack)
        .spawn(move || {
            let stdin = std::io::stdin();
            let stdout = std::io::stdout();
            let mut out = stdout.lock();
            for line in stdin.lock().lines() {
                let line = match line {
                    Ok(l) => l,
                    Err(_) => break,
                };
                let r = run_line(line.trim());
                let _ = writeln!(out, "{r}");
                let _ = out.flush();
            }
        })
        .expect("spawn worker thread");
    let _ = th.join();
}

struct Kid {
    child: Child,
    tx: ChildStdin,
    rx: BufReader<ChildStdout>,
}

fn spawn_kid(stack: usize) -> Kid {
    let exe = std::env::current_exe().expect("current_exe");
    let mut child = Command::new(exe)
        .arg("--worker")
        .arg("--stack")
        .arg(stack.to_string())
        .stdin(Stdio::piped())
        .stdout(Stdio::piped())
        .stderr(Stdio::null())
        .spawn()
        .expect("spawn worker process");
    let tx = child.stdin.take().unwrap();
    let rx = BufReader::new(child.stdout.take().unwrap());
    Kid { child, tx, rx }
}

fn main() {
    let args: Vec<String> = std::env::args().collect();
    let mut stack: usize = 2 << 20;
    let mut is_worker = false;
    let mut i = 1;
    while i < args.len() {
        match args[i].as_str() {
            "--worker" => is_worker = true,
            "--stack" => {
                i += 1;
                stack = args.get(i).and_then(|s| s.parse().ok()).expect("--stack <bytes>");
            }
            _ => {}
        }
        i += 1;
    }
    if is_worker {
        worker(stack);
        return;
    }
    let stdin = std::io::stdin();
    let stdout = std::io::stdout();
    let mut out = std::io::BufWriter::new(stdout.lock());
    let mut kid = spawn_kid(stack);
    for line in stdin.lock().lines() {
        let line = line.unwrap();
        let line = line.trim();
        if line.is_empty() {
            writeln!(out).unwrap();
            out.flush().unwrap();
            continue;
        }
        let sent = writeln!(kid.tx, "{line}").and_then(|_| kid.tx.flush());
        let mut resp = String::new();
        let got = if sent.is_ok() { kid.rx.read_line(&mut resp).unwrap_or(0) } else { 0 };
        if got == 0 {
            // the worker died on this case
            let st = kid.child.wait();
            let how = match st {
                Ok(s) => {
                    #[cfg(unix)]
                    {
                        use std::os::unix::process::ExitStatusExt;
                        match s.signal() {
                            Some(sig) => format!("signal {sig}"),
                            None => format!("exit {}", s.code().unwrap_or(-1)),
                        }
                    }
                    #[cfg(not(unix))]
                    {
                        format!("exit {}", s.code().unwrap_or(-1))
                    }
                }
                Err(_) => "unknown".to_string(),
            };
            writeln!(out, "ABORT {how}").unwrap();
            kid = spawn_kid(stack);
        } else {
            out.write_all(resp.trim_end().as_bytes()).unwrap();
            out.write_all(b"\n").unwrap();
        }
        // one flush per answer: pv/core.py run_lines attributes a stall / a dead process to the first case without an
        // answer, which is the right case only if every earlier answer has left this process
        out.flush().unwrap();
    }
    out.flush().unwrap();
    drop(kid.tx);
    let _ = kid.child.wait();
}
