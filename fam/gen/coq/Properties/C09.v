(* C09 at the generated-code level -- the decoders pilota-build emits (sync templates, Gen.gen_decode) are total:
   arbitrary bytes give a value or an error.  The primitive readers and the skipper are covered by the main
   family (PV.Properties.C09); here: the emitted struct / union / container / typedef / enum decoders built on
   them, for EVERY schema (well-formed or not), every declared type, binary / binary-LE / compact, ALL byte
   strings (every truncation, bit flip, corrupted length / count / type / id is an instance) and EVERY initial
   reader context.  Statements only; lemmas in Proofs/TotalGenP.v.

   Panic sites of the emitted code that the model carries (Gen.v): the TLengthProtocol calls the sync templates
   make on the compact READER -- field_begin_len(Bool) with a bool field already pending, field_end_len /
   field_stop_len with a pending bool field, the unwraps of field_begin_len.  After the runtime repair F-09g
   (read_field_begin drops the pending announcement) none of them is reachable; before it the union template,
   which matches a variant on the id only, reached them on 4 bytes.

   Recursion depth: the fuel of gen_decode is consumed once per nested decode call, so C09_gen_total also says
   that the native recursion depth never exceeds [length l + 1] -- and that is the only bound: the templates have
   no depth limit, a recursive schema recurses once per nesting level of the INPUT (C09_gen_depth_unbounded below;
   finding F-09f, demonstrated on the implementation by the coordinator's C09 check; stack exhaustion itself is
   outside this model).
   Memory: the emitted sync container decoders preallocate from the element count returned by read_list_begin /
   read_set_begin / read_map_begin, which is bounded by the remaining input (PV.Properties.C09:
   C09_list_size_bounded, C09_map_size_bounded); byte strings are slices of the input. *)
From PV Require Import Proofs.HeaderP Proofs.PrefixP.
From PVGen Require Import Gen GenSpec Proofs.TotalGenP.
Open Scope Z_scope.

(* no panic, no hang: fuel [length l + 1] is never exhausted *)
Theorem C09_gen_total : forall S p t (l : list byte) rcx,
  let o := gen_decode S p (length l + 1) t (mkS l rcx) in
  (forall st, o <> Panic st) /\ o <> Err EOutOfFuel.
Proof. exact gen_decode_total. Qed.
Print Assumptions C09_gen_total.

(* any larger fuel gives the same guarantee (the entry point of the correspondence runner uses length l + 80) *)
Theorem C09_gen_total_fuel : forall S p t (l : list byte) rcx fuel, (length l < fuel)%nat ->
  let o := gen_decode S p fuel t (mkS l rcx) in
  (forall st, o <> Panic st) /\ o <> Err EOutOfFuel.
Proof. exact gen_decode_total_fuel. Qed.
Print Assumptions C09_gen_total_fuel.

Theorem C09_gen_total_top : forall S p t (l : list byte),
  (forall st, gen_decode_top S p t l <> Panic st) /\ gen_decode_top S p t l <> Err EOutOfFuel.
Proof. exact gen_decode_top_total. Qed.
Print Assumptions C09_gen_total_top.

(* a decoder never reads past the end of its input *)
Theorem C09_gen_consumes : forall S p f t s v s',
  (blen s < f)%nat -> gen_decode S p f t s = Ok (v, s') -> (blen s' <= blen s)%nat.
Proof. exact gen_decode_consumes. Qed.
Print Assumptions C09_gen_consumes.

(* every strict prefix of what the emitted encoder writes for a value of a declared type (a struct or any other
   type) is rejected with a genuine error -- not accepted, no panic, no fuel exhaustion *)
Theorem C09_gen_prefix : forall S p k t v,
  wf_schema S = true -> has_type S t v = true ->
  forall c, w_pend c = None ->
  exists ss, enc_ty S p k t v c = Ok (ss, c) /\
    forall n fuel rcx, (n < length (flat ss))%nat -> (vsize (to_tval S t v) <= fuel)%nat -> (n < fuel)%nat -> idle rcx ->
      exists e, gen_decode S p fuel t (mkS (firstn n (flat ss)) rcx) = Err e /\ e <> EOutOfFuel.
Proof. exact gen_prefix_rejected. Qed.
Print Assumptions C09_gen_prefix.

(* the lemma behind it: the emitted decoders are monotone in their input -- a decode that succeeds on a buffer
   succeeds with the same value on every extension and leaves the extension unread (a decoder never depends
   on what follows the message) *)
Theorem C09_gen_monotone : forall S p f t s v s' tl,
  gen_decode S p f t s = Ok (v, s') -> gen_decode S p f t (ext s tl) = Ok (v, ext s' tl).
Proof. exact gen_decode_monotone. Qed.
Print Assumptions C09_gen_monotone.

(* "never overflows the stack" is NOT provable for the emitted decoders, and the model says why: there is no depth
   limit in the templates.  For the recursive struct R { 1: optional R next } and every d there is a message the
   decoder accepts whose value is nested d+1 deep, and no run with fewer than d+1 nested decode calls (fuel <= d)
   produces it: the native recursion depth is proportional to the nesting of the input (finding F-09f). *)
Theorem C09_gen_depth_unbounded : exists S t, wf_schema S = true /\
  forall d : nat, exists l v fuel,
    gen_decode S PBinary fuel t (mkS l r0) = Ok (v, mkS [] r0) /\ gdepth v = Datatypes.S d /\
    forall f s', (f <= d)%nat -> gen_decode S PBinary f t (mkS l r0) <> Ok (v, s').
Proof. exact gen_depth_unbounded. Qed.
Print Assumptions C09_gen_depth_unbounded.

(* ---------------------------------------------------------------------------------------------------------------
   "never requests memory out of proportion to the input length", generated level.  GenAlloc.alloc_decode is the
   emitted decoder (sync and async templates; alloc_decode_keep: the sync templates of keep_unknown_fields builds)
   threaded with a ghost counter of the bytes it requests: Vec::with_capacity(count) / HashMap / HashSet
   preallocation from the wire count exactly as the templates do it (async: no clamp for containers, the
   runtime's prealloc_limit clamp for byte strings), strings and binaries, the frame of every struct / union decode
   (the Box / Arc of a nested struct, the locals, the default values), the chunk retained for every unknown field.
   Erasing the counter gives back the decoder the other theorems speak about.  Lemmas in Proofs/AllocGenP.v. *)
From PV Require Import Thrift.Alloc.
From PVGen Require Import GenKeep GenAsync Own GenAlloc Proofs.AllocGenP.

Theorem C09_gen_alloc_erase : forall kb S p f t s a,
  fst (alloc_decode MSync kb S p f t s a) = gen_decode S p f t s.
Proof. exact alloc_erase_sync_gen. Qed.
Print Assumptions C09_gen_alloc_erase.

Theorem C09_gen_alloc_erase_async : forall kb S p f t s a,
  fst (alloc_decode MAsync kb S p f t s a) = gen_decode_async S p f t s.
Proof. exact alloc_erase_async_gen. Qed.
Print Assumptions C09_gen_alloc_erase_async.

Theorem C09_gen_alloc_erase_keep : forall S p f t s a,
  fst (alloc_decode_keep S p f t s a) = gen_decode_keep S p f t s.
Proof. exact alloc_erase_keep. Qed.
Print Assumptions C09_gen_alloc_erase_keep.

(* the bound.  alloc_class md kb S wgt t is a decidable certificate check: wgt gives every declared type a weight
   that dominates its frame and the weights of its members, a container ADDS the (preallocated) size of its element
   to the weight of the element -- so a cycle through a container has no certificate (F-09h) -- and the async
   templates have no certificate for any container (F-09e).  With a certificate of weight g for t:
       a = pot_w * g          (pot_w = 2 sync, 3 async)
       b = 2 * g + bytes_k    (bytes_k = 1 sync, prealloc_limit + 1 async)
   for EVERY byte string, protocol, fuel and reader context, whatever the outcome (value, error, panic). *)
Theorem C09_gen_alloc : forall md kb S p wgt t, alloc_class md kb S wgt t = true ->
  forall f (l : list byte) rcx,
    snd (alloc_decode md kb S p f t (mkS l rcx) 0) <= alloc_a md kb S wgt t * Z.of_nat (length l) + alloc_b md kb S wgt t.
Proof. exact gen_alloc_bound. Qed.
Print Assumptions C09_gen_alloc.

(* the entry point the correspondence runner executes (fuel length + 80, idle context, top_const for the call frame) *)
Theorem C09_gen_alloc_top : forall md kb S p wgt t, alloc_class md kb S wgt t = true ->
  forall l : list byte,
    snd (alloc_decode_top md kb S p t l) <= alloc_a md kb S wgt t * Z.of_nat (length l) + (alloc_b md kb S wgt t + top_const md).
Proof. exact gen_alloc_bound_top. Qed.
Print Assumptions C09_gen_alloc_top.

(* keep_unknown_fields builds, sync templates: every retained chunk is charged (header + skipped bytes + chunk_cost);
   the `args` structs of such builds (F-13a: the rest of the input is taken as one chunk) have no certificate *)
Theorem C09_gen_alloc_keep : forall S p wgt t, alloc_class MSync true S wgt t = true ->
  forall f (l : list byte) rcx,
    snd (alloc_decode_keep S p f t (mkS l rcx) 0) <= alloc_a MSync true S wgt t * Z.of_nat (length l) + alloc_b MSync true S wgt t.
Proof. exact gen_alloc_bound_keep. Qed.
Print Assumptions C09_gen_alloc_keep.

Theorem C09_gen_alloc_keep_top : forall S p wgt t, alloc_class MSync true S wgt t = true ->
  forall l : list byte,
    snd (alloc_decode_keep_top S p t l) <= alloc_a MSync true S wgt t * Z.of_nat (length l) + (alloc_b MSync true S wgt t + top_const MSync).
Proof. exact gen_alloc_bound_keep_top. Qed.
Print Assumptions C09_gen_alloc_keep_top.

(* the class is inhabited: a struct with list<string>, map<string, Inner>, Inner { set<i64> } (sync; a = 80000, b = 80001 for
   the generous certificate of the example -- the runner computes the least one), a recursive string-only struct (async),
   the first schema in a keep build *)
Theorem C09_gen_alloc_nonvacuous :
  (alloc_class MSync false al_schema al_wgt (TyRef 0) = true /\
   alloc_a MSync false al_schema al_wgt (TyRef 0) = 80000 /\ alloc_b MSync false al_schema al_wgt (TyRef 0) = 80001) /\
  alloc_class MAsync false al_schema_a [(0%nat, 20000)] (TyRef 0) = true /\
  alloc_class MSync true al_schema_k [(1%nat, 40000); (0%nat, 100000)] (TyRef 0) = true.
Proof. exact gen_alloc_nonvacuous. Qed.
Print Assumptions C09_gen_alloc_nonvacuous.

(* outside the class the statement is false.  F-09h: struct Tree { 2: list<Tree> kids } has no certificate, and the
   count is not linear: 256 bytes request >= 600 * 256, 512 bytes >= 1200 * 512 (each nesting level preallocates
   from a count bounded by the WHOLE remaining input; the ratio doubles with the length) *)
Theorem C09_gen_alloc_nested_refuted :
  (forall wgt, alloc_class MSync false tree_schema wgt (TyRef 0) = false) /\
  (let l1 := tree_input 32 32 in let l2 := tree_input 64 64 in
   length l1 = 256%nat /\ length l2 = 512%nat /\
   600 * 256 <= snd (alloc_decode_top MSync false tree_schema PBinary (TyRef 0) l1) /\
   1200 * 512 <= snd (alloc_decode_top MSync false tree_schema PBinary (TyRef 0) l2)).
Proof. exact gen_alloc_nested_refuted. Qed.
Print Assumptions C09_gen_alloc_nested_refuted.

(* F-09e: typedef list<i32> through the async templates (Vec::with_capacity(announced count), no clamp, no check against
   the remaining input): no certificate, and the 5 bytes 08 7f000000 request >= 4 * 2130706432 bytes *)
Theorem C09_gen_alloc_async_refuted :
  (forall wgt, alloc_class MAsync false modes_schema wgt (TyRef 0) = false) /\
  4 * 2130706432 <= snd (alloc_decode_top MAsync false modes_schema PBinary (TyRef 0) [x08; x7f; x00; x00; x00]%byte).
Proof. exact gen_alloc_async_refuted. Qed.
Print Assumptions C09_gen_alloc_async_refuted.

(* ---------- the keep_unknown_fields decoder with the retained slice as Rust takes it (GenKeepG.v) ----------
   get_bytes(Some(begin_ptr), offset) = copy_from_slice(from_raw_parts(ptr, len)) is PARTIAL: an offset beyond the input is an
   out-of-bounds read (Panic SOob in gen_decode_keep_g; GenKeep.gen_decode_keep totalises it with firstn). *)
From PVGen Require Import GenKeep GenKeepG Proofs.KeepTotalP.

(* binary protocols (the ones retention is documented for), outside the F-13a class (no_arg_keeps = KeepSpec.no_keep_arg: no keeping struct
   is an `args` type): on EVERY byte string, reader context and fuel above the input length the keep decoder returns a value or a
   genuine error -- never a panic (no out-of-bounds slice, no usize underflow), never fuel exhaustion *)
Theorem C09_gen_keep_total : forall S p t (l : list byte) rcx fuel,
  p <> PCompact -> no_arg_keeps S = true -> (length l < fuel)%nat ->
  let o := gen_decode_keep_g S p fuel t (mkS l rcx) in
  (forall st, o <> Panic st) /\ o <> Err EOutOfFuel.
Proof. exact gen_decode_keep_total. Qed.
Print Assumptions C09_gen_keep_total.

(* there the offset is exactly the number of bytes consumed: the partial decoder IS the totalised one -- every schema (also
   with `args` types), fuel, type, state -- so what is proved of GenKeep.gen_decode_keep (C09_gen_alloc_keep, C13_*, C19_*_keep,
   C11_gen_read_eq) is, in the binary protocols, proved of the decoder with the honest slice *)
Theorem C09_gen_keep_partial_is_total_binary : forall S p, p <> PCompact ->
  forall fuel t s, gen_decode_keep_g S p fuel t s = gen_decode_keep S p fuel t s.
Proof. exact keep_g_agrees. Qed.
Print Assumptions C09_gen_keep_partial_is_total_binary.

(* compact: the reader's field_begin_len counts the long form of a field header that came in the short form, and on a message
   that ends right after an unknown field the slice reaches past the input: finding F-13b (FINDINGS.md; retention is
   documented for the binary codecs only).  The totalised model returns an error there; statements about gen_decode_keep under
   PCompact are statements about the totalised function *)
Theorem C09_gen_keep_compact_oob_refuted :
  let S := [DStruct [] true false] in
  gen_decode_keep_g S PCompact 40 (TyRef 0) (mkS [x25; x02] r0) = Panic SOob /\
  (exists e, gen_decode_keep S PCompact 40 (TyRef 0) (mkS [x25; x02] r0) = Err e) /\
  (forall p fuel s, p <> PCompact -> gen_decode_keep_g S p fuel (TyRef 0) s = gen_decode_keep S p fuel (TyRef 0) s).
Proof. exact keep_compact_oob_refuted. Qed.
Print Assumptions C09_gen_keep_compact_oob_refuted.

(* the F-13a class is needed *)
Theorem C09_gen_keep_arg_refuted :
  gen_decode_keep_g [DStruct [] true true] PBinary 40 (TyRef 0) (mkS [x00] r0) = Panic SOverflow.
Proof. exact keep_arg_panics. Qed.
Print Assumptions C09_gen_keep_arg_refuted.

(* ---------------------------------------------------------------------------------------------------------------
   Panic-site inventory of the TEMPLATES.  The Panic outcomes of Gen.v / GenKeep.v (Gen.r_field_begin_len, r_assert_no_pending;
   GenKeep: Panic SOverflow) were picked by reading the templates; this is the regenerated counterpart: every unwrap / expect /
   panic-family macro / index expression / integer arithmetic / with_capacity in the EMITTED TEXT (the string literals of
   pilota-build/src/codegen/thrift/{mod,ty,decode_helper}.rs), as (file, generator function, kind, line text)
   (tools/gen_template_inventory.py -> Generated/TemplateSites.v), with a disposition each (TemplateAcc.pdisp, a closed enumeration).
   What the theorem pins: accounted = regenerated as lists; the emitted text contains NO unwrap / expect / panic macro / index
   expression; every with_capacity is under the memory clause (C09_gen_alloc, F-09e, F-09h); exactly one arithmetic operation is a
   modelled panic (`__pilota_remaining - 2`, F-13a).  Emitted operations the models treat as possibly panicking: that subtraction, and
   the TLengthProtocol calls on the reader (PRuntimeLen rows: field_begin_len / field_end_len / field_stop_len and the skip / size
   expressions added to __pilota_offset), whose compact versions assert on / unwrap the pending-bool state -- the runtime's own panic
   sites are inventoried by the main family (PV.Generated.ReaderSites, C09_site_inventory).  Everything else the emitted decoders do
   is a call into the runtime readers (C09_total) or safe control flow. *)
From Coq Require Import String Bool.
From PVGen Require Import Generated.TemplateSites TemplateAcc Proofs.TemplateAccP.
Theorem C09_gen_panic_inventory :
  map fst accounted_panic_sites = template_panic_sites /\
  forallb (fun sr => Bool.eqb (String.eqb (kind_of (fst sr)) "alloc") (pdisp_eqb (snd sr) PAllocClause)) accounted_panic_sites = true /\
  List.length (filter (fun sr => pdisp_eqb (snd sr) PModelPanic) accounted_panic_sites) = 1%nat /\
  forallb (fun sr => negb (String.eqb (kind_of (fst sr)) "unwrap" || String.eqb (kind_of (fst sr)) "expect" ||
                           String.eqb (kind_of (fst sr)) "panic_macro" || String.eqb (kind_of (fst sr)) "index")) accounted_panic_sites = true.
Proof. exact template_panic_inventory. Qed.
Print Assumptions C09_gen_panic_inventory.
