(* C13 / C11, LinkedBytes flavours of the writer: the bytes the emitted encoder produces do not depend on the buffer
   flavour (contiguous, linked, linked with zero-copy), retained chunks included; on a linked transport with zero-copy the
   segments that become nodes of their own are exactly the string / binary payloads and retained chunks of at least
   ZERO_COPY_THRESHOLD bytes (zero_copy_len = FullSpec.zc_total), on every other flavour none; the unchecked writer
   (GenUnsafe.uenc_ty) reproduces the segments in a window of size() bytes and reports that zero_copy_len. *)
From PV Require Import Thrift.Unsafe Proofs.TablesP Proofs.PrimP Proofs.HeaderP Proofs.RoundtripP Proofs.LenP Proofs.UnsafeP.
From PVGen Require Import Gen GenKeep GenSpec KeepSpec FullSpec GenUnsafe Proofs.GenBase Proofs.EncP Proofs.KeepSizeP Proofs.UnsafeGenP Proofs.KeepFullP.
From Coq Require Import ZifyN ZifyNat ZifyBool.
Open Scope Z_scope.

(* ---------- bytes independent of the flavour ---------- *)
Lemma fl_fail c : fl (@wfail c) = fl (@wfail c).
Proof. reflexivity. Qed.

Theorem enc_buffer_independent S p k k' : forall v t c, fl (enc_ty S p k t v c) = fl (enc_ty S p k' t v c).
Proof.
  induction v as [b|z|z|z|z|z|l|l| |z|l HF|l HF|l HF|fs unk HF|id x IH|u] using gval_ind'; intros t c; try reflexivity.
  - cbn [enc_ty]. destruct (resolve S t); try reflexivity; unfold w_bytes; (apply fl_wseq_ext; [reflexivity|]; intros c1; apply fl_bwl).
  - rewrite !enc_ty_list. destruct (resolve S t); try reflexivity. apply fl_wseq_ext; [reflexivity|]. clear c.
    induction HF as [|x r Hx Hr IHr]; intros c; [reflexivity|]. rewrite !enc_elems_cons. apply fl_wseq_ext; [apply Hx|exact IHr].
  - rewrite !enc_ty_set. destruct (resolve S t); try reflexivity. apply fl_wseq_ext; [reflexivity|]. clear c.
    induction HF as [|x r Hx Hr IHr]; intros c; [reflexivity|]. rewrite !enc_elems_cons. apply fl_wseq_ext; [apply Hx|exact IHr].
  - rewrite !enc_ty_map. destruct (resolve S t); try reflexivity. apply fl_wseq_ext; [reflexivity|]. clear c.
    induction HF as [|[a b] r [Ha Hb] Hr IHr]; intros c; [reflexivity|]. rewrite !enc_pairs_cons. cbn [fst snd] in *.
    apply fl_wseq_ext; [apply fl_wseq_ext; [apply Ha|apply Hb]|exact IHr].
  - rewrite !enc_ty_struct. destruct (resolve S t); try reflexivity.
    destruct (lookup S n) as [[dfs kp ia| | |]|]; try reflexivity.
    apply fl_wseq_ext; [|reflexivity]. apply fl_wseq_ext; [|reflexivity]. apply fl_wseq_ext.
    + apply fl_wseq_ext; [reflexivity|]. clear c.
      induction HF as [|[id x] r Hx Hr IHr]; intros c; [reflexivity|]. rewrite !enc_fields_cons. cbn [snd] in Hx.
      destruct (find_field dfs id) as [fl0|]; [|reflexivity].
      apply fl_wseq_ext; [|exact IHr]. unfold enc_field. destruct (is_void (resolve S (f_ty fl0))); [reflexivity|].
      apply fl_wseq_ext; [|reflexivity]. apply fl_wseq_ext; [reflexivity|apply Hx].
    + clear. induction unk as [|ch r IHr]; intros c1; [reflexivity|]. cbn [w_unknown fold_right].
      apply fl_wseq_ext; [apply fl_bwl|exact IHr].
  - rewrite !enc_ty_union. destruct (resolve S t); try reflexivity.
    destruct (lookup S n) as [[|vs vo kp| |]|]; try reflexivity.
    destruct (find_variant vs id) as [vt|]; [|reflexivity].
    apply fl_wseq_ext; [|reflexivity]. apply fl_wseq_ext; [|reflexivity]. apply fl_wseq_ext; [reflexivity|]. intros c1.
    destruct (is_void (resolve S vt)); [reflexivity|].
    apply fl_wseq_ext; [|reflexivity]. apply fl_wseq_ext; [reflexivity|apply IH].
  - cbn [enc_ty]. destruct (resolve S t); try reflexivity.
    destruct (lookup S n) as [[|vs vo [|]| |]|]; try reflexivity.
    apply fl_wseq_ext; [|reflexivity]. apply fl_wseq_ext; [|reflexivity]. apply fl_wseq_ext; [reflexivity|]. intros c1. apply fl_bwl.
Qed.

Corollary gen_encode_buffer_independent S p k k' t v : gen_encode S p k t v = gen_encode S p k' t v.
Proof.
  unfold gen_encode. pose proof (enc_buffer_independent S p k k' v t w0) as H.
  destruct (enc_ty S p k t v w0) as [[s1 c1]| |], (enc_ty S p k' t v w0) as [[s2 c2]| |]; cbn [fl bind] in *; try discriminate; try reflexivity.
  - injection H as -> _. reflexivity.
  - injection H as ->. reflexivity.
  - injection H as ->. reflexivity.
Qed.

(* ---------- what becomes a node of its own ---------- *)
Definition ZC (n : Z) (w : wm) : Prop := forall c ss c', w c = Ok (ss, c') -> zc_len ss = n.

Lemma ZC_seq n1 n2 a b : ZC n1 a -> ZC n2 b -> ZC (n1 + n2) (a ;; b).
Proof.
  intros Ha Hb c ss c' H. apply wseq_inv in H as (s1 & c1 & s2 & H1 & H2 & ->).
  rewrite zc_len_app, (Ha _ _ _ H1), (Hb _ _ _ H2). reflexivity.
Qed.
Lemma ZC_fail n : ZC n (@wfail).
Proof. intros c ss c' H. discriminate. Qed.
Lemma ZC_ext n (w w' : wm) : (forall c, w c = w' c) -> ZC n w' -> ZC n w.
Proof. intros E H c ss c' Hw. rewrite E in Hw. eauto. Qed.
Lemma ZC_0 w : nonode w -> ZC 0 w.
Proof. intros H. exact H. Qed.
Lemma ZC_eq n m w : n = m -> ZC n w -> ZC m w.
Proof. intros ->. auto. Qed.

Lemma ZC_bwl k b : ZC (bigk k b) (w_bytes_without_len k b).
Proof.
  intros c ss c' H. unfold w_bytes_without_len in H. unfold bigk.
  destruct k as [|[|]]; try (injection H as <- _; reflexivity).
  destruct (zero_copy_threshold <=? Z.of_nat (length b)); injection H as <- _; cbn [zc_len fold_right]; lia.
Qed.

Section ZcNames.
  Variable S : schema.
  Variable k : bk.
  Definition zc_elems (et : ty) : list gval -> Z :=
    fix go (l : list gval) : Z := match l with [] => 0 | x :: r => zc_total S k et x + go r end.
  Definition zc_pairs (kt vt : ty) : list (gval * gval) -> Z :=
    fix go (l : list (gval * gval)) : Z := match l with [] => 0 | (a, b) :: r => zc_total S k kt a + zc_total S k vt b + go r end.
  Definition zc_fields (dfs : list field) : list (Z * gval) -> Z :=
    fix go (fs : list (Z * gval)) : Z :=
      match fs with
      | [] => 0
      | (id, x) :: r =>
          match find_field dfs id with
          | Some f => (if is_void (resolve S (f_ty f)) then 0 else zc_total S k (f_ty f) x) + go r
          | None => 0
          end
      end.
  Definition zc_unk (unk : list (list byte)) : Z := fold_right (fun c a => bigk k c + a) 0 unk.

  Lemma zc_total_list t l : zc_total S k t (GList l) = match resolve S t with TyList et => zc_elems et l | _ => 0 end.
  Proof. reflexivity. Qed.
  Lemma zc_total_set t l : zc_total S k t (GSet l) = match resolve S t with TySet et => zc_elems et l | _ => 0 end.
  Proof. reflexivity. Qed.
  Lemma zc_total_map t l : zc_total S k t (GMap l) = match resolve S t with TyMap kt vt => zc_pairs kt vt l | _ => 0 end.
  Proof. reflexivity. Qed.
  Lemma zc_total_struct t fs unk : zc_total S k t (GStruct fs unk) =
    match resolve S t with
    | TyRef n => match lookup S n with Some (DStruct dfs _ _) => zc_fields dfs fs + zc_unk unk | _ => 0 end
    | _ => 0
    end.
  Proof. reflexivity. Qed.
  Lemma zc_total_union t id x : zc_total S k t (GUnion id x) =
    match resolve S t with
    | TyRef n =>
        match lookup S n with
        | Some (DUnion vs _ _) =>
            match find_variant vs id with
            | Some vt => if is_void (resolve S vt) then 0 else zc_total S k vt x
            | None => 0
            end
        | _ => 0
        end
    | _ => 0
    end.
  Proof. reflexivity. Qed.
End ZcNames.

Theorem enc_zc S k : forall v t, ZC (zc_total S k t v) (enc_ty S PBinary k t v).
Proof.
  induction v as [b|z|z|z|z|z|l|l| |z|l HF|l HF|l HF|fs unk HF|id x IH|u] using gval_ind'; intros t.
  1-6,8: cbn [enc_ty zc_total]; destruct (resolve S t); try apply ZC_fail; apply ZC_0, nonode_ret.
  - cbn [enc_ty zc_total]. destruct (resolve S t); try apply ZC_fail; unfold w_bytes;
      (eapply ZC_eq; [|apply ZC_seq; [apply ZC_0, nonode_ret|apply ZC_bwl]]; lia).
  - cbn [enc_ty zc_total]. destruct (resolve S t); try apply ZC_fail. eapply ZC_ext; [apply norm_void|apply ZC_0, nonode_nop].
  - cbn [enc_ty zc_total]. destruct (resolve S t); try apply ZC_fail. destruct (lookup S n) as [[| | |]|]; try apply ZC_fail.
    apply ZC_0, nonode_ret.
  - rewrite enc_ty_list, zc_total_list. destruct (resolve S t); try apply ZC_fail.
    eapply ZC_eq; [|apply ZC_seq; [cbn [w_coll_begin]; apply ZC_0, nonode_seq; apply nonode_ret|]]; [apply Z.add_0_l|].
    induction HF as [|x r Hx Hr IHr]; [apply ZC_0, nonode_nop|]. rewrite enc_elems_cons. cbn [zc_elems]. apply ZC_seq; [apply Hx|exact IHr].
  - rewrite enc_ty_set, zc_total_set. destruct (resolve S t); try apply ZC_fail.
    eapply ZC_eq; [|apply ZC_seq; [cbn [w_coll_begin]; apply ZC_0, nonode_seq; apply nonode_ret|]]; [apply Z.add_0_l|].
    induction HF as [|x r Hx Hr IHr]; [apply ZC_0, nonode_nop|]. rewrite enc_elems_cons. cbn [zc_elems]. apply ZC_seq; [apply Hx|exact IHr].
  - rewrite enc_ty_map, zc_total_map. destruct (resolve S t); try apply ZC_fail.
    eapply ZC_eq; [|apply ZC_seq; [cbn [w_map_begin]; apply ZC_0, nonode_seq; [apply nonode_seq|]; apply nonode_ret|]]; [apply Z.add_0_l|].
    induction HF as [|[a b] r [Ha Hb] Hr IHr]; [apply ZC_0, nonode_nop|]. rewrite enc_pairs_cons. cbn [zc_pairs]. cbn [fst snd] in *.
    apply ZC_seq; [apply ZC_seq; [apply Ha|apply Hb]|exact IHr].
  - rewrite enc_ty_struct, zc_total_struct. destruct (resolve S t); try apply ZC_fail.
    destruct (lookup S n) as [[dfs kp ia| | |]|]; try apply ZC_fail.
    eapply ZC_ext; [apply norm_struct|].
    eapply ZC_eq; [|apply ZC_seq; [apply ZC_seq|apply ZC_0, nonode_ret]]; [apply Z.add_0_r| |].
    + induction HF as [|[id x] r Hx Hr IHr]; [apply ZC_0, nonode_nop|]. rewrite enc_fields_cons. cbn [zc_fields]. cbn [snd] in Hx.
      destruct (find_field dfs id) as [fl0|]; [|apply ZC_fail].
      apply ZC_seq; [|exact IHr]. unfold enc_field. destruct (is_void (resolve S (f_ty fl0))); [apply ZC_0, nonode_nop|].
      eapply ZC_ext; [apply norm_field|]. eapply ZC_eq; [|apply ZC_seq; [apply ZC_0, nonode_ret|apply Hx]]. apply Z.add_0_l.
    + induction unk as [|ch r IHr]; [apply ZC_0, nonode_nop|]. cbn [w_unknown zc_unk fold_right]. apply ZC_seq; [apply ZC_bwl|exact IHr].
  - rewrite enc_ty_union, zc_total_union. destruct (resolve S t); try apply ZC_fail.
    destruct (lookup S n) as [[|vs vo kp| |]|]; try apply ZC_fail.
    destruct (find_variant vs id) as [vt|]; [|apply ZC_fail].
    eapply ZC_ext; [apply norm_union|]. eapply ZC_eq; [|apply ZC_seq; [|apply ZC_0, nonode_ret]]; [apply Z.add_0_r|].
    destruct (is_void (resolve S vt)); [apply ZC_0, nonode_nop|].
    eapply ZC_ext; [apply norm_field|]. eapply ZC_eq; [|apply ZC_seq; [apply ZC_0, nonode_ret|apply IH]]. apply Z.add_0_l.
  - cbn [enc_ty zc_total]. destruct (resolve S t); try apply ZC_fail.
    destruct (lookup S n) as [[|vs vo [|]| |]|]; try apply ZC_fail.
    eapply ZC_ext; [apply norm_union|]. eapply ZC_eq; [|apply ZC_seq; [apply ZC_bwl|apply ZC_0, nonode_ret]]. apply Z.add_0_r.
Qed.

(* a flavour without zero-copy inserts nothing *)
Lemma bigk_nozc k l : k <> BLinked true -> bigk k l = 0.
Proof. destruct k as [|[|]]; try reflexivity. congruence. Qed.

Theorem zc_total_nozc S k : k <> BLinked true -> forall v t, zc_total S k t v = 0.
Proof.
  intros Hk. induction v as [b|z|z|z|z|z|l|l| |z|l HF|l HF|l HF|fs unk HF|id x IH|u] using gval_ind'; intros t; try reflexivity.
  - cbn [zc_total]. destruct (resolve S t); try reflexivity; apply bigk_nozc; exact Hk.
  - rewrite zc_total_list. destruct (resolve S t); try reflexivity.
    induction HF as [|x r Hx Hr IHr]; [reflexivity|]. cbn [zc_elems]. rewrite Hx, IHr. reflexivity.
  - rewrite zc_total_set. destruct (resolve S t); try reflexivity.
    induction HF as [|x r Hx Hr IHr]; [reflexivity|]. cbn [zc_elems]. rewrite Hx, IHr. reflexivity.
  - rewrite zc_total_map. destruct (resolve S t); try reflexivity.
    induction HF as [|[a b] r [Ha Hb] Hr IHr]; [reflexivity|]. cbn [zc_pairs]. cbn [fst snd] in *. rewrite Ha, Hb, IHr. reflexivity.
  - rewrite zc_total_struct. destruct (resolve S t); try reflexivity. destruct (lookup S n) as [[dfs kp ia| | |]|]; try reflexivity.
    assert (E1 : zc_fields S k dfs fs = 0).
    { induction HF as [|[id x] r Hx Hr IHr]; [reflexivity|]. cbn [zc_fields]. cbn [snd] in Hx.
      destruct (find_field dfs id) as [fl0|]; [|reflexivity]. rewrite IHr. destruct (is_void (resolve S (f_ty fl0))); [reflexivity|]. rewrite Hx. reflexivity. }
    assert (E2 : zc_unk k unk = 0).
    { induction unk as [|ch r IHr]; [reflexivity|]. cbn [zc_unk fold_right]. fold (zc_unk k r). rewrite IHr, (bigk_nozc k ch Hk). reflexivity. }
    rewrite E1, E2. reflexivity.
  - rewrite zc_total_union. destruct (resolve S t); try reflexivity. destruct (lookup S n) as [[|vs vo kp| |]|]; try reflexivity.
    destruct (find_variant vs id) as [vt|]; [|reflexivity]. destruct (is_void (resolve S vt)); [reflexivity|apply IH].
  - cbn [zc_total]. apply bigk_nozc. exact Hk.
Qed.

(* ---------- C13's size clause for the linked flavours, checked and unchecked writer ---------- *)
Theorem keep_size_linked S zc t v b :
  uuids_ok v = true -> gen_encode S PBinary (BLinked zc) t v = Ok b ->
  gen_encode S PBinary BContig t v = Ok b /\
  gen_size S PBinary t v = Ok (Z.of_nat (length b)) /\
  exists ss c' u',
    enc_ty S PBinary (BLinked zc) t v w0 = Ok (ss, c') /\ flat ss = b /\
    zc_len ss = zc_total S (BLinked zc) t v /\ (zc = false -> zc_len ss = 0) /\
    copy_len ss + zc_len ss = Z.of_nat (length b) /\
    uenc_ty S zc t v (uw_linked (Z.of_nat (length b))) = Ok (ss, u') /\
    uw_zc u' = zc_len ss /\ uw_room u' = zc_len ss.
Proof.
  intros Hu He. split; [rewrite (gen_encode_buffer_independent S PBinary BContig (BLinked zc)); exact He|].
  split; [exact (keep_size_exact S PBinary (BLinked zc) t v b ltac:(discriminate) Hu He)|].
  unfold gen_encode in He. destruct (enc_ty S PBinary (BLinked zc) t v w0) as [[ss c']| |] eqn:E; cbn [bind] in He; try discriminate.
  injection He as <-.
  destruct (gen_unchecked_write_eq S (BLinked zc) zc t v ss c' (Z.of_nat (length (flat ss))) eq_refl E ltac:(lia)) as (u' & Eu & Hr & Hz & _).
  pose proof (flat_len ss) as FL. pose proof (enc_zc S (BLinked zc) v t w0 ss c' E) as Hzc.
  exists ss, c', u'. split; [reflexivity|]. split; [reflexivity|]. split; [exact Hzc|].
  split; [intros ->; rewrite Hzc; apply zc_total_nozc; discriminate|].
  split; [lia|]. split; [exact Eu|]. split; [exact Hz|lia].
Qed.

(* non-vacuity: the reader schema of KeepFullP (Top {1: required i32; 3: optional Sub}), a value that retains one unknown
   field (id 9, a string of 4096 bytes: a chunk of 4103 bytes, above the threshold 4096) and one of 8 bytes (below it).
   The bytes are those of the contiguous build; only the large chunk is inserted as a node of its own, and only when the
   buffer is LinkedBytes WITH zero-copy; the unchecked writer's counter agrees, and its reserved room is short by
   exactly that much (the inserted chunk needs no room). *)
Definition big_chunk : list byte := [x0b; x00; x09; x00; x00; x10; x00] ++ repeat x61 4096.
Definition small_chunk : list byte := [x08; x00; x0a; x00; x00; x00; x07].
Definition vlk : gval := GStruct [(1, GI32 7)] [small_chunk; big_chunk].

Example keep_size_linked_nonvacuous :
  uuids_ok vlk = true /\
  (exists b, gen_encode KeepFullP.Sd PBinary (BLinked true) (TyRef 0) vlk = Ok b /\
             gen_encode KeepFullP.Sd PBinary (BLinked false) (TyRef 0) vlk = Ok b /\
             gen_encode KeepFullP.Sd PBinary BContig (TyRef 0) vlk = Ok b /\ length b = 4118%nat) /\
  zc_total KeepFullP.Sd (BLinked true) (TyRef 0) vlk = 4103 /\
  zc_total KeepFullP.Sd (BLinked false) (TyRef 0) vlk = 0 /\
  zc_total KeepFullP.Sd BContig (TyRef 0) vlk = 0 /\
  (exists ss u', uenc_ty KeepFullP.Sd true (TyRef 0) vlk (uw_linked 4118) = Ok (ss, u') /\
                 length (flat ss) = 4118%nat /\ uw_zc u' = 4103 /\ uw_room u' = 4103) /\
  (exists ss u', uenc_ty KeepFullP.Sd false (TyRef 0) vlk (uw_linked 4118) = Ok (ss, u') /\
                 length (flat ss) = 4118%nat /\ uw_zc u' = 0 /\ uw_room u' = 0).
Proof.
  split; [reflexivity|]. split; [eexists; repeat split; vm_compute; reflexivity|].
  split; [vm_compute; reflexivity|]. split; [vm_compute; reflexivity|]. split; [vm_compute; reflexivity|].
  split; do 2 eexists; (split; [vm_compute; reflexivity|]); repeat split; vm_compute; reflexivity.
Qed.
