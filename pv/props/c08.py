"""C08 -- generated decoders are tolerant readers across schema evolution.

Implementation oracle: writer schemas W are derived from each reader type's schema R by random edit scripts
(add / remove / retype-to-another-wire-type / reorder fields, requiredness changes, new / removed / retyped
union variants; unknown enum numbers come from the value generator); values are generated under W and
encoded by the REFERENCE encoder (pv/genref.py); the code emitted for R must decode them to `view W R v`
(known fields with unchanged wire type kept, everything else ignored, defaults filled, enum numbers kept),
leave exactly the trailing bytes, and fail -- with an error, never a panic or a wrong value -- exactly when
`view` says a required field is absent or a union carries no known variant / more than one."""
from .. import gengen, genref, genrun, genevo, gencheck, gencorr
from ..gencheck import have_property_file, run_check

PROP = 'C08'
# finding F-08b: the model (Gen.dec_elems reads at the declared type) carries the defect, so the class is attributed only where the
# extracted model predicts the code's outcome exactly (gencheck.confirm_known)
gencheck.MODELLED_CLASSES.setdefault('container-element-retyped', 'F-08b')
# Properties/C08.v (C08_skip_is_runtime_skip) rests on the main family's skip theorem
if 'Proofs/SkipP.vo' not in gencheck.BASE_TARGETS:
    gencheck.BASE_TARGETS.append('Proofs/SkipP.vo')
LEVEL = 'proof' if have_property_file(PROP) else 'translation_validation'


def gen_cases(gb, rng, tier):
    sch = gb.schema
    cfg = 'plain'
    cases = []
    no_key = genevo.key_type_names(sch)
    per = 6 if tier == 'quick' else 40
    k = 0
    for tname in sch.names_in(cfg):
        d = sch.types[tname]
        if d['kind'] not in ('struct', 'union'):
            continue
        ty = ('ref', tname)
        for i in range(per):
            W, edits = genevo.evolve(rng, sch, tname, no_key=no_key)
            if not edits:
                continue
            v = gengen.gen_value(rng, W, ty, [3, 2, 2, 1][i % 4])
            hits = set()
            try:
                want = ('ok', gengen.show(sch, ty, genevo.view(W, sch, ty, ty, v, hits)),
                        gengen.show(sch, ty, genevo.view(W, sch, ty, ty, v), nan_canon=True))
            except genevo.ViewError as e:
                want = ('err', e.args[0], None)
            rest = bytes(rng.randrange(256) for _ in range(rng.choice([0, 0, 2])))
            for proto in genrun.SYNC_PROTOS:
                k += 1
                enc = genref.encode(W, ty, v, genrun.ref_proto(proto))
                modes = ['sync']
                if proto in genrun.ASYNC_PROTOS and k % 3 == 0:
                    modes.append('async:' + genrun.SCHEDULES[k % len(genrun.SCHEDULES)])
                for mode in modes:
                    cases.append(dict(line=genrun.case_line('dec', cfg, tname, proto, mode, enc + rest), want=list(want),
                                      restlen=len(rest), cfg=cfg, type=tname, proto=proto, mode=mode, edits=[list(map(str, e)) for e in edits],
                                      hits=sorted(hits), nontrivial=True,
                                      # F-08a under the unchecked codec reads out of bounds (UB: debug builds abort); the model of the
                                      # unchecked codec is the checked one, so such a case is not a correspondence case
                                      model=not (proto == 'unchecked' and 'union-variant-retyped' in hits)))
        # directed: an ignored field of each scalar wire type written IMMEDIATELY BEFORE each known field (state left behind by
        # skipping -- e.g. the compact protocol parks a bool field's value in the reader -- must not leak into the next field)
        if d['kind'] == 'struct' and tname not in no_key:
            new_types = [('bool',), ('i32',)] if tier == 'quick' else [('bool',), ('i8',), ('i32',), ('string',), ('list', ('bool',)), ('double',)]
            for j, fj in enumerate(d['fields']):
                if tier == 'quick' and gengen.TTYPE.get(sch.resolve(fj['ty'])[0]) not in (13, 14, 15) and j % 3:
                    continue        # quick: every container field, a third of the others
                for nt in new_types:
                    W = sch.copy()
                    dw = W.types[tname]
                    used = {f['id'] for f in dw['fields']}
                    free = [i for i in genevo.NEW_IDS if i not in used]
                    if not free:
                        continue
                    # mostly an id shortly below the next known field's id: the compact writer then uses the short (delta) form for
                    # that field, whose base is the ignored field's id
                    near = [i for i in range(max(1, fj['id'] - 15), fj['id']) if i not in used]
                    nf = dict(id=rng.choice(near) if near and rng.random() < 0.7 else rng.choice(free), name='added', req='required', ty=nt, lit=None,
                              default=None, const=None, doc=None, ann={}, idl_req='required')
                    dw['fields'].insert(j, nf)
                    v = gengen.gen_value(rng, W, ty, 2)
                    try:
                        want = ('ok', gengen.show(sch, ty, genevo.view(W, sch, ty, ty, v)), gengen.show(sch, ty, genevo.view(W, sch, ty, ty, v), nan_canon=True))
                    except genevo.ViewError as e:
                        want = ('err', e.args[0], None)
                    for proto in genrun.SYNC_PROTOS:
                        enc = genref.encode(W, ty, v, genrun.ref_proto(proto))
                        cases.append(dict(line=genrun.case_line('dec', cfg, tname, proto, 'sync', enc), want=list(want), restlen=0, cfg=cfg,
                                          type=tname, proto=proto, mode='sync', edits=[['add-before', tname, str(fj['id']), gengen.ty_txt(nt)]],
                                          hits=[], nontrivial=True))
        # directed, finding F-08b (class container-element-retyped): the writer re-types the ELEMENTS of a container field (the
        # field's wire type stays list / set / map).  Checked codecs only: reading the elements at the declared type can run
        # past the end under the unchecked codec.
        if d['kind'] == 'struct' and tname not in no_key:
            swap = {'i32': ('string',), 'i64': ('string',), 'i16': ('string',), 'i8': ('i64',), 'bool': ('i32',), 'double': ('string',),
                    'string': ('i64',), 'binary': ('i32',), 'uuid': ('i32',)}
            nel = 0
            for fj in d['fields']:
                tj = sch.resolve(fj['ty'])
                if tj[0] not in ('list', 'set') or nel >= (2 if tier == 'quick' else 8):
                    continue
                ek = sch.resolve(tj[1])[0]
                if ek not in swap:
                    continue
                nel += 1
                W = sch.copy()
                for fw in W.types[tname]['fields']:
                    if fw['id'] == fj['id']:
                        fw['ty'] = (tj[0], swap[ek])
                        fw['default'] = None
                v = gengen.gen_value(rng, W, ty, 2)
                if not v.get(fj['id']):
                    v[fj['id']] = gengen.gen_value(rng, W, (tj[0], swap[ek]), 2) or [gengen.gen_value(rng, W, swap[ek], 1)]
                hits = set()
                try:
                    want = ('ok', gengen.show(sch, ty, genevo.view(W, sch, ty, ty, v, hits)), gengen.show(sch, ty, genevo.view(W, sch, ty, ty, v), nan_canon=True))
                except genevo.ViewError as e:
                    want = ('err', e.args[0], None)
                for proto, mode in (('binary', 'sync'), ('binary_le', 'sync'), ('compact', 'sync'), ('binary', 'async:all'), ('compact', 'async:c7')):
                    if mode != 'sync' and proto not in genrun.ASYNC_PROTOS:
                        continue
                    enc = genref.encode(W, ty, v, genrun.ref_proto(proto))
                    cases.append(dict(line=genrun.case_line('dec', cfg, tname, proto, mode, enc), want=list(want), restlen=0, cfg=cfg,
                                      type=tname, proto=proto, mode=mode, edits=[['retype-elem', tname, str(fj['id']), gengen.ty_txt((tj[0], swap[ek]))]],
                                      # outside evo_dom: the Coq view is not specified there (three-way comparison off); the model of
                                      # the defect is run on exactly these lines by gencheck.confirm_known
                                      hits=sorted(hits), nontrivial=True, model='container-element-retyped' not in hits))
        # hand-made union inputs: no field at all, two known variants
        if d['kind'] == 'union':
            vs = [x for x in d['variants'] if x['ty'] != ('void',)]
            void_first = bool(d['variants']) and d['variants'][0]['ty'] == ('void',)
            for proto in ('binary', 'compact'):
                e = genref.Enc(sch, proto)
                want0 = ('ok', gengen.show(sch, ty, (d['variants'][0]['id'], None)), None) if void_first else ('err', 'empty union', None)
                cases.append(dict(line=genrun.case_line('dec', cfg, tname, proto, 'sync', b'\x00'), want=list(want0), restlen=0, cfg=cfg,
                                  type=tname, proto=proto, mode='sync', edits=[['empty-union']], hits=[], nontrivial=True))
                if len(vs) >= 2:
                    a, b = vs[0], vs[1]
                    fa, last = e.field(0, a['id'], a['ty'], gengen.gen_value(rng, sch, a['ty'], 1))
                    fb, last = e.field(last, b['id'], b['ty'], gengen.gen_value(rng, sch, b['ty'], 1))
                    cases.append(dict(line=genrun.case_line('dec', cfg, tname, proto, 'sync', fa + fb + b'\x00'), want=['err', 'two variants', None],
                                      restlen=0, cfg=cfg, type=tname, proto=proto, mode='sync', edits=[['two-variants']], hits=[], nontrivial=True))
    return cases


def evaluate(gb, case, out):
    res = genrun.Res(out)
    kind, a, b = case['want']
    cls = ('union-variant-retyped' if 'union-variant-retyped' in case.get('hits', []) else
           'container-element-retyped' if 'container-element-retyped' in case.get('hits', []) else None)
    ty = ('ref', case['type'])
    if res.kind in ('panic', 'crash', 'hang', 'bad', 'badcase'):
        return [('decoder of the reader schema does not return on well-formed input of a writer schema: %s' % res.line[:100], cls)]
    if kind == 'err':
        if res.kind != 'err':
            return [('decode succeeds although %s (got %s)' % (a, res.line[:200]), cls)]
        return []
    if res.kind != 'ok':
        return [('tolerant reader fails on well-formed input of an evolved writer schema: %s' % res.line[:220], cls)]
    got, why = genrun.value_text(gb, case['cfg'], ty, res.debug)
    if why:
        return [(why, cls)]
    want = b if b is not None else a
    if got != want:
        return [('decoded value is not the view of the written value (%s)' % genrun.diff_text(got, want), cls)]
    if res.rem != case['restlen']:
        return [('decoder left %d bytes, %d trailing bytes were supplied' % (res.rem, case['restlen']), cls)]
    return []


def extra(cases, outs):
    from collections import Counter
    c = Counter(e[0] for case in cases for e in case.get('edits', []))
    return dict(edit_kinds=dict(c), expected_errors=sum(1 for x in cases if x['want'][0] == 'err'))


def run(chk, replay=None):
    def post(gb, cases, outs):
        # three-way: Coq view = Python view = emitted code.  Cases on which the two SPECIFICATIONS disagree are a broken check
        # (reported by three_way_view), not a violation of the code: the code oracle is applied to the others only
        broken = gencorr.three_way_view(chk, gb, cases, outs)
        return [(c, why, cls, o) for c, o in zip(cases, outs) if c['line'] not in broken for why, cls in (evaluate(gb, c, o) or [])]
    return run_check(chk, replay, PROP, gen_cases, lambda gb, c, o: [],
                     rule="every struct / exception / union / synthesised service type of the corpus as READER x writer schemas obtained "
                          "by 1-4 random edits (add fields of every wire type incl. containers and structs at any position and id, remove, "
                          "retype to a different wire type, reorder, flip requiredness, add / remove / retype union variants) on the types "
                          "reachable from it x values generated under the writer schema (incl. undeclared enum numbers) x {binary, "
                          "binary_le, compact, unchecked} sync + async schedules; plus, directed, an ignored bool / i32 (thorough: six types) field written "
                          "immediately before each known field; plus per union: empty message, two known variants; "
                          "expected result = view W R v computed independently (pv/genevo.py); distinct by SHA-1 of the case line",
                     extra_dist=extra, post=post)
