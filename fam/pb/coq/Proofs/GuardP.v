(* C19, protobuf half: the inventory is the accounted list, and the drop guard of string::merge never lets a String
   with invalid UTF-8 content out. *)
From PVPb Require Import Guard.
Open Scope Z_scope.

Lemma sites_eqb_eq : forall a b, sites_eqb a b = true -> a = b.
Proof.
  induction a as [|[s u] a IH]; intros [|[t v] b] H; cbn [sites_eqb] in H; try discriminate; [reflexivity|].
  apply andb_prop in H. destruct H as [H H3]. apply andb_prop in H. destruct H as [H1 H2].
  f_equal; [|apply IH; exact H3]. f_equal.
  - destruct s, t; try discriminate H1; reflexivity.
  - destruct u, v; try discriminate H2; try reflexivity; cbn [usite_eqb] in H2; apply Z.eqb_eq in H2; subst; reflexivity.
Qed.

(* by computation over the REGENERATED inventory: a new unsafe / set_len / forget / ManuallyDrop / from_raw_parts /
   into_raw / Box::leak site anywhere in the protobuf runtime or templates makes this false *)
Theorem inventory_accounted : unsafe_sites = accounted_sites /\ guard_covers_merge = true.
Proof. split; [apply sites_eqb_eq; vm_compute; reflexivity|vm_compute; reflexivity]. Qed.

(* on EVERY exit -- success, DecodeError, panic of the buffer implementation, for every wire type, input state and
   whatever a panicking Buf wrote -- the Vec behind `empty` is empty or holds valid UTF-8, and the visible outcome is the
   functional model's (Codec.string_merge) *)
Theorem guard_sound junk wt s :
  let '(r, content) := string_merge_src junk wt s in
  (content = [] \/ utf8_valid content = true) /\
  r = string_merge wt s /\
  (forall v s', r = OOk v s' -> content = vbytes v).
Proof.
  unfold string_merge_src, string_merge_own, string_merge, bind.
  change guard_drop_clears with true. change guard_forgotten_on_ok with true. change guard_forgotten_elsewhere with false.
  cbv iota. destruct (bytes_merge_one_copy wt s) as [v s'|e s'|p].
  - destruct (utf8_valid (vbytes v)) eqn:E.
    + split; [right; exact E|]. split; [reflexivity|]. intros v0 s0 H. inversion H; subst. reflexivity.
    + split; [left; reflexivity|]. split; [reflexivity|]. intros v0 s0 H. discriminate H.
  - split; [left; reflexivity|]. split; [reflexivity|]. intros v0 s0 H. discriminate H.
  - split; [left; reflexivity|]. split; [reflexivity|]. intros v0 s0 H. discriminate H.
Qed.

(* the guard is what makes it true: without the clearing Drop impl, or with the guard forgotten on the error path, invalid
   UTF-8 stays in the String *)
Example guard_needed :
  snd (string_merge_own false true false [] LengthDelimited (mkR [x02; xc3; x28] 0)) = [xc3; x28] /\
  snd (string_merge_own true true true [] LengthDelimited (mkR [x02; xc3; x28] 0)) = [xc3; x28] /\
  snd (string_merge_src [] LengthDelimited (mkR [x02; xc3; x28] 0)) = [] /\
  string_merge_src [] LengthDelimited (mkR [x02; xc3; xa9] 0) = (OOk (VB [xc3; xa9]) (mkR [] 2), [xc3; xa9]).
Proof. vm_compute. repeat split; reflexivity. Qed.
