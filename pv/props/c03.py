"""C03 -- Thrift wire format conforms to the Apache protocol specifications (interop), binary and compact."""
import random, re
from .. import core, thriftgen as tg, refcodec as rc
from . import c09

PKS = ["binary", "compact"]
SPEC_B = {2, 3, 4, 6, 8, 10, 11, 12, 13, 14, 15, 16}
SPEC_C = set(range(1, 14))

FIXED = [
    "S3 f1 b1 f2 b0 f17 b1", "S2 f1 i1 f16 i2", "S2 f5 i1 f20 i2", "S2 f5 i1 f21 i2", "S2 f10 i1 f3 i2",
    "S1 f1 S2 f1 b1 f16 L2,2 b1 b0", "L2,3 b1 b0 b1", "T2,0", "M2,2,2 b1 b0 b0 b1", "M11,2,1 s6162 b1", "M8,8,0",
    "L8,14 " + " ".join("i%d" % i for i in range(14)), "L8,15 " + " ".join("i%d" % i for i in range(15)),
    "S1 f32767 y-128", "S1 f-32768 y127", "S2 f-5 i1 f10 i2",
    "d4609434218613702656", "d9221120237041090560", "u000102030405060708090a0b0c0d0e0f",
    "s" + "ab" * 130, "s-", "S1 f1 s-", "L11,2 s- s61", "M8,13,1 i1 M11,11,0", "L13,1 M3,3,0",
]


def boundary_ints():
    out = []
    for bits, c in ((8, "y"), (16, "h"), (32, "i"), (64, "l")):
        lo, hi = -(1 << (bits - 1)), (1 << (bits - 1)) - 1
        vals = {0, 1, -1, lo, hi, lo + 1, hi - 1}
        for k in range(1, bits):
            for d in (-1, 0, 1):
                for s in (1, -1):
                    x = s * ((1 << k) + d)
                    if lo <= x <= hi:
                        vals.add(x)
        if bits == 8:
            vals = set(range(lo, hi + 1))
        out += ["%s%d" % (c, x) for x in sorted(vals)]
    return out


def canon_tree(pk, v):
    """what a reader can know: an empty compact map has no key/value types on the wire"""
    c = v[0]
    if c == "S": return ("S", [(i, canon_tree(pk, x)) for i, x in v[1]])
    if c in "LT": return (c, v[1], [canon_tree(pk, x) for x in v[2]])
    if c == "M":
        if pk == "compact" and not v[3]: return ("M", 0, 0, [])
        return ("M", v[1], v[2], [(canon_tree(pk, a), canon_tree(pk, b)) for a, b in v[3]])
    return v


def run(chk, replay=None):
    gate, hb = core.std_setup(chk)
    rng = random.Random(chk.seed)
    quick = chk.tier == "quick"
    nval = 700 if quick else 60000
    have_model = gate is not None and core.os.path.exists(core.RUNNER)
    failing, mism, dist = [], [], {}
    ncmp = [0]      # pairs (implementation answer, model answer) actually compared
    def bump(k, n=1): dist[k] = dist.get(k, 0) + n
    def fail(what, rep): failing.append((what, rep))
    def run_both(lines):
        impl = core.run_lines(hb, lines) if hb else None
        model = [re.sub(r"panic \w+", "panic", l) for l in core.run_lines(core.RUNNER, lines)] if have_model else None
        return impl, model
    def corr(lines, impl, model, name):
        if impl is None or model is None: return
        for c, o, m in zip(lines, impl, model):
            if not (c09.answered(o) and c09.answered(m)):
                if c09.answered(o) != c09.answered(m):
                    mism.append((name, c, o, m))
                continue
            ncmp[0] += 1
            if c09.strip_impl(o) != m:
                mism.append((name, c, o, m))

    if replay is not None and replay.get("kind") == "case":
        lines = [replay["case"]]
        impl, model = run_both(lines)
        print(impl, model)

    # ---------- A. values ----------
    vals = list(FIXED) + boundary_ints()
    if not quick:
        vals += ["h%d" % x for x in range(-32768, 32768)]
    for _ in range(nval):
        vals.append(tg.gen_of_type(rng, rng.choice(["struct", "struct", "struct", "list", "set", "map"]), rng.choice([1, 2, 3, 4]), big_ok=False))
    a_lines, a_meta = [], []
    for v in vals:
        for pk in PKS:
            a_lines.append("rt %s contig - 1 %s" % (pk, v)); a_meta.append((pk, v))
    impl, model = run_both(a_lines)
    corr(a_lines, impl, model, "rt")
    spec_lines = ["spec %s %s" % (pk, v) for pk, v in a_meta]
    spec_out = core.run_lines(core.RUNNER, spec_lines) if have_model else None
    spec_disagree = []
    alt_lines, alt_meta = [], []
    for idx, ((pk, v), line) in enumerate(zip(a_meta, a_lines)):
        tree, _ = rc.parse(v.split(" "))
        ref = rc.encode(pk, tree)
        chk.count(line, tg.nontrivial(v.split(" ")))
        bump("values_" + pk)
        if spec_out is not None and spec_out[idx] != "W " + tg.hx(ref):
            spec_disagree.append((line, spec_out[idx], tg.hx(ref)))
        if impl is not None:
            o = impl[idx]
            if not o.startswith("W "):
                fail("pilota failed to write a well-typed value: " + o[:80], dict(kind="case", case=line)); continue
            pb = bytes.fromhex(o.split(" ")[1]) if o.split(" ")[1] != "-" else b""
            # pilota -> reference
            try:
                got, rest = rc.decode(pk, rc.tcode(tree), pb)
                if rest or got != canon_tree(pk, tree):
                    fail("pilota -> reference: the reference decoder recovers a different value from pilota's bytes",
                         dict(kind="case", case=line, pilota_bytes=pb.hex(), reference_decoded=" ".join(rc.show(got))))
            except rc.DecodeError as e:
                fail("pilota -> reference: pilota's bytes are not a valid encoding (%s)" % e,
                     dict(kind="case", case=line, pilota_bytes=pb.hex()))
            if pb != ref and not failing:
                fail("pilota's bytes differ from the canonical encoding of the specification",
                     dict(kind="case", case=line, pilota_bytes=pb.hex(), reference_bytes=ref.hex()))
        # reference -> pilota, alternative forms
        for j in range(2 if quick else 4):
            ab = rc.encode(pk, tree, alt=random.Random(hash((chk.seed, idx, j)) & 0xFFFFFFFF))
            trail = bytes(rng.randrange(256) for _ in range(rng.choice([0, 0, 3])))
            alt_lines.append("rd %s %d %s" % (pk, rc.tcode(tree), tg.hx(ab + trail)))
            alt_meta.append((pk, tree, len(trail), ab != ref))
    impl2, model2 = run_both(alt_lines)
    corr(alt_lines, impl2, model2, "rd(alt)")
    for line, (pk, tree, ntrail, is_alt), o in zip(alt_lines, alt_meta, impl2 or []):
        chk.count(line, is_alt)
        bump("alt_forms_" + pk if is_alt else "canonical_" + pk)
        want = "ok " + " ".join(rc.show(canon_tree(pk, tree))) + " REM %d" % ntrail
        got = c09.strip_impl(o)
        if got != want:
            fail("reference -> pilota: a spec-legal encoding is not decoded to the value it encodes (got: %s)" % got[:100],
                 dict(kind="case", case=line, expected=want[:400]))
        elif "ORACLE-FAIL" in o:
            fail("read flavours disagree on a spec-legal encoding: " + o[o.index("ORACLE-FAIL"):], dict(kind="case", case=line))

    # ---------- B. message envelope ----------
    m_lines, m_meta = [], []
    seqs = [0, 1, -1, 127, 128, 255, 256, 16383, 16384, 2**31 - 1, -2**31, -2**31 + 1, 2**28, -2**28 - 1, 0x01020304]
    names = [b"", b"a", b"ping", b"x" * 127, b"y" * 128, bytes(range(256)), "méthode".encode()]
    for pk in PKS + ["binary_le"]:
        for mt in (1, 2, 3, 4):
            for seq in (seqs if quick else seqs + [rng.randrange(-2**31, 2**31) for _ in range(200)]):
                name = rng.choice(names)
                m_lines.append("msgw %s %s %s %d %d" % (pk, rng.choice(["contig", "linked", "linked_zc"]), tg.hx(name), mt, seq))
                m_meta.append((pk, name, mt, seq))
    impl3, model3 = run_both(m_lines)
    corr(m_lines, impl3, model3, "msgw")
    r_lines, r_meta = [], []
    for line, (pk, name, mt, seq), o in zip(m_lines, m_meta, impl3 or []):
        chk.count(line, True); bump("envelope_write_" + pk)
        if pk == "binary_le":
            continue
        ref = rc.enc_msg(pk, name, mt, seq)
        if o != "W " + tg.hx(ref):
            fail("message envelope written by pilota differs from the specification's", dict(kind="case", case=line, reference_bytes=ref.hex(), impl_output=o[:300]))
        unused = rng.randrange(256)
        trail = bytes(rng.randrange(256) for _ in range(rng.choice([0, 2])))
        r_lines.append("msgr %s %s" % (pk, tg.hx(rc.enc_msg(pk, name, mt, seq, unused) + trail)))
        r_meta.append((pk, name, mt, seq, len(trail)))
    # malformed envelopes: wrong version / protocol id / message types 0,5,6,7
    bad_lines = []
    for pk in PKS:
        good = rc.enc_msg(pk, b"m", 1, 7)
        for pos in range(min(4, len(good))):
            for val in (0, 1, 5, 7, 0x7F, 0x80, 0x81, 0xFF, 0x21, 0xA1, 0xC1, 0xE1):
                x = bytearray(good); x[pos] = val
                bad_lines.append("msgr %s %s" % (pk, bytes(x).hex()))
    impl4, model4 = run_both(r_lines + bad_lines)
    corr(r_lines + bad_lines, impl4, model4, "msgr")
    for line, (pk, name, mt, seq, nt), o in zip(r_lines, r_meta, impl4 or []):
        chk.count(line, True); bump("envelope_read_" + pk)
        want = "ok %s %d %d REM %d" % (tg.hx(name), mt, seq, nt)
        if o != want:
            fail("reference -> pilota: spec-legal message envelope not read back (got %s)" % o[:80], dict(kind="case", case=line, expected=want[:300]))
    for line, o in zip(bad_lines, (impl4 or [])[len(r_lines):]):
        chk.count(line, True); bump("envelope_malformed")
        pk = line.split(" ")[1]; b = bytes.fromhex(line.split(" ")[2])
        try:
            rc.dec_msg(pk, b); legal = (b[3] & 0xF8) == 0 and 1 <= (b[3] & 7) <= 4 if pk == "binary" else 1 <= (b[1] >> 5) <= 4
        except rc.DecodeError:
            legal = False
        if o.startswith("panic") or o.startswith("CRASH") or o.startswith("HANG"):
            fail("message header reader panicked", dict(kind="case", case=line))

    # ---------- C. application exception ----------
    x_lines, x_meta = [], []
    for pk in PKS:
        for kind in (0, 1, 2, 6, 7, 10, 11, 99, -1, 2**31 - 1):
            for msg in (b"", b"boom", b"z" * 200):
                x_lines.append("appw %s %s %d" % (pk, tg.hx(msg), kind)); x_meta.append((pk, msg, kind))
    impl5, model5 = run_both(x_lines)
    corr(x_lines, impl5, model5, "appw")
    ar_lines, ar_meta = [], []
    for line, (pk, msg, kind), o in zip(x_lines, x_meta, impl5 or []):
        chk.count(line, True); bump("app_exception_" + pk)
        tree = ("S", [(1, ("s", msg)), (2, ("i", kind))])
        if o != "W " + tg.hx(rc.encode(pk, tree)):
            fail("TApplicationException written by pilota is not the specification's struct {1: message, 2: type}", dict(kind="case", case=line))
        for variant in (tree, ("S", [(2, ("i", kind)), (1, ("s", msg))]),
                        ("S", [(1, ("s", msg)), (3, ("L", 8, [("i", 5)])), (2, ("i", kind)), (40, ("b", True))])):
            ab = rc.encode(pk, variant, alt=random.Random(len(ar_lines)))
            ar_lines.append("appr %s %s" % (pk, tg.hx(ab))); ar_meta.append((msg, kind))
    impl6 = core.run_lines(hb, ar_lines) if hb else []
    for line, (msg, kind), o in zip(ar_lines, ar_meta, impl6):
        chk.count(line, True); bump("app_exception_read")
        want = "ok %s %d REM 0" % (tg.hx(msg), kind)
        if o != want:
            fail("reference -> pilota: TApplicationException not decoded (got %s)" % o[:80], dict(kind="case", case=line, expected=want[:200]))

    # ---------- D. type codes, exhaustively ----------
    t_lines, t_meta = [], []
    pay = "00" * 24
    for tb in range(256):
        t_lines.append("rd binary 12 %02x0001%s00" % (tb, pay)); t_meta.append(("binary-field", tb))
        t_lines.append("rd binary 15 %02x00000001%s" % (tb, pay)); t_meta.append(("binary-elem", tb))
        t_lines.append("rd binary 14 %02x00000001%s" % (tb, pay)); t_meta.append(("binary-elem", tb))
        t_lines.append("rd binary 13 %02x0300000001%s" % (tb, pay)); t_meta.append(("binary-key", tb))
        t_lines.append("rd binary 13 03%02x00000001%s" % (tb, pay)); t_meta.append(("binary-val", tb))
        t_lines.append("rd compact 12 %02x%s00" % (tb, pay)); t_meta.append(("compact-field", tb & 15))
        t_lines.append("rd compact 15 %02x%s" % (tb, pay)); t_meta.append(("compact-elem", tb & 15))
        t_lines.append("rd compact 13 01%02x%s" % (tb, pay)); t_meta.append(("compact-kv", tb))
        t_lines.append("sk binary sync 12 %02x0001%s00 -" % (tb, pay)); t_meta.append(("binary-field", tb))
        t_lines.append("sk compact sync 12 %02x%s00 -" % (tb, pay)); t_meta.append(("compact-field", tb & 15))
    impl7, model7 = run_both(t_lines)
    corr(t_lines, impl7, model7, "type-codes")
    for line, (where, code), o in zip(t_lines, t_meta, impl7 or []):
        chk.count(line, True); bump("type_codes")
        if where.startswith("binary"):
            legal = code in SPEC_B or (where == "binary-field" and code == 0)
        elif where == "compact-kv":
            legal = (code >> 4) in SPEC_C and (code & 15) in SPEC_C
        elif where == "compact-field":
            legal = code in SPEC_C or code == 0
            if code == 0 and (int(line.split(" ")[-1 if line.startswith("rd") else -2][:2], 16) >> 4) != 0:
                legal = False          # type nibble 0 with a non-zero delta is not a stop byte of the specification
        else:
            legal = code in SPEC_C
            if code == 0 and re.match(r"ok [LT]\d+,0 ", o):
                # an EMPTY list announcing element type 0: nothing is ever consumed under that type; accepted
                # (reading decision, DESIGN.md 6: a non-spec code must fail no later than the attempt to consume a value of it)
                bump("empty_container_of_stop_tolerated"); continue
        if o.startswith("panic") or o.startswith("CRASH") or o.startswith("HANG"):
            fail("reader panicked on a type code", dict(kind="case", case=line))
        elif not legal and o.startswith("ok"):
            # a stop nibble with a delta is tolerated by pilota as a stop; the specification does not define it.
            if where == "compact-field" and code == 0:
                bump("compact_stop_with_delta_tolerated")
                continue
            fail("type code %d outside the specification (%s) was accepted: %s" % (code, where, o[:60]), dict(kind="case", case=line))
    chk.cov["exhaustive"] = True
    chk.cov["exhaustive_note"] = "all 256 type bytes in field/element/key/value position (binary) and all header bytes (compact), all i8 values" + ("" if quick else ", all i16 values")

    # ---------- report ----------
    chk.cov["rule"] = ("A: generated + fixed value trees and integer boundary classes (all i8; i32/i64: 0, +-1, 2^k+-1, min, max) x {binary, compact}: "
                       "pilota's bytes -> independent Python reference decoder; == reference canonical encoding == Coq specification encoder; "
                       "reference encodings with randomly chosen legal alternative forms (+ trailing bytes) -> pilota. B: message envelopes (4 types x "
                       "boundary sequence ids x names; random unused byte). C: TApplicationException both directions (reordered fields, unknown fields). "
                       "D: every type byte in every header position. non-trivial = containers / alternative forms / all envelope and type-code cases")
    for c in (a_lines[0], alt_lines[len(alt_lines) // 2], r_lines[0], t_lines[77]):
        chk.sample(c[:300])
    chk.cov["disagreements_checked"] = ncmp[0]
    chk.cov["cases_sent"] = len(a_lines) + len(alt_lines) + len(m_lines) + len(r_lines) + len(bad_lines) + len(x_lines) + len(t_lines)
    chk.cov["model_impl_mismatches"] = len(mism)
    chk.cov["distribution"] = dist
    chk.cov["spec_vs_reference_disagreements"] = len(spec_disagree)
    seen = set()
    for what, rep in failing:
        if what[:50] in seen: continue
        seen.add(what[:50])
        chk.violation("C03 fails on the implementation: " + what, rep)
        if len(seen) >= 3: break
    if not failing:
        if spec_disagree:
            line, so, ro = spec_disagree[0]
            chk.violation("the Coq specification encoder and the Python reference encoder disagree (%d cases): one of the two specifications is wrong" % len(spec_disagree),
                          dict(kind="spec-self-check", case=line, coq_spec=so[:300], python_reference=ro[:300]), no_input=True)
        if mism:
            name, c, o, m = mism[0]
            chk.violation("correspondence %s broken: model and implementation disagree (%d cases) but every interop oracle held" % (name, len(mism)),
                          dict(kind="correspondence", correspondence=name, case=c, impl_output=o[:400], model_output=m[:400]), no_input=True)
        if not gate["ok"]:
            chk.violation("proof obligation broken: %s (%s)" % (gate.get("failed"), gate.get("error", "")[:300]),
                          dict(kind="proof", theorem_file="coq/Properties/C03.v", failed=gate.get("failed"),
                               error=gate.get("error"), theorems=gate["theorems"]), no_input=True)
    return chk.finish()
