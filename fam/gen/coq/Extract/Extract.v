(* Extraction of the executable gen models for the correspondence runner.
   Directives: ExtrOcamlBasic only (bool, option, unit, list, prod, sumbool, sumor -> OCaml's).
   Z / positive / N / nat / byte stay the extracted inductive types.  No Extract Constant. *)
Require Extraction.
Require Import ExtrOcamlBasic.
From PVGen Require Import Gen GenKeep Defaults GenAsync Own GenAlloc.
From PVGen Require Import Lit LitSpec LitClass GenSpec ErrSpec.

(* gen-C: the specifications view / viewk / reenc, evaluated by the runner on the tree the runtime's reader finds *)
From PVGen Require Import EvoSpec KeepSpec.

Extraction "model.ml"
  Z.add Z.mul Z.sub Z.opp Z.div Z.modulo Z.ltb Z.eqb Z.of_nat Z.to_nat Z.of_N Pos.succ
  b2z z2b
  gen_encode gen_size gen_decode_top gen_decode_keep_top default_of resolve ttype_of_ty
  gen_decode_async_top own_decode_top own_decode_keep_top heap_val owns_heap owns_heap_keep own_message_top bytes_val
  alloc_decode_top alloc_decode_keep_top alloc_class alloc_a alloc_b gw frame_cost top_const Z.max Z.leb
  default_val_lit lit_value_top well_typed_lit pclass_top class_free_schema lits_typed const_value rust_default
  expected_default proj item_cty erase wf_schema elems_ok
  view viewk reenc read_val write_val flat.
