(* RenderStateP.v (C17) -- what the text of ONE item can depend on.

   Pipeline.v takes the rendering of an item as a function `render : item -> string` (likewise mod_path, item_name, crate_name, repubs,
   dep_names): the theorems C17_single / _split / _workspace prove that the ARRANGEMENT of the per-item texts does not depend on hash
   seeds and schedules.  That the text of one item is itself a function of the item and the document is an ASSUMPTION of those theorems.
   This file makes the assumption an inventory obligation: (1) every seeded hash container of the rendering code is in the regenerated
   unordered-iteration inventory, and none of those sites is order-bearing for a single item's text (they are lookups, sorted afterwards,
   or the pipeline's own permutation parameters); (2) every piece of shared / process-wide / memoised state (regenerated:
   Generated/RenderState.v) is classified below.  What remains validated only: that the classification is right (read from the code),
   and the fixed-seed Fx containers iterated inside codegen (deterministic functions of their insertion history). *)
From Coq Require Import String List Bool.
From PVBld Require Import Generated.Inventory Generated.RenderState Proofs.InventoryP.
Import ListNotations.
Open Scope string_scope.

Inductive state_reason :=
| SPureMemo (why : string)        (* memoised pure query: the value is a function of the inputs set before code generation starts *)
| SSetOnce (why : string)         (* written once before any item is rendered, read-only afterwards *)
| SConstTable                     (* an immutable table *)
| SKeyedByItem (why : string)     (* a concurrent map only ever accessed through the key of the item / module / crate at hand *)
| SPerThreadScope (why : string). (* scoped thread-local set by the caller for the duration of one call *)

Definition state_accounted : list (string * string * string * state_reason) :=
  [("db.rs", "<top>", "#[salsa::database(RirDatabaseStorage)]",
      SPureMemo "the rir database: inputs (nodes, files, type graphs, args) are set with Durability::HIGH in build_cx before the Context exists");
   ("db.rs", "<top>", "#[salsa::query_group(RirDatabaseStorage)]",
      SPureMemo "queries node / item / codegen_ty / ... are functions of those inputs; a memo hit returns what a recomputation would");
   ("symbol.rs", "<top>", "pub static SPECIAL_NAMINGS: OnceLock<Vec<FastStr>> = OnceLock::new();",
      SSetOnce "ContextBuilder::build, get_or_init with the Builder's list, before exec_plugin / codegen");
   ("symbol.rs", "<top>", "static KEYWORDS_SET: phf::Set<&'static str> = phf_set![", SConstTable);
   ("codegen/mod.rs", "write_items", "let mut pkgs: DashMap<Arc<[FastStr]>, String> = Default::default();",
      SKeyedByItem "one entry per module path, written only by the worker that processes that group (Pipeline.v: pi_work, disjoint keys), read after the parallel loop");
   ("codegen/mod.rs", "write_stream", "pkgs: &mut DashMap<Arc<[FastStr]>, String>,",
      SKeyedByItem "sequential, remove(path) per node of the sorted tree");
   ("middle/context.rs", "<top>", "pub adjusts: Arc<DashMap<DefId, Adjust>>,",
      SKeyedByItem "filled by the plugins (exec_plugin, sequential, before Codegen::gen) through with_adjust_mut(def_id); read by with_adjust(def_id) while rendering that def_id");
   ("middle/context.rs", "<top>", "pub plugin_gen: Arc<DashMap<DefLocation, String>>,",
      SKeyedByItem "workspace plugins: insert / get_mut / get by the crate's own location");
   ("middle/context.rs", "<top>", "scoped_thread_local!(pub static CONTEXT: Context);",
      SPerThreadScope "set for every rayon worker thread by compile_with_config to the one Context");
   ("middle/context.rs", "<top>", "scoped_thread_local!(pub static CUR_ITEM: DefId);",
      SPerThreadScope "set by write_item / walk_codegen_uint to the item being processed, for the duration of that call");
   ("parser/thrift/mod.rs", "<top>", "#[salsa::query_group(SourceDatabaseStorage)]",
      SPureMemo "file_text / parse of the front end: functions of the file system, before lowering");
   ("parser/thrift/mod.rs", "<top>", "#[salsa::database(SourceDatabaseStorage)]",
      SPureMemo "as above")].

(* the regenerated list of shared / memoised state is the list accounted for *)
Lemma state_sites_accounted : map (fun e => fst e) state_accounted = state_sites.
Proof. vm_compute. reflexivity. Qed.

(* seeded containers inside the code that renders items and inside the plugins (codegen/, plugin/, middle/): which reasons occur *)
Definition in_render_code (s : site) : bool :=
  let f := fst (fst (fst s)) in
  (prefix "codegen/" f || prefix "plugin/" f || prefix "middle/" f || String.eqb f "db.rs" || String.eqb f "symbol.rs" || String.eqb f "tags.rs").

(* a site of the rendering code is harmless for the text of ONE item if nothing is iterated there, or the thing iterated is a Vec, or
   it is only looked up, or the loop body's effects commute, or the order is sorted away / lands in disjoint keys -- or it is one of
   the pipeline's permutation parameters, which only arrange WHOLE item texts *)
Definition render_safe (r : reason) : bool :=
  match r with
  | RNotIterated | RNotSeeded _ | RLookupOnly _ | ROrderFree _ | RSortedAfter _ _ | RDisjointKeys _ _ | RPermParam _ _ => true
  end.

Definition render_sites : list (site * reason) := filter (fun sr => in_render_code (fst sr)) accounted.

Lemma render_inventory :
  forallb (fun sr => render_safe (snd sr)) render_sites = true /\
  (* the sites whose order IS a parameter of the model are the seven arrangement sites of write_items / pkg_tree / workspace, and none
     of them lies inside the rendering of an item (write_item, write_struct, ..., the plugins' on_item) *)
  map (fun sr => snd (fst (fst (fst sr)))) (filter (fun sr => match snd sr with RPermParam _ _ | RSortedAfter _ _ | RDisjointKeys _ _ => true | _ => false end) render_sites) =
    map (fun sr => snd (fst (fst (fst sr)))) (filter (fun sr => match snd sr with RPermParam _ _ | RSortedAfter _ _ | RDisjointKeys _ _ => true | _ => false end) accounted) /\
  existsb (fun sr => existsb (String.eqb (snd (fst (fst (fst sr))))) ["write_item"; "write_struct"; "write_enum"; "write_service"; "write_new_type"; "write_const"; "on_item"; "on_field"; "on_variant"; "can_derive"; "rust_name"; "def_lit"; "lit_into_ty"])
          (filter (fun sr => match snd sr with RPermParam _ _ | RSortedAfter _ _ | RDisjointKeys _ _ => true | _ => false end) accounted) = false.
Proof. split; [|split]; vm_compute; reflexivity. Qed.

(* ---- a positive example for C17_workspace: three crates with distinct names, two of them with several modules; every permutation
   parameter reversed / swapped vs. the identity: same members list, same crates, non-trivial content *)
From PVBld Require Import Pipeline Proofs.PipelineP.

Definition ws_item : Type := (nat * (path * string))%type.      (* (location, (module path, name)) *)
Definition ws_items : list ws_item :=
  [(2, (["b"], "X")); (0, (["a"; "c"], "Y")); (2, (["b"], "x")); (1, (["a"], "Z")); (0, (["a"; "c"], "W")); (2, (["type"], "T"))]%string.
Definition ws_run (split : bool) pm pw pk pt pe pc :=
  workspace ws_item (fun it => fst (snd it)) (fun it => ("<" ++ snd (snd it) ++ ">")%string) (fun _ => "message"%string) (fun it => snd (snd it))
            pm pw pk pt nat Nat.eqb fst (fun l => match l with 0 => "common" | 1 => "alpha" | _ => "beta" end)%string
            (fun _ _ => []) (fun l _ => match l with 2 => ["common"%string] | _ => [] end) pe pc split ws_items.

Example workspace_nonvacuous :
  NoDup (crate_names ws_item nat Nat.eqb fst (fun l => match l with 0 => "common" | 1 => "alpha" | _ => "beta" end)%string ws_items) /\
  ws_run false (@rev _) (@rev _) (@rev _) (@rev _) (@rev _) (@rev _) =
    ws_run false (fun l => l) (fun l => l) (fun l => l) (fun l => l) (fun l => l) (fun l => l) /\
  ws_run true (@rev _) (fun l => l) (@rev _) (fun l => l) (@rev _) (fun l => l) =
    ws_run true (fun l => l) (@rev _) (fun l => l) (@rev _) (fun l => l) (@rev _) /\
  fst (ws_run false (@rev _) (@rev _) (@rev _) (@rev _) (@rev _) (@rev _)) = ["    ""alpha"""; "    ""beta"""; "    ""common"""]%string /\
  map fst (snd (ws_run true (@rev _) (@rev _) (@rev _) (@rev _) (@rev _) (@rev _))) = ["alpha"; "beta"; "common"]%string.
Proof.
  split; [vm_compute; repeat constructor; cbn; intuition discriminate|].
  split; [|split; [|split]]; vm_compute; reflexivity.
Qed.
