(* C19 model: the decode templates of pilota-build with OWNERSHIP instrumentation.

   Rust drops everything a function owns on every early return (`?`) and on unwinding; a value can only
   outlive a failed decode if the code left the safe fragment.  The regenerated inventory of the decode
   templates (Generated/GenTable.v, from pilota-build/src/codegen/thrift/ty.rs codegen_decode_ty / decode_set /
   decode_map) lists the places where that happens; [own_sites] below is the list this model accounts for, and
   Proofs/OwnP.v proves by computation that the two agree (a new unsafe site breaks the proof gate).

   The one site (ty.rs 391-410, the ty::Vec arm with `!helper.is_async`):

       unsafe {
           let list_ident = read_list_begin()?;
           let mut val: Vec<T> = Vec::with_capacity(list_ident.size);
           for i in 0..list_ident.size {
               val.as_mut_ptr().offset(i as isize).write(<decode element>?);
           };
           val.set_len(list_ident.size);
           read_list_end()?;
           val
       }

   While the loop runs `val` has length 0: the elements already written through the raw pointer are not owned
   by the Vec.  When `<decode element>?` returns early, `val` is dropped (its buffer is freed) but the written
   elements are never dropped: whatever THEY own -- heap memory, a reference-counted slice of the input buffer
   (FastStr / Bytes) -- stays alive.  The async arm (`val.push(elem?)`), sets and maps (`val.insert(..)`), struct
   fields (local Option variables), union values (`ret`) are safe code: owned, hence dropped.

   Every template returns (outcome, leaked) where [leaked] is the ghost list of values that were constructed
   and will never be dropped.  [own_decode md] is the instrumented decoder of BOTH template instances:
   md = MSync is Gen.gen_decode, md = MAsync is GenAsync.gen_decode_async (projection lemmas in Proofs/OwnP.v);
   the only clause that adds to [leaked] is the element loop of the sync list arm.
   Model only, no proofs. *)
From PVGen Require Export Gen GenKeep GenAsync.
Open Scope Z_scope.

(* ---------- the inventory this model accounts for ---------- *)
(* (unsafe blocks, set_len, as_mut_ptr, mem::forget, from_raw_parts) in the decode templates: one unsafe block
   -- the sync list arm -- containing one as_mut_ptr().offset(i).write(..) and one set_len; nothing else *)
Definition own_sites : nat * nat * nat * nat * nat := (1, 1, 1, 0, 0)%nat.
Definition inventory_sites : nat * nat * nat * nat * nat :=
  (decode_template_unsafe_blocks_sites, decode_template_set_len_sites, decode_template_as_mut_ptr_sites,
   decode_template_mem_forget_sites, decode_template_from_raw_parts_sites).

(* ---------- which types need Drop ---------- *)
(* does a value of the emitted Rust type own heap memory or a reference into the input buffer?
   string / binary (FastStr, Bytes: slices of the input; String, Vec<u8>: heap), every container, and every
   struct / union / typedef holding one.  Fuel exhaustion = a by-value cycle of declarations (length S + 1
   nested references must repeat one): pilota-build breaks it with Box (BoxedPlugin), a heap allocation. *)
(* [kb] = the build retains unknown fields (keep_unknown_fields): a struct / union compiled with retention carries a
   LinkedBytes (`_unknown_fields` member, `_UnknownFields` variant), which needs Drop whatever the declared fields are *)
Fixpoint owns_heap_n (kb : bool) (A : list nat) (S : schema) (fuel : nat) (t : ty) {struct fuel} : bool :=
  match fuel with
  | O => true
  | Datatypes.S f =>
      match t with
      | TyString | TyBinary | TyList _ | TySet _ | TyMap _ _ => true
      | TyRef n =>
          existsb (Nat.eqb n) A ||          (* an Arc box: a heap allocation whatever it wraps *)
          match lookup S n with
          | Some (DStruct fs keep _) => (kb && keep) || existsb (fun fd => owns_heap_n kb A S f (f_ty fd)) fs
          | Some (DUnion vs _ keep) => (kb && keep) || existsb (fun q => owns_heap_n kb A S f (snd q)) vs
          | Some (DTypedef t') => owns_heap_n kb A S f t'
          | Some (DEnum _) => false
          | None => false
          end
      | _ => false
      end
  end.
Definition owns_heap (A : list nat) (S : schema) (t : ty) : bool := owns_heap_n false A S (Datatypes.S (length S)) t.
Definition owns_heap_keep (A : list nat) (S : schema) (t : ty) : bool := owns_heap_n true A S (Datatypes.S (length S)) t.

(* value level (for the correspondence run only; no theorem mentions it): does THIS value hold an allocation / a
   reference into the input buffer FOR SURE, whatever representation the IDL annotations chose?
     string: FastStr::from_bytes_unchecked copies strings of up to INLINE_CAP bytes into the value itself
             (faststr 0.2.23 src/lib.rs: `const INLINE_CAP: usize = 24`; pv/props/c19.py re-reads the constant from
             the crate source on every run) and keeps a slice of the input for longer ones; String allocates;
     binary: Bytes::split_to keeps a slice of the input, Vec<u8> allocates -- unless empty;
     containers: with_capacity(n) / insert allocate unless empty.
   Not visible in the lowered schema, hence not counted: Box of recursive fields, LinkedBytes of keep builds. *)
Definition faststr_inline_cap : nat := 24.
Fixpoint heap_val (v : gval) : bool :=
  match v with
  | GBytes l => Nat.ltb faststr_inline_cap (length l)
  | GList l | GSet l => match l with [] => false | _ => true end
  | GMap l => match l with [] => false | _ => true end
  | GStruct fs _ =>
      (fix go (fs : list (Z * gval)) : bool :=
         match fs with [] => false | (_, x) :: r => heap_val x || go r end) fs
  | GUnion _ x => heap_val x
  | _ => false
  end.

(* ---------- outcomes with a ghost leak list ---------- *)
Definition own (A : Type) : Type := (res A * list gval)%type.

Definition lift {A} (r : res A) : own A := (r, []).

(* sequencing; [extra] = what this frame holds only through a raw pointer while [r] runs: added to the leak
   list when [r] fails (error or unwinding panic alike) *)
Definition obind_leak {A B} (extra : list gval) (r : own A) (f : A -> own B) : own B :=
  match fst r with
  | Ok a => let r' := f a in (fst r', snd r ++ snd r')
  | Err e => (Err e, snd r ++ extra)
  | Panic st => (Panic st, snd r ++ extra)
  end.
Definition obind {A B} (r : own A) (f : A -> own B) : own B := obind_leak [] r f.

Notation "'let+' x ':=' r 'in' k" := (obind r (fun x => k))
  (at level 200, x pattern, r at level 100, k at level 200, right associativity).

Inductive dmode := MSync | MAsync.

Definition is_sync (md : dmode) : bool := match md with MSync => true | MAsync => false end.

(* ---------- the primitive operations of the two template instances ---------- *)
Section Prims.
  Variable md : dmode.
  Variable p : pk.

  Definition m_bool : rm bool := match md with MSync => r_bool p | MAsync => a_bool p end.
  Definition m_i8 : rm Z := match md with MSync => r_i8 | MAsync => a_i8 end.
  Definition m_i16 : rm Z := match md with MSync => r_i16 p | MAsync => a_i16 p end.
  Definition m_i32 : rm Z := match md with MSync => r_i32 p | MAsync => a_i32 p end.
  Definition m_i64 : rm Z := match md with MSync => r_i64 p | MAsync => a_i64 p end.
  Definition m_double : rm Z := match md with MSync => r_double p | MAsync => a_double p end.
  Definition m_bytes : rm (list byte) := match md with MSync => r_bytes p | MAsync => a_bytes p end.
  Definition m_uuid : rm (list byte) := match md with MSync => r_uuid | MAsync => a_uuid end.
  Definition m_struct_begin : rm unit := match md with MSync => r_struct_begin p | MAsync => a_struct_begin p end.
  Definition m_struct_end : rm unit := match md with MSync => r_struct_end p | MAsync => a_struct_end p end.
  Definition m_field_begin : rm (ttype * option Z) :=
    match md with MSync => r_field_begin p | MAsync => a_field_begin p end.
  Definition m_coll_begin : rm (ttype * Z) := match md with MSync => r_coll_begin p | MAsync => a_coll_begin p end.
  Definition m_map_begin : rm (ttype * ttype * Z) := match md with MSync => r_map_begin p | MAsync => a_map_begin p end.
  (* the TLengthProtocol calls exist only in the sync templates *)
  Definition m_field_begin_len (ft : ttype) (id : option Z) : rm Z :=
    match md with MSync => r_field_begin_len p ft id | MAsync => fun s => Ok (0, s) end.
  Definition m_field_end_len : rm Z := match md with MSync => r_field_end_len p | MAsync => fun s => Ok (0, s) end.
  Definition m_field_stop_len : rm Z := match md with MSync => r_field_stop_len p | MAsync => fun s => Ok (0, s) end.
  Definition m_skip (fuel : nat) (ft : ttype) : rm unit :=
    match md with
    | MSync => fun s => let* (_, s) := skip p fuel ft s in Ok (tt, s)
    | MAsync => askip p fuel ft
    end.
End Prims.

Section OwnLoops.
  Variable md : dmode.
  Variable S : schema.
  Variable p : pk.
  Variable fuel_skip : nat.
  Variable rec : ty -> rst -> own (gval * rst).

  (* element loop of list / set.  [raw] = true: the elements are written through the raw pointer of a Vec of
     length 0 (sync list arm, element type needs Drop): [acc] (already written, latest first) is what the frame
     holds unowned.  [raw] = false: push / insert -- owned, dropped on failure. *)
  Fixpoint own_elems (raw : bool) (m : nat) (et : ty) (n : Z) (s : rst) (acc : list gval) {struct m}
    : own (list gval * rst) :=
    if n <=? 0 then lift (Ok (rev acc, s)) else
    match m with
    | O => (Err EOutOfFuel, if raw then rev acc else [])
    | Datatypes.S m' =>
        obind_leak (if raw then rev acc else []) (rec et s)
          (fun xs => own_elems raw m' et (n - 1) (snd xs) (fst xs :: acc))
    end.

  (* map: `val.insert(key?, value?)`: key and value are owned temporaries *)
  Fixpoint own_pairs (m : nat) (kt vt : ty) (n : Z) (s : rst) (acc : list (gval * gval)) {struct m}
    : own (list (gval * gval) * rst) :=
    if n <=? 0 then lift (Ok (rev acc, s)) else
    match m with
    | O => lift (Err EOutOfFuel)
    | Datatypes.S m' =>
        let+ (a, s) := rec kt s in
        let+ (b, s) := rec vt s in
        own_pairs m' kt vt (n - 1) s ((a, b) :: acc)
    end.

  (* struct loop: the field variables are owned locals (Option<T>) *)
  Fixpoint own_fields (m : nat) (fs : list field) (vars : list (option gval)) (s : rst) {struct m}
    : own (list (option gval) * rst) :=
    match m with
    | O => lift (Err EOutOfFuel)
    | Datatypes.S m' =>
        let+ (h, s) := lift (m_field_begin md p s) in
        if ttype_eqb (fst h) TStop then
          let+ (_, s) := lift (m_field_stop_len md p s) in lift (Ok (vars, s))
        else
          let+ (_, s) := lift (m_field_begin_len md p (fst h) (snd h) s) in
          let+ (vars, s) :=
            match match_field S fs O (snd h) (fst h) with
            | Some (i, f) => let+ (x, s) := rec (f_ty f) s in lift (Ok (set_nth i (Some x) vars, s))
            | None => let+ (_, s) := lift (m_skip md p fuel_skip (fst h) s) in lift (Ok (vars, s))
            end in
          let+ (_, s) := lift (m_field_end_len md p s) in
          own_fields m' fs vars s
    end.

  (* union loop: `ret` is an owned local *)
  Fixpoint own_variants (m : nat) (vs : list (Z * ty)) (ret : option (Z * gval)) (s : rst) {struct m}
    : own (option (Z * gval) * rst) :=
    match m with
    | O => lift (Err EOutOfFuel)
    | Datatypes.S m' =>
        let+ (h, s) := lift (m_field_begin md p s) in
        if ttype_eqb (fst h) TStop then
          let+ (_, s) := lift (m_field_stop_len md p s) in lift (Ok (ret, s))
        else
          let+ (_, s) := lift (m_field_begin_len md p (fst h) (snd h) s) in
          let known := match snd h with
                       | Some id => match find_variant vs id with
                                    | Some vt => if is_void (resolve S vt) then None else Some (id, vt)
                                    | None => None
                                    end
                       | None => None
                       end in
          match known with
          | Some (id, vt) =>
              match ret with
              | None => let+ (x, s) := rec vt s in own_variants m' vs (Some (id, x)) s
              | Some _ => lift (Err EInvalidData)
              end
          | None =>
              let+ (_, s) := lift (m_skip md p fuel_skip (fst h) s) in
              own_variants m' vs ret s
          end
    end.
End OwnLoops.

Fixpoint own_decode (md : dmode) (A : list nat) (S : schema) (p : pk) (fuel : nat) (t : ty) (s : rst) {struct fuel}
  : own (gval * rst) :=
  match fuel with
  | O => lift (Err EOutOfFuel)
  | Datatypes.S f =>
      match resolve S t with
      | TyBool => lift (let* (b, s) := m_bool md p s in Ok (GBool b, s))
      | TyI8 => lift (let* (z, s) := m_i8 md s in Ok (GI8 z, s))
      | TyI16 => lift (let* (z, s) := m_i16 md p s in Ok (GI16 z, s))
      | TyI32 => lift (let* (z, s) := m_i32 md p s in Ok (GI32 z, s))
      | TyI64 => lift (let* (z, s) := m_i64 md p s in Ok (GI64 z, s))
      | TyDouble => lift (let* (z, s) := m_double md p s in Ok (GDouble z, s))
      | TyString | TyBinary => lift (let* (l, s) := m_bytes md p s in Ok (GBytes l, s))
      | TyUuid => lift (let* (l, s) := m_uuid md s in Ok (GUuid l, s))
      | TyVoid =>
          lift (let* (_, s) := m_struct_begin md p s in
                let* (_, s) := m_struct_end md p s in Ok (GVoid, s))
      | TyList et =>
          (* the raw-pointer arm is emitted for `!helper.is_async`; it matters when the element type needs Drop *)
          let+ (h, s) := lift (m_coll_begin md p s) in
          let+ (l, s) := own_elems (own_decode md A S p f) (is_sync md && owns_heap A S et) (Datatypes.S f) et (snd h) s [] in
          lift (Ok (GList l, s))
      | TySet et =>
          let+ (h, s) := lift (m_coll_begin md p s) in
          let+ (l, s) := own_elems (own_decode md A S p f) false (Datatypes.S f) et (snd h) s [] in
          lift (Ok (GSet l, s))
      | TyMap kt vt =>
          let+ (h, s) := lift (m_map_begin md p s) in
          let+ (l, s) := own_pairs (own_decode md A S p f) (Datatypes.S f) kt vt (snd h) s [] in
          lift (Ok (GMap l, s))
      | TyRef n =>
          match lookup S n with
          | Some (DEnum _) => lift (let* (z, s) := m_i32 md p s in Ok (GEnum z, s))
          | Some (DStruct fs _ _) =>
              let+ (_, s) := lift (m_struct_begin md p s) in
              let+ (vars, s) := own_fields md S p f (own_decode md A S p f) (Datatypes.S f) fs (map init_var fs) s in
              let+ (_, s) := lift (m_struct_end md p s) in
              let+ out := lift (finish_fields fs vars) in
              lift (Ok (GStruct out [], s))
          | Some (DUnion vs void_ok _) =>
              let+ (_, s) := lift (m_struct_begin md p s) in
              let+ (ret, s) := own_variants md S p f (own_decode md A S p f) (Datatypes.S f) vs None s in
              let+ (_, s) := lift (m_struct_end md p s) in
              lift (match ret with
                    | Some (id, x) => Ok (GUnion id x, s)
                    | None =>
                        if void_ok then
                          match vs with
                          | (id0, _) :: _ => Ok (GUnion id0 GVoid, s)
                          | [] => Err EInvalidData
                          end
                        else Err EInvalidData
                    end)
          | Some (DTypedef _) => lift (Err EOther)
          | None => lift (Err EOther)
          end
      end
  end.

(* ---------- the sync templates of a keep_unknown_fields build (GenKeep.v) ---------- *)
(* `_unknown_fields` (a LinkedBytes), the chunks returned by get_bytes and `ret` are owned locals: dropped on failure.
   The list arm is the same raw-pointer arm; in such a build more element types need Drop (owns_heap_keep). *)
Section OwnKeepLoops.
  Variable S : schema.
  Variable p : pk.
  Variable fuel_skip : nat.
  Variable rec : ty -> rst -> own (gval * rst).

  Fixpoint own_fields_keep (m : nat) (fs : list field) (is_arg : bool) (vars : list (option gval)) (num : Z)
           (unk : list (list byte)) (s : rst) {struct m} : own (list (option gval) * list (list byte) * rst) :=
    match m with
    | O => lift (Err EOutOfFuel)
    | Datatypes.S m' =>
        if is_arg && (num =? 0) then
          let rem := Z.of_nat (length (rbuf s)) in
          if rem <? 2 then lift (Panic SOverflow)
          else lift (let* (chunk, s) := r_take (Z.to_nat (rem - 2)) s in Ok (vars, unk ++ [chunk], s))
        else
          let s0 := s in
          let+ (h, s) := lift (r_field_begin p s) in
          if ttype_eqb (fst h) TStop then
            let+ (_, s) := lift (r_field_stop_len p s) in lift (Ok (vars, unk, s))
          else
            let+ (n1, s) := lift (r_field_begin_len p (fst h) (snd h) s) in
            let+ (r, s) :=
              match match_field S fs O (snd h) (fst h) with
              | Some (i, f) =>
                  let+ (x, s) := rec (f_ty f) s in lift (Ok ((set_nth i (Some x) vars, num - 1, unk), s))
              | None =>
                  let+ (n2, s) := lift (skip p fuel_skip (fst h) s) in
                  lift (Ok ((vars, num, unk ++ [firstn (Z.to_nat (n1 + n2)) (rbuf s0)]), s))
              end in
            let+ (_, s) := lift (r_field_end_len p s) in
            own_fields_keep m' fs is_arg (fst (fst r)) (snd (fst r)) (snd r) s
    end.

  Fixpoint own_variants_keep (m : nat) (vs : list (Z * ty)) (ret : uret) (s : rst) {struct m} : own (uret * rst) :=
    match m with
    | O => lift (Err EOutOfFuel)
    | Datatypes.S m' =>
        let s0 := s in
        let+ (h, s) := lift (r_field_begin p s) in
        if ttype_eqb (fst h) TStop then
          let+ (_, s) := lift (r_field_stop_len p s) in lift (Ok (ret, s))
        else
          let+ (n1, s) := lift (r_field_begin_len p (fst h) (snd h) s) in
          let known := match snd h with
                       | Some id => match find_variant vs id with
                                    | Some vt => if is_void (resolve S vt) then None else Some (id, vt)
                                    | None => None
                                    end
                       | None => None
                       end in
          match known with
          | Some (id, vt) =>
              match ret with
              | UNone => let+ (x, s) := rec vt s in own_variants_keep m' vs (UKnown id x) s
              | _ => lift (Err EInvalidData)
              end
          | None =>
              let+ (n2, s) := lift (skip p fuel_skip (fst h) s) in
              match ret with
              | UNone => own_variants_keep m' vs (UUnknown (firstn (Z.to_nat (n1 + n2)) (rbuf s0))) s
              | _ => lift (Err EInvalidData)
              end
          end
    end.
End OwnKeepLoops.

Fixpoint own_decode_keep (A : list nat) (S : schema) (p : pk) (fuel : nat) (t : ty) (s : rst) {struct fuel} : own (gval * rst) :=
  match fuel with
  | O => lift (Err EOutOfFuel)
  | Datatypes.S f =>
      match resolve S t with
      | TyBool => lift (let* (b, s) := r_bool p s in Ok (GBool b, s))
      | TyI8 => lift (let* (z, s) := r_i8 s in Ok (GI8 z, s))
      | TyI16 => lift (let* (z, s) := r_i16 p s in Ok (GI16 z, s))
      | TyI32 => lift (let* (z, s) := r_i32 p s in Ok (GI32 z, s))
      | TyI64 => lift (let* (z, s) := r_i64 p s in Ok (GI64 z, s))
      | TyDouble => lift (let* (z, s) := r_double p s in Ok (GDouble z, s))
      | TyString | TyBinary => lift (let* (l, s) := r_bytes p s in Ok (GBytes l, s))
      | TyUuid => lift (let* (l, s) := r_uuid s in Ok (GUuid l, s))
      | TyVoid =>
          lift (let* (_, s) := r_struct_begin p s in
                let* (_, s) := r_struct_end p s in Ok (GVoid, s))
      | TyList et =>
          let+ (h, s) := lift (r_coll_begin p s) in
          let+ (l, s) := own_elems (own_decode_keep A S p f) (owns_heap_keep A S et) (Datatypes.S f) et (snd h) s [] in
          lift (Ok (GList l, s))
      | TySet et =>
          let+ (h, s) := lift (r_coll_begin p s) in
          let+ (l, s) := own_elems (own_decode_keep A S p f) false (Datatypes.S f) et (snd h) s [] in
          lift (Ok (GSet l, s))
      | TyMap kt vt =>
          let+ (h, s) := lift (r_map_begin p s) in
          let+ (l, s) := own_pairs (own_decode_keep A S p f) (Datatypes.S f) kt vt (snd h) s [] in
          lift (Ok (GMap l, s))
      | TyRef n =>
          match lookup S n with
          | Some (DEnum _) => lift (let* (z, s) := r_i32 p s in Ok (GEnum z, s))
          | Some (DStruct fs true is_arg) =>
              let+ (_, s) := lift (r_struct_begin p s) in
              let+ (r, s) := own_fields_keep S p f (own_decode_keep A S p f) (Datatypes.S f) fs is_arg (map init_var fs)
                                             (Z.of_nat (length fs)) [] s in
              let+ (_, s) := lift (r_struct_end p s) in
              let+ out := lift (finish_fields fs (fst r)) in
              lift (Ok (GStruct out (snd r), s))
          | Some (DStruct fs false _) =>
              let+ (_, s) := lift (r_struct_begin p s) in
              let+ (vars, s) := own_fields MSync S p f (own_decode_keep A S p f) (Datatypes.S f) fs (map init_var fs) s in
              let+ (_, s) := lift (r_struct_end p s) in
              let+ out := lift (finish_fields fs vars) in
              lift (Ok (GStruct out [], s))
          | Some (DUnion vs void_ok true) =>
              let+ (_, s) := lift (r_struct_begin p s) in
              let+ (ret, s) := own_variants_keep S p f (own_decode_keep A S p f) (Datatypes.S f) vs UNone s in
              let+ (_, s) := lift (r_struct_end p s) in
              lift (match ret with
                    | UKnown id x => Ok (GUnion id x, s)
                    | UUnknown c => Ok (GUnionUnknown c, s)
                    | UNone =>
                        if void_ok then
                          match vs with (id0, _) :: _ => Ok (GUnion id0 GVoid, s) | [] => Err EInvalidData end
                        else Err EInvalidData
                    end)
          | Some (DUnion vs void_ok false) =>
              let+ (_, s) := lift (r_struct_begin p s) in
              let+ (ret, s) := own_variants MSync S p f (own_decode_keep A S p f) (Datatypes.S f) vs None s in
              let+ (_, s) := lift (r_struct_end p s) in
              lift (match ret with
                    | Some (id, x) => Ok (GUnion id x, s)
                    | None =>
                        if void_ok then
                          match vs with (id0, _) :: _ => Ok (GUnion id0 GVoid, s) | [] => Err EInvalidData end
                        else Err EInvalidData
                    end)
          | Some (DTypedef _) => lift (Err EOther)
          | None => lift (Err EOther)
          end
      end
  end.

Definition own_decode_keep_top (A : list nat) (S : schema) (p : pk) (t : ty) (l : list byte)
  : res (gval * list byte) * list gval :=
  let r := own_decode_keep A S p (length l + 80) t (mkS l r0) in
  ((let* (v, s) := fst r in Ok (v, rbuf s)), snd r).

(* top-level entry (fresh protocol object over the bytes): outcome as gen_decode_top / gen_decode_async_top, and
   the values that are still alive after the error has been dropped *)
Definition own_decode_top (md : dmode) (A : list nat) (S : schema) (p : pk) (t : ty) (l : list byte)
  : res (gval * list byte) * list gval :=
  let r := own_decode md A S p (length l + 80) t (mkS l r0) in
  ((let* (v, s) := fst r in Ok (v, rbuf s)), snd r).

(* ---------- the class of finding F-19a, on the types a decoder can visit ---------- *)
Inductive reach (S : schema) (t : ty) : ty -> Prop :=
| reach_refl : reach S t t
| reach_list a : reach S t (TyList a) -> reach S t a
| reach_set a : reach S t (TySet a) -> reach S t a
| reach_mapk a b : reach S t (TyMap a b) -> reach S t a
| reach_mapv a b : reach S t (TyMap a b) -> reach S t b
| reach_typedef n t' : reach S t (TyRef n) -> lookup S n = Some (DTypedef t') -> reach S t t'
| reach_field n fs kp ia f : reach S t (TyRef n) -> lookup S n = Some (DStruct fs kp ia) -> In f fs -> reach S t (f_ty f)
| reach_variant n vs vo kp q : reach S t (TyRef n) -> lookup S n = Some (DUnion vs vo kp) -> In q vs -> reach S t (snd q).

(* no list whose element type needs Drop is reachable from [t] *)
Definition no_heap_list (A : list nat) (S : schema) (t : ty) : Prop :=
  forall et, reach S t (TyList et) -> owns_heap A S et = false.

Definition no_heap_list_keep (A : list nat) (S : schema) (t : ty) : Prop :=
  forall et, reach S t (TyList et) -> owns_heap_keep A S et = false.

(* a decidable sufficient condition: no such list occurs anywhere in [t] or in the schema *)
Fixpoint nhl_ty (A : list nat) (S : schema) (t : ty) : bool :=
  match t with
  | TyList et => negb (owns_heap A S et) && nhl_ty A S et
  | TySet et => nhl_ty A S et
  | TyMap a b => nhl_ty A S a && nhl_ty A S b
  | _ => true
  end.
Definition nhl_decl (A : list nat) (S : schema) (d : decl) : bool :=
  match d with
  | DStruct fs _ _ => forallb (fun f => nhl_ty A S (f_ty f)) fs
  | DUnion vs _ _ => forallb (fun q => nhl_ty A S (snd q)) vs
  | DTypedef t => nhl_ty A S t
  | DEnum _ => true
  end.
Definition no_heap_list_b (A : list nat) (S : schema) (t : ty) : bool := nhl_ty A S t && forallb (nhl_decl A S) S.

(* elements decoded one after the other by [rec], from state [s] to state [s'] *)
Inductive decodes_seq (rec : ty -> rst -> res (gval * rst)) (et : ty) : rst -> list gval -> rst -> Prop :=
| ds_nil s : decodes_seq rec et s [] s
| ds_cons s x s1 xs s' : rec et s = Ok (x, s1) -> decodes_seq rec et s1 xs s' -> decodes_seq rec et s (x :: xs) s'.

Definition failed {A} (r : res A) : Prop := match r with Ok _ => False | _ => True end.

(* ================= the message level: envelope + body on one protocol object ================= *)
(* What a server does with a request (and a client with a reply):
       let ident = protocol.read_message_begin()?;          TMessageIdentifier { name: FastStr, message_type, sequence_number }
       let body  = <T as Message>::decode(protocol)         the generated decoder, or ApplicationException::decode
       protocol.read_message_end()?;                         Ok(()) in every reader
   and then identifier, value / error, protocol object and input buffer are dropped.
   The identifier OWNS its name.  read_faststr of the in-memory readers (binary.rs 701, compact.rs, binary_unsafe.rs) is
   FastStr::from_bytes_unchecked(split_to(len)): up to INLINE_CAP bytes are copied into the value, longer names are a
   reference-counted slice of the INPUT BUFFER; read_faststr of the asynchronous readers is
   FastStr::from_string(read_string()): inline up to INLINE_CAP, else the heap String.  Both are released when the
   identifier is dropped -- unless something that outlives the call took a copy: the regenerated inventory of
   process-wide / thread-local retention sites of pilota/src/thrift (Generated/RetainTable.v) lists every object that
   could; the model is pessimistic about them: a site that can be mutated through a shared reference keeps what the
   identifier holds.  On the unchanged tree there is none ([retain_sites_inert], Proofs/OwnP.v). *)
From PV Require Import Thrift.AppMsg.   (* not re-exported: its `skip` (the runtime skipper) would shadow Gen.skip downstream *)
From PVGen Require Export Generated.RetainTable.

Inductive hold := HInputRef | HHeap.        (* a reference-counted slice of the input buffer / a heap block *)

Definition name_holds (md : dmode) (name : list byte) : list hold :=
  if Nat.ltb faststr_inline_cap (length name) then [if is_sync md then HInputRef else HHeap] else [].

Definition m_message_begin (md : dmode) (p : pk) : rm msgid :=
  match md with MSync => r_message_begin p | MAsync => a_message_begin p end.

(* the retention sites this model accounts for, with the reason why each cannot retain anything *)
Inductive inert_reason := RImmutableData.   (* a `static` of plain data without interior mutability: never written after start-up *)
From Coq Require String.
Module RetainAcc.
  Import String.
  Local Open Scope string_scope.
  Definition accounted_retain_sites : list ((string * string * string * bool) * inert_reason) :=
    [(("binary.rs", "static", "static VERSION_1: u32", false), RImmutableData);
     (("binary.rs", "static", "static VERSION_MASK: u32", false), RImmutableData);
     (("binary_unsafe.rs", "static", "static VERSION_1: u32", false), RImmutableData);
     (("binary_unsafe.rs", "static", "static VERSION_MASK: u32", false), RImmutableData);
     (("mod.rs", "static", "static VOID_IDENT: TStructIdentifier", false), RImmutableData);
     (("mod.rs", "static", "static TTYPE_LOOKUP: [Option<TType>; 17]", false), RImmutableData)].
  Definition kind_static : string := "static".
End RetainAcc.
Definition accounted_retain_sites := RetainAcc.accounted_retain_sites.
(* RImmutableData is only a reason for a plain `static` whose type has no interior mutability *)
Definition inert_justified (sr : (String.string * String.string * String.string * bool) * inert_reason) : bool :=
  match snd sr with RImmutableData => negb (snd (fst sr)) && String.eqb (snd (fst (fst (fst sr)))) RetainAcc.kind_static end.

Definition site_retains (st : String.string * String.string * String.string * bool) : bool := snd st.
(* what is still held, after everything the call returned has been dropped, by objects that outlive the call *)
Definition global_retained (hs : list hold) : list hold :=
  flat_map (fun retains : bool => if retains then hs else []) retain_flags.      (* retain_flags = map site_retains retain_sites *)

(* the body: a generated type, or the runtime's own ApplicationException { 1: string message, 2: i32 type } *)
Inductive body := BType (t : ty) | BAppEx.

Definition own_body (md : dmode) (kb : bool) (A : list nat) (S : schema) (p : pk) (fuel : nat) (b : body) (s : rst) : own (gval * rst) :=
  match b with
  | BType t =>
      match md, kb with
      | MSync, true => own_decode_keep A S p fuel t s       (* sync templates of a keep_unknown_fields build *)
      | _, _ => own_decode md A S p fuel t s
      end
  | BAppEx =>
      (* hand-written safe code: `message` is an owned local *)
      lift (let* (r, s') := match md with MSync => app_decode p fuel s | MAsync => app_decode_async p fuel s end in
            Ok (GStruct [(1, GBytes (fst r)); (2, GI32 (snd r))] [], s'))
  end.

Record msg_out := mkMsgOut {
  mo_outcome : res (msgid * gval * rst);
  mo_stage : nat;                 (* 0: the envelope was rejected; 1: the body was rejected; 2: complete *)
  mo_leaked : list gval;          (* values built by the body decoder that are never dropped *)
  mo_ident : list hold;           (* what the identifier owns while it is alive *)
  mo_retained : list hold         (* what objects that outlive the call still hold after everything was dropped *)
}.

Definition own_message (md : dmode) (kb : bool) (A : list nat) (S : schema) (p : pk) (fuel : nat) (b : body) (s : rst) : msg_out :=
  match m_message_begin md p s with
  | Ok (id, s1) =>
      (* TMessageIdentifier::new(name, ..) is the last thing read_message_begin does: from here on the name exists *)
      let hs := name_holds md (m_name id) in
      let r := own_body md kb A S p fuel b s1 in
      match fst r with
      | Ok (v, s2) => mkMsgOut (Ok (id, v, s2)) 2 (snd r) hs (global_retained hs)
      | Err e => mkMsgOut (Err e) 1 (snd r) hs (global_retained hs)
      | Panic st => mkMsgOut (Panic st) 1 (snd r) hs (global_retained hs)
      end
  | Err e => mkMsgOut (Err e) 0 [] [] []          (* a name read before the failure is a local of read_message_begin *)
  | Panic st => mkMsgOut (Panic st) 0 [] [] []
  end.

(* the class outside which the body decoder leaks nothing (F-19a), per template instance *)
Definition body_no_heap_list (md : dmode) (kb : bool) (A : list nat) (S : schema) (b : body) : Prop :=
  match b with
  | BAppEx => True
  | BType t => match md, kb with
               | MAsync, _ => True
               | MSync, false => no_heap_list A S t
               | MSync, true => no_heap_list_keep A S t
               end
  end.

(* value level, for the correspondence run: does the returned value possibly refer to the input buffer / own heap?
   (any non-empty byte string) *)
Fixpoint bytes_val (v : gval) : bool :=
  match v with
  | GBytes l => match l with [] => false | _ => true end
  | GList l | GSet l =>
      (fix go (l : list gval) : bool := match l with [] => false | x :: r => bytes_val x || go r end) l
  | GMap l =>
      (fix go (l : list (gval * gval)) : bool := match l with [] => false | (a, b) :: r => bytes_val a || bytes_val b || go r end) l
  | GStruct fs unk =>
      (fix go (fs : list (Z * gval)) : bool := match fs with [] => false | (_, x) :: r => bytes_val x || go r end) fs
      || match unk with [] => false | _ => true end
  | GUnion _ x => bytes_val x
  | GUnionUnknown _ => true
  | _ => false
  end.

(* entry point of the runner: fresh protocol object over the bytes *)
Definition own_message_top (md : dmode) (kb : bool) (A : list nat) (S : schema) (p : pk) (b : body) (l : list byte) : msg_out :=
  own_message md kb A S p (length l + 80) b (mkS l r0).
