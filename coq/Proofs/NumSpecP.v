(* C03: the number formats in the SPECIFICATION's own terms.  Thrift/Spec.v builds its encoder from
   encode_var / zigzag / be_bytes / le_bytes of Base/, which the implementation model uses too: a wrong
   LEB128 or zigzag in Base/ would be wrong on both sides and invisible to "writer = spec encoder".
   Here each format is stated in closed form, independently of those functions, and the shared
   functions are proved to meet it:
     ULEB128   the value is sum (b_i mod 128) * 128^i over the bytes in order; every byte but the last
               has the continuation bit (>= 128), the last has not; no redundant trailing zero group;
               the closed form determines the bytes (uniqueness)
     zigzag    2n for n >= 0, -2n-1 otherwise; = (n << 1) ^ (n >> 63) on the 64-bit range
     fixed     k bytes, most (least) significant first, whose base-256 value is the two's complement
               residue: n for n >= 0, n + 2^(8k) otherwise *)
From PV Require Import Base.Varint Thrift.Spec Proofs.VarintP.
From Coq Require Import ZifyN ZifyNat ZifyBool.
Open Scope Z_scope.

(* ---- ULEB128 ---- *)
Fixpoint groups_value (l : list byte) : Z :=
  match l with [] => 0 | b :: t => b2z b mod 128 + 128 * groups_value t end.
Fixpoint cont_bits (l : list byte) : Prop :=
  match l with
  | [] => False
  | b :: t => match t with [] => b2z b < 128 | _ :: _ => 128 <= b2z b /\ cont_bits t end
  end.
Definition is_uleb (n : Z) (l : list byte) : Prop :=
  groups_value l = n /\ cont_bits l /\ ((1 < length l)%nat -> b2z (last l x00) <> 0).

Lemma enc_var_uleb : forall f n, 0 <= n < 128 ^ (Z.of_nat f + 1) ->
  is_uleb n (enc_var f n) /\ (length (enc_var f n) <= S f)%nat.
Proof.
  assert (Small : forall n, 0 <= n < 128 -> is_uleb n [z2b n]).
  { intros n Hn. unfold is_uleb. cbn [groups_value cont_bits last length]. rewrite b2z_z2b.
    rewrite (Z.mod_small n 256) by lia. rewrite (Z.mod_small n 128) by lia. repeat split; lia. }
  induction f as [|f IH]; intros n Hn.
  - cbn [enc_var]. change (128 ^ (Z.of_nat 0 + 1)) with 128 in Hn. split; [apply Small; lia|cbn; lia].
  - cbn [enc_var]. destruct (n <? 128) eqn:E; [split; [apply Small; lia|cbn; lia]|].
    replace (Z.of_nat (S f) + 1) with (1 + (Z.of_nat f + 1)) in Hn by lia.
    rewrite Z.pow_add_r in Hn by lia. change (128 ^ 1) with 128 in Hn.
    assert (Hq : 0 <= n / 128 < 128 ^ (Z.of_nat f + 1)).
    { split; [apply Z.div_pos; lia|apply Z.div_lt_upper_bound; lia]. }
    assert (Hq1 : 1 <= n / 128) by (apply Z.div_le_lower_bound; lia).
    destruct (IH (n / 128) Hq) as ((Hv & Hc & Hl) & Hlen).
    assert (Hb : b2z (z2b (128 + n mod 128)) = 128 + n mod 128).
    { rewrite b2z_z2b. apply Z.mod_small. pose proof (Z.mod_pos_bound n 128 ltac:(lia)). lia. }
    split; [|cbn [length]; lia]. unfold is_uleb.
    destruct (enc_var f (n / 128)) as [|b t] eqn:Er; [destruct Hc|].
    cbn [groups_value cont_bits last length] in *. rewrite Hb. repeat split.
    + replace ((128 + n mod 128) mod 128) with (n mod 128).
      * rewrite Hv. pose proof (Z.div_mod n 128 ltac:(lia)). lia.
      * rewrite <- Zplus_mod_idemp_l. change (128 mod 128) with 0. cbn [Z.add]. rewrite Z.mod_mod by lia. reflexivity.
    + pose proof (Z.mod_pos_bound n 128 ltac:(lia)). lia.
    + exact Hc.
    + intros _. destruct t as [|c t].
      * cbn [groups_value] in Hv. pose proof (b2z_range b). rewrite Z.mod_small in Hv by lia. lia.
      * apply Hl. cbn [length]. lia.
Qed.

Theorem encode_var_uleb n : 0 <= n < 2 ^ 64 -> is_uleb n (encode_var n) /\ (length (encode_var n) <= 10)%nat.
Proof.
  intros Hn. unfold encode_var. apply (enc_var_uleb 9 n).
  assert (2 ^ 64 < 128 ^ (Z.of_nat 9 + 1)) by (vm_compute; reflexivity). lia.
Qed.

(* the closed form determines the bytes: there is exactly one ULEB128 encoding of n in this sense *)
Lemma groups_value_nonneg x : 0 <= groups_value x.
Proof. induction x as [|y x IHx]; cbn [groups_value]; [lia|]. pose proof (Z.mod_pos_bound (b2z y) 128 ltac:(lia)). lia. Qed.

Lemma groups_value_pos x : cont_bits x -> b2z (last x x00) <> 0 -> 0 < groups_value x.
Proof.
  induction x as [|y x IHx]; intros Hcx Hlx; [destruct Hcx|].
  pose proof (Z.mod_pos_bound (b2z y) 128 ltac:(lia)). pose proof (b2z_range y).
  destruct x as [|z x]; cbn [groups_value cont_bits last] in *.
  - rewrite Z.mod_small by lia. lia.
  - destruct Hcx as [_ Hcx]. specialize (IHx Hcx Hlx). cbn [groups_value] in IHx. lia.
Qed.

Theorem uleb_unique : forall l l' n, is_uleb n l -> is_uleb n l' -> l = l'.
Proof.
  induction l as [|b t IH]; intros l' n (Hv & Hc & Hl) (Hv' & Hc' & Hl'); [destruct Hc|].
  destruct l' as [|b' t']; [destruct Hc'|].
  cbn [groups_value] in Hv, Hv'.
  pose proof (b2z_range b) as Rb. pose proof (b2z_range b') as Rb'.
  pose proof (Z.mod_pos_bound (b2z b) 128 ltac:(lia)) as Mb. pose proof (Z.mod_pos_bound (b2z b') 128 ltac:(lia)) as Mb'.
  pose proof (groups_value_nonneg t) as Gt. pose proof (groups_value_nonneg t') as Gt'.
  assert (Hm : b2z b mod 128 = b2z b' mod 128 /\ groups_value t = groups_value t') by lia.
  destruct Hm as [Hm Hg].
  destruct t as [|c t], t' as [|c' t'].
  - cbn [cont_bits] in Hc, Hc'. rewrite !Z.mod_small in Hm by lia.
    f_equal. rewrite <- (z2b_b2z b), <- (z2b_b2z b'), Hm. reflexivity.
  - exfalso. cbn [cont_bits] in Hc'. destruct Hc' as [_ Hc'].
    assert (0 < groups_value (c' :: t')) by (apply groups_value_pos; [exact Hc'|apply Hl'; cbn [length]; lia]).
    cbn [groups_value] in Hg. cbn [groups_value] in H. lia.
  - exfalso. cbn [cont_bits] in Hc. destruct Hc as [_ Hc].
    assert (0 < groups_value (c :: t)) by (apply groups_value_pos; [exact Hc|apply Hl; cbn [length]; lia]).
    cbn [groups_value] in Hg. cbn [groups_value] in H. lia.
  - cbn [cont_bits] in Hc, Hc'. destruct Hc as [Hb Hc], Hc' as [Hb' Hc'].
    assert (b = b').
    { rewrite <- (z2b_b2z b), <- (z2b_b2z b'). f_equal.
      pose proof (Z.div_mod (b2z b) 128 ltac:(lia)). pose proof (Z.div_mod (b2z b') 128 ltac:(lia)).
      assert (b2z b / 128 = 1) by (symmetry; apply Z.div_unique with (b2z b - 128); lia).
      assert (b2z b' / 128 = 1) by (symmetry; apply Z.div_unique with (b2z b' - 128); lia). lia. }
    subst b'. f_equal. apply (IH (c' :: t') (groups_value (c :: t))).
    + split; [reflexivity|]. split; [exact Hc|]. intros Hp. apply Hl. cbn [length] in *. lia.
    + split; [symmetry; exact Hg|]. split; [exact Hc'|]. intros Hp. apply Hl'. cbn [length] in *. lia.
Qed.

(* ---- zigzag ---- *)
Theorem zigzag_closed n :
  (0 <= n -> zigzag n = 2 * n) /\ (n < 0 -> zigzag n = - 2 * n - 1) /\
  (- 2 ^ 63 <= n < 2 ^ 63 -> zigzag n = Z.lxor (Z.shiftl n 1) (Z.shiftr n 63)).
Proof.
  unfold zigzag. split; [intros H; replace (n <? 0) with false by lia; reflexivity|].
  split; [intros H; replace (n <? 0) with true by lia; reflexivity|].
  intros H. rewrite Z.shiftl_mul_pow2, Z.shiftr_div_pow2 by lia. change (2 ^ 1) with 2.
  destruct (n <? 0) eqn:E.
  - replace (n / 2 ^ 63) with (-1) by (apply Z.div_unique with (n + 2 ^ 63); lia).
    rewrite Z.lxor_m1_r. unfold Z.lnot. lia.
  - rewrite Z.div_small by lia. rewrite Z.lxor_0_r. lia.
Qed.

(* ---- fixed width ---- *)
Definition be_value (l : list byte) : Z := fold_left (fun acc b => acc * 256 + b2z b) l 0.
Fixpoint le_value (l : list byte) : Z := match l with [] => 0 | b :: t => b2z b + 256 * le_value t end.
(* two's complement residue on k bytes *)
Definition twos (k : nat) (n : Z) : Z := if n <? 0 then n + 2 ^ (8 * Z.of_nat k) else n.

Lemma le_value_le_bytes : forall k z, le_value (le_bytes k z) = z mod 2 ^ (8 * Z.of_nat k).
Proof.
  induction k as [|k IH]; intros z; cbn [le_bytes le_value].
  - change (2 ^ (8 * Z.of_nat 0)) with 1. rewrite Z.mod_1_r. reflexivity.
  - rewrite b2z_z2b, IH. replace (8 * Z.of_nat (S k)) with (8 + 8 * Z.of_nat k) by lia.
    rewrite Z.pow_add_r by lia. change (2 ^ 8) with 256.
    rewrite (Z.rem_mul_r z 256 (2 ^ (8 * Z.of_nat k))) by lia. reflexivity.
Qed.

Lemma be_value_rev l : be_value (rev l) = le_value l.
Proof.
  unfold be_value. induction l as [|b t IH]; [reflexivity|]. cbn [rev le_value].
  rewrite fold_left_app. cbn [fold_left]. rewrite IH. lia.
Qed.

Lemma twos_mod k n : in_s (8 * Z.of_nat k) n -> (0 < k)%nat -> n mod 2 ^ (8 * Z.of_nat k) = twos k n.
Proof.
  unfold in_s, twos. intros H Hk. set (B := 8 * Z.of_nat k) in *.
  assert (HB : 2 ^ B = 2 * 2 ^ (B - 1)) by (rewrite <- Z.pow_succ_r by lia; f_equal; lia).
  destruct (n <? 0) eqn:E.
  - symmetry. apply Z.mod_unique with (-1); lia.
  - apply Z.mod_small. lia.
Qed.

Theorem fixed_closed k n : (0 < k)%nat -> in_s (8 * Z.of_nat k) n ->
  length (be_bytes k n) = k /\ be_value (be_bytes k n) = twos k n /\
  length (le_bytes k n) = k /\ le_value (le_bytes k n) = twos k n /\
  s_i k (8 * Z.of_nat k) n = be_bytes k n.
Proof.
  intros Hk Hn. rewrite be_bytes_length, le_bytes_length. unfold be_bytes at 1. rewrite be_value_rev, le_value_le_bytes, twos_mod by auto.
  repeat split. unfold s_i, be_bytes. f_equal.
  assert (E : forall j z, le_bytes j (z mod 2 ^ (8 * Z.of_nat j)) = le_bytes j z).
  { induction j as [|j IHj]; intros z; cbn [le_bytes]; [reflexivity|].
    replace (8 * Z.of_nat (S j)) with (8 + 8 * Z.of_nat j) by lia. rewrite Z.pow_add_r by lia. change (2 ^ 8) with 256.
    rewrite (Z.rem_mul_r z 256 (2 ^ (8 * Z.of_nat j))) by lia.
    f_equal.
    - rewrite <- z2b_mod. rewrite Z.mul_comm, Z_mod_plus_full, Z.mod_mod by lia. apply z2b_mod.
    - rewrite <- (IHj (z / 256)). f_equal.
      rewrite Z.mul_comm, Z.div_add by lia. rewrite Z.div_small by (apply Z.mod_pos_bound; lia). reflexivity. }
  apply E.
Qed.

(* C03_number_formats *)
Theorem number_formats :
  (forall n, 0 <= n < 2 ^ 64 -> is_uleb n (s_uv n) /\ (length (s_uv n) <= 10)%nat) /\
  (forall l l' n, is_uleb n l -> is_uleb n l' -> l = l') /\
  (forall n, - 2 ^ 63 <= n < 2 ^ 63 ->
     (0 <= n -> zigzag n = 2 * n) /\ (n < 0 -> zigzag n = - 2 * n - 1) /\
     zigzag n = Z.lxor (Z.shiftl n 1) (Z.shiftr n 63) /\ is_uleb (zigzag n) (s_zz n) /\ unzigzag (zigzag n) = n) /\
  (forall k n, (0 < k)%nat -> in_s (8 * Z.of_nat k) n ->
     length (s_i k (8 * Z.of_nat k) n) = k /\ be_value (s_i k (8 * Z.of_nat k) n) = twos k n /\
     length (le_bytes k n) = k /\ le_value (le_bytes k n) = twos k n).
Proof.
  split; [intros n Hn; exact (encode_var_uleb n Hn)|]. split; [exact uleb_unique|]. split.
  - intros n Hn. destruct (zigzag_closed n) as (Z1 & Z2 & Z3). split; [exact Z1|]. split; [exact Z2|]. split; [exact (Z3 Hn)|].
    split; [|apply unzigzag_zigzag]. unfold s_zz. apply encode_var_uleb. pose proof (zigzag_range n Hn). unfold two64 in *. lia.
  - intros k n Hk Hn. destruct (fixed_closed k n Hk Hn) as (A & B & C & D & E). rewrite E. auto.
Qed.

(* non-vacuity: the numbers of the compact specification's examples *)
Example number_format_examples :
  s_uv 300 = [xac; x02] /\ groups_value [xac; x02] = 300 /\ s_zz (-1) = [x01] /\ s_zz 1 = [x02] /\ s_zz (-64) = [x7f] /\ s_zz 64 = [x80; x01] /\
  s_i 2 16 (-2) = [xff; xfe] /\ be_value [xff; xfe] = twos 2 (-2) /\ le_bytes 4 258 = [x02; x01; x00; x00] /\
  ~ is_uleb 0 [x80; x00].
Proof. repeat split; try (vm_compute; reflexivity). intros (_ & _ & H). apply H; [cbn [length]; lia|reflexivity]. Qed.
