(* the regenerated function inventory of encoding.rs is the accounted one *)
From PVPb Require Import Generated.PbFns FnAccounted.
Lemma encoding_fns_accounted : encoding_fns = accounted_encoding_fns.
Proof. reflexivity. Qed.
