(* Lemmas about Names.v (C14): keyword escaping and the sibling-collision rule. *)
From Coq Require Import String List Bool Arith Ascii Lia.
From PVBld Require Import Generated.Keywords Names.
Import ListNotations.
Open Scope string_scope.

Lemma mem_In s l : mem s l = true <-> In s l.
Proof.
  unfold mem. rewrite existsb_exists. split.
  - intros [x [H E]]. apply String.eqb_eq in E. now subst.
  - intros H. exists s. split; [assumption|apply String.eqb_refl].
Qed.

Lemma mem_false s l : mem s l = false <-> ~ In s l.
Proof.
  rewrite <- mem_In. destruct (mem s l).
  - split; [discriminate|intros H; exfalso; apply H; reflexivity].
  - split; [intros _ H; discriminate|reflexivity].
Qed.

(* ---- finite checks against the REGENERATED tables --------------------------------------- *)

(* every strict or reserved keyword of Rust 2024 is known to Symbol's Display *)
Lemma keywords_cover :
  forallb (fun k => mem k keywords_set || is_path_segment_keyword k) rust_keywords = true.
Proof. vm_compute. reflexivity. Qed.

(* what cannot be written r#... is handled by the first (suffix) branch *)
Lemma raw_forbidden_are_segment_keywords :
  forallb is_path_segment_keyword raw_forbidden = true.
Proof. vm_compute. reflexivity. Qed.

(* the suffixed forms are themselves legal identifiers *)
Lemma suffixed_ok :
  forallb (fun k => ident_token_ok (k ++ "_")) path_segment_keywords = true.
Proof. vm_compute. reflexivity. Qed.

Lemma segment_keywords_plain :
  forallb (fun k => negb (has_hash k)) path_segment_keywords = true.
Proof. vm_compute. reflexivity. Qed.

(* ---- strings ----------------------------------------------------------------------------- *)

Lemma hash_not_ident_char : is_ident_char "#"%char = false.
Proof. reflexivity. Qed.

Lemma strip_raw_spec t k : strip_raw t = Some k -> t = String "r" (String "#" k).
Proof.
  destruct t as [|c1 t']; [discriminate|].
  destruct c1 as [[] [] [] [] [] [] [] []]; cbn; try discriminate.
  destruct t' as [|c2 r]; [discriminate|].
  destruct c2 as [[] [] [] [] [] [] [] []]; cbn; try discriminate.
  intros H. injection H as ->. reflexivity.
Qed.

Lemma plain_no_raw s : plain_ident s = true -> strip_raw s = None.
Proof.
  intros H. destruct (strip_raw s) eqn:E; [|reflexivity].
  apply strip_raw_spec in E. subst. discriminate.
Qed.

Lemma all_chars_no_hash s : all_chars is_ident_char s = true -> has_hash s = false.
Proof.
  induction s as [|c r IH]; cbn [all_chars has_hash]; [reflexivity|].
  intros H. apply andb_prop in H. destruct H as [Hc Hr].
  rewrite (IH Hr), orb_false_r.
  destruct (nat_of_ascii c =? 35)%nat eqn:E; [|reflexivity].
  apply Nat.eqb_eq in E.
  assert (c = "#"%char) by (rewrite <- (ascii_nat_embedding c), E; reflexivity).
  subst. discriminate.
Qed.

Lemma plain_no_hash s : plain_ident s = true -> has_hash s = false.
Proof.
  unfold plain_ident. intros H. apply andb_prop in H. destruct H as [H _]. apply andb_prop in H. destruct H as [H _].
  apply andb_prop in H. destruct H as [H _]. now apply all_chars_no_hash.
Qed.

(* ---- C14_no_keyword ----------------------------------------------------------------------- *)

Lemma display_token_ok s : plain_ident s = true -> ident_token_ok (display s) = true.
Proof.
  intros P. unfold display.
  destruct (is_path_segment_keyword s) eqn:K1.
  - pose proof suffixed_ok as H. rewrite forallb_forall in H. apply H.
    apply mem_In. exact K1.
  - destruct (mem s keywords_set) eqn:K2.
    + unfold ident_token_ok. cbn [append strip_raw]. rewrite P. cbn [andb].
      destruct (mem s raw_forbidden) eqn:R; [|reflexivity].
      pose proof raw_forbidden_are_segment_keywords as H. rewrite forallb_forall in H.
      apply mem_In in R. apply H in R. congruence.
    + unfold ident_token_ok. rewrite (plain_no_raw s P), P. cbn [andb].
      destruct (mem s rust_keywords) eqn:R; [|reflexivity].
      pose proof keywords_cover as H. rewrite forallb_forall in H.
      apply mem_In in R. apply H in R. rewrite K1, K2 in R. discriminate.
Qed.

(* the lone underscore is a Thrift identifier, is not escaped, and is not a Rust identifier *)
Lemma underscore_refuted : display "_" = "_" /\ ident_token_ok (display "_") = false.
Proof. split; reflexivity. Qed.

(* non-vacuity: keywords, path-segment keywords and ordinary names are all plain identifiers *)
Example no_keyword_nonvacuous :
  plain_ident "type" = true /\ display "type" = "r#type" /\
  plain_ident "self" = true /\ display "self" = "self_" /\
  plain_ident "gen" = true /\ display "gen" = "r#gen" /\
  plain_ident "_foo1" = true /\ display "_foo1" = "_foo1".
Proof. repeat split; reflexivity. Qed.

(* ---- the escape stage is injective under the explicit side condition ------------------------ *)

Lemma escape_ok_spec names :
  escape_ok names = true <->
  forall a, In a names -> has_hash a = false /\ (is_path_segment_keyword a = true -> ~ In (a ++ "_") names).
Proof.
  unfold escape_ok. rewrite forallb_forall. split.
  - intros H a Ha. specialize (H a Ha). apply andb_prop in H. destruct H as [H1 H2].
    split; [now apply negb_true_iff in H1|].
    intros K. rewrite K in H2. cbn [negb orb] in H2. apply negb_true_iff in H2. now apply mem_false in H2.
  - intros H a Ha. destruct (H a Ha) as [H1 H2]. rewrite H1. cbn [negb andb].
    destruct (is_path_segment_keyword a) eqn:K; cbn [negb orb]; [|reflexivity].
    apply negb_true_iff. apply mem_false. now apply H2.
Qed.

Lemma escape_ok_incl l l' : incl l' l -> escape_ok l = true -> escape_ok l' = true.
Proof.
  intros I H. rewrite escape_ok_spec in *. intros a Ha. destruct (H a (I a Ha)) as [H1 H2].
  split; [assumption|]. intros K N. apply (H2 K). now apply I.
Qed.

Lemma has_hash_raw s : has_hash ("r#" ++ s) = true.
Proof. reflexivity. Qed.

Lemma psk_cases a : is_path_segment_keyword a = true -> In a path_segment_keywords.
Proof. apply mem_In. Qed.

(* first character of k_ for a path-segment keyword k is not 'r' -- checked on the regenerated list *)
Lemma psk_suffix_not_raw :
  forallb (fun k => match strip_raw (k ++ "_") with None => true | Some _ => false end) path_segment_keywords = true.
Proof. vm_compute. reflexivity. Qed.

Lemma append_underscore_inj a b : a ++ "_" = b ++ "_" -> a = b.
Proof.
  revert b. induction a as [|c r IH]; intros [|c' r'] H; cbn in H.
  - reflexivity.
  - injection H as H1 H2. destruct r'; discriminate.
  - injection H as H1 H2. destruct r; discriminate.
  - injection H as H1 H2. subst. f_equal. now apply IH.
Qed.

Lemma has_hash_app a b : has_hash (a ++ b) = has_hash a || has_hash b.
Proof. induction a as [|c r IH]; cbn; [reflexivity|]. rewrite IH. now rewrite orb_assoc. Qed.

Lemma display_inj_on names a b :
  escape_ok names = true -> In a names -> In b names -> display a = display b -> a = b.
Proof.
  intros E Ha Hb D. rewrite escape_ok_spec in E.
  destruct (E a Ha) as [Na Sa]. destruct (E b Hb) as [Nb Sb].
  unfold display in D.
  destruct (is_path_segment_keyword a) eqn:Pa; destruct (is_path_segment_keyword b) eqn:Pb.
  - now apply append_underscore_inj.
  - destruct (mem b keywords_set).
    + (* a_ = r#b : a_ carries no '#' *)
      assert (H : has_hash (a ++ "_") = true) by (rewrite D; apply has_hash_raw).
      rewrite has_hash_app, Na in H. discriminate.
    + exfalso. apply (Sa eq_refl). now rewrite D.
  - destruct (mem a keywords_set).
    + assert (H : has_hash (b ++ "_") = true) by (rewrite <- D; apply has_hash_raw).
      rewrite has_hash_app, Nb in H. discriminate.
    + exfalso. apply (Sb eq_refl). now rewrite <- D.
  - destruct (mem a keywords_set); destruct (mem b keywords_set).
    + cbn in D. now injection D.
    + assert (H : has_hash b = true) by (rewrite <- D; apply has_hash_raw). congruence.
    + assert (H : has_hash a = true) by (rewrite D; apply has_hash_raw). congruence.
    + exact D.
Qed.

(* ---- collision rule ------------------------------------------------------------------------- *)

Lemma count_str_in x l : In x l -> (1 <= count_str x l)%nat.
Proof.
  induction l as [|y r IH]; cbn; [tauto|]. intros [H|H].
  - subst. rewrite String.eqb_refl. lia.
  - specialize (IH H). lia.
Qed.

Section Conv.
  Variable conv : kind -> string -> string.
  (* case conversion is NOT idempotent in general (heck: aB -> AB -> Ab); the collision rule only needs it on
     the names of the scope at hand *)
  Definition idem_on (x : sib) : Prop := conv (s_kind x) (conv (s_kind x) (s_orig x)) = conv (s_kind x) (s_orig x).

  Lemma two_same_key_collide cc scope x y :
    In x scope -> In y scope -> x <> y -> key conv cc x = key conv cc y -> collides conv cc scope x = true.
  Proof.
    intros Hx Hy N K. unfold collides. apply Nat.ltb_lt.
    induction scope as [|z r IH]; [destruct Hx|].
    cbn [map count_str].
    destruct Hx as [Hx|Hx]; destruct Hy as [Hy|Hy].
    - congruence.
    - subst z. rewrite String.eqb_refl.
      assert (1 <= count_str (key conv cc x) (map (key conv cc) r))%nat.
      { apply count_str_in. rewrite K. now apply in_map. }
      lia.
    - subst z. rewrite K at 1. rewrite String.eqb_refl.
      assert (1 <= count_str (key conv cc x) (map (key conv cc) r))%nat.
      { apply count_str_in. now apply in_map. }
      lia.
    - specialize (IH Hx Hy). destruct (key conv cc x =? key conv cc z); lia.
  Qed.

  Lemma names_injective_pair cc scope x y :
    In x scope -> In y scope ->
    s_tag x = None -> s_tag y = None -> s_kind x = s_kind y ->
    s_orig x <> s_orig y ->
    idem_on x -> idem_on y ->
    escape_ok [rust_name conv cc scope x; rust_name conv cc scope y] = true ->
    emitted conv cc scope x <> emitted conv cc scope y.
  Proof.
    intros Hx Hy Tx Ty Kd No Ix Iy E Em. unfold idem_on in Ix, Iy.
    assert (Nxy : x <> y) by (intros ->; now apply No).
    assert (R : rust_name conv cc scope x = rust_name conv cc scope y).
    { unfold emitted in Em.
      eapply display_inj_on; [exact E| | |exact Em]; cbn; tauto. }
    unfold rust_name in R. rewrite Tx, Ty in R.
    assert (KE : name0 conv cc x = name0 conv cc y -> key conv cc x = key conv cc y).
    { intros H. unfold key. now rewrite H, Kd. }
    assert (N0x : name0 conv cc x = if cc then conv (s_kind x) (s_orig x) else s_orig x)
      by (unfold name0; now rewrite Tx).
    assert (N0y : name0 conv cc y = if cc then conv (s_kind y) (s_orig y) else s_orig y)
      by (unfold name0; now rewrite Ty).
    destruct cc; cbn [negb orb] in R; [|now apply No].
    destruct (collides conv true scope x) eqn:Cx; destruct (collides conv true scope y) eqn:Cy.
    - now apply No.
    - (* x fell back to its original spelling, which is y's converted name *)
      assert (key conv true x = key conv true y).
      { apply KE. rewrite N0x, N0y, R, Kd. now rewrite Iy. }
      pose proof (two_same_key_collide true scope y x Hy Hx (not_eq_sym Nxy) (eq_sym H)). congruence.
    - assert (key conv true x = key conv true y).
      { apply KE. rewrite N0x, N0y, <- R, <- Kd. now rewrite Ix. }
      pose proof (two_same_key_collide true scope x y Hx Hy Nxy H). congruence.
    - assert (key conv true x = key conv true y) by (apply KE; rewrite N0x, N0y; now rewrite R).
      pose proof (two_same_key_collide true scope x y Hx Hy Nxy H). congruence.
  Qed.

  Lemma NoDup_map_pairwise {A} (f g : A -> string) (l : list A) :
    NoDup (map g l) ->
    (forall x y, In x l -> In y l -> g x <> g y -> f x <> f y) ->
    NoDup (map f l).
  Proof.
    induction l as [|a r IH]; cbn; intros N P; [constructor|].
    inversion N as [|? ? Na Nr]; subst. constructor.
    - intros I. apply in_map_iff in I. destruct I as [b [E Hb]].
      apply (P b a); [now right|now left| |exact E].
      intros G. apply Na. rewrite <- G. now apply in_map.
    - apply IH; [assumption|]. intros x y Hx Hy. apply P; now right.
  Qed.

  Lemma names_injective cc k scope :
    (forall x, In x scope -> s_kind x = k /\ s_tag x = None) ->
    (forall x, In x scope -> idem_on x) ->
    NoDup (map s_orig scope) ->
    escape_ok (map (rust_name conv cc scope) scope) = true ->
    NoDup (map (emitted conv cc scope) scope).
  Proof.
    intros U I N E. apply NoDup_map_pairwise with (g := s_orig); [assumption|].
    intros x y Hx Hy D. destruct (U x Hx) as [Kx Tx]. destruct (U y Hy) as [Ky Ty].
    apply names_injective_pair; try assumption; [congruence|now apply I|now apply I|].
    eapply escape_ok_incl; [|exact E].
    intros a [H|[H|[]]]; subst; now apply in_map.
  Qed.
End Conv.

(* ---- the escape stage really is not injective: self / self_ (finding F-14c) ----------------- *)
Definition self_scope : list sib := [mkSib KField "self" None; mkSib KField "self_" None].

Lemma names_escape_refuted :
  forall (conv : kind -> string -> string) cc,
    conv KField "self" = "self" ->
    (conv KField "self_" = "self" \/ conv KField "self_" = "self_") ->
    NoDup (map s_orig self_scope) /\
    (forall x, In x self_scope -> s_kind x = KField /\ s_tag x = None) /\
    ~ NoDup (map (emitted conv cc self_scope) self_scope).
Proof.
  intros conv cc C1 C2. split; [|split].
  - cbn. constructor; [intros [H|[]]; discriminate|]. constructor; [intros []|constructor].
  - intros x [H|[H|[]]]; subst; split; reflexivity.
  - assert (E : map (emitted conv cc self_scope) self_scope = ["self_"; "self_"]).
    { destruct cc.
      - unfold emitted, rust_name, collides, key, name0, self_scope. cbn [map s_tag s_kind s_orig negb orb is_item_kind is_const_kind].
        rewrite C1. destruct C2 as [C2|C2]; rewrite C2; reflexivity.
      - reflexivity. }
    rewrite E. intros N. inversion N as [|? ? H _]; subst. apply H. now left.
Qed.

(* ---- the idempotence condition is necessary: heck's upper camel case maps aB -> AB -> Ab (finding F-14r) ------ *)
Definition conv_heck_ab (_ : kind) (s : string) : string :=
  if s =? "aB" then "AB" else if s =? "AB" then "Ab" else s.
Definition ab_scope : list sib := [mkSib KStruct "AB" None; mkSib KStruct "Ab" None; mkSib KStruct "aB" None].

Lemma names_not_idempotent_refuted :
  NoDup (map s_orig ab_scope) /\
  (forall x, In x ab_scope -> s_kind x = KStruct /\ s_tag x = None) /\
  escape_ok (map (rust_name conv_heck_ab true ab_scope) ab_scope) = true /\
  map (emitted conv_heck_ab true ab_scope) ab_scope = ["AB"; "Ab"; "AB"].
Proof.
  split; [|split; [|split]].
  - cbn. repeat constructor; cbn; intuition discriminate.
  - intros x [H|[H|[H|[]]]]; subst; split; reflexivity.
  - vm_compute. reflexivity.
  - vm_compute. reflexivity.
Qed.

(* ---- constants go through Display like everything else (fix F-14n; the pinned code pasted the raw name) ---- *)
Lemma const_keyword_escaped :
  forall (conv : kind -> string -> string),
    let scope := [mkSib KConst "in" None] in
    emitted conv false scope (mkSib KConst "in" None) = "r#in" /\
    ident_token_ok (emitted conv false scope (mkSib KConst "in" None)) = true.
Proof. intros conv. split; reflexivity. Qed.

(* Display never yields a strict or reserved keyword *)
Lemma keywords_no_hash : forallb (fun k => negb (has_hash k)) rust_keywords = true.
Proof. vm_compute. reflexivity. Qed.

Lemma token_ok_not_keyword t : ident_token_ok t = true -> ~ In t rust_keywords.
Proof.
  unfold ident_token_ok. intros H I. destruct (strip_raw t) eqn:E.
  - apply strip_raw_spec in E. subst t.
    pose proof keywords_no_hash as K. rewrite forallb_forall in K. apply K in I. discriminate.
  - apply andb_prop in H. destruct H as [_ H]. apply negb_true_iff in H. apply mem_false in H. now apply H.
Qed.

Lemma display_not_keyword s : plain_ident s = true -> ~ In (display s) rust_keywords.
Proof. intros P. apply token_ok_not_keyword. now apply display_token_ok. Qed.

(* ---- non-vacuity: a concrete idempotent conversion and a scope with a case collision ---------- *)
Definition conv_toy (_ : kind) (s : string) : string := lower s.

Lemma lower_ascii_idem c : lower_ascii (lower_ascii c) = lower_ascii c.
Proof. destruct c as [[] [] [] [] [] [] [] []]; reflexivity. Qed.

Lemma conv_toy_idem k s : conv_toy k (conv_toy k s) = conv_toy k s.
Proof. unfold conv_toy. induction s as [|c r IH]; cbn; [reflexivity|]. now rewrite lower_ascii_idem, IH. Qed.

Example names_injective_nonvacuous :
  let scope := [mkSib KField "fooBar" None; mkSib KField "foobar" None; mkSib KField "type" None; mkSib KField "x" None] in
  (forall x, In x scope -> s_kind x = KField /\ s_tag x = None) /\
  (forall x, In x scope -> idem_on conv_toy x) /\
  NoDup (map s_orig scope) /\
  escape_ok (map (rust_name conv_toy true scope) scope) = true /\
  map (emitted conv_toy true scope) scope = ["fooBar"; "foobar"; "r#type"; "x"].
Proof.
  cbn zeta. split; [|split; [|split; [|split]]].
  - intros x [H|[H|[H|[H|[]]]]]; subst; split; reflexivity.
  - intros x _. unfold idem_on. apply conv_toy_idem.
  - repeat constructor; cbn; intuition discriminate.
  - vm_compute. reflexivity.
  - vm_compute. reflexivity.
Qed.
