(* pilota::prost::encoding::group -- the runtime codec of group-typed fields (public API; pilota-build's protobuf
   front end cannot produce group fields, hand-written / prost-style Message impls can).  Codec.v has
   group_merge / group_encode / group_encoded_len; here: the repeated helpers and the model of the test type of the
   pb harness (fam/pb/harness/src/bin/gen.rs `GroupHolder<M>`: an optional, a required and a repeated group field whose
   body is a generated message M, and a uint32), through which the group codec is exercised on every run.
   Model only -- lemmas live in Proofs/GroupP.v. *)
From PVPb Require Export Msg.
Open Scope Z_scope.

(* group::encode_repeated: for msg in messages { encode(tag, msg, buf) } *)
Definition group_encode_repeated (tag : Z) (raws : list (list byte)) : list byte := flat_map (group_encode tag) raws.

(* group::encoded_len_repeated: 2 * key_len(tag) * messages.len() + sum(encoded_len) *)
Definition group_encoded_len_repeated (tag : Z) (lens : list Z) : Z :=
  2 * key_len tag * Z.of_nat (length lens) + sumZ lens.

(* group::merge_repeated: check_wire_type(StartGroup, wt)?; let mut msg = M::default(); merge(tag, StartGroup, &mut msg, ..)?; push *)
Definition group_merge_repeated (mf : val -> Z -> wire_type -> Z -> M val) (dflt : val) (tag : Z) (wt : wire_type)
           (ms : list val) (ctx : Z) : M (list val) :=
  let+ _ := check_wire_type StartGroup wt in
  let+ v := group_merge mf tag StartGroup dflt ctx in
  push ms v.

(* ---------------------------------------------------------------- the harness's GroupHolder<M> *)
(* struct GroupHolder<M> { opt: Option<M> /* group 3 */, req: M /* group 4 */, many: Vec<M> /* group 1000 */, tail: u32 /* 1001 */ }
   value: VL NMsg [VL NNone [] | VL NSome [m]; m; VL NRep ms; VI tail] *)
Section Holder.
  Variable sc : schema.
  Variable i : nat.                                   (* the body type M = message #i *)

  Definition gh_opt_tag : Z := 3.
  Definition gh_req_tag : Z := 4.
  Definition gh_many_tag : Z := 1000.
  Definition gh_tail_tag : Z := 1001.

  Definition gh_body_default : val := default_msg depth_fuel sc i.
  Definition gh_default : val := VL NMsg [VL NNone []; gh_body_default; VL NRep []; VI 0].

  Definition gh_merge_field (x : val) (tag : Z) (wt : wire_type) (ctx : Z) : M val :=
    match x with
    | VL NMsg [o; r; VL NRep ms; t] =>
        if tag =? gh_opt_tag then                           (* group::merge(3, wt, self.opt.get_or_insert_with(Default::default), ..) *)
          let cur := match o with VL NSome [v] => v | _ => gh_body_default end in
          let+ v' := group_merge (merge_field depth_fuel sc i) gh_opt_tag wt cur ctx in
          ret (VL NMsg [VL NSome [v']; r; VL NRep ms; t])
        else if tag =? gh_req_tag then
          let+ r' := group_merge (merge_field depth_fuel sc i) gh_req_tag wt r ctx in
          ret (VL NMsg [o; r'; VL NRep ms; t])
        else if tag =? gh_many_tag then
          let+ ms' := group_merge_repeated (merge_field depth_fuel sc i) gh_body_default gh_many_tag wt ms ctx in
          ret (VL NMsg [o; r; VL NRep ms'; t])
        else if tag =? gh_tail_tag then
          let+ t' := merge_scalar MUInt32 wt in ret (VL NMsg [o; r; VL NRep ms; t'])
        else let+ _ := skip_field depth_fuel wt tag ctx in ret x
    | _ => fail PIllTyped
    end.

  Definition gh_merge (x : val) : M val :=
    while_rem 0 (fun x => let+ (tag, wt) := decode_key in gh_merge_field x tag wt ctx_default) x.
  Definition gh_decode : M val := gh_merge gh_default.

  (* encode_raw: the optional group when present, the required group always, the repeated ones, the scalar always *)
  Definition gh_enc (edv : bool) (d : nat) (x : val) : list byte :=
    match x with
    | VL NMsg [o; r; VL NRep ms; t] =>
        (match o with VL NSome [v] => group_encode gh_opt_tag (enc_msg edv d sc i v) | _ => [] end)
        ++ group_encode gh_req_tag (enc_msg edv d sc i r)
        ++ group_encode_repeated gh_many_tag (map (enc_msg edv d sc i) ms)
        ++ encode_scalar MUInt32 gh_tail_tag t
    | _ => []
    end.

  Definition gh_len (edv : bool) (d : nat) (x : val) : Z :=
    match x with
    | VL NMsg [o; r; VL NRep ms; t] =>
        (match o with VL NSome [v] => group_encoded_len gh_opt_tag (len_msg edv d sc i v) | _ => 0 end)
        + group_encoded_len gh_req_tag (len_msg edv d sc i r)
        + group_encoded_len_repeated gh_many_tag (map (len_msg edv d sc i) ms)
        + encoded_len_scalar MUInt32 gh_tail_tag t
    | _ => 0
    end.
End Holder.
