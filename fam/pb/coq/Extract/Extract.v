(* Extraction of the executable protobuf models for the correspondence runner.
   Directives: ExtrOcamlBasic only (bool, option, unit, list, prod, sumbool, sumor -> OCaml's).
   Z / positive / N / nat / byte stay the extracted inductive types.  No Extract Constant. *)
Require Extraction.
Require Import ExtrOcamlBasic.
From PV Require Import Base.Res.
From PVPb Require Import Wire Codec Msg Own GroupMsg.

Extraction "model.ml"
  Z.add Z.mul Z.sub Z.opp Z.div Z.modulo Z.ltb Z.eqb Z.of_nat Z.to_nat Z.of_N Pos.succ
  b2z z2b mkR rb ra
  encode_varint encoded_len_varint decode_varint decode_varint_slow decode_varint_chunk
  encode_key encode_key_dbg key_len decode_key wire_type_code wire_type_of_code
  skip_field depth_fuel ctx_default decode_length_delimiter
  encode_scalar encoded_len_scalar encode_repeated encoded_len_repeated encode_packed encoded_len_packed
  merge_scalar merge_repeated mod_value_okb
  msg_decode msg_merge msg_decode_length_delimited enc_msg len_msg default_msg wt_msg schema_ok
  module_of_decl scalar_module
  wrapper_decode wrapper_merge wrapper_decode_length_delimited wrapper_enc wrapper_len
  gh_decode gh_enc gh_len
  own_decode own_wrapper_decode l_heap l_refs l_tail faststr_inline_cap
  err site.
