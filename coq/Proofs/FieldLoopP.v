(* C07, field-loop form.  Generated decoders (and ApplicationException::decode) do not skip a struct as
   a whole: they read the field headers themselves and call the protocol's skipper on the fields they
   do not know.  The statements here are about that loop:
     - [field_loop_skip]: every field is skipped (the unknown arm only), in-memory and asynchronous;
     - [tread_struct] (Thrift/Unsafe.v): any subset of the fields is skipped, the others are read;
     - [app_decode] (Thrift/AppMsg.v): ApplicationException::decode.
   Each consumes exactly the struct and hands the reader context back as found (field-id stack, last
   field id, no bool value left pending -- the states seeded C07e / C12e corrupt). *)
From PV Require Import Thrift.Skip Thrift.Unsafe Thrift.AppMsg Proofs.VarintP Proofs.TablesP Proofs.PrimP Proofs.HeaderP
  Proofs.RoundtripP Proofs.AsyncP Proofs.SkipP.
From Coq Require Import ZifyN ZifyNat ZifyBool.
Open Scope Z_scope.

(* ------------------------------------------------------------------ *)
(* the loop that skips every field *)
Definition field_loop_skip (p : pk) (fuel : nat) (s : rst) : res (Z * rst) :=
  let* (_, s1) := r_struct_begin p s in
  let* (n, s2) := skip_fields p (skip p fuel) (S fuel) s1 0 in
  let* (_, s3) := r_struct_end p s2 in
  Ok (n, s3).

Definition afield_loop_skip (p : pk) (fuel : nat) (s : rst) : res (unit * rst) :=
  let* (_, s1) := a_struct_begin p s in
  let* (_, s2) := askip_fields p (askip p fuel) (S fuel) s1 in
  a_struct_end p s2.

(* it is the struct case of the recursive skipper with one more level of budget *)
Lemma field_loop_skip_eq p fuel s : field_loop_skip p fuel s = skip_val p (S fuel) (S skip_depth) TStruct s.
Proof. reflexivity. Qed.
Lemma afield_loop_skip_eq p fuel s : afield_loop_skip p fuel s = askip_val p (S fuel) (S skip_depth) TStruct s.
Proof. reflexivity. Qed.

(* on EVERY input the struct reader accepts: same stopping state (position and context), exact count;
   a field nested deeper than MAXIMUM_SKIP_DEPTH is refused *)
Theorem field_loop_skip_sim p f s v s' :
  read_val p (S f) TStruct s = Ok (v, s') ->
  ((vdepth v <= S skip_depth)%nat -> field_loop_skip p f s = Ok (consumed s s', s')) /\
  ((S skip_depth < vdepth v)%nat -> field_loop_skip p f s = Err EDepthLimit).
Proof. intros H. rewrite field_loop_skip_eq. exact (skip_sim p (S f) _ _ _ _ H (S skip_depth)). Qed.

Theorem afield_loop_skip_sim p f s v s' :
  aread_val p (S f) TStruct s = Ok (v, s') ->
  ((vdepth v <= S skip_depth)%nat -> afield_loop_skip p f s = Ok (tt, s')) /\
  ((S skip_depth < vdepth v)%nat -> afield_loop_skip p f s = Err EDepthLimit).
Proof. intros H. rewrite afield_loop_skip_eq. exact (askip_sim p (S f) _ _ _ _ H (S skip_depth)). Qed.

(* composed with C01: any well-typed struct written by pilota, followed by arbitrary bytes *)
Theorem field_loop_skip_written p k fs c :
  wt (VStruct fs) = true -> w_pend c = None ->
  exists ss, write_val p k (VStruct fs) c = Ok (ss, c) /\
    forall fuel r rcx, (vsize (VStruct fs) <= S fuel)%nat -> idle rcx ->
      ((fmax fs <= skip_depth)%nat ->
         field_loop_skip p fuel (mkS (flat ss ++ r) rcx) = Ok (Z.of_nat (length (flat ss)), mkS r rcx)) /\
      ((skip_depth < fmax fs)%nat ->
         field_loop_skip p fuel (mkS (flat ss ++ r) rcx) = Err EDepthLimit).
Proof.
  intros Hwt Hp. destruct (roundtrip_val p k (VStruct fs) Hwt c Hp) as (ss & Hw & _ & Hr).
  exists ss. split; [exact Hw|]. intros fuel r rcx Hf Hi.
  specialize (Hr (S fuel) r rcx Hf Hi). cbn [ttype_of] in Hr.
  destruct (field_loop_skip_sim p fuel _ _ _ Hr) as [H1 H2].
  rewrite vdepth_canon, vdepth_struct in H1, H2. rewrite consumed_app in H1.
  split; intros; [apply H1|apply H2]; lia.
Qed.

Theorem afield_loop_skip_written p k fs c :
  wt (VStruct fs) = true -> w_pend c = None ->
  exists ss, write_val p k (VStruct fs) c = Ok (ss, c) /\
    forall fuel r, (vsize (VStruct fs) <= S fuel)%nat -> Z.of_nat (length (flat ss ++ r)) < 2 ^ 63 ->
      ((fmax fs <= skip_depth)%nat -> afield_loop_skip p fuel (mkS (flat ss ++ r) r0) = Ok (tt, mkS r r0)) /\
      ((skip_depth < fmax fs)%nat -> afield_loop_skip p fuel (mkS (flat ss ++ r) r0) = Err EDepthLimit).
Proof.
  intros Hwt Hp. destruct (async_roundtrip p k (VStruct fs) c Hwt Hp) as (ss & Hw & Hr).
  exists ss. split; [exact Hw|]. intros fuel r Hf Hl.
  specialize (Hr (S fuel) r Hf Hl). cbn [ttype_of] in Hr.
  destruct (afield_loop_skip_sim p fuel _ _ _ Hr) as [H1 H2].
  rewrite vdepth_canon, vdepth_struct in H1, H2.
  split; intros; [apply H1|apply H2]; lia.
Qed.

(* non-vacuity: bool fields (compact: the value sits in the header and is parked), a bool list after
   them, a nested struct; a field at depth 65 is refused *)
Example field_loop_skip_example :
  let v := VStruct [(1, VBool true); (2, VList TBool [VBool false; VBool true]); (5, VStruct [(1, VBool false)]);
                    (7, VBinary [x61]); (9, VMap TBool TBool [(VBool true, VBool false)])] in
  wt v = true /\
  forall p, match write_val p BContig v w0 with
            | Ok (ss, _) =>
                field_loop_skip p 20 (mkS (flat ss ++ [xff]) r0) = Ok (Z.of_nat (length (flat ss)), mkS [xff] r0) /\
                afield_loop_skip p 20 (mkS (flat ss ++ [xff]) r0) = Ok (tt, mkS [xff] r0)
            | _ => False
            end.
Proof. split; [reflexivity|]. intros p. destruct p; vm_compute; split; reflexivity. Qed.

(* ------------------------------------------------------------------ *)
(* what the field loop of ANY decoder sees on a struct written by pilota: struct_begin, then the
   reference loop returns the fields in order, then struct_end hands the context back *)
Definition canonf (p : pk) (fs : list (Z * tval)) : list (Z * tval) := map (fun '(i, x) => (i, canon p x)) fs.

Lemma struct_written p k fs c :
  wt (VStruct fs) = true -> w_pend c = None ->
  exists ss, write_val p k (VStruct fs) c = Ok (ss, c) /\
    forall r rcx, idle rcx ->
      exists s1 s2,
        r_struct_begin p (mkS (flat ss ++ r) rcx) = Ok (tt, s1) /\
        (forall f n acc, (forall q, In q fs -> (vsize (snd q) <= f)%nat) -> (length fs < n)%nat ->
           fields_loop p (read_val p f) n s1 acc = Ok (rev acc ++ canonf p fs, s2)) /\
        r_struct_end p s2 = Ok (tt, mkS r rcx) /\
        consumed (mkS (flat ss ++ r) rcx) s2 = Z.of_nat (length (flat ss)).
Proof.
  intros Hwt Hp. rewrite wt_struct in Hwt.
  set (c1 := match p with PCompact => mkW 0 (w_last c :: w_stack c) None | _ => c end).
  assert (Hb : w_struct_begin p c = Ok ([], c1)).
  { subst c1. destruct p; cbn [w_struct_begin]; try reflexivity. rewrite Hp. reflexivity. }
  assert (Hp1 : w_pend c1 = None) by (subst c1; destruct p; auto).
  assert (Hl1 : p = PCompact -> in_s 16 (w_last c1)) by (intros ->; subst c1; apply in_s16_0).
  assert (HF : Forall (fun q : Z * tval => RT p k (snd q)) fs) by (apply Forall_forall; intros; apply roundtrip_val).
  destruct (fields_rt p k fs HF Hwt c1 Hp1 Hl1) as (s2 & c2 & Hw2 & Hp2 & Hst2 & Hnc2 & Hr2).
  destruct (w_field_stop_ok p c2 Hp2) as [Hstop _].
  assert (He : w_struct_end p c2 = Ok ([], c)).
  { destruct p; cbn [w_struct_end].
    - rewrite (Hnc2 ltac:(discriminate)). reflexivity.
    - rewrite (Hnc2 ltac:(discriminate)). reflexivity.
    - rewrite Hp2, Hst2. subst c1. cbn [w_stack]. rewrite wctx_eta by auto. reflexivity. }
  exists ((([] ++ s2) ++ [Copy [x00]]) ++ []). split.
  { change (write_val p k (VStruct fs)) with
      (w_struct_begin p ;; write_fields p k fs ;; w_field_stop p ;; w_struct_end p).
    eapply wseq_ok; [eapply wseq_ok; [eapply wseq_ok|]|]; eauto. }
  cbn [app]. rewrite app_nil_r. intros r rcx Hi.
  rewrite flat_app, flat_copy, <- app_assoc. cbn [app].
  set (rcx1 := match p with PCompact => mkR 0 (r_last rcx :: r_stack rcx) (r_pbool rcx) (r_pfield rcx) | _ => rcx end).
  assert (Hi1 : idle rcx1) by (subst rcx1; destruct p; auto; destruct Hi; split; auto).
  exists (mkS (flat s2 ++ x00 :: r) rcx1), (mkS r (rlast_upd p (w_last c2) rcx1)).
  split; [subst rcx1; destruct p; reflexivity|]. split; [|split].
  - intros f n acc Hv Hn. apply Hr2; auto. intros ->. subst rcx1 c1. reflexivity.
  - subst rcx1. destruct p; cbn [r_struct_end rlast_upd]; try reflexivity.
    unfold set_rc. cbn [rc rbuf r_stack r_pbool r_pfield]. rewrite rctx_eta. reflexivity.
  - unfold consumed, blen. cbn [rbuf]. rewrite !app_length. cbn [length]. lia.
Qed.

(* ------------------------------------------------------------------ *)
(* the tolerant reader of Thrift/Unsafe.v: the fields whose id is in [skipid] are skipped, the others
   are read -- any subset, any order *)
Definition tol_rel (skipid : Z -> bool) (a b : Z * tval) : Prop :=
  fst b = fst a /\ if skipid (fst a) then exists c, snd b = skipped c else snd b = snd a.

(* depth of the deepest SKIPPED field *)
Fixpoint skmax (skipid : Z -> bool) (fs : list (Z * tval)) : nat :=
  match fs with [] => O | (i, x) :: t => Nat.max (if skipid i then vdepth x else O) (skmax skipid t) end.

Lemma tfields_sim p skipid fuel : forall n s acc fs s',
  fields_loop p (read_val p fuel) n s acc = Ok (fs, s') ->
  exists new, fs = rev acc ++ new /\ forall acc',
    ((skmax skipid new <= skip_depth)%nat ->
       exists new', tfields p skipid n fuel s acc' = Ok (rev acc' ++ new', s') /\ Forall2 (tol_rel skipid) new new') /\
    ((skip_depth < skmax skipid new)%nat -> tfields p skipid n fuel s acc' = Err EDepthLimit).
Proof.
  induction n as [|n IH]; intros s acc fs s' H; [discriminate|].
  cbn [fields_loop] in H. binv H. cbn [tfields]. rewrite E. cbn [bind].
  destruct (ttype_eqb (fst x) TStop) eqn:Es.
  - injection H as <- <-. exists []. rewrite app_nil_r. split; [reflexivity|]. intros acc'. cbn [skmax]. split; [|lia].
    intros _. exists []. rewrite app_nil_r. split; [reflexivity|constructor].
  - binv H. destruct (IH _ _ _ _ H) as (new & -> & Hn).
    set (id := match snd x with Some i => i | None => 0 end) in *.
    exists ((id, x0) :: new). split; [cbn [rev]; rewrite <- app_assoc; reflexivity|].
    intros acc'. cbn [skmax].
    destruct (skipid id) eqn:Ek.
    + destruct (skip_sim p fuel _ _ _ _ E0 skip_depth) as [Hok Hdeep]. unfold skip. split.
      * intros Hd. rewrite Hok by lia. cbn [bind].
        destruct (Hn ((id, skipped (consumed s0 s1)) :: acc')) as [Hn1 _].
        destruct (Hn1 ltac:(lia)) as (new' & Ht & HF). rewrite Ht. cbn [rev]. rewrite <- app_assoc.
        eexists; split; [reflexivity|]. constructor; [|exact HF].
        split; [reflexivity|]. cbn [fst snd]. rewrite Ek. eauto.
      * intros Hd. destruct (Nat.le_gt_cases (vdepth x0) skip_depth) as [Hle|Hgt].
        -- rewrite Hok by lia. cbn [bind]. apply Hn. lia.
        -- rewrite Hdeep by lia. reflexivity.
    + rewrite E0. cbn [bind]. destruct (Hn ((id, x0) :: acc')) as [Hn1 Hn2]. split.
      * intros Hd. destruct (Hn1 ltac:(lia)) as (new' & Ht & HF). rewrite Ht. cbn [rev]. rewrite <- app_assoc.
        eexists; split; [reflexivity|]. constructor; [|exact HF].
        split; [reflexivity|]. cbn [fst snd]. rewrite Ek. reflexivity.
      * intros Hd. apply Hn2. lia.
Qed.

Lemma skmax_canonf p skipid fs : skmax skipid (canonf p fs) = skmax skipid fs.
Proof.
  induction fs as [|[i x] t IH]; [reflexivity|]. cbn [canonf map skmax]. fold (canonf p t).
  rewrite IH, vdepth_canon. reflexivity.
Qed.

(* composed with C01: a well-typed struct written by pilota, read by a decoder that knows only some of
   its fields: the known fields come out as written, the others are passed over, and the reader stops
   exactly behind the struct with its context as found; a skipped field nested deeper than
   MAXIMUM_SKIP_DEPTH is refused *)
Theorem tolerant_written p skipid k fs c :
  wt (VStruct fs) = true -> w_pend c = None ->
  exists ss, write_val p k (VStruct fs) c = Ok (ss, c) /\
    forall fuel r rcx, (vsize (VStruct fs) <= fuel)%nat -> idle rcx ->
      ((skmax skipid fs <= skip_depth)%nat ->
         exists fs', tread_struct p skipid fuel (mkS (flat ss ++ r) rcx) = Ok (VStruct fs', mkS r rcx) /\
                     Forall2 (tol_rel skipid) (canonf p fs) fs') /\
      ((skip_depth < skmax skipid fs)%nat ->
         tread_struct p skipid fuel (mkS (flat ss ++ r) rcx) = Err EDepthLimit).
Proof.
  intros Hwt Hp. destruct (struct_written p k fs c Hwt Hp) as (ss & Hw & Hr).
  exists ss. split; [exact Hw|]. intros fuel r rcx Hf Hi.
  destruct (Hr r rcx Hi) as (s1 & s2 & Hb & Hloop & He & _).
  specialize (Hloop fuel fuel []).
  assert (Hl := Hloop ltac:(intros q Hq; destruct (vsize_struct_bound fs q Hq); lia)
                      ltac:(pose proof (vsize_struct_len fs); lia)).
  destruct (tfields_sim p skipid fuel _ _ _ _ _ Hl) as (new & Hnew & Hn).
  cbn [rev app] in Hnew. subst new. destruct (Hn []) as [Hn1 Hn2]. rewrite skmax_canonf in Hn1, Hn2.
  unfold tread_struct. rewrite Hb. cbn [bind]. split.
  - intros Hd. destruct (Hn1 Hd) as (fs' & Ht & HF). rewrite Ht. cbn [bind rev app]. rewrite He. cbn [bind].
    exists fs'. split; [reflexivity|exact HF].
  - intros Hd. rewrite Hn2 by exact Hd. reflexivity.
Qed.

(* ------------------------------------------------------------------ *)
(* ApplicationException::decode (Thrift/AppMsg.v) *)

(* every non-stop field header carries an id (the .expect(..) of the decoder cannot fire) *)
Lemma field_begin_some p s h s1 :
  r_field_begin p s = Ok (h, s1) -> ttype_eqb (fst h) TStop = false -> exists id, snd h = Some id.
Proof.
  intros H Hs. destruct p; cbn [r_field_begin] in H.
  1,2: binv H; destruct x; try (binv H; injection H as <- _; cbn [snd]; eauto);
       injection H as <- _; discriminate Hs.
  binv H. binv H.
  destruct x0; try (injection H as <- _; discriminate Hs);
    (destruct (negb _); [injection H as <- _; cbn [snd]; eauto | binv H; injection H as <- _; cbn [snd]; eauto]).
Qed.

Lemma read_binary_inv p f ty s m s' : read_val p f ty s = Ok (VBinary m, s') -> r_bytes p s = Ok (m, s').
Proof.
  destruct f as [|f]; [discriminate|]. rewrite read_val_S. intros H.
  destruct ty; try discriminate; repeat binv H; try discriminate H.
  injection H as <- <-. exact E.
Qed.

Lemma read_i32_inv p f ty s k s' : read_val p f ty s = Ok (VI32 k, s') -> r_i32 p s = Ok (k, s').
Proof.
  destruct f as [|f]; [discriminate|]. rewrite read_val_S. intros H.
  destruct ty; try discriminate; repeat binv H; try discriminate H.
  injection H as <- <-. exact E.
Qed.

(* the result: the LAST field 1 and the LAST field 2 win, the others leave the defaults *)
Definition as_bin (x : tval) : option (list byte) := match x with VBinary m => Some m | _ => None end.
Definition as_i32 (x : tval) : option Z := match x with VI32 k => Some k | _ => None end.
Fixpoint app_pick (fs : list (Z * tval)) (msg : list byte) (kind : Z) : list byte * Z :=
  match fs with
  | [] => (msg, kind)
  | (id, x) :: t =>
      if id =? 1 then app_pick t (match as_bin x with Some m => m | None => msg end) kind
      else if id =? 2 then app_pick t msg (match as_i32 x with Some k => k | None => kind end)
      else app_pick t msg kind
  end.

(* field 1 a string, field 2 an i32, every other field an arbitrary value within the skip budget *)
Definition app_field_ok (q : Z * tval) : Prop :=
  (fst q = 1 -> exists m, snd q = VBinary m) /\
  (fst q = 2 -> exists k, snd q = VI32 k) /\
  (fst q <> 1 -> fst q <> 2 -> (vdepth (snd q) <= skip_depth)%nat).

Lemma app_fields_sim p fuel : forall n s acc fs s',
  fields_loop p (read_val p fuel) n s acc = Ok (fs, s') ->
  exists new, fs = rev acc ++ new /\
    (Forall app_field_ok new -> forall msg kind, app_fields p fuel n msg kind s = Ok (app_pick new msg kind, s')).
Proof.
  induction n as [|n IH]; intros s acc fs s' H; [discriminate|].
  cbn [fields_loop] in H. binv H. cbn [app_fields]. rewrite E. cbn [bind].
  destruct (ttype_eqb (fst x) TStop) eqn:Es.
  - injection H as <- <-. exists []. rewrite app_nil_r. split; [reflexivity|]. intros _ msg kind. reflexivity.
  - binv H. destruct (IH _ _ _ _ H) as (new & -> & Hn).
    destruct (field_begin_some p _ _ _ E Es) as (id & Eid). rewrite Eid in *.
    exists ((id, x0) :: new). split; [cbn [rev]; rewrite <- app_assoc; reflexivity|].
    intros HF msg kind. inversion HF as [|? ? (H1 & H2 & H3) HF']; subst. cbn [fst snd] in *.
    cbn [app_pick]. destruct (Z.eqb_spec id 1) as [->|N1].
    + destruct (H1 eq_refl) as (m & ->). rewrite (read_binary_inv _ _ _ _ _ _ E0). cbn [bind as_bin]. apply Hn, HF'.
    + destruct (Z.eqb_spec id 2) as [->|N2].
      * destruct (H2 eq_refl) as (k0 & ->). rewrite (read_i32_inv _ _ _ _ _ _ E0). cbn [bind as_i32]. apply Hn, HF'.
      * destruct (skip_sim p fuel _ _ _ _ E0 skip_depth) as [Hok _]. unfold skip. rewrite Hok by (apply H3; auto).
        cbn [bind]. apply Hn, HF'.
Qed.

Lemma as_bin_canon p x : as_bin (canon p x) = as_bin x.
Proof. destruct x; try reflexivity. cbn [canon]. unfold canon1. destruct p; try reflexivity. destruct (map _ l); reflexivity. Qed.
Lemma as_i32_canon p x : as_i32 (canon p x) = as_i32 x.
Proof. destruct x; try reflexivity. cbn [canon]. unfold canon1. destruct p; try reflexivity. destruct (map _ l); reflexivity. Qed.

Lemma app_pick_canonf p fs : forall msg kind, app_pick (canonf p fs) msg kind = app_pick fs msg kind.
Proof.
  induction fs as [|[i x] t IH]; intros msg kind; [reflexivity|]. cbn [canonf map app_pick]. fold (canonf p t).
  rewrite as_bin_canon, as_i32_canon, !IH. reflexivity.
Qed.

Lemma app_field_ok_canonf p fs : Forall app_field_ok fs -> Forall app_field_ok (canonf p fs).
Proof.
  induction 1 as [|[i x] t (H1 & H2 & H3) HF IH]; [constructor|]. cbn [canonf map]. constructor; [|exact IH].
  unfold app_field_ok. cbn [fst snd] in *. repeat split.
  - intros Hi. destruct (H1 Hi) as (m & ->). eauto.
  - intros Hi. destruct (H2 Hi) as (k & ->). eauto.
  - intros N1 N2. rewrite vdepth_canon. auto.
Qed.

(* C07_app_exception_tolerant: any struct encoding written by pilota whose fields 1 (string) and 2
   (i32), where present, are well typed and whose other fields are arbitrary well-typed values -- any
   ids, any order, any number, repeated or absent 1 / 2 -- is decoded to (message, kind) with the
   defaults for absent ones; the decoder stops exactly behind the struct and hands the reader context
   back as found.  Every protocol, every buffer kind. *)
Theorem app_exception_tolerant p k fs c :
  wt (VStruct fs) = true -> w_pend c = None -> Forall app_field_ok fs ->
  exists ss, write_val p k (VStruct fs) c = Ok (ss, c) /\
    forall fuel r rcx, (vsize (VStruct fs) <= fuel)%nat -> idle rcx ->
      app_decode p fuel (mkS (flat ss ++ r) rcx) = Ok (app_pick fs app_default_msg 0, mkS r rcx).
Proof.
  intros Hwt Hp Hok. destruct (struct_written p k fs c Hwt Hp) as (ss & Hw & Hr).
  exists ss. split; [exact Hw|]. intros fuel r rcx Hf Hi.
  destruct (Hr r rcx Hi) as (s1 & s2 & Hb & Hloop & He & _).
  specialize (Hloop fuel fuel []).
  assert (Hl := Hloop ltac:(intros q Hq; destruct (vsize_struct_bound fs q Hq); lia)
                      ltac:(pose proof (vsize_struct_len fs); lia)).
  destruct (app_fields_sim p fuel _ _ _ _ _ Hl) as (new & Hnew & Hn).
  cbn [rev app] in Hnew. subst new.
  unfold app_decode. rewrite Hb. cbn [bind]. rewrite Hn by (apply app_field_ok_canonf; exact Hok).
  cbn [bind]. rewrite He. cbn [bind]. rewrite app_pick_canonf. reflexivity.
Qed.

(* non-vacuity: the exception as pilota writes it; the two fields swapped with unknown fields around
   them (a bool -- parked in the compact header --, a list of bools, a nested struct, an id above
   the i8 range); no field at all; field 1 twice *)
Example app_exception_tolerant_example :
  let msg := [x62; x6f; x6f; x6d] in
  let fs1 := [(1, VBinary msg); (2, VI32 6)] in
  let fs2 := [(7, VBool true); (2, VI32 (-3)); (9, VList TBool [VBool false; VBool true]);
              (300, VStruct [(1, VBinary [x7a])]); (1, VBinary msg); (4, VBool false)] in
  let fs3 := [(1, VBinary [x61]); (3, VI64 5); (1, VBinary msg)] in
  Forall app_field_ok fs1 /\ Forall app_field_ok fs2 /\ Forall app_field_ok fs3 /\
  app_pick fs1 app_default_msg 0 = (msg, 6) /\ app_pick fs2 app_default_msg 0 = (msg, -3) /\
  app_pick [] app_default_msg 0 = (app_default_msg, 0) /\ app_pick fs3 app_default_msg 0 = (msg, 0) /\
  forall p, Forall (fun fs => match write_val p BContig (VStruct fs) w0 with
                              | Ok (ss, _) => app_decode p 30 (mkS (flat ss ++ [xff]) r0)
                                              = Ok (app_pick fs app_default_msg 0, mkS [xff] r0)
                              | _ => False
                              end) [fs1; fs2; []; fs3].
Proof.
  cbv zeta.
  assert (D : forall q, (match fst q =? 1 with true => as_bin (snd q) <> None | false => True end) ->
                        (match fst q =? 2 with true => as_i32 (snd q) <> None | false => True end) ->
                        (vdepth (snd q) <= skip_depth)%nat -> app_field_ok q).
  { intros [i x] A B C. unfold app_field_ok. cbn [fst snd] in *. repeat split.
    - intros ->. change (1 =? 1) with true in A. cbv beta iota in A. destruct x; cbn [as_bin] in A; try congruence. eauto.
    - intros ->. change (2 =? 2) with true in B. cbv beta iota in B. destruct x; cbn [as_i32] in B; try congruence. eauto.
    - intros _ _. exact C. }
  repeat split; try reflexivity.
  1-3: repeat constructor; apply D; try (vm_compute; try congruence; exact I); vm_compute; lia.
  intros p. destruct p; repeat constructor; vm_compute; reflexivity.
Qed.
