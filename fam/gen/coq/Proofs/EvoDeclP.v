(* C08, Ok side of the specification, declaratively: when [view] yields a struct value, its fields are, per declared
   field in declaration order, the view of the LAST wire field carrying it (same id, declared wire type), else the IDL
   default, else nothing (decl_field / last_carried of EvoSpec.v, which do not use match_field / init_var / finish_fields). *)
From PVGen Require Import Gen GenSpec EvoSpec Proofs.GenBase Proofs.EncP Proofs.EvoBase Proofs.EvoErrP.
From Coq Require Import ZifyN ZifyNat ZifyBool.
Open Scope Z_scope.

Section Decl.
  Variable R : schema.
  Variable dfs : list field.
  Hypothesis Hnd : nodup_ids (map f_id dfs) = true.

  Lemma slot_fold : forall fs vars vars' i f, view_fields R dfs fs vars = Ok vars' ->
    nth_error dfs i = Some f -> (i < length vars)%nat ->
    match last_carried R f fs with
    | Some x => exists y, view R (f_ty f) x = Ok y /\ nth_error vars' i = Some (Some y)
    | None => nth_error vars' i = nth_error vars i
    end.
  Proof.
    induction fs as [|[id x] r IH]; intros vars vars' i f H Hi Hl.
    - injection H as <-. reflexivity.
    - rewrite view_fields_cons in H. cbn [last_carried].
      destruct (match_field R dfs 0 (Some id) (ttype_of x)) as [[j g]|] eqn:Em.
      + apply bind_ok_inv in H as (y0 & Hy0 & H).
        assert (Hl1 : (i < length (set_nth j (Some y0) vars))%nat) by (rewrite set_nth_length; exact Hl).
        pose proof (IH _ _ i f H Hi Hl1) as Hrec.
        destruct (last_carried R f r) as [x'|]; [exact Hrec|].
        destruct (match_field_nth _ _ _ _ _ _ _ Em) as (k0 & Hj & Hk & Hid & Ht). cbn [Nat.add] in Hj. subst k0.
        destruct (carries R f (id, x)) eqn:Hc.
        * pose proof (match_field_carrier R dfs Hnd i f (id, x) Hi Hc) as Em'. cbn [fst snd] in Em'.
          rewrite Em in Em'. injection Em' as -> ->. cbn [snd]. exists y0. split; [exact Hy0|].
          rewrite Hrec. apply set_nth_same. exact Hl.
        * rewrite Hrec. apply set_nth_other. intros ->.
          assert (g = f) by congruence. subst g.
          unfold carries in Hc. cbn [fst snd] in Hc. rewrite Ht in Hc. replace (f_id f =? id) with true in Hc by lia. discriminate.
      + pose proof (match_field_none _ _ _ _ _ Em f (nth_error_In _ _ Hi)) as Hc.
        unfold carries. cbn [fst snd]. rewrite Hc.
        pose proof (IH _ _ i f H Hi Hl) as Hrec. destruct (last_carried R f r); exact Hrec.
  Qed.
End Decl.

Lemma finish_decl (slotv : field -> option gval) : forall dfs vars out,
  finish_fields dfs vars = Ok out ->
  (forall i f, nth_error dfs i = Some f -> nth_error vars i = Some (slotv f)) ->
  out = flat_map (fun f => match slotv f with
                           | Some y => [(f_id f, y)]
                           | None => match f_dflt f with Some (_, d) => [(f_id f, d)] | None => [] end
                           end) dfs.
Proof.
  induction dfs as [|f r IH]; intros vars out H Hs; [injection H as <-; reflexivity|].
  destruct vars as [|v vt]; [discriminate|]. cbn [finish_fields] in H. apply bind_ok_inv in H as (rest & Hr & H).
  pose proof (Hs O f eq_refl) as H0. cbn [nth_error] in H0. injection H0 as ->.
  rewrite (IH vt rest Hr (fun i g Hi => Hs (Datatypes.S i) g Hi)) in H. cbn [flat_map].
  destruct (slotv f) as [y|].
  - injection H as <-. reflexivity.
  - destruct (f_dflt f) as [[b d]|]; [injection H as <-; reflexivity|].
    destruct (f_req f); [discriminate|]. injection H as <-. reflexivity.
Qed.

Lemma flat_map_ext_in {A B} (f g : A -> list B) l : (forall a, In a l -> f a = g a) -> flat_map f l = flat_map g l.
Proof.
  induction l as [|a r IH]; intros H; [reflexivity|]. cbn [flat_map]. rewrite (H a (or_introl eq_refl)), IH; auto.
  intros b Hb. apply H. right. exact Hb.
Qed.

Theorem view_declarative : forall R, wf_schema R = true -> forall t n dfs kp ia fs g,
  resolve R t = TyRef n -> lookup R n = Some (DStruct dfs kp ia) ->
  view R t (VStruct fs) = Ok g ->
  g = GStruct (flat_map (decl_field R fs) dfs) [].
Proof.
  intros R Hwf t n dfs kp ia fs g Er El Hv. rewrite view_struct, Er, El in Hv.
  destruct (wf_struct R Hwf _ _ _ _ El) as [Hnd _].
  apply bind_ok_inv in Hv as (vars' & Hvf & Hv). apply bind_ok_inv in Hv as (out & Hfin & Hv). injection Hv as <-.
  f_equal.
  set (slotv := fun f => match last_carried R f fs with
                         | Some x => match view R (f_ty f) x with Ok y => Some y | _ => None end
                         | None => init_var f
                         end).
  rewrite (finish_decl slotv dfs vars' out Hfin).
  - apply flat_map_ext_in. intros f Hin. unfold slotv, decl_field.
    destruct (In_nth_error _ _ Hin) as (i & Hi).
    assert (Hl : (i < length (map init_var dfs))%nat) by (rewrite map_length; apply nth_error_Some; congruence).
    pose proof (slot_fold R dfs Hnd fs _ _ i f Hvf Hi Hl) as Hs.
    destruct (last_carried R f fs) as [x|]; [destruct Hs as (y & -> & _); reflexivity|].
    unfold init_var. destruct (f_dflt f) as [[[|] d]|]; reflexivity.
  - intros i f Hi.
    assert (Hl : (i < length (map init_var dfs))%nat) by (rewrite map_length; apply nth_error_Some; congruence).
    pose proof (slot_fold R dfs Hnd fs _ _ i f Hvf Hi Hl) as Hs. unfold slotv.
    destruct (last_carried R f fs) as [x|].
    + destruct Hs as (y & Hy & Hn). rewrite Hy. exact Hn.
    + rewrite Hs. apply init_var_nth. exact Hi.
Qed.

(* the last carrier, in the plain terms of the property: it is a wire field with the id and the declared wire type of f,
   and no later wire field has both *)
Lemma last_carried_spec R f : forall fs x, last_carried R f fs = Some x ->
  exists a b id, fs = a ++ (id, x) :: b /\ carries R f (id, x) = true /\ existsb (carries R f) b = false.
Proof.
  induction fs as [|[i y] r IH]; intros x H; [discriminate|]. cbn [last_carried] in H.
  destruct (last_carried R f r) as [x'|] eqn:E.
  - injection H as <-. destruct (IH x' eq_refl) as (a & b & id & -> & Hc & Hb). exists ((i, y) :: a), b, id. auto.
  - destruct (carries R f (i, y)) eqn:Hc; [|discriminate]. injection H as <-. exists [], r, i. cbn [app]. repeat split; auto.
    clear -E. induction r as [|q r IH]; [reflexivity|]. cbn [last_carried] in E. cbn [existsb].
    destruct (last_carried R f r); [discriminate|]. destruct (carries R f q); [discriminate|]. cbn [orb]. apply IH. reflexivity.
Qed.

Lemma last_carried_none R f : forall fs, last_carried R f fs = None -> existsb (carries R f) fs = false.
Proof.
  induction fs as [|q r IH]; intros H; [reflexivity|]. cbn [last_carried] in H. cbn [existsb].
  destruct (last_carried R f r); [discriminate|]. destruct (carries R f q); [discriminate|]. apply IH. reflexivity.
Qed.
