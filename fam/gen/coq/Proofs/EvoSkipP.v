(* The skipper of the model (Gen.skip: read the value with the self-describing reader, discard it, apply the depth
   budget) against the runtime's recursive skipper PV.Thrift.Skip.skip (TInputProtocol::skip, property C07):
   through PV.Proofs.SkipP.skip_sim they return the same count and stop in the same state, and both refuse values
   nested deeper than MAXIMUM_SKIP_DEPTH with DepthLimit. *)
From PVGen Require Import Gen.
From PV Require Import Thrift.Skip Proofs.SkipP.
Open Scope Z_scope.

Theorem gen_skip_runtime : forall p fuel ft s n s',
  PVGen.Gen.skip p fuel ft s = Ok (n, s') -> PV.Thrift.Skip.skip p fuel ft s = Ok (n, s').
Proof.
  intros p fuel ft s n s' H. unfold PVGen.Gen.skip in H. binv H.
  destruct (Nat.leb (vdepth x) maximum_skip_depth_nat) eqn:Ed; [|discriminate]. injection H as <- <-.
  destruct (skip_sim p fuel _ _ _ _ E skip_depth) as [H1 _].
  unfold PV.Thrift.Skip.skip. rewrite H1; [reflexivity|]. apply Nat.leb_le in Ed. exact Ed.
Qed.

Theorem gen_skip_runtime_deep : forall p fuel ft s v s',
  read_val p fuel ft s = Ok (v, s') -> (skip_depth < vdepth v)%nat ->
  PVGen.Gen.skip p fuel ft s = Err EDepthLimit /\ PV.Thrift.Skip.skip p fuel ft s = Err EDepthLimit.
Proof.
  intros p fuel ft s v s' E Hd. split.
  - unfold PVGen.Gen.skip. rewrite E. cbn [bind].
    replace (Nat.leb (vdepth v) maximum_skip_depth_nat) with false; [reflexivity|].
    symmetry. apply Nat.leb_gt. exact Hd.
  - destruct (skip_sim p fuel _ _ _ _ E skip_depth) as [_ H2]. exact (H2 Hd).
Qed.
