(* C13: the re-read tree is well-typed.  wt (reenc S t v) follows from wt v, the wire type of v, evo_dom and -- for EMPTY
   containers, whose announced element type reenc replaces by the declared one -- from the declared element type having
   a wire type (empty_elems_ok). *)
From PVGen Require Import Gen GenKeep GenSpec EvoSpec KeepSpec Proofs.GenBase Proofs.EncP Proofs.EvoBase Proofs.EvoErrP
  Proofs.KeepBase Proofs.KeepViewP Proofs.KeepRetP.
From PV Require Import Proofs.TablesP Proofs.PrimP Proofs.HeaderP Proofs.RoundtripP.
From Coq Require Import ZifyN ZifyNat ZifyBool.
Open Scope Z_scope.

Section EE.
  Variable S : schema.
  Definition ee_elems (et : ty) : list tval -> bool :=
    fix go (l : list tval) : bool := match l with [] => true | x :: r => empty_elems_ok S et x && go r end.
  Definition ee_pairs (kt vt : ty) : list (tval * tval) -> bool :=
    fix go (l : list (tval * tval)) : bool :=
      match l with [] => true | (a, b) :: r => empty_elems_ok S kt a && empty_elems_ok S vt b && go r end.
  Definition ee_field (dfs : list field) (id : Z) (x : tval) : bool :=
    match match_field S dfs O (Some id) (ttype_of x) with Some (_, f) => empty_elems_ok S (f_ty f) x | None => true end.
  Definition ee_fields (dfs : list field) : list (Z * tval) -> bool :=
    fix go (fs : list (Z * tval)) : bool := match fs with [] => true | (id, x) :: r => ee_field dfs id x && go r end.
  Definition ee_variant (vs : list (Z * ty)) (id : Z) (x : tval) : bool :=
    match variant_by_id S vs id with Some vt => empty_elems_ok S vt x | None => true end.
  Definition ee_variants (vs : list (Z * ty)) : list (Z * tval) -> bool :=
    fix go (fs : list (Z * tval)) : bool := match fs with [] => true | (id, x) :: r => ee_variant vs id x && go r end.

  Lemma ee_list t a l : empty_elems_ok S t (VList a l) =
    match resolve S t with TyList et => match l with [] => ttype_ok S et | _ :: _ => true end && ee_elems et l | _ => true end.
  Proof. reflexivity. Qed.
  Lemma ee_set t a l : empty_elems_ok S t (VSet a l) =
    match resolve S t with TySet et => match l with [] => ttype_ok S et | _ :: _ => true end && ee_elems et l | _ => true end.
  Proof. reflexivity. Qed.
  Lemma ee_map t ka va l : empty_elems_ok S t (VMap ka va l) =
    match resolve S t with
    | TyMap kt vt => match l with [] => ttype_ok S kt && ttype_ok S vt | _ :: _ => true end && ee_pairs kt vt l
    | _ => true
    end.
  Proof. reflexivity. Qed.
  Lemma ee_struct t fs : empty_elems_ok S t (VStruct fs) =
    match resolve S t with
    | TyRef n =>
        match lookup S n with
        | Some (DStruct dfs _ _) => ee_fields dfs fs
        | Some (DUnion vs _ _) => ee_variants vs fs
        | _ => true
        end
    | _ => true
    end.
  Proof. reflexivity. Qed.
End EE.

Lemma wtf_app a b : wtf (a ++ b) = wtf a && wtf b.
Proof. induction a as [|[i x] r IH]; cbn [app wtf]; [reflexivity|]. rewrite IH, !andb_assoc. reflexivity. Qed.

Section Wt.
  Variable S : schema.
  Hypothesis Hwf : wf_schema S = true.

  Definition RW (v : tval) : Prop :=
    forall t, wt v = true -> ttype_of v = ttype_of_ty S t -> evo_dom S t v = true -> no_retyped_variant S t v = true ->
      empty_elems_ok S t v = true -> wt (reenc S t v) = true.

  Lemma rw_leaf v : leaf v = true -> RW v.
  Proof. intros Hl t Hwt _ _ _ _. destruct v; try discriminate Hl; exact Hwt. Qed.

  Lemma rw_elems et a l : Forall RW l ->
    (forall x, In x l -> wt x = true /\ ttype_of x = a) -> (l <> [] -> a = ttype_of_ty S et) ->
    walk_elems S skippable true et l = true -> walk_elems S (fun _ => true) false et l = true -> ee_elems S et l = true ->
    wte (ttype_of_ty S et) (reenc_elems S et l) = true /\ length (reenc_elems S et l) = length l.
  Proof.
    induction l as [|x r IH]; intros HF Hel Ha W1 W2 He; [split; reflexivity|].
    inversion HF as [|? ? Hx Hr]; subst.
    rewrite walk_elems_cons in W1, W2. apply andb_prop in W1 as [W1a W1b]. apply andb_prop in W2 as [W2a W2b].
    cbn [ee_elems] in He. apply andb_prop in He as [He1 He2].
    destruct (Hel x (or_introl eq_refl)) as [Hwx Htx]. pose proof (Ha ltac:(discriminate)) as Ea.
    destruct (IH Hr (fun y Hy => Hel y (or_intror Hy)) (fun _ => Ea) W1b W2b He2) as [Hw Hl].
    cbn [reenc_elems wte length]. rewrite reenc_ttype, Htx, Ea, Hw, Hl.
    rewrite (Hx et Hwx ltac:(rewrite Htx; exact Ea) W1a W2a He1).
    destruct (ttype_eqb_spec (ttype_of_ty S et) (ttype_of_ty S et)); [auto|congruence].
  Qed.

  Lemma rw_pairs kt vt ka va l : Forall (fun q => RW (fst q) /\ RW (snd q)) l ->
    (forall q, In q l -> wt (fst q) = true /\ ttype_of (fst q) = ka /\ wt (snd q) = true /\ ttype_of (snd q) = va) ->
    (l <> [] -> ka = ttype_of_ty S kt /\ va = ttype_of_ty S vt) ->
    walk_pairs S skippable true kt vt l = true -> walk_pairs S (fun _ => true) false kt vt l = true -> ee_pairs S kt vt l = true ->
    wtp (ttype_of_ty S kt) (ttype_of_ty S vt) (reenc_pairs S kt vt l) = true /\ length (reenc_pairs S kt vt l) = length l.
  Proof.
    induction l as [|[a b] r IH]; intros HF Hel Ha W1 W2 He; [split; reflexivity|].
    inversion HF as [|? ? [Hxa Hxb] Hr]; subst. cbn [fst snd] in *.
    rewrite walk_pairs_cons in W1, W2. apply andb_prop in W1 as [W1 W1c]. apply andb_prop in W1 as [W1a W1b].
    apply andb_prop in W2 as [W2 W2c]. apply andb_prop in W2 as [W2a W2b].
    cbn [ee_pairs] in He. apply andb_prop in He as [He He3]. apply andb_prop in He as [He1 He2].
    destruct (Hel (a, b) (or_introl eq_refl)) as (Hwa & Hta & Hwb & Htb). cbn [fst snd] in *.
    destruct (Ha ltac:(discriminate)) as [Ek Ev].
    destruct (IH Hr (fun y Hy => Hel y (or_intror Hy)) (fun _ => conj Ek Ev) W1c W2c He3) as [Hw Hl].
    cbn [reenc_pairs wtp length]. rewrite !reenc_ttype, Hta, Htb, Ek, Ev, Hw, Hl.
    rewrite (Hxa kt Hwa ltac:(rewrite Hta; exact Ek) W1a W2a He1), (Hxb vt Hwb ltac:(rewrite Htb; exact Ev) W1b W2b He2).
    destruct (ttype_eqb_spec (ttype_of_ty S kt) (ttype_of_ty S kt)); [|congruence].
    destruct (ttype_eqb_spec (ttype_of_ty S vt) (ttype_of_ty S vt)); [auto|congruence].
  Qed.

  (* the variables of the tree-level fold hold well-typed values *)
  Definition tvok (o : option tval) : Prop := match o with Some x => wt x = true | None => True end.

  Lemma finish_tv_wt dfs : (forall f, In f dfs -> field_ok S f = true) ->
    forall tvars, Forall tvok tvars -> wtf (finish_tv S dfs tvars) = true.
  Proof.
    induction dfs as [|f r IH]; intros Hok tvars HF; [reflexivity|].
    destruct tvars as [|v vt]; [reflexivity|]. inversion HF as [|? ? Hv Hvt]; subst.
    pose proof (IH (fun g Hg => Hok g (or_intror Hg)) vt Hvt) as Hr.
    destruct (field_ok_inv _ _ (Hok f (or_introl eq_refl))) as (Hid & _ & _ & Hd). apply in_sb_spec in Hid.
    cbn [finish_tv]. destruct v as [x|].
    - cbn [wtf]. cbn [tvok] in Hv. rewrite Hid, Hv, Hr. reflexivity.
    - destruct (f_dflt f) as [[b d]|]; [|exact Hr]. cbn [wtf]. rewrite Hid, (to_tval_wt S Hwf _ _ Hd), Hr. reflexivity.
  Qed.

  Lemma init_tv_ok dfs : (forall f, In f dfs -> field_ok S f = true) -> Forall tvok (map (init_tvar S) dfs).
  Proof.
    induction dfs as [|f r IH]; intros Hok; [constructor|]. cbn [map]. constructor; [|apply IH; intros g Hg; apply Hok; right; exact Hg].
    destruct (field_ok_inv _ _ (Hok f (or_introl eq_refl))) as (_ & _ & _ & Hd).
    unfold init_tvar, init_var. destruct (f_dflt f) as [[[|] d]|]; cbn [option_map tvok]; auto. apply (to_tval_wt S Hwf _ _ Hd).
  Qed.

  Lemma rw_fields dfs keep fs : Forall (fun q => RW (snd q)) fs -> wtf fs = true ->
    walk_fields S skippable true dfs fs = true -> walk_fields S (fun _ => true) false dfs fs = true -> ee_fields S dfs fs = true ->
    forall tvars U, Forall tvok tvars -> wtf U = true ->
      Forall tvok (fst (reenc_fields S dfs keep fs tvars U)) /\ wtf (snd (reenc_fields S dfs keep fs tvars U)) = true.
  Proof.
    induction fs as [|[id x] r IH]; intros HF Hwt W1 W2 He tvars U Ht HU; [cbn [reenc_fields fst snd]; auto|].
    inversion HF as [|? ? Hx Hr]; subst. cbn [snd] in Hx.
    cbn [wtf] in Hwt. apply andb_prop in Hwt as [Hwt Hwr]. apply andb_prop in Hwt as [Hid Hwx].
    rewrite walk_fields_cons in W1, W2. apply andb_prop in W1 as [W1a W1b]. apply andb_prop in W2 as [W2a W2b].
    unfold walk_field in W1a, W2a. cbn [ee_fields] in He. apply andb_prop in He as [He1 He2]. unfold ee_field in He1.
    rewrite reenc_fields_cons.
    destruct (match_field S dfs 0 (Some id) (ttype_of x)) as [[i fl]|] eqn:Em.
    - destruct (match_field_inv _ _ _ _ _ _ _ Em) as (_ & _ & Hft).
      apply IH; auto. apply set_nth_Forall; [|exact Ht]. cbn [tvok]. apply Hx; auto.
    - apply IH; auto. destruct keep; [|exact HU]. rewrite wtf_app, HU. cbn [wtf]. rewrite Hid, Hwx. reflexivity.
  Qed.

  Lemma rw_struct fs : Forall (fun q => RW (snd q)) fs -> RW (VStruct fs).
  Proof.
    intros HF t Hwt Hty Hd Hn He. rewrite wt_struct in Hwt. unfold evo_dom, no_retyped_variant in Hd, Hn.
    rewrite walk_struct in Hd, Hn. rewrite ee_struct in He. rewrite reenc_struct.
    destruct (resolve S t) eqn:Er; try (rewrite wt_struct; exact Hwt).
    destruct (lookup S n) as [[dfs kp ia|vs vok kp|?|?]|] eqn:El; try (rewrite wt_struct; exact Hwt).
    - destruct (wf_struct S Hwf _ _ _ _ El) as [_ Hok]. cbv zeta.
      destruct (rw_fields dfs kp fs HF Hwt Hd Hn He (map (init_tvar S) dfs) [] (init_tv_ok dfs Hok) eq_refl) as [H1 H2].
      rewrite wt_struct, wtf_app, (finish_tv_wt dfs Hok _ H1), H2. reflexivity.
    - destruct kp.
      + destruct fs as [|[id x] r]; [reflexivity|].
        inversion HF as [|? ? Hx _]; subst. cbn [snd] in Hx.
        cbn [wtf] in Hwt. apply andb_prop in Hwt as [Hwt _]. apply andb_prop in Hwt as [Hid Hwx].
        rewrite walk_variants_cons in Hd, Hn. apply andb_prop in Hd as [Hd1 _]. apply andb_prop in Hn as [Hn1 _].
        cbn [ee_variants] in He. apply andb_prop in He as [He1 _]. unfold ee_variant in He1.
        destruct (variant_by_id S vs id) as [vt|] eqn:Ev.
        * destruct (KeepP.variant_typed S vs id x vt Hn1 Ev) as (Hft & _ & _).
          rewrite wt_struct. cbn [wtf]. rewrite Hid. rewrite (Hx vt Hwx Hft (KeepP.variant_walk S _ _ vs id x vt Hd1 Ev Hft) (variant_walk2 S vs id x vt Hn1 Ev) He1).
          reflexivity.
        * rewrite wt_struct. cbn [wtf]. rewrite Hid, Hwx. reflexivity.
      + rewrite wt_struct. clear El Er.
        induction fs as [|[id x] r IHr]; [reflexivity|]. inversion HF as [|? ? Hx Hr]; subst. cbn [snd] in Hx.
        cbn [wtf] in Hwt. apply andb_prop in Hwt as [Hwt Hwr]. apply andb_prop in Hwt as [Hid Hwx].
        rewrite walk_variants_cons in Hd, Hn. apply andb_prop in Hd as [Hd1 Hd2]. apply andb_prop in Hn as [Hn1 Hn2].
        cbn [ee_variants] in He. apply andb_prop in He as [He1 He2]. unfold ee_variant in He1.
        cbn [reenc_variants]. destruct (variant_by_id S vs id) as [vt|] eqn:Ev; [|apply IHr; auto].
        destruct (KeepP.variant_typed S vs id x vt Hn1 Ev) as (Hft & _ & _).
        cbn [wtf]. rewrite Hid. rewrite (Hx vt Hwx Hft (KeepP.variant_walk S _ _ vs id x vt Hd1 Ev Hft) (variant_walk2 S vs id x vt Hn1 Ev) He1).
        reflexivity.
  Qed.

  Lemma nonempty_agree {A} (l : list A) a b : nonempty_is l (ttype_eqb a b) = true -> l <> [] -> a = b.
  Proof. destruct l; [congruence|]. cbn [nonempty_is]. intros H _. destruct (ttype_eqb_spec a b); [auto|discriminate]. Qed.

  Lemma rw_coll (isl : bool) a l : Forall RW l -> RW (if isl then VList a l else VSet a l).
  Proof.
    intros HF t Hwt Hty Hd Hn He. unfold evo_dom, no_retyped_variant in Hd, Hn.
    assert (Hwt' : wt (VList a l) = true) by (destruct isl; exact Hwt).
    destruct (wt_list_inv a l Hwt') as (Het & Hlen & Hel).
    destruct isl; symmetry in Hty; cbn [ttype_of] in Hty.
    - rewrite walk_list in Hd, Hn. rewrite ee_list in He. rewrite reenc_list. tycases Hty.
      apply andb_prop in Hd as [Ha Hd]. apply andb_prop in Hn as [_ Hn]. apply andb_prop in He as [Hemp He].
      destruct (rw_elems et a l HF Hel (nonempty_agree l _ _ Ha) Hd Hn He) as [Hw Hl].
      rewrite wt_list, Hl, Hlen, Hw. destruct l as [|x r].
      + unfold ttype_ok in Hemp. rewrite Hemp. reflexivity.
      + rewrite <- (nonempty_agree _ _ _ Ha ltac:(discriminate)), Het. reflexivity.
    - rewrite walk_set in Hd, Hn. rewrite ee_set in He. rewrite reenc_set. tycases Hty.
      apply andb_prop in Hd as [Ha Hd]. apply andb_prop in Hn as [_ Hn]. apply andb_prop in He as [Hemp He].
      destruct (rw_elems et a l HF Hel (nonempty_agree l _ _ Ha) Hd Hn He) as [Hw Hl].
      rewrite wt_set, wt_list, Hl, Hlen, Hw. destruct l as [|x r].
      + unfold ttype_ok in Hemp. rewrite Hemp. reflexivity.
      + rewrite <- (nonempty_agree _ _ _ Ha ltac:(discriminate)), Het. reflexivity.
  Qed.

  Lemma rw_map ka va l : Forall (fun q => RW (fst q) /\ RW (snd q)) l -> RW (VMap ka va l).
  Proof.
    intros HF t Hwt Hty Hd Hn He. unfold evo_dom, no_retyped_variant in Hd, Hn.
    destruct (wt_map_inv ka va l Hwt) as (Hk & Hv & Hlen & Hel).
    symmetry in Hty. cbn [ttype_of] in Hty. rewrite walk_map in Hd, Hn. rewrite ee_map in He. rewrite reenc_map. tycases Hty.
    apply andb_prop in Hd as [Ha Hd]. apply andb_prop in Hn as [_ Hn]. apply andb_prop in He as [Hemp He].
    assert (Hab : l <> [] -> ka = ttype_of_ty S kt /\ va = ttype_of_ty S vt).
    { intros Hne. destruct l; [congruence|]. cbn [nonempty_is] in Ha. apply andb_prop in Ha as [A1 A2].
      destruct (ttype_eqb_spec ka (ttype_of_ty S kt)); [|discriminate A1].
      destruct (ttype_eqb_spec va (ttype_of_ty S vt)); [auto|discriminate A2]. }
    destruct (rw_pairs kt vt ka va l HF Hel Hab Hd Hn He) as [Hw Hl].
    rewrite wt_map, Hl, Hlen, Hw. destruct l as [|x r].
    - apply andb_prop in Hemp as [E1 E2]. unfold ttype_ok in E1, E2. rewrite E1, E2. reflexivity.
    - destruct (Hab ltac:(discriminate)) as [<- <-]. rewrite Hk, Hv. reflexivity.
  Qed.

  Theorem reenc_wt_all v : RW v.
  Proof.
    induction v using tval_ind'; try (apply rw_leaf; reflexivity).
    - apply rw_struct; assumption.
    - apply (rw_coll true); assumption.
    - apply (rw_coll false); assumption.
    - apply rw_map; assumption.
  Qed.
End Wt.

Theorem reenc_wt : forall S v t, wf_schema S = true ->
  wt v = true -> ttype_of v = ttype_of_ty S t -> evo_dom S t v = true -> no_retyped_variant S t v = true ->
  empty_elems_ok S t v = true -> wt (reenc S t v) = true.
Proof. intros S v t Hwf. exact (reenc_wt_all S Hwf v t). Qed.
