(* Names.v -- executable model of pilota-build's naming decisions (C14).

   Modelled code (read line by line at the pinned tree):
     pilota-build/src/symbol.rs   impl Display for Symbol, Symbol::is_path_segment_keyword, KEYWORDS_SET
     pilota-build/src/middle/context.rs  ContextBuilder::build (the `names` collision map, lines 351-383)
                                         Context::rust_name (lines 845-887)
   KEYWORDS_SET and the path-segment list are REGENERATED (Generated/Keywords.v).
   Case conversion (heck's to_snake_case / to_upper_camel_case / to_shouty_snake_case, pilota's own
   to_snake_case for the "special namings") is NOT modelled: it is the Section variable [conv]
   (kind-indexed, because the conversion applied depends on the kind of node).  No proofs here. *)
From Coq Require Import String List Bool Arith Ascii.
From PVBld Require Import Generated.Keywords.
Import ListNotations.
Open Scope string_scope.

Definition mem (s : string) (l : list string) : bool := existsb (String.eqb s) l.

(* ---- impl Display for Symbol ------------------------------------------------------------
     if self.is_path_segment_keyword() { return write!(f, "{}_", &**self); }
     if KEYWORDS_SET.contains(self) { write!(f, "r#{}", &**self) } else { write!(f, "{}", &**self) } *)
Definition is_path_segment_keyword (s : string) : bool := mem s path_segment_keywords.

Definition display (s : string) : string :=
  if is_path_segment_keyword s then s ++ "_"
  else if mem s keywords_set then "r#" ++ s
  else s.

(* ---- the Rust side (hand-written from the Rust reference, edition 2024) ------------------
   strict keywords (incl. 2018+: async await dyn) and reserved keywords (incl. 2018+: try, 2024+: gen).
   Weak keywords (macro_rules, union, 'static, safe, raw) are usable as identifiers and are not listed. *)
Definition rust_strict_keywords : list string :=
  ["as"; "break"; "const"; "continue"; "crate"; "else"; "enum"; "extern"; "false"; "fn"; "for"; "if";
   "impl"; "in"; "let"; "loop"; "match"; "mod"; "move"; "mut"; "pub"; "ref"; "return"; "self"; "Self";
   "static"; "struct"; "super"; "trait"; "true"; "type"; "unsafe"; "use"; "where"; "while";
   "async"; "await"; "dyn"].
Definition rust_reserved_keywords : list string :=
  ["abstract"; "become"; "box"; "do"; "final"; "macro"; "override"; "priv"; "typeof"; "unsized";
   "virtual"; "yield"; "try"; "gen"].
Definition rust_keywords : list string := rust_strict_keywords ++ rust_reserved_keywords.
(* `r#` cannot be applied to these (Rust reference, "Raw identifiers"); `_` is not an identifier at all *)
Definition raw_forbidden : list string := ["crate"; "self"; "super"; "Self"].

Definition is_ident_char (c : ascii) : bool :=
  let n := nat_of_ascii c in
  (((65 <=? n) && (n <=? 90)) || ((97 <=? n) && (n <=? 122)) || ((48 <=? n) && (n <=? 57)) || (n =? 95))%nat.

Fixpoint all_chars (p : ascii -> bool) (s : string) : bool :=
  match s with EmptyString => true | String c r => p c && all_chars p r end.

(* a Rust identifier (ASCII): [A-Za-z_][A-Za-z0-9_]*, and not the lone underscore, which Rust reserves (C14_underscore_refuted);
   a name that starts with a digit is not one (C14_digit_head_refuted, finding F-14p) *)
(* first character: a letter or the underscore (XID_Start restricted to ASCII, plus `_`) -- a digit cannot start an identifier *)
Definition is_ident_head (c : ascii) : bool :=
  let n := nat_of_ascii c in
  (((65 <=? n) && (n <=? 90)) || ((97 <=? n) && (n <=? 122)) || (n =? 95))%nat.
Definition head_ok (s : string) : bool := match s with EmptyString => false | String c _ => is_ident_head c end.

Definition plain_ident (s : string) : bool :=
  all_chars is_ident_char s && negb (s =? "") && negb (s =? "_") && head_ok s.

Definition strip_raw (t : string) : option string :=
  match t with
  | String "r" (String "#" k) => Some k
  | _ => None
  end.

(* lexical legality of a token in identifier position, edition 2024 *)
Definition ident_token_ok (t : string) : bool :=
  match strip_raw t with
  | Some k => plain_ident k && negb (mem k raw_forbidden)
  | None => plain_ident t && negb (mem t rust_keywords)
  end.

(* ---- collision rule ------------------------------------------------------------------------ *)
Inductive kind := KStruct | KEnum | KService | KNewType | KConst | KMod | KVariant | KConstVariant | KField | KMethod | KArg.

Definition kind_eqb (a b : kind) : bool :=
  match a, b with
  | KStruct, KStruct | KEnum, KEnum | KService, KService | KNewType, KNewType | KConst, KConst | KMod, KMod
  | KVariant, KVariant | KConstVariant, KConstVariant | KField, KField | KMethod, KMethod | KArg, KArg => true
  | _, _ => false
  end.

(* a node of one naming scope: siblings are the nodes that ContextBuilder::build files under the same
   (parent chain, name) map -- the items of one module, the fields of one message, the variants of one
   enum, the methods of one service, the arguments of one method *)
Record sib := mkSib { s_kind : kind; s_orig : string; s_tag : option string (* pilota.name *) }.

Fixpoint count_str (x : string) (l : list string) : nat :=
  match l with [] => 0 | y :: r => (if x =? y then 1 else 0) + count_str x r end.

Definition is_item_kind (k : kind) : bool :=
  match k with KStruct | KEnum | KService | KNewType | KConst | KMod => true | _ => false end.

Definition is_const_kind (k : kind) : bool := match k with KConst => true | _ => false end.

Section Conv.
  Variable conv : kind -> string -> string.

  (* Context::rust_name while `names` is still empty (that is how build() computes the map keys) *)
  Definition name0 (cc : bool) (x : sib) : string :=
    match s_tag x with
    | Some t => t
    | None => if cc then conv (s_kind x) (s_orig x) else s_orig x
    end.

  (* the map key inside one scope (context.rs 351-375):
       items:      (vec![], cx.item_path(def_id).join("::")) -- `[Symbol]::join` is the std slice join over
                   Borrow<str>, i.e. the RAW names, not Display; the module prefix is common to the siblings of
                   one module, so inside a scope the key is the raw last segment
       non-items:  (chain of parents, cx.rust_name(def_id).to_string()) -- through Display *)
  Definition key (cc : bool) (x : sib) : string :=
    if is_item_kind (s_kind x) then name0 cc x else display (name0 cc x).

  (* map.into_iter().filter(|(_, v)| v.len() > 1): the node ends up in cx.names *)
  Definition collides (cc : bool) (scope : list sib) (x : sib) : bool :=
    (1 <? count_str (key cc x) (map (key cc) scope))%nat.

  (* Context::rust_name with the finished `names` *)
  Definition rust_name (cc : bool) (scope : list sib) (x : sib) : string :=
    match s_tag x with
    | Some t => t
    | None => if negb cc || collides cc scope x then s_orig x else conv (s_kind x) (s_orig x)
    end.

  (* what is pasted into the emitted text: everything formats the Symbol through Display -- since fix F-14n also
     Codegen::write_const (codegen/mod.rs: `self.def_lit(&name.to_string(), ..)`) *)
  Definition emitted (cc : bool) (scope : list sib) (x : sib) : string :=
    display (rust_name cc scope x).
End Conv.

(* ---- ASCII lower case (str::to_ascii_lowercase) ------------------------------------------------ *)
Definition lower_ascii (c : ascii) : ascii :=
  let n := nat_of_ascii c in if ((65 <=? n) && (n <=? 90))%nat then ascii_of_nat (n + 32) else c.
Fixpoint lower (s : string) : string :=
  match s with EmptyString => EmptyString | String c r => String (lower_ascii c) (lower r) end.

(* ---- side condition of the escape stage ----------------------------------------------------- *)
Fixpoint has_hash (s : string) : bool :=
  match s with EmptyString => false | String c r => (nat_of_ascii c =? 35)%nat || has_hash r end.

(* decidable: no name carries '#', and no path-segment keyword k sits beside k_ *)
Definition escape_ok (names : list string) : bool :=
  forallb (fun a => negb (has_hash a) && (negb (is_path_segment_keyword a) || negb (mem (a ++ "_") names))) names.
