"""gen family -- the common skeleton of a check: build, proof gate, cases, driver run, oracle, model
correspondence, reporting (pattern of pv/props/c01.py)."""
import os, random
from . import core, genrun, genbuild

FAM = genrun.FAM


def have_property_file(prop):
    return os.path.exists(os.path.join(FAM.coq, 'Properties', prop + '.v'))


def have_runner_sources():
    return os.path.exists(os.path.join(FAM.runner_dir, 'build.sh')) and os.path.exists(os.path.join(FAM.coq, 'Extract', 'Extract.v'))


def BASE_TARGETS_now():
    """the base-library modules the family's sources import (scanned, so a new import cannot be forgotten)"""
    return core.base_targets(FAM)


BASE_TARGETS = []      # extra targets a check may append (kept for pv/props/c08.py)


def coq_make_gen(targets, timeout=1500):
    """builds the .vo files of the base library this family imports (not the whole main development, which
    belongs to other properties), then the family targets"""
    with core.Lock('coq_main'):
        if not os.path.exists(os.path.join(core.COQ, 'Makefile')):
            core.sh(['coq_makefile', '-f', '_CoqProject', '-o', 'Makefile'], cwd=core.COQ)
        rc, out = core.sh(['timeout', str(timeout), 'make', '-j8'] + sorted(set(BASE_TARGETS_now() + BASE_TARGETS)), cwd=core.COQ, timeout=timeout + 30)
    if rc != 0:
        return False, out
    with core.Lock('coq_gen'):
        mk = os.path.join(FAM.coq, 'Makefile')
        if not os.path.exists(mk) or os.path.getmtime(os.path.join(FAM.coq, '_CoqProject')) > os.path.getmtime(mk):
            core.sh(['coq_makefile', '-f', '_CoqProject', '-o', 'Makefile'], cwd=FAM.coq)
        rc, out = core.sh(['timeout', str(timeout), 'make', '-j8'] + targets, cwd=FAM.coq, timeout=timeout + 30)
    return rc == 0, out


def proof_gate_gen(prop):
    """core.proof_gate for this family, with the targeted base build"""
    import re
    res = dict(ok=False, obligations=0, discharged=0, theorems=[], axioms=[], failed=None, log='')
    core.GATED.append((FAM, prop))
    vfile = os.path.join(FAM.coq, 'Properties', prop + '.v')
    src = open(vfile, encoding='utf-8').read()
    thms = re.findall(r'^(?:Theorem|Corollary)\s+(\w+)', src, flags=re.M)
    res['theorems'] = thms
    res['obligations'] = len(thms)
    ok, log = coq_make_gen(['Properties/%s.vo' % prop])
    res['log'] = log[-6000:]
    if not ok:
        m = re.findall(r'File "\./([^"]+)", line (\d+)', log)
        res['failed'] = ('%s:%s' % m[-1]) if m else 'make failed'
        em = re.search(r'Error:(.*?)(?:\n\n|\Z)', log, flags=re.S)
        res['error'] = (em.group(1).strip()[:600] if em else log[-600:])
        return res
    gdir = os.path.join(core.CACHE, 'gate')
    os.makedirs(gdir, exist_ok=True)
    gfile = os.path.join(gdir, 'gen_' + prop + '.v')
    open(gfile, 'w').write(core.gate_source(src))
    with core.Lock('coq_gen'):
        rc, out = core.sh(['timeout', '600', 'coqc', '-Q', core.COQ, 'PV', '-Q', FAM.coq, 'PVGen', '-w', '-notation-overridden', gfile],
                          cwd=gdir, timeout=630)
    if rc != 0:
        res['failed'] = 'Properties/%s.v' % prop
        res['error'] = out[-600:]
        return res
    return core.gate_verdict(src, thms, out, FAM, res)


def build_runner_gen():
    with core.Lock('runner_gen'):
        ok, log = coq_make_gen(['Extract/Extract.vo'])
        if not ok:
            return False, log
        ml = os.path.join(FAM.coq, 'model.ml')
        srcs = [ml] + [os.path.join(FAM.runner_dir, f) for f in os.listdir(FAM.runner_dir) if f.endswith('.ml')]
        srcs.append(os.path.join(core.ROOT, 'model_runner', 'util.ml'))
        if (not os.path.exists(FAM.runner)) or any(os.path.getmtime(x) > os.path.getmtime(FAM.runner) for x in srcs):
            rc, out = core.sh(['sh', os.path.join(FAM.runner_dir, 'build.sh')], timeout=900)
            if rc != 0:
                return False, out
    return True, ''


def gate_and_runner(chk, prop):
    """translator + proof gate + model runner.  Returns (gate or None, runner path or None)"""
    gate, runner = None, None
    if have_property_file(prop):
        ok, out = core.regen(FAM)
        if not ok:
            chk.violation('translator failed: ' + out.strip()[-400:], dict(kind='translator', output=out[-2000:]), no_input=True)
        gate = proof_gate_gen(prop)
        chk.cov['obligations'] = gate['obligations']
        chk.cov['discharged'] = gate['discharged']
        chk.cov['theorems'] = gate['theorems']
        chk.cov['axioms'] = gate['axioms']
        chk.cov['checker_cmd'] = ('make -C fam/gen/coq Properties/%s.vo && coqc -Q coq PV -Q fam/gen/coq PVGen Properties/%s.v '
                                  '(Print Assumptions allowlist, forbidden-vernacular grep)' % (prop, prop))
        chk.cov['trusted_base'] = list(core.TRUSTED_BASE) + [
            'tools/extract_gen.py (regenerates the ty -> TType table of codegen/thrift/ty.rs and the emission-template inventory)',
            'hand-written Gallina model of the emission templates (fam/gen/coq/Gen.v), tied to the emitted code by the correspondence run']
    else:
        chk.cov['checker_cmd'] = 'none yet: no fam/gen/coq/Properties/%s.v (validation only)' % prop
    if have_runner_sources():
        ok, out = core.regen(FAM) if gate is None else (True, '')
        ok, log = build_runner_gen()
        if ok and os.path.exists(FAM.runner):
            runner = FAM.runner
        elif gate is not None and gate['ok']:
            gate['ok'] = False
            gate['failed'] = 'model extraction/runner build failed'
            gate['error'] = log[-800:]
    return gate, runner


# Known-finding classes of this family for which the extracted model CARRIES the defect (the theorem that refutes the
# property is a statement about that model): F-13a GenKeep's `is_arg` clause (C13_is_arg_refuted), F-08a the union
# template matches on the id only (C08_union_retyped_refuted), F-04a gen_size of a typedef'd bool under compact
# (C04_gen_size_typedef_bool), F-12a GenKeep (sync) vs GenAsync (async: the plain template).  A failing case is attributed
# to such a class only if, on that very input (and on the companion lines the oracle related it to), the code's
# observable outcome -- value, bytes left, size(), bytes written; outcome kind for `mem` lines -- EQUALS the model's.  Any
# other deviation from the property on a type of the class is a violation of its own, with that case as replay.
# (F-19a list-decode-leak is decided per input by the ownership model inside pv/props/c19.py.)
MODELLED_CLASSES = {'keep-is-arg-swallow': 'F-13a', 'union-variant-retyped': 'F-08a', 'typedef-bool-size-compact': 'F-04a',
                    'keep-async-no-retention': 'F-12a', 'async-container-prealloc': 'F-09e'}

F09E_CACHE = {}


def _f09e_lines(case):
    """(sync `dec` line, async `alloc` line, input length) answering whether THIS input makes the async decoder preallocate from an
    oversized container count; None when the case line has no such reading"""
    parts = case['line'].split(' ')
    if len(parts) < 6 or parts[0] not in ('mem', 'dec', 'msg'):
        return None
    cfg, ty, proto, mode, hx = parts[1:6]
    if ty.startswith('@') or not str(mode).startswith('async') or proto not in ('binary', 'compact', 'binary_le'):
        return None
    if parts[0] == 'msg':
        # the body behind the envelope: <hex> <name offset> <name length>; binary: the sequence id (4 bytes) follows the name
        try:
            off, ln = int(parts[6]), int(parts[7])
        except (IndexError, ValueError):
            return None
        start = off + ln + (4 if proto != 'compact' else 0)
        if 2 * start > len(hx):
            return None            # cut inside the envelope: no body decoder runs
        hx = hx[2 * start:]
    hx = hx or '-'
    return ('alloc %s %s %s sync %s' % (cfg, ty, proto, hx), 'alloc %s %s %s %s %s' % (cfg, ty, proto, mode, hx), len(hx) // 2 if hx != '-' else 0)


def f09e_decide(chk, gb, cands):
    """F-09e decided ON THE INPUT.  cands: async cases whose decoder crashed / panicked / hung / requested memory out of proportion.
    -> [bool]: True only if the allocation models (GenAlloc, runner op `alloc`) show the defect on these very bytes: the ASYNC model,
    which charges Vec / hash-table preallocation from the announced count exactly as the async templates do, requests more than
    4 KiB + 512 bytes per input byte AND the SYNC model on the same bytes either stops at a container header with size_limit /
    negative_size (the sync readers bound every count by the bytes that remain: the count on the common path is oversized) or requests
    at most an eighth of it (where the async readers, which validate less, walk on to a later oversized count; without one the two
    models differ by the frame constants only, a factor of at most 4).  Every other async crash -- truncations included -- is
    not the known finding.  Counted in coverage.known_finding_attribution_F09e (confirmed / refused / skipped)."""
    stats = chk.cov.setdefault('known_finding_attribution_F09e', dict(
        rule='an async crash / panic / hang / memory excess counts as F-09e only if, on that input, the async allocation model requests more '
             'than 4096 + 512 * |input| bytes and the sync model (counts bounded by the remaining bytes) either refuses a container count '
             '(size_limit / negative_size) or requests at most an eighth of that for the same bytes; truncations without an oversized count are never excused',
        confirmed=0, refused=0, skipped=0, refused_examples=[], skipped_examples=[]))
    runner = FAM.runner if os.path.exists(FAM.runner) else None
    todo, keys = [], []
    for c in cands:
        ls = _f09e_lines(c)
        keys.append(None if ls is None else ls[1])
        if ls is not None and ls[1] not in F09E_CACHE and runner is not None and ls[1] not in [t[1] for t in todo]:
            todo.append(ls)
    if todo:
        outs = core.run_lines(runner, [x for t in todo for x in (t[0], t[1])], args=[os.path.join(gb.out_dir, 'schema.txt')])
        import re
        for k, t in enumerate(todo):
            so, ao = outs[2 * k] or '', outs[2 * k + 1] or ''
            ms, m = re.search(r' ALLOC (-?\d+)', so), re.search(r' ALLOC (-?\d+)', ao)
            oversized = so.startswith('err size_limit') or so.startswith('err negative_size')     # the sync reader refused a count
            F09E_CACHE[t[1]] = ms is not None and m is not None and int(m.group(1)) > 4096 + 512 * t[2] \
                and (oversized or int(m.group(1)) >= 8 * max(int(ms.group(1)), 1))
            F09E_CACHE[t[1] + '#why'] = 'sync allocation model: %s; async allocation model: %s' % (so[:50], ao[:60])
    res = []
    for c, k in zip(cands, keys):
        if k is None or k not in F09E_CACHE:
            if not c.get('_f09e_counted'):
                stats['skipped'] += 1
                if len(stats['skipped_examples']) < 10:
                    stats['skipped_examples'].append(c['line'][:200])
            res.append(False)
        else:
            ok = F09E_CACHE[k]
            if not c.get('_f09e_counted'):
                stats['confirmed' if ok else 'refused'] += 1
                if not ok and len(stats['refused_examples']) < 10:
                    stats['refused_examples'].append(dict(case=c['line'][:200], models=F09E_CACHE.get(k + '#why')))
            res.append(ok)
        c['_f09e_counted'] = True
    return res


def _model_line(line):
    """the runner line that answers a driver line: `mem` (outcome + allocator figures) is answered by `dec`"""
    if line.startswith('msg '):
        return 'ownmsg ' + ' '.join(line.split(' ')[1:6])      # message level: Own.own_message (outcome, stage, leak)
    return 'dec' + line[3:] if line.startswith('mem ') else line


def _agrees(gb, case, impl_line, model_line, own_line=None, chk=None):
    """None if the code's outcome on this line is the model's, else the difference.  `mem` lines: outcome kind, and -- where the
    ownership model answered (own_line: runner op `own`) -- the leak class: bytes that stay live although the model predicts no
    undropped value are a difference"""
    import re
    from . import gencorr
    if case['line'].startswith('msg '):
        m = re.match(r'^(ok|err|panic|hang) STAGE ', impl_line or '')
        ik = m.group(1) if m else 'crash'
        mk = (model_line or '').split(' ')[0]
        if ik == mk or (case.get('proto') == 'unchecked' and ik == 'crash' and mk in ('err', 'panic')):
            return None
        return 'outcome: implementation %s, model %s' % ((impl_line or '')[:40], (model_line or '')[:40])
    if case['line'].startswith('mem '):
        m = re.match(r'^(ok|err|panic|hang) LIVE (-?\d+) PEAK (\d+) REFS (\d+)', impl_line or '')
        ik = m.group(1) if m else 'crash'
        mk = gencorr._split_model(model_line or '')['kind']
        if not (ik == mk or (case.get('proto') == 'unchecked' and ik == 'crash' and mk in ('err', 'panic')) or _async_prealloc(gb, case, ik, mk, chk)):
            return 'outcome: implementation %s, model %s' % ((impl_line or '')[:40], (model_line or '')[:40])
        om = re.match(r'^(ok|err|panic)(?: \w+)? LEAK (\d+) HEAP (\d+)', own_line or '')
        if m and om and ik == 'err' and (int(m.group(2)) != 0 or int(m.group(4)) != 0) and int(om.group(2)) == 0:
            return 'leak class: implementation %s, ownership model %s' % ((impl_line or '')[:60], (own_line or '')[:40])
        return None
    d = gencorr.compare(gb, case, impl_line, model_line)
    if d and _async_prealloc(gb, case, genrun.Res(impl_line).kind, gencorr._split_model(model_line or '')['kind'], chk):
        return None
    return d


def _async_prealloc(gb, case, ik, mk, chk=None):
    """F-09e (property C09): the emitted ASYNC container decoders hand the wire count to with_capacity before reading an
    element; where the model (which has no allocator) runs dry and reports an error, the code aborts / panics with capacity
    overflow / is busy allocating.  An outcome of the known defect's model `err` with such an implementation outcome, on an
    async line of a type with containers, is that interaction and not a third behaviour (same convention as C12g and C19)."""
    from . import genextra
    if not (str(case.get('mode', '')).startswith('async') and mk == 'err' and ik in ('crash', 'panic', 'hang')
            and genextra.has_container(gb.schema, case['type'])):
        return False
    if chk is None:
        return False           # no way to look at the input: not excused
    return f09e_decide(chk, gb, [case])[0]


def confirm_known(chk, gb, runner, failing, cases, outs, model_by_line):
    """failing: [(case, why, cls, out)] -> the same list, with cls dropped (None) wherever the model of the known defect
    does not predict the code's outcome on the case (or on one of its companion lines)"""
    stats = chk.cov.setdefault('known_finding_attribution', dict(
        rule='a failing case counts as a known finding of a modelled class only if the extracted model (which carries the defect) '
             'predicts the code\'s outcome on that input exactly; otherwise it is reported as a violation with that case',
        confirmed=0, refused=0, not_confirmable=0))
    todo = [(c, cls) for c, _w, cls, _o in failing if cls in MODELLED_CLASSES]
    if not todo:
        return failing
    if runner is None:
        # no extracted model to ask: nothing can be confirmed -- the class is dropped, the cases are reported
        stats['not_confirmable'] += len(todo)
        stats.setdefault('not_confirmable_examples', []).extend(c['line'][:200] for c, _ in todo[:10])
        return [(c, why + ' [class %s not confirmable: no model runner]' % cls if cls in MODELLED_CLASSES else why,
                 None if cls in MODELLED_CLASSES else cls, o) for c, why, cls, o in failing]
    out_by_line = {c['line']: o for c, o in zip(cases, outs)}
    group = lambda c: [c] + [x for x in c.get('companions', []) if x.get('line')]
    need = []
    for c, _cls in todo:
        for cc in group(c):
            if cc['line'] not in model_by_line and cc['line'] not in need and cc['line'].split(' ')[0] in ('dec', 'renc', 'mem', 'dflt', 'msg'):
                need.append(cc['line'])
    own_by_line = {}
    if need:
        extra = core.run_lines(runner, [_model_line(l) for l in need], args=[os.path.join(gb.out_dir, 'schema.txt')])
        model_by_line = dict(model_by_line)
        model_by_line.update(zip(need, extra))
    mem_lines = sorted(set(cc['line'] for c, _cls in todo for cc in group(c) if cc['line'].startswith('mem ')))
    if mem_lines:
        # the leak class of `mem` lines: the ownership model's prediction (runner op `own`)
        own_by_line = dict(zip(mem_lines, core.run_lines(runner, ['own' + l[3:] for l in mem_lines], args=[os.path.join(gb.out_dir, 'schema.txt')])))
    res = []
    for c, why, cls, o in failing:
        if cls not in MODELLED_CLASSES:
            res.append((c, why, cls, o))
            continue
        if cls == 'union-variant-retyped' and c.get('proto') == 'unchecked':
            # the unchecked reader reads out of bounds there (undefined behaviour; the debug build's precondition checks abort):
            # no model of that outcome exists, the class stays decided on the case (hits of the edit script)
            stats['not_confirmable'] += 1
            res.append((c, why, cls, o))
            continue
        if cls == 'async-container-prealloc':
            # F-09e is decided on the input (f09e_decide): the models must show the oversized container count on these bytes
            if f09e_decide(chk, gb, [c])[0]:
                stats['confirmed'] += 1
                res.append((c, why, cls, o))
            else:
                stats['refused'] += 1
                res.append((dict(c, not_the_known_finding=dict(cls=cls, finding='F-09e', models=F09E_CACHE.get((_f09e_lines(c) or ('', ''))[1] + '#why'))),
                            '%s [on an async case of a type with containers, but NOT F-09e: the async allocation model does not request an oversized '
                            'preallocation for these bytes (%s)]' % (why, F09E_CACHE.get((_f09e_lines(c) or ('', ''))[1] + '#why')), None, o))
            continue
        diff, answered = None, 0
        for cc in group(c):
            if cc['line'] not in model_by_line or model_by_line[cc['line']] is None:
                continue
            impl = out_by_line.get(cc['line'], o if cc is c else None)
            if impl is None:
                continue
            answered += 1
            d = _agrees(gb, cc, impl, model_by_line[cc['line']], own_by_line.get(cc['line']), chk)
            if d:
                diff = (cc, d, impl, model_by_line[cc['line']])
                break
        if diff is None and answered == 0:
            # no line of the case has a model answer: nothing confirms that this is the known defect
            stats['not_confirmable'] += 1
            stats.setdefault('not_confirmable_examples', [])
            if len(stats['not_confirmable_examples']) < 10:
                stats['not_confirmable_examples'].append(c['line'][:200])
            res.append((c, '%s [class %s (%s) not confirmable: the model gave no answer for this case]' % (why, cls, MODELLED_CLASSES[cls]), None, o))
        elif diff is None:
            stats['confirmed'] += 1
            res.append((c, why, cls, o))
        else:
            cc, d, impl, m = diff
            stats['refused'] += 1
            c2 = dict(c, not_the_known_finding=dict(cls=cls, finding=MODELLED_CLASSES[cls], line=cc['line'][:400], difference=d,
                                                    impl_output=(impl or '')[:600], model_of_defect_output=(m or '')[:600]))
            res.append((c2, '%s [on a type of the known-finding class %s (%s), but NOT that finding: the model of the known defect predicts `%s` '
                            'for this input, the code gives `%s` (%s)]' % (why, cls, MODELLED_CLASSES[cls], (m or '')[:80], (impl or '')[:80], d), None, o))
    return res


def run_check(chk, replay, prop, gen_cases, evaluate, rule, model_ops=('dec', 'renc', 'dflt'), configs=None,
              model_norm=None, extra_dist=None, post=None):
    """gen_cases(gb, rng, tier) -> [case dict with 'line', ...]; evaluate(gb, case, out_line) -> [(reason, cls)]"""
    gb = genrun.setup(chk, configs=configs, defer=True)
    # the emitted code of this run, lowered to ops (fam/gen/coq/Generated/EmittedOps.v): part of the family's Coq project
    from . import genops
    for attempt in range(4):
        ok_ops, msg_ops, st_ops = genops.regen(gb)
        gate, runner = gate_and_runner(chk, prop)
        # the generated table is one file of the family's Coq project, shared by every check process on this machine (also by
        # runs against a scratch copy of the repository): if another process replaced it between the lowering and the end of
        # the proof gate, the gate was not about THIS run's emitted code -- lower and check again
        if prop not in genops.PROPS or not ok_ops or genops.current_digest() == st_ops.get('digest'):
            break
    chk.cov['emitted_ops'] = dict(ok=ok_ops, message=msg_ops[:300], stats=st_ops, gate_attempts=attempt + 1)
    if prop in genops.PROPS and ok_ops and genops.current_digest() != st_ops.get('digest'):
        # four attempts and the shared table was replaced by another process every time: the gate of this run was not about
        # this run's emitted code -- not shown to hold
        chk.violation('proof gate ran against an emitted-ops table that another process replaced (4 attempts); rerun without concurrent gen checks',
                      dict(kind='proof', theorem_file='Proofs/EmitTableP.v', reason='Generated/EmittedOps.v digest changed under the gate'), no_input=True)
    if not ok_ops and prop in genops.PROPS:
        chk.violation('translator failed (emitted code -> ops): ' + msg_ops[:600], dict(kind='translator', output=msg_ops[:3000]), no_input=True)
    chk.cov['rule'] = rule
    if not gb.ok:
        return chk.finish()
    rng = random.Random(chk.seed)
    if replay is not None and replay.get('kind') in ('case', 'correspondence') and replay.get('case'):
        cases = [replay['case']] + list(replay['case'].get('companions', []))
    else:
        cases = gen_cases(gb, rng, chk.tier)
    lines = [c['line'] for c in cases]
    outs = genrun.run_driver(gb.bin, lines)
    failing = []
    for c, o in zip(cases, outs):
        for why, cls in (evaluate(gb, c, o) or []):
            failing.append((c, why, cls, o))
    if post is not None:
        # oracles that relate several case lines (e.g. keep build vs plain build on the same bytes)
        for c, why, cls, o in post(gb, cases, outs):
            failing.append((c, why, cls, o))
    # ---- correspondence with the extracted model
    mism = []
    n_model = 0
    sel, mouts = [], []
    if runner is not None:
        sel = [(c, o) for c, o in zip(cases, outs) if c['line'].split(' ')[0] in model_ops and c.get('model', True)]
        mouts = core.run_lines(runner, [c['line'] for c, _ in sel], args=[os.path.join(gb.out_dir, 'schema.txt')])
        n_model = len(sel)
        from . import gencorr
        for (c, o), m in zip(sel, mouts):
            d = gencorr.compare(gb, c, o, m)
            if d:
                mism.append((c, o, m, d))
    # a case the property oracle already reports (a real failure, or one attributed to a known class: e.g. a re-typed union
    # variant read by the declared type's reader, whose bogus element count then aborts the async decoder's preallocation)
    # is a failing input, not a model disagreement without one
    flagged = set(id(c) for c, _, _, _ in failing)
    mism = [x for x in mism if id(x[0]) not in flagged]
    # ---- attribution to a known finding: only where the model of the defect predicts exactly what the code did
    if failing:
        failing = confirm_known(chk, gb, runner, failing, cases, outs, {c['line']: m for (c, _), m in zip(sel, mouts)} if runner is not None else {})
    for c in cases:
        chk.count(c['line'], c.get('nontrivial', True))
    for i in (0, len(cases) // 2, len(cases) - 1):
        if cases:
            chk.sample(dict(case=cases[i]['line'][:400], output=(outs[i] or '')[:300]))
    chk.cov['disagreements_checked'] = n_model
    chk.cov['model_impl_mismatches'] = len(mism)
    dist = dict(
        configs={k: sum(1 for c in cases if c.get('cfg') == k) for k in gb.configs},
        protocols={p: sum(1 for c in cases if c.get('proto') == p) for p in genrun.SYNC_PROTOS},
        modes={'sync': sum(1 for c in cases if c.get('mode') == 'sync'), 'async': sum(1 for c in cases if str(c.get('mode', '')).startswith('async'))},
        types=len(set(c.get('type') for c in cases)),
        outcomes={k: sum(1 for o in outs if (o or '').startswith(k)) for k in ('ok', 'err', 'panic', 'hang', 'CRASH', 'DEF', 'BADCASE')},
        max_case_len=max((len(l) for l in lines), default=0))
    if extra_dist:
        dist.update(extra_dist(cases, outs))
    chk.cov['distribution'] = dist
    # ---- report
    n_real = 0
    for c, why, cls, o in failing:
        before = len(chk.violations)
        chk.violation('%s fails on the emitted code: %s' % (prop, why),
                      dict(kind='case', case=c, impl_output=(o or '')[:3000]), cls=cls)
        n_real += len(chk.violations) - before
        if n_real >= 3:
            break
    if not n_real:
        if mism:
            c, o, m, d = mism[0]
            chk.violation('correspondence gen-codec broken: extracted model and emitted code disagree (%d cases: %s) but the '
                          'property oracle found no failing input' % (len(mism), d),
                          dict(kind='correspondence', correspondence='gen codec (fam/gen/coq/Gen.v vs code emitted by pilota-build)',
                               case=c, impl_output=(o or '')[:2000], model_output=(m or '')[:2000]), no_input=True)
        if gate is not None and not gate['ok']:
            chk.violation('proof obligation broken: %s (%s)' % (gate.get('failed'), (gate.get('error') or '')[:300]),
                          dict(kind='proof', theorem_file='fam/gen/coq/Properties/%s.v' % prop, failed=gate.get('failed'),
                               error=gate.get('error'), theorems=gate['theorems']), no_input=True)
    genrun.flush_excluded(chk, gb)      # corpus documents whose emitted code does not compile (reported after the oracles' failures)
    return chk.finish()
