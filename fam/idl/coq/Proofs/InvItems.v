(* C15, converse direction: runs of fields, struct-likes, enums, functions, services, include / namespace, items, files. *)
From PVIdl Require Import Comb Ast Parser Print Proofs.Total Proofs.RoundTok Proofs.RoundPath Proofs.RoundAnn Proofs.RoundTy
  Proofs.RoundKit Proofs.Lex Proofs.RoundNum Proofs.RoundConst Proofs.RoundDecl Proofs.RoundField Proofs.RoundStruct Proofs.RoundFn Proofs.RoundFile
  Proofs.InvKit Proofs.InvTok Proofs.InvTy Proofs.InvNum Proofs.InvConst Proofs.InvDecl.
From Coq Require Import ZifyN ZifyNat ZifyBool.
From Coq Require String.
Import String.StringSyntax.
Open Scope nat_scope.


Definition fel : Type := (blank * cfield)%type.
Definition pr_fel (e : fel) (r : list byte) : list byte := pr_blank (fst e) (pr_field (snd e) r).
Definition felQ (e : fel) (r : list byte) : Prop :=
  blank_ok (fst e) (pr_field (snd e) r) /\ (r <> [] -> hd_ascii r = true -> wf_field (snd e) = true) /\ noblank r /\
  dhead (pr_field (snd e) r) /\ (field_ends_word (snd e) = true -> hd_is is_digit r = false) /\
  (noblank (pr_fel e r) -> fst e = []).
Definition fhdnil (es : list fel) : Prop := match es with [] => True | e :: _ => fst e = [] end.

Lemma dhead_nonnil x : dhead x -> x <> [].
Proof. intros [b0 [rest [-> _]]]. discriminate. Qed.

Lemma pr_fel_len e r : length r <= length (pr_fel e r).
Proof. unfold pr_fel. apply sfx_len. apply sfx_blank, sfx_field, sfx_refl. Qed.
Lemma prl_fel_nonnil es k : k <> [] -> prl pr_fel es k <> [].
Proof.
  intros Hk. induction es as [|e es IH]; cbn [prl fold_right]; [exact Hk|]. fold (prl pr_fel es k).
  pose proof (pr_fel_len e (prl pr_fel es k)). destruct (prl pr_fel es k); [contradiction|].
  destruct (pr_fel e (b :: l)); [cbn in *; lia|discriminate].
Qed.

Lemma dhead_ascii x : dhead x -> hd_ascii x = true.
Proof. intros [b0 [rest [-> Hb]]]. unfold hd_ascii. cbn [hd_sat]. now apply digit_ascii. Qed.

Lemma chain_fields es k : k <> [] -> hd_ascii k = true -> chain pr_fel felQ es k -> fhdnil es ->
  prl pr_fel es k = pr_fields (map snd es) k /\ wf_fields (map snd es) = true.
Proof.
  intros Hk Hak. induction es as [|[bl f] es IH]; cbn [chain prl fold_right map snd pr_fields fhdnil fst]; intros Hc Hh.
  - split; reflexivity.
  - subst bl. destruct Hc as [[_ [Hw [Hn [_ [Hnid _]]]]] Hc]. cbn [fst snd] in *. fold (prl pr_fel es k) in *.
    assert (Hh' : fhdnil es).
    { destruct es as [|e' es']; [exact I|]. cbn [chain] in Hc. destruct Hc as [[_ [_ [_ [_ [_ Hx]]]]] _]. apply Hx. exact Hn. }
    assert (Hd' : es <> [] -> dhead (prl pr_fel es k)).
    { destruct es as [|[bl' f'] es']; [contradiction|]. intros _. cbn [fhdnil fst] in Hh'. subst bl'. cbn [chain] in Hc.
      destruct Hc as [[_ [_ [_ [Hd0 _]]]] _]. cbn [prl fold_right]. unfold pr_fel at 1. cbn [fst snd pr_blank]. exact Hd0. }
    destruct (IH Hc Hh') as [E Wr]. pose proof (prl_fel_nonnil es k Hk) as Rn. unfold pr_fel at 1. cbn [fst snd pr_blank].
    rewrite E in *. split; [reflexivity|]. cbn [wf_fields].
    assert (Ar : hd_ascii (pr_fields (map snd es) k) = true).
    { destruct es as [|e' es']; [exact Hak|]. apply dhead_ascii. apply Hd'. discriminate. }
    rewrite (Hw Rn Ar), Wr. rewrite andb_true_r. cbn [andb].
    destruct es as [|e' es']; [reflexivity|]. cbn [map is_nil orb].
    destruct (field_ends_word f) eqn:Ef; [|reflexivity]. exfalso.
    specialize (Hnid eq_refl). destruct (Hd' ltac:(discriminate)) as [d0 [rest [Ed0 Hd0]]].
    rewrite Ed0 in Hnid. cbn [hd_is] in Hnid. rewrite Hd0 in Hnid. discriminate.
Qed.

Section Items.
Variable lf : nat.
Variable df : nat.

Lemma fld_inv i r f : fld lf df i = POk r f -> exists e : fel, i = pr_fel e r /\ erase_field (snd e) = f /\ felQ e r.
Proof.
  unfold fld. intros H. apply pbind_ok in H. destruct H as [i0 [a [E H]]]. destruct (oblank_inv _ _ _ _ E) as [bl [Ei [Kb [_ Hnone]]]].
  destruct (field_inv _ _ _ _ _ H) as [c [-> [<- [Hw [Hn [_ [Hd Hnid]]]]]]].
  exists (bl, c). unfold felQ, pr_fel. cbn [fst snd]. repeat split; auto.
  intros Hnb. rewrite <- Ei in Hnb. destruct (noblank_oblank _ _ _ _ Hnb E) as [_ ->]. auto.
Qed.

Lemma chain_last_noblank : forall es k, chain pr_fel felQ es k -> es <> [] -> noblank k.
Proof.
  induction es as [|e es IH]; intros k Hc Hne; [contradiction|]. cbn [chain] in Hc. destruct Hc as [Hq Hc].
  destruct es as [|e' es']; [cbn [prl fold_right] in Hq; unfold felQ in Hq; tauto|]. apply (IH k Hc). discriminate.
Qed.

(* a run of fields followed by the blank slot in front of the closing bracket *)
Lemma frun_shape es i1 i2 o : chain pr_fel felQ es i1 -> opt (p_blank lf) i1 = POk i2 o -> i2 <> [] -> nb i2 = true -> hd_ascii i2 = true ->
  exists b0 fs, prl pr_fel es i1 = pr_blank b0 (pr_fields fs i2) /\ map (fun e : fel => erase_field (snd e)) es = map erase_field fs /\
                wf_blank b0 = true /\ wf_fields fs = true /\ (es <> [] -> fs <> []).
Proof.
  intros Hc E Hne Hnb Hai. destruct (oblank_inv _ _ _ _ E) as [bc [Ei [Kc [_ Hnone]]]].
  destruct es as [|[bl0 f0] es].
  - cbn [prl fold_right]. exists bc, []. cbn [pr_fields map]. repeat split; auto. apply (blank_ok_nonnil _ _ Kc Hne).
  - pose proof (chain_last_noblank _ _ Hc ltac:(discriminate)) as Hn. destruct (noblank_oblank _ _ _ _ Hn E) as [-> _].
    cbn [chain] in Hc. destruct Hc as [Hq Hc].
    assert (Hq0 : felQ ([], f0) (prl pr_fel es i1)).
    { unfold felQ in *. cbn [fst snd] in *. unfold pr_fel at 2. cbn [fst snd pr_blank]. repeat split; try tauto. left. reflexivity. }
    destruct (chain_fields (([], f0) :: es) i1 Hne Hai) as [E2 Wl]; [cbn [chain]; auto|reflexivity|].
    cbn [prl fold_right] in E2. unfold pr_fel at 1 in E2. cbn [fst snd pr_blank] in E2.
    exists bl0, (f0 :: map snd es). cbn [prl fold_right]. unfold pr_fel at 1. cbn [fst snd map]. rewrite E2.
    cbn [map snd] in *. repeat split; auto; try discriminate.
    + f_equal. clear. induction es as [|e es IH]; cbn [map]; [reflexivity|]. now rewrite IH.
    + destruct Hq as [Kb [_ [_ [Hd _]]]]. cbn [fst snd] in *. apply (blank_ok_nonnil _ _ Kb). apply dhead_nonnil, Hd.
Qed.

Lemma frun0_inv i i1 i2 l o : many0 lf (fld lf df) i = POk i1 l -> opt (p_blank lf) i1 = POk i2 o -> i2 <> [] -> nb i2 = true -> hd_ascii i2 = true ->
  exists b0 fs, i = pr_blank b0 (pr_fields fs i2) /\ l = map erase_field fs /\ wf_blank b0 = true /\ wf_fields fs = true.
Proof.
  intros E1 E2 Hne Hnb Hai.
  apply (many0_inv (fld lf df) (fun e : fel => erase_field (snd e)) pr_fel felQ fld_inv) in E1. destruct E1 as [es [-> [<- [Hc _]]]].
  destruct (frun_shape es i1 i2 o Hc E2 Hne Hnb Hai) as [b0 [fs [E [Em [Wb [Wf _]]]]]]. exists b0, fs. auto.
Qed.

Lemma frun1_inv i i1 i2 l o : many1 lf (fld lf df) i = POk i1 l -> opt (p_blank lf) i1 = POk i2 o -> i2 <> [] -> nb i2 = true -> hd_ascii i2 = true ->
  exists b0 fs, i = pr_blank b0 (pr_fields fs i2) /\ l = map erase_field fs /\ wf_blank b0 = true /\ wf_fields fs = true /\
                fs <> [].
Proof.
  intros E1 E2 Hne Hnb Hai.
  apply (many1_inv (fld lf df) (fun e : fel => erase_field (snd e)) pr_fel felQ fld_inv) in E1.
  destruct E1 as [c [cs [-> [<- [Hq [Hc _]]]]]].
  destruct (frun_shape (c :: cs) i1 i2 o) as [b0 [fs [E [Em [Wb [Wf Hn]]]]]]; [cbn [chain]; auto|assumption..|].
  exists b0, fs. cbn [prl fold_right] in E. repeat split; auto. apply Hn. discriminate.
Qed.

(* ---------- struct / union / exception bodies ---------- *)
Theorem struct_like_inv i r a : p_struct_like lf df i = POk r a ->
  exists c, i = pr_struct_like c r /\ erase_struct c = a /\ wf_struct (is_nil r) c = true /\
            (tail_open (cs_tail c) = true -> noblank r) /\ whead (pr_struct_like c r).
Proof.
  rewrite p_struct_like_eq. intros H. binv H. inversion H; subst.
  destruct (ident_inv _ _ _ E) as [-> [Hname _]]. destruct (oblank_inv _ _ _ _ E0) as [b1 [-> [K1 _]]].
  apply tag_inv in E1. destruct E1 as [-> _]. apply tag_inv in E4. destruct E4 as [-> _].
  destruct (frun0_inv _ _ _ _ _ E2 E3 ltac:(discriminate) eq_refl eq_refl) as [b0 [fs [-> [-> [W0 Wf]]]]].
  destruct (tail_inv _ _ _ _ _ _ _ _ E5 E6 E7) as [tl [-> [Ean [Wtl [Hop [Hsn _]]]]]].
  eexists (mkCStruct _ b1 b0 fs tl). unfold pr_struct_like, erase_struct, wf_struct. cbn [cs_name cs_b1 cs_b0 cs_fields cs_tail].
  change sym_struct_open with (txt "{"). change sym_struct_close with (txt "}"). rewrite Ean. split; [reflexivity|]. repeat split; auto.
  - rewrite Hname, (blank_ok_nonnil _ _ K1) by discriminate. now rewrite W0, Wf, Wtl.
  - match type of Hname with is_ident ?x = true => destruct x as [|h0 tl0]; [discriminate|] end.
    cbn [is_ident] in Hname. apply andb_prop in Hname. destruct Hname as [Hh _]. eexists h0, _. split; [reflexivity|now apply identch_head].
Qed.

(* ---------- enum values ---------- *)
Definition evok (v : option (blank * cint * blank)) : Prop := True.

Lemma evalue_group_inv i i1 i2 o o2 : opt (p_evalue lf) i = POk i1 o -> opt (p_blank lf) i1 = POk i2 o2 -> noblank i ->
  exists v : option (blank * cint * blank), i = pr_evalue v i2 /\
    o = match v with Some (_, ci, _) => Some (erase_int ci) | None => None end /\
    (i2 <> [] -> match v with Some (b1, ci, b2) => wf_blank b1 && wf_int ci && wf_blank b2 | None => true end = true) /\
    noblank i2 /\ (v = None -> i2 = i) /\
    (match v with Some (_, ci, b2) => int_stops ci (pr_blank b2 i2) = true | None => True end).
Proof.
  intros E1 E2 Hn. apply opt_inv in E1. destruct E1 as [[z [-> E1]]|[-> [-> _]]].
  - unfold p_evalue in E1. apply pbind_ok in E1. destruct E1 as [j1 [t1 [E E1]]]. apply pbind_ok in E1. destruct E1 as [j2 [u2 [E0 E1]]].
    apply tag_inv in E. destruct E as [-> _]. destruct (oblank_inv _ _ _ _ E0) as [b1 [-> [K1 _]]].
    destruct (int_inv _ _ _ _ E1) as [ci [-> [<- [Wi [_ Si]]]]]. destruct (oblank_inv _ _ _ _ E2) as [b2 [-> [K2 [N2 _]]]].
    exists (Some (b1, ci, b2)). cbn [pr_evalue]. change sym_enum_eq with (txt "="). repeat split; auto; try discriminate.
    intros Hr. rewrite Wi, (blank_ok_nonnil _ _ K2 Hr). rewrite (blank_ok_nonnil _ _ K1); [reflexivity|].
    pose proof (len_const (CCInt ci) (pr_blank b2 i2) Wi) as L. cbn [pr_const] in L. intros E. rewrite E in L. cbn in L. lia.
  - destruct (noblank_oblank _ _ _ _ Hn E2) as [-> _]. exists None. repeat split; auto.
Qed.

Theorem enumval_inv i r a : p_enum_value lf i = POk r a ->
  exists e, i = pr_enumval e r /\ erase_enumval e = a /\ (r <> [] -> wf_enumval e = true) /\ noblank r /\
            whead (pr_enumval e r) /\
            (enumval_ends_word e = true -> match ev_val e with Some (_, ci, _) => int_stops ci r = true | None => nid r = true end).
Proof.
  rewrite p_enum_value_eq. intros H. binv H. inversion H; subst.
  destruct (ident_inv _ _ _ E) as [-> [Hname Hnid]]. destruct (oblank_inv _ _ _ _ E0) as [b1 [-> [K1 [N1 _]]]].
  destruct (evalue_group_inv _ _ _ _ _ E1 E2 N1) as [v [-> [-> [Wv [Nv [Hvn Sv]]]]]].
  destruct (oanns_inv _ _ _ _ E3) as [an [-> [<- [Wa Han]]]]. destruct (osep_inv _ _ _ _ E4) as [sp [-> Hs]].
  destruct (oblank_inv _ _ _ _ E5) as [b4 [Eb4 [K4 [N4 Hnone]]]].
  (* the last blank slot is empty unless it follows an annotation list without separator *)
  assert (Hb4 : is_nil b4 || (negb (is_none an) && sep_none sp) = true).
  { destruct sp as [|semi bl]; cbn [sep_ok] in Hs.
    - destruct an as [l|]; [destruct b4; reflexivity|]. cbn [pr_oanns pr_sep] in *.
      destruct (noblank_oblank _ _ _ _ Nv E5) as [_ Eo]. rewrite (Hnone Eo). reflexivity.
    - destruct Hs as [_ Hs]. destruct (noblank_oblank _ _ _ _ Hs E5) as [_ Eo]. rewrite (Hnone Eo). reflexivity. }
  subst i5.
  eexists (mkCEnumVal _ b1 v an sp b4). unfold pr_enumval, erase_enumval, wf_enumval, enumval_ends_word.
  cbn [ev_cname ev_b1 ev_val ev_canns ev_sep ev_b4]. split; [reflexivity|]. split; [f_equal; destruct an; reflexivity|].
  split; [|split; [exact N4|split]].
  - intros Hr. pose proof (len_blank b4 r) as L4.
    assert (R4 : pr_blank b4 r <> []) by (intros Ex; rewrite Ex in L4; destruct r; [contradiction|cbn in L4; lia]).
    assert (RS : pr_sep sp (pr_blank b4 r) <> []) by now apply pr_sep_nonnil.
    assert (RA : pr_oanns an (pr_sep sp (pr_blank b4 r)) <> []) by (destruct an; cbn [pr_oanns]; [unfold pr_anns; discriminate|exact RS]).
    assert (RV : pr_evalue v (pr_oanns an (pr_sep sp (pr_blank b4 r))) <> []) by (destruct v as [[[? ?] ?]|]; cbn [pr_evalue]; [discriminate|exact RA]).
    rewrite Hname, (blank_ok_nonnil _ _ K1 RV), (Wv RA), Wa, (blank_ok_nonnil _ _ K4 Hr), Hb4.
    destruct sp as [|semi bl]; cbn [wf_sep sep_ok] in *; [reflexivity|]. destruct Hs as [Ks _]. now rewrite (blank_ok_nonnil _ _ Ks R4).
  - match type of Hname with is_ident ?x = true => destruct x as [|h tl]; [discriminate|] end.
    cbn [is_ident] in Hname. apply andb_prop in Hname. destruct Hname as [Hh _].
    eexists h, _. split; [reflexivity|now apply identch_head].
  - intros He. destruct sp; [|discriminate]. destruct an; [discriminate|]. cbn [sep_none is_none andb pr_oanns pr_sep] in *.
    apply andb_prop in He. destruct He as [He4 He]. apply is_nil_true in He4. subst b4. cbn [pr_blank] in *.
    destruct v as [[[v1 ci] v2]|].
    + apply is_nil_true in He. subst v2. exact Sv.
    + apply is_nil_true in He. subst b1. exact Hnid.
Qed.


Definition evQ (e : cenumval) (r : list byte) : Prop :=
  (r <> [] -> wf_enumval e = true) /\ noblank r /\ whead (pr_enumval e r) /\
  (enumval_ends_word e = true -> match ev_val e with Some (_, ci, _) => int_stops ci r = true | None => nid r = true end).

Lemma prl_enumvals l k : prl pr_enumval l k = pr_enumvals l k.
Proof. induction l; cbn [prl fold_right pr_enumvals]; [reflexivity|]. fold (prl pr_enumval l k). now rewrite IHl. Qed.

Lemma pr_enumvals_nonnil l k : k <> [] -> pr_enumvals l k <> [].
Proof.
  intros Hk. induction l as [|e l IH]; cbn [pr_enumvals]; [exact Hk|].
  assert (L : length (pr_enumvals l k) <= length (pr_enumval e (pr_enumvals l k))) by (apply sfx_len, sfx_enumval, sfx_refl).
  destruct (pr_enumvals l k); [contradiction|]. intros E. rewrite E in L. cbn in L. lia.
Qed.

Lemma chain_enumvals l k0 : let k := x7d :: k0 in
  chain pr_enumval evQ l k -> wf_enumvals l = true /\ (l <> [] -> noblank k).
Proof.
  intros k. assert (Hk : k <> []) by discriminate.
  induction l as [|e l IH]; cbn [chain wf_enumvals]; intros Hc; [split; [reflexivity|contradiction]|].
  destruct Hc as [[Hw [Hn [_ Hnid]]] Hc]. destruct (IH Hc) as [Wr Hlast]. rewrite prl_enumvals in *. split.
  - rewrite (Hw (pr_enumvals_nonnil l k Hk)), Wr. rewrite andb_true_r. cbn [andb].
    destruct l as [|e' l']; [reflexivity|]. unfold enumval_glue. destruct (enumval_ends_word e) eqn:Ee; [|reflexivity]. cbn [negb orb].
    specialize (Hnid eq_refl). destruct (ev_val e) as [[[v1 ci] v2]|].
    + destruct (enumvals_after_name e' l' k0 Wr) as [Y [EY HY]]. fold k in EY. rewrite EY in Hnid.
      now rewrite (int_stops_local ci (ev_cname e') Y HY) in Hnid.
    + exfalso. cbn [chain] in Hc. destruct Hc as [[_ [_ [[b0 [rest [Eb Hb]]] _]]] _]. rewrite prl_enumvals in Eb. cbn [pr_enumvals] in Hnid.
      rewrite Eb in Hnid. unfold nid in Hnid. cbn [hd_sat] in Hnid. rewrite Hb in Hnid. discriminate.
  - intros _. destruct l as [|e' l']; [exact Hn|]. apply Hlast. discriminate.
Qed.

Theorem enum_inv i r a : p_enum lf i = POk r a ->
  exists c, i = pr_enum c r /\ erase_enum c = a /\ wf_enum (is_nil r) c = true /\
            (ce_anns c = None -> noblank r).
Proof.
  unfold p_enum. intros H. binv H. inversion H; subst.
  apply tag_inv in E. destruct E as [-> _]. destruct (blank_inv _ _ _ _ E0) as [b1 [-> [N1 [K1 _]]]].
  destruct (ident_inv _ _ _ E1) as [-> [Hname _]]. destruct (oblank_inv _ _ _ _ E2) as [b2 [-> [K2 _]]].
  apply tag_inv in E3. destruct E3 as [-> _]. destruct (oblank_inv _ _ _ _ E4) as [b0 [-> [K0 [N0 _]]]].
  apply (many0_inv (p_enum_value lf) erase_enumval pr_enumval evQ) in E5.
  2:{ intros j0 r0 x0 H0. destruct (enumval_inv _ _ _ H0) as [e [-> [<- Hq]]]. exists e. repeat split; tauto. }
  destruct E5 as [vs [-> [<- [Hc _]]]]. apply tag_inv in E7. destruct E7 as [E7 _].
  assert (Hn6 : noblank i6).
  { destruct vs as [|e vs]; [exact N0|]. destruct (oblank_inv _ _ _ _ E6) as [bx [Ebx [Kbx [Nbx _]]]]. subst i7.
    change (sym_enum_close ++ i8) with (x7d :: i8) in *.
    (* the last value has read every blank: the chain ends where no blank begins *)
    clear - Hc. revert Hc. generalize e. induction vs as [|e' vs IH]; intros e0 Hc.
    - cbn [chain prl fold_right] in Hc. unfold evQ in Hc. tauto.
    - cbn [chain] in Hc. destruct Hc as [_ Hc]. exact (IH e' Hc). }
  destruct (noblank_oblank _ _ _ _ Hn6 E6) as [<- _]. subst i7.
  change (sym_enum_close ++ i8) with (x7d :: i8) in *.
  destruct (chain_enumvals vs i8 Hc) as [Wvs _].
  destruct (oblank_inv _ _ _ _ E8) as [b3 [-> [K3 [N3 _]]]]. destruct (oanns_inv _ _ _ _ E9) as [an [-> [<- [Wa Han]]]].
  rewrite prl_enumvals in *.
  eexists (mkCEnum b1 _ b2 b0 vs b3 an). unfold pr_enum, erase_enum, wf_enum. cbn [ce_b1 ce_name ce_b2 ce_b0 ce_vals ce_b3 ce_anns].
  change kw_enum with (txt "enum"). change sym_enum_open with (txt "{"). change sym_enum_close with (txt "}").
  split; [reflexivity|]. split; [f_equal; destruct an; reflexivity|]. split.
  - rewrite (blank_ok_nonnil _ _ K1) by (now apply nonnil_app_ident). rewrite Hname, (blank_ok_nonnil _ _ K2) by discriminate.
    rewrite (blank_ok_nonnil _ _ K0) by (apply pr_enumvals_nonnil; discriminate). rewrite Wvs, Wa.
    destruct b1; [contradiction|]. cbn [is_nil negb andb]. rewrite andb_true_r.
    destruct an as [l|]; cbn [is_none pr_oanns] in *; rewrite ?andb_false_r, ?andb_true_r.
    + apply (blank_ok_nonnil _ _ K3). unfold pr_anns. discriminate.
    + now apply blank_ok_wfb.
  - intros ->. exact N3.
Qed.

(* ---------- functions ---------- *)
Lemma args_inv i i1 i2 o o2 : opt (many1 lf (fld lf df)) i = POk i1 o -> opt (p_blank lf) i1 = POk i2 o2 -> i2 <> [] -> nb i2 = true ->
  hd_ascii i2 = true ->
  exists b0 fs, i = pr_blank b0 (pr_fields fs i2) /\ unwrap_or_default o = map erase_field fs /\ wf_blank b0 = true /\
                wf_fields fs = true.
Proof.
  intros E1 E2 Hne Hnb Hai. apply opt_inv in E1. destruct E1 as [[l [-> E1]]|[-> [-> _]]].
  - destruct (frun1_inv _ _ _ _ _ E1 E2 Hne Hnb Hai) as [b0 [fs [-> [-> [W0 [Wf _]]]]]]. exists b0, fs. auto.
  - destruct (oblank_inv _ _ _ _ E2) as [b0 [-> [K0 _]]]. exists b0, []. cbn [pr_fields map unwrap_or_default]. repeat split.
    apply (blank_ok_nonnil _ _ K0 Hne).
Qed.


Lemma throws_group_inv i i1 i2 o o2 : opt (p_throws lf df) i = POk i1 o -> opt (p_blank lf) i1 = POk i2 o2 -> noblank i ->
  exists th : option cthrows, i = pr_throws th i2 /\
    unwrap_or_default o = match th with Some t => map erase_field (th_fields t) | None => [] end /\
    (i2 <> [] -> wf_throws th = true) /\ noblank i2 /\ (th = None -> i2 = i).
Proof.
  intros E1 E2 Hn. apply opt_inv in E1. destruct E1 as [[l [-> E1]]|[-> [-> _]]].
  - unfold p_throws in E1. binv E1. inversion E1; subst. apply tag_inv in E. destruct E as [-> _].
    destruct (oblank_inv _ _ _ _ E0) as [t1 [-> [K1 _]]]. apply tag_inv in E3. destruct E3 as [-> _]. apply tag_inv in E6. destruct E6 as [-> _].
    destruct (frun1_inv _ _ _ _ _ E4 E5 ltac:(discriminate) eq_refl eq_refl) as [t0 [fs [-> [-> [W0 [Wf Hne]]]]]].
    destruct (oblank_inv _ _ _ _ E2) as [t2 [-> [K2 [N2 _]]]].
    exists (Some (mkCThrows t1 t0 fs t2)). cbn [pr_throws th_b1 th_b0 th_fields th_b2 unwrap_or_default wf_throws].
    change kw_throws with (txt "throws"). change sym_throws_open with (txt "("). change sym_throws_close with (txt ")").
    repeat split; auto; try discriminate.
    intros Hr. rewrite (blank_ok_nonnil _ _ K1) by discriminate. rewrite W0, Wf, (blank_ok_nonnil _ _ K2 Hr).
    destruct fs; [contradiction|reflexivity].
  - destruct (noblank_oblank _ _ _ _ Hn E2) as [-> _]. exists None. repeat split; auto.
Qed.


(* the keyword oneway was not read although the text begins with the word: no blank follows the word *)
Lemma oneway_head_inv t R : wf_type t = true -> is_perr (p_oneway lf (pr_type t R)) -> ~ noblank R -> oneway_head_ok t = true.
Proof.
  intros Wt H HR. destruct t as [[b| | | |[h tl]] an]; try reflexivity. cbn [oneway_head_ok cp_head cp_tail].
  destruct (bytes_eq h (txt "oneway")) eqn:Eh; [|reflexivity]. apply bytes_eq_eq in Eh. subst h. cbn [negb orb].
  assert (Wp : wf_path (mkCPath (txt "oneway") tl) = true).
  { destruct an as [[bl a]|]; cbn [wf_type wf_ty] in Wt; bsplit Wt; assumption. }
  unfold wf_path in Wp. cbn [cp_head cp_tail] in Wp. apply andb_prop in Wp. destruct Wp as [_ Wtl].
  unfold p_oneway in H.
  assert (E : pr_type (CType (CTPath (mkCPath (txt "oneway") tl)) an) R =
              txt "oneway" ++ pr_path_tail tl (match an with Some (bl, a) => pr_blank bl (pr_anns a R) | None => R end)).
  { destruct an as [[bl a]|]; reflexivity. }
  rewrite E in H. change kw_oneway with (txt "oneway") in H. rewrite tag_ok in H. cbn [pbind] in H.
  apply blank_err_noblank in H. destruct tl as [|[[c1 c2] s0] tl]; cbn [pr_path_tail] in H.
  - destruct an as [[bl a]|]; [|contradiction]. cbn [wf_type] in Wt. bsplit Wt.
    rewrite (noblank_pr_blank bl (pr_anns a R) ltac:(assumption) eq_refl H). reflexivity.
  - cbn [forallb fst snd] in Wtl. bsplit Wtl.
    rewrite (noblank_pr_blank c1 (txt "." ++ _) ltac:(assumption) eq_refl H). reflexivity.
Qed.

Lemma pr_throws_nonnil th k : k <> [] -> pr_throws th k <> [].
Proof. destruct th; cbn [pr_throws]; [discriminate|auto]. Qed.
Lemma pr_oanns_nonnil a k : k <> [] -> pr_oanns a k <> [].
Proof. destruct a; cbn [pr_oanns]; [unfold pr_anns; discriminate|auto]. Qed.

Theorem function_inv i r a : p_function lf df i = POk r a ->
  exists f, i = pr_function f r /\ erase_function f = a /\ (r <> [] -> wf_function f = true) /\
            (function_closed f = false -> noblank r) /\ whead (pr_function f r).
Proof.
  rewrite p_function_eq. intros H. binv H. inversion H; subst.
  apply pmap_ok in E. destruct E as [oo [E ->]].
  destruct (type_inv _ _ _ _ _ E0) as [t [Et [<- [Wt [_ Ht]]]]]. destruct (blank_inv _ _ _ _ E1) as [b1 [-> [N1 [K1 _]]]].
  destruct (ident_inv _ _ _ E2) as [-> [Hname _]]. destruct (oblank_inv _ _ _ _ E3) as [b2 [-> [K2 _]]].
  apply tag_inv in E4. destruct E4 as [-> _]. apply tag_inv in E7. destruct E7 as [-> _].
  destruct (args_inv _ _ _ _ _ E5 E6 ltac:(discriminate) eq_refl eq_refl) as [b0 [args [-> [Eargs [W0 Wargs]]]]].
  destruct (oblank_inv _ _ _ _ E8) as [b3 [-> [K3 [N3 _]]]].
  destruct (throws_group_inv _ _ _ _ _ E9 E10 N3) as [th [-> [Eth [Wth [Nth Hthn]]]]].
  destruct (oanns_inv _ _ _ _ E11) as [an [-> [<- [Wa Han]]]]. destruct (osep_inv _ _ _ _ E12) as [sp [-> Hs]].
  (* the optional oneway *)
  assert (Eow : exists ow : option blank, i = match ow with Some b => txt "oneway" ++ pr_blank b i0 | None => i0 end /\
                  is_some oo = negb (is_none ow) /\
                  match ow with Some b => wf_blank b = true /\ b <> [] | None => is_perr (p_oneway lf i0) end).
  { apply opt_inv in E. destruct E as [[u [-> E]]|[-> [-> Herr]]].
    - unfold p_oneway in E. apply pbind_ok in E. destruct E as [j [tt0 [T B]]]. apply tag_inv in T. destruct T as [-> _].
      destruct (blank_inv _ _ _ _ B) as [b [-> [Nb [Kb _]]]]. exists (Some b). repeat split; auto.
      apply (blank_ok_nonnil _ _ Kb). rewrite Et. apply whead_nonnil, Ht.
    - exists None. repeat split. exact Herr. }
  destruct Eow as [ow [-> [Eoo Wow]]]. subst i0.
  eexists (mkCFunction ow t b1 _ b2 b0 args b3 th an sp). unfold erase_function, wf_function, function_closed.
  cbn [fn_coneway fn_type fn_b1 fn_cname fn_b2 fn_b0 fn_args fn_b3 fn_cthrows fn_canns fn_sep].
  change sym_fn_open with (txt "(") in *. change sym_fn_close with (txt ")") in *.
  split; [unfold pr_function; cbn [fn_coneway fn_type fn_b1 fn_cname fn_b2 fn_b0 fn_args fn_b3 fn_cthrows fn_canns fn_sep]; destruct ow; reflexivity|].
  split; [rewrite Eoo, Eargs, Eth; f_equal; destruct an; reflexivity|]. split; [|split].
  - intros Hr.
    assert (WT : wf_type t = true) by (apply Wt; exact (blank_ne_ascii _ _ K1 N1)).
    assert (RS : pr_sep sp r <> []) by now apply pr_sep_nonnil.
    assert (RA : pr_oanns an (pr_sep sp r) <> []) by now apply pr_oanns_nonnil.
    assert (RT : pr_throws th (pr_oanns an (pr_sep sp r)) <> []) by now apply pr_throws_nonnil.
    rewrite WT, (blank_ok_nonnil _ _ K1) by (now apply nonnil_app_ident).
    rewrite Hname, (blank_ok_nonnil _ _ K2) by discriminate. rewrite W0, Wargs, (blank_ok_nonnil _ _ K3 RT).
    rewrite (Wth RA), Wa, (wf_sep_of sp r Hs Hr).
    destruct b1; [contradiction|]. cbn [is_nil negb andb]. rewrite !andb_true_r.
    destruct ow as [bo|]; [destruct Wow as [-> Hne]; destruct bo; [contradiction|reflexivity]|].
    apply (oneway_head_inv t _ WT Wow). intros Hnb. apply (noblank_blank lf) in Hnb. rewrite E1 in Hnb. exact Hnb.
  - intros Hc. destruct sp as [|semi bl]; cbn [sep_ok sep_none] in *; [|tauto].
    destruct an; [discriminate|]. cbn [pr_oanns pr_sep] in Nth. exact Nth.
  - unfold pr_function. cbn [fn_coneway fn_type fn_b1 fn_cname fn_b2 fn_b0 fn_args fn_b3 fn_cthrows fn_canns fn_sep].
    destruct ow; [eexists _, _; split; reflexivity|exact Ht].
Qed.

(* ---------- services ---------- *)
Definition fnel : Type := (blank * cfunction)%type.
Definition pr_fnel (e : fnel) (r : list byte) : list byte := pr_blank (fst e) (pr_function (snd e) r).
Definition fnQ (e : fnel) (r : list byte) : Prop :=
  blank_ok (fst e) (pr_function (snd e) r) /\ (r <> [] -> wf_function (snd e) = true) /\
  (function_closed (snd e) = false -> noblank r) /\ whead (pr_function (snd e) r) /\ (noblank (pr_fnel e r) -> fst e = []).

Lemma fnp_inv i r f : fnp lf df i = POk r f -> exists e : fnel, i = pr_fnel e r /\ erase_function (snd e) = f /\ fnQ e r.
Proof.
  unfold fnp. intros H. apply pbind_ok in H. destruct H as [i0 [o [E H]]]. destruct (oblank_inv _ _ _ _ E) as [bl [Ei [Kb [_ Hnone]]]].
  destruct (function_inv _ _ _ H) as [c [-> [<- [Hw [Hn Hh]]]]].
  exists (bl, c). unfold fnQ, pr_fnel. cbn [fst snd]. repeat split; auto.
  intros Hnb. rewrite <- Ei in Hnb. destruct (noblank_oblank _ _ _ _ Hnb E) as [_ ->]. auto.
Qed.

Lemma pr_fnel_len e r : length r <= length (pr_fnel e r).
Proof. unfold pr_fnel. apply sfx_len. apply sfx_blank, sfx_function, sfx_refl. Qed.
Lemma prl_fnel_nonnil es k : k <> [] -> prl pr_fnel es k <> [].
Proof.
  intros Hk. induction es as [|e es IH]; cbn [prl fold_right]; [exact Hk|]. fold (prl pr_fnel es k).
  pose proof (pr_fnel_len e (prl pr_fnel es k)). destruct (prl pr_fnel es k); [contradiction|].
  destruct (pr_fnel e (b :: l)); [cbn in *; lia|discriminate].
Qed.
Lemma prl_fns l k : prl pr_fnel l k = pr_fns l k.
Proof. induction l as [|[b f] l IH]; cbn [prl fold_right pr_fns]; [reflexivity|]. fold (prl pr_fnel l k). now rewrite IH. Qed.

Lemma chain_fns : forall l pc k, k <> [] -> chain pr_fnel fnQ l k -> (pc = false -> noblank (prl pr_fnel l k)) ->
  wf_fns pc l = true /\ (last_closed pc l = false -> noblank k).
Proof.
  induction l as [|[b f] l IH]; intros pc k Hk Hc Hpc; cbn [chain forallb wf_fns last_closed snd] in *.
  - split; [reflexivity|exact Hpc].
  - destruct Hc as [[Kb [Hw [Hcl [Hh Hnil]]]] Hc]. cbn [fst snd] in *. fold (prl pr_fnel l k) in *.
    destruct (IH (function_closed f) k Hk Hc Hcl) as [Wr Hlast]. split; [|exact Hlast].
    rewrite (blank_ok_nonnil _ _ Kb (whead_nonnil _ Hh)), (Hw (prl_fnel_nonnil l k Hk)), Wr.
    rewrite andb_true_r. cbn [andb]. destruct pc; [reflexivity|]. cbn [orb]. rewrite (Hnil (Hpc eq_refl)). reflexivity.
Qed.

Theorem service_inv i r a : p_service lf df i = POk r a ->
  exists c, i = pr_service c r /\ erase_service c = a /\
            wf_service (is_nil r) c = true /\
            (tail_open (sv_tail c) = true -> noblank r).
Proof.
  rewrite p_service_eq. intros H. binv H. inversion H; subst.
  apply tag_inv in E. destruct E as [-> _]. destruct (blank_inv _ _ _ _ E0) as [b1 [-> [N1 [K1 _]]]].
  destruct (ident_inv _ _ _ E1) as [-> [Hname _]].
  destruct (oblank_inv _ _ _ _ E3) as [b2 [Eb2 [K2 _]]]. apply tag_inv in E4. destruct E4 as [-> _].
  apply (many0_inv (fnp lf df) (fun e : fnel => erase_function (snd e)) pr_fnel fnQ fnp_inv) in E5.
  destruct E5 as [fns [-> [<- [Hc _]]]]. destruct (oblank_inv _ _ _ _ E6) as [b3 [-> [K3 [_ Hnone3]]]].
  apply tag_inv in E7. destruct E7 as [-> _].
  destruct (tail_inv _ _ _ _ _ _ _ _ E8 E9 E10) as [tl [-> [Ean [Wtl [Hop [_ _]]]]]].
  set (K := pr_blank b3 (sym_service_close ++ pr_tail tl r)) in *.
  assert (Kne : K <> []).
  { unfold K. pose proof (len_blank b3 (sym_service_close ++ pr_tail tl r)) as L. intros Ex. rewrite Ex in L. cbn in L. lia. }
  destruct (chain_fns fns true K Kne Hc ltac:(discriminate)) as [Wfns Hlast].
  assert (Hb3 : last_closed true fns || is_nil b3 = true).
  { destruct (last_closed true fns) eqn:El; [reflexivity|]. cbn [orb]. specialize (Hlast eq_refl).
    unfold K in Hlast. destruct (noblank_oblank _ _ _ _ Hlast E6) as [_ Eo]. rewrite (Hnone3 Eo). reflexivity. }
  (* extends *)
  assert (Eext : forall v, opt (p_extends lf) i2 = POk i3 v -> exists ext : option (blank * blank * cpath), i2 = pr_extends ext i3 /\
                   v = match ext with Some (_, _, p) => Some (erase_path p) | None => None end /\ wf_extends ext = true).
  { clear. intros v E2. apply opt_inv in E2. destruct E2 as [[pth [-> E2]]|[-> [-> _]]].
    - unfold p_extends in E2. apply pbind_ok in E2. destruct E2 as [j1 [u1 [E E2]]]. apply pbind_ok in E2. destruct E2 as [j2 [u2 [E0 E2]]].
      apply pbind_ok in E2. destruct E2 as [j3 [u3 [E1 E2]]].
      destruct (blank_inv _ _ _ _ E) as [e1 [-> [Ne1 [Ke1 _]]]]. apply tag_inv in E0. destruct E0 as [-> _].
      destruct (blank_inv _ _ _ _ E1) as [e2 [-> [Ne2 [Ke2 _]]]]. destruct (path_inv _ _ _ _ E2) as [p [-> [<- [Wp _]]]].
      exists (Some (e1, e2, p)). cbn [pr_extends wf_extends]. change kw_extends with (txt "extends"). repeat split.
      rewrite (blank_ok_nonnil _ _ Ke1) by discriminate. rewrite Wp.
      assert (Pn : pr_path p i3 <> []).
      { unfold pr_path. unfold wf_path in Wp. apply andb_prop in Wp. destruct Wp as [Wh _]. destruct (cp_head p); [discriminate Wh|discriminate]. }
      rewrite (blank_ok_nonnil _ _ Ke2 Pn). destruct e1; [contradiction|]. destruct e2; [contradiction|]. reflexivity.
    - exists None. repeat split. }
  destruct (Eext _ E2) as [ext [Ei2 [Ev Wext]]]. subst i2. rewrite Ev in *. clear Eext.
  subst i3. rewrite prl_fns in *.
  eexists (mkCService b1 _ ext b2 fns b3 tl). unfold pr_service, erase_service, wf_service.
  cbn [sv_b1 sv_cname sv_cextends sv_b2 sv_fns sv_b3 sv_tail]. change kw_service with (txt "service").
  change sym_service_open with (txt "{") in *. change sym_service_close with (txt "}") in *. rewrite Ean.
  split; [reflexivity|]. split; [reflexivity|]. split; [|exact Hop].
  rewrite (blank_ok_nonnil _ _ K1) by (now apply nonnil_app_ident). rewrite Hname, Wext, (blank_ok_nonnil _ _ K2) by discriminate.
  rewrite Wfns, (blank_ok_nonnil _ _ K3) by discriminate. rewrite Hb3, Wtl.
  destruct b1; [contradiction|]. reflexivity.
Qed.

(* ---------- include / cpp_include / namespace ---------- *)
Lemma include_gen_inv (p : parser Literal) kw i r l :
  (forall i, p i = (do i, _ <- tag kw i ;; do i, _ <- p_blank lf i ;; do i, x <- p_literal lf i ;;
                    do i, _ <- opt (p_list_separator lf) i ;; POk i x)) ->
  p i = POk r l ->
  exists b cl s, i = kw ++ pr_blank b (pr_lit cl (pr_sep s r)) /\ erase_lit cl = l /\
                 wf_blank b = true /\ b <> [] /\ wf_lit cl = true /\ wf_sep_at (is_nil r) s = true /\ (sep_none s = false -> noblank r).
Proof.
  intros Hp H. rewrite Hp in H. binv H. inversion H; subst. apply tag_inv in E. destruct E as [-> _].
  destruct (blank_inv _ _ _ _ E0) as [b [-> [Nb [Kb _]]]]. destruct (literal_inv _ _ _ _ E1) as [cl [-> [<- Wl]]].
  destruct (osep_inv _ _ _ _ E2) as [s [-> Hs]]. exists b, cl, s. repeat split; auto.
  - apply (blank_ok_nonnil _ _ Kb). unfold pr_lit. discriminate.
  - now apply wf_sep_at_of.
  - destruct s; cbn [sep_none sep_ok] in *; [discriminate|tauto].
Qed.

Lemma scope_tags_words : forallb (fun s => bytes_in s scope_words) scope_tags = true.
Proof. vm_compute. reflexivity. Qed.

Lemma alt_tags_inv : forall ts i r s, alt (map tag ts) i = POk r s -> In s ts /\ i = s ++ r.
Proof.
  induction ts as [|t ts IH]; intros i r s H; [discriminate|]. destruct ts as [|t' ts'].
  - cbn [map] in H. apply alt_one_inv in H. apply tag_inv in H. destruct H as [-> ->]. split; [left; reflexivity|reflexivity].
  - cbn [map] in H. apply alt_cons_inv in H. destruct H as [H|[_ H]].
    + apply tag_inv in H. destruct H as [-> ->]. split; [left; reflexivity|reflexivity].
    + destruct (IH _ _ _ H) as [Hin E]. split; [right; exact Hin|exact E].
Qed.

Theorem namespace_inv i r a : p_namespace lf i = POk r a ->
  exists c, i = pr_namespace c r /\ erase_namespace c = a /\ wf_namespace (is_nil r) c = true /\ noblank r /\
            (is_nil (ns_b3 c) && is_none (ns_canns c) && sep_none (ns_sep c) = true -> nid r = true).
Proof.
  unfold p_namespace. intros H. binv H. inversion H; subst. cbn beta in *. apply tag_inv in E. destruct E as [-> _].
  apply pbind_ok in E0. destruct E0 as [j1 [u1 [B1 T1]]]. apply pbind_ok in E1. destruct E1 as [j2 [u2 [B2 T2]]].
  destruct (blank_inv _ _ _ _ B1) as [b1 [-> [N1 [K1 _]]]]. unfold p_scope in T1. destruct (alt_tags_inv _ _ _ _ T1) as [Hin ->].
  destruct (blank_inv _ _ _ _ B2) as [b2 [-> [N2 [K2 _]]]]. destruct (path_inv _ _ _ _ T2) as [p [-> [<- [Wp [_ Hnid]]]]].
  destruct (oblank_inv _ _ _ _ E2) as [b3 [-> [K3 [N3 _]]]].
  destruct (tail2_inv _ _ _ _ _ _ _ _ E3 E4 E5 N3) as [an [sp [-> [-> [Wt2 [Nr [_ Hbare]]]]]]].
  match type of Hin with In ?sc _ => set (scp := sc) in * end.
  assert (Hsc : bytes_in scp scope_words = true).
  { pose proof scope_tags_words as F. rewrite forallb_forall in F. exact (F scp Hin). }
  assert (Sn : scp <> []).
  { intros Ex. rewrite Ex in Hin. revert Hin. clear. unfold scope_tags. cbn [In]. intros H. repeat (destruct H as [H|H]; [discriminate H|]). exact H. }
  exists (mkCNamespace b1 scp b2 p b3 an sp). unfold pr_namespace, erase_namespace, wf_namespace.
  cbn [ns_b1 ns_cscope ns_b2 ns_path ns_b3 ns_canns ns_sep]. change kw_namespace with (txt "namespace").
  split; [reflexivity|]. split; [reflexivity|]. split; [|split; [exact Nr|]].
  - rewrite (blank_ok_nonnil _ _ K1) by (clearbody scp; destruct scp; [contradiction|discriminate]). rewrite Hsc, Wp, Wt2.
    assert (Pn : pr_path p (pr_blank b3 (pr_tail2 an sp r)) <> []).
    { unfold pr_path. unfold wf_path in Wp. apply andb_prop in Wp. destruct Wp as [Wh _]. destruct (cp_head p); [discriminate Wh|discriminate]. }
    rewrite (blank_ok_nonnil _ _ K2 Pn). destruct b1; [contradiction|]. destruct b2; [contradiction|]. cbn [is_nil negb andb]. rewrite !andb_true_r.
    destruct an as [[l bl]|]; [|destruct sp as [|semi bs]]; cbn [is_none sep_none andb pr_tail2 pr_sep] in *; rewrite ?andb_false_r, ?andb_true_r.
    + apply (blank_ok_nonnil _ _ K3). unfold pr_anns. discriminate.
    + now apply blank_ok_wfb.
    + apply (blank_ok_nonnil _ _ K3). discriminate.
  - intros Hb. bsplit Hb. apply is_nil_true in Hb. subst b3. destruct an; [discriminate|]. destruct sp; [|discriminate].
    cbn [pr_blank pr_tail2 pr_sep] in Hnid. exact Hnid.
Qed.

(* ---------- items ---------- *)
Definition is_const (it : citem) : bool := match it with CIConst _ => true | _ => false end.

Definition ahead (x : list byte) : Prop := exists b0 rest, x = b0 :: rest /\ is_alpha b0 = true.

Definition itemP (it : citem) (r : list byte) : Prop :=
  (hd_ascii r = true -> wf_item (is_nil r) it = true) /\ (item_open it = true -> noblank r) /\
  (item_ends_word it = true -> match it with CIConst c => cont_ok (ck_val c) r = true | _ => nid r = true end) /\ ahead (pr_item it r).

Lemma tail_bare_pr t r : tail_bare t = true -> pr_tail t r = r.
Proof.
  destruct t as [bl a sp]. unfold tail_bare, pr_tail. cbn [t_b t_anns t_sep]. intros H. bsplit H.
  destruct bl; [|discriminate]. destruct a; [discriminate|]. destruct sp; [|discriminate]. reflexivity.
Qed.

Lemma item_keyword_inv i r kw : p_item_keyword i = POk r kw -> r = i.
Proof. unfold p_item_keyword, peek. destruct (recognize _ i); intros H; inversion H; reflexivity. Qed.

Lemma struct_kw_inv (p : parser StructLike) kw i r a :
  (forall i, p i = (do i, _ <- tag kw i ;; do i, _ <- p_blank lf i ;; p_struct_like lf df i)) -> p i = POk r a ->
  exists b c, i = kw ++ pr_blank b (pr_struct_like c r) /\ erase_struct c = a /\ wf_blank b = true /\ b <> [] /\
              wf_struct (is_nil r) c = true /\ (tail_open (cs_tail c) = true -> noblank r).
Proof.
  intros Hp H. rewrite Hp in H. apply pbind_ok in H. destruct H as [j1 [u1 [T H]]]. apply pbind_ok in H. destruct H as [j2 [u2 [B H]]].
  apply tag_inv in T. destruct T as [-> _]. destruct (blank_inv _ _ _ _ B) as [b [-> [Nb [Kb _]]]].
  destruct (struct_like_inv _ _ _ H) as [c [-> [<- [Hw [Hop Hh]]]]]. exists b, c. repeat split; auto.
  apply (blank_ok_nonnil _ _ Kb), whead_nonnil, Hh.
Qed.

Lemma ahead_txt (w k : list byte) : hd_sat is_alpha w = true -> w <> [] -> ahead (w ++ k).
Proof. intros H Hn. destruct w as [|c w]; [contradiction|]. exists c, (w ++ k). auto. Qed.

Theorem item_inv i r a : p_item lf df i = POk r a -> exists it, i = pr_item it r /\ erase_item it = a /\ itemP it r.
Proof.
  unfold p_item. intros H. apply pbind_ok in H. destruct H as [i' [kw [E H]]]. apply item_keyword_inv in E. subst i'.
  destruct (bytes_eqb kw arm_include).
  { apply pmap_ok in H. destruct H as [l [H ->]].
    destruct (include_gen_inv (p_include lf) kw_include _ _ _ ltac:(reflexivity) H) as [b [cl [s [-> [<- [Wb [Nb [Wl [Ws Hn]]]]]]]]].
    exists (CIInclude b cl s). unfold itemP. cbn [pr_item erase_item wf_item item_open item_ends_word is_const].
    change kw_include with (txt "include"). repeat split; auto; try discriminate.
    - intros _. rewrite Wb, Wl, Ws. destruct b; [contradiction|reflexivity].
    - intros Ho. apply Hn. now apply negb_true_iff in Ho.
    - apply ahead_txt; [reflexivity|discriminate]. }
  destruct (bytes_eqb kw arm_cpp_include).
  { apply pmap_ok in H. destruct H as [l [H ->]].
    destruct (include_gen_inv (p_cpp_include lf) kw_cpp_include _ _ _ ltac:(reflexivity) H) as [b [cl [s [-> [<- [Wb [Nb [Wl [Ws Hn]]]]]]]]].
    exists (CICppInclude b cl s). unfold itemP. cbn [pr_item erase_item wf_item item_open item_ends_word is_const].
    change kw_cpp_include with (txt "cpp_include"). repeat split; auto; try discriminate.
    - intros _. rewrite Wb, Wl, Ws. destruct b; [contradiction|reflexivity].
    - intros Ho. apply Hn. now apply negb_true_iff in Ho.
    - apply ahead_txt; [reflexivity|discriminate]. }
  destruct (bytes_eqb kw arm_namespace).
  { apply pmap_ok in H. destruct H as [n [H ->]]. destruct (namespace_inv _ _ _ H) as [c [-> [<- [Wn [Nr Hnid]]]]].
    exists (CINamespace c). unfold itemP. cbn [pr_item erase_item wf_item item_open item_ends_word is_const]. repeat split; auto.
    unfold pr_namespace. apply ahead_txt; [reflexivity|discriminate]. }
  destruct (bytes_eqb kw arm_typedef).
  { apply pmap_ok in H. destruct H as [n [H ->]]. destruct (typedef_inv _ _ _ _ _ H) as [c [-> [<- [Wn [Hop Hnid]]]]].
    exists (CITypedef c). unfold itemP. cbn [pr_item erase_item wf_item item_open item_ends_word is_const]. repeat split; auto.
    unfold pr_typedef. apply ahead_txt; [reflexivity|discriminate]. }
  destruct (bytes_eqb kw arm_const).
  { apply pmap_ok in H. destruct H as [n [H ->]]. destruct (constant_inv _ _ _ _ _ H) as [c [-> [<- [Wn [Hop Cv]]]]].
    exists (CIConst c). unfold itemP. cbn [pr_item erase_item wf_item item_open item_ends_word is_const]. repeat split; auto; try discriminate.
    - unfold constant_ends_word. intros He. apply andb_prop in He. destruct He as [_ Hb]. now rewrite (tail_bare_pr _ r Hb) in Cv.
    - unfold pr_constant. apply ahead_txt; [reflexivity|discriminate]. }
  destruct (bytes_eqb kw arm_enum).
  { apply pmap_ok in H. destruct H as [n [H ->]]. destruct (enum_inv _ _ _ H) as [c [-> [<- [Wn Hop]]]].
    exists (CIEnum c). unfold itemP. cbn [pr_item erase_item wf_item item_open item_ends_word is_const]. repeat split; auto; try discriminate.
    - intros Ho. apply Hop. destruct (ce_anns c); [discriminate|reflexivity].
    - unfold pr_enum. apply ahead_txt; [reflexivity|discriminate]. }
  destruct (bytes_eqb kw arm_struct).
  { apply pmap_ok in H. destruct H as [n [H ->]].
    destruct (struct_kw_inv (p_struct lf df) kw_struct _ _ _ ltac:(reflexivity) H) as [b [c [-> [<- [Wb [Nb [Wn Hop]]]]]]].
    exists (CIStruct SKStruct b c). unfold itemP. cbn [pr_item erase_item wf_item item_open item_ends_word is_const skind_kw].
    change kw_struct with (txt "struct"). repeat split; auto; try discriminate.
    - intros _. rewrite Wb, Wn. destruct b; [contradiction|reflexivity].
    - apply ahead_txt; [reflexivity|discriminate]. }
  destruct (bytes_eqb kw arm_union).
  { apply pmap_ok in H. destruct H as [n [H ->]].
    destruct (struct_kw_inv (p_union lf df) kw_union _ _ _ ltac:(reflexivity) H) as [b [c [-> [<- [Wb [Nb [Wn Hop]]]]]]].
    exists (CIStruct SKUnion b c). unfold itemP. cbn [pr_item erase_item wf_item item_open item_ends_word is_const skind_kw].
    change kw_union with (txt "union"). repeat split; auto; try discriminate.
    - intros _. rewrite Wb, Wn. destruct b; [contradiction|reflexivity].
    - apply ahead_txt; [reflexivity|discriminate]. }
  destruct (bytes_eqb kw arm_exception).
  { apply pmap_ok in H. destruct H as [n [H ->]].
    destruct (struct_kw_inv (p_exception lf df) kw_exception _ _ _ ltac:(reflexivity) H) as [b [c [-> [<- [Wb [Nb [Wn Hop]]]]]]].
    exists (CIStruct SKException b c). unfold itemP. cbn [pr_item erase_item wf_item item_open item_ends_word is_const skind_kw].
    change kw_exception with (txt "exception"). repeat split; auto; try discriminate.
    - intros _. rewrite Wb, Wn. destruct b; [contradiction|reflexivity].
    - apply ahead_txt; [reflexivity|discriminate]. }
  destruct (bytes_eqb kw arm_service); [|discriminate].
  apply pmap_ok in H. destruct H as [n [H ->]]. destruct (service_inv _ _ _ H) as [c [-> [<- [Wn Hop]]]].
  exists (CIService c). unfold itemP. cbn [pr_item erase_item wf_item item_open item_ends_word is_const]. repeat split; auto; try discriminate.
  unfold pr_service. apply ahead_txt; [reflexivity|discriminate].
Qed.

End Items.
