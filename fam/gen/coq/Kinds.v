(* The type kinds of pilota-build's middle::ty (the domain of ThriftBackend::ttype in
   pilota-build/src/codegen/thrift/ty.rs).  The map kind -> TType is REGENERATED from that function
   into Generated/GenTable.v by tools/extract_gen.py. *)
From PV Require Export Thrift.Types.

Inductive kind :=
| KString | KFastStr | KVoid | KU8 | KBool | KBytesVec | KBytes | KI8 | KI16 | KI32 | KI64
| KF64 | KOrderedF64 | KUuid | KVec | KSet | KBTreeSet | KMap | KBTreeMap
| KMessage        (* Path to a struct / exception *)
| KEnumRepr       (* Path to an enum with repr (i32 newtype) *)
| KEnumNoRepr.    (* Path to an enum without repr = union *)

Definition all_kinds : list kind :=
  [KString; KFastStr; KVoid; KU8; KBool; KBytesVec; KBytes; KI8; KI16; KI32; KI64; KF64; KOrderedF64; KUuid;
   KVec; KSet; KBTreeSet; KMap; KBTreeMap; KMessage; KEnumRepr; KEnumNoRepr].
