(* C04 at the generated-code level: the emitted size() equals the number of bytes the emitted encode()
   writes.  Statements only; lemmas in Proofs/SizeP.v (which reduce to the primitive-level C04 theorem
   PV.Proofs.LenP.len_val_exact through  enc_ty = write_val . to_tval  and  size_ty = len_val . to_tval). *)
From PVGen Require Import Gen GenSpec Proofs.SizeP.
From PV Require Import Proofs.LenP.
Open Scope Z_scope.

(* For every well-formed schema, every value of declared type t, every protocol and buffer kind and EVERY starting
   context of the protocol object whose pending bool id (if any) is an i16: whenever the emitted encoder succeeds,
   the emitted size pass from the same context returns exactly the number of bytes written and ends in the same
   context.  For the compact protocol the TYPE must be outside the decidable class of finding F-04a (no_tdbool_reach S t:
   among the declarations a value of type t can reach -- typedef targets, container components, struct fields, union
   variants; the reachable set is computed and CHECKED to be closed -- no struct field / union variant has a declared type
   that is a typedef resolving to bool).  A typedef-of-bool field elsewhere in the schema does not matter
   (SizeP.no_tdbool_reach_nonvacuous). *)
Theorem C04_gen : forall S p k t v,
  wf_schema S = true -> has_type S t v = true -> (p = PCompact -> no_tdbool_reach S t = true) ->
  forall c ss c', pend_ok c -> enc_ty S p k t v c = Ok (ss, c') ->
    size_ty S p t v c = Ok (Z.of_nat (length (flat ss)), c') /\ pend_ok c'.
Proof. exact size_exact. Qed.
Print Assumptions C04_gen.

(* entry points on a fresh protocol object *)
Theorem C04_gen_top : forall S p k t v b,
  wf_schema S = true -> has_type S t v = true -> (p = PCompact -> no_tdbool_reach S t = true) ->
  gen_encode S p k t v = Ok b -> gen_size S p t v = Ok (Z.of_nat (length b)).
Proof. exact gen_size_exact. Qed.
Print Assumptions C04_gen_top.

(* the excluded class is a real divergence of the emitted code: finding F-04a (size 3, 2 bytes written) *)
Theorem C04_gen_refuted : exists S t v,
  wf_schema S = true /\ has_type S t v = true /\
  exists n b, gen_size S PCompact t v = Ok n /\ gen_encode S PCompact BContig t v = Ok b /\ n <> Z.of_nat (length b).
Proof. exact size_refuted. Qed.
Print Assumptions C04_gen_refuted.

(* ---------- the EMITTED size(): lowered to ops (see Properties/C02.v, C02_emitted_ops_match, for the table lemma) ---------- *)
From PVGen Require Import EmitOps EmitDen Generated.EmittedOps Proofs.EmitOpsP Proofs.EmitTableP.

(* the size ops the template model prescribes denote size_ty (every schema, every value); struct_field_len announces
   TType::Struct for every non-enum path -- the text has no TType there (finding F-04a is in the model AND in the rows) *)
Theorem C04_ops_denote_size : forall S ck p, void_variants_zero S = true -> forall v t,
  (ck = true \/ no_uu v = true) -> den_size (presc_tbl S ck) p (presc_vop S t) v = size_ty S p t v.
Proof. exact den_size_presc. Qed.
Print Assumptions C04_ops_denote_size.

(* the regenerated size rows of the corpus are the prescribed ones (table lemma) and, as lowered, denote the model *)
Theorem C04_emitted_size_ops :
  (ops_match schema_plain false emitted_plain /\ ops_match schema_keep true emitted_keep) /\
  forall p t v,
    (no_uu v = true -> den_size emitted_plain p (presc_vop schema_plain t) v = size_ty schema_plain p t v) /\
    den_size emitted_keep p (presc_vop schema_keep t) v = size_ty schema_keep p t v.
Proof. exact (conj (conj emitted_plain_match emitted_keep_match) emitted_size_is_model). Qed.
Print Assumptions C04_emitted_size_ops.
