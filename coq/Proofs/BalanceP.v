(* C01 writer balance and C04 zero-copy length (DESIGN 5.1 C01_writer_balanced, 5.4 C04_zero_copy_len).

   Writer balance is a corollary of the round-trip theorem (its first conjunct says the final writer context is
   the initial one); stated here on its own, for single values and for sequences.

   zero_copy_len: in the Rust writers over LinkedBytes, `zero_copy_len += b.len()` sits next to every
   `trans.insert(b)` (binary.rs / binary_le.rs / compact.rs write_bytes_without_len); the model returns the
   inserted nodes as [Node b] segments and Proto.zc_len sums their lengths, so "zero_copy_len = sum of the lengths
   of the inserted nodes" is the definition of [zc_len] (compared with the implementation's zero_copy_len() on every
   correspondence case: field Z of the rt lines).  What is PROVED here is what that number is in terms of the
   value, for every protocol and buffer kind, and how it splits the reported size:
     zc_len ss = total length of the binaries of the value at or above ZERO_COPY_THRESHOLD (LinkedBytes with
                 zero-copy on), 0 on every other buffer kind;
     size reported by the length pass - zero_copy_len = number of bytes COPIED into the contiguous part
                 (what callers allocate: `malloc_size = size - zero_copy_len`). *)
From PV Require Import Thrift.Len Proofs.VarintP Proofs.TablesP Proofs.PrimP Proofs.HeaderP Proofs.RoundtripP Proofs.LenP Proofs.UnsafeP.
From Coq Require Import ZifyN ZifyNat ZifyBool.
Open Scope Z_scope.

(* ---------------- C01: writer balance ---------------- *)

Theorem writer_balanced p k v : wt v = true -> forall c, w_pend c = None ->
  exists ss, write_val p k v c = Ok (ss, c).
Proof. intros H c Hc. destruct (roundtrip_val p k v H c Hc) as (ss & Hw & _). eauto. Qed.

Theorem writer_balanced_inv p k v c ss c' : wt v = true -> w_pend c = None ->
  write_val p k v c = Ok (ss, c') -> c' = c.
Proof. intros H Hc Hw. destruct (writer_balanced p k v H c Hc) as (ss' & Hw'). congruence. Qed.

Theorem writer_balanced_seq p k vs : forallb wt vs = true -> forall c, w_pend c = None ->
  exists ss, write_vals p k vs c = Ok (ss, c).
Proof. intros H c Hc. destruct (roundtrip_vals p k vs H c Hc) as (ss & Hw & _). eauto. Qed.

(* a write never fails or panics on a well-typed value with nothing pending (what "balanced" presupposes) *)
Example writer_balanced_example :
  let v := VStruct [(1, VBool true); (2, VStruct [(1, VBool false); (5, VStruct [(3, VBool true)])]); (3, VI32 7); (200, VI16 (-3))] in
  wt v = true /\
  (exists ss, write_val PCompact BContig v (mkW 9 [4; 2] None) = Ok (ss, mkW 9 [4; 2] None)) /\
  (* the balance is about a writer with nothing pending: a pending bool field is consumed by the value *)
  (exists ss, write_val PCompact BContig (VBool true) (mkW 0 [] (Some 1)) = Ok (ss, mkW 1 [] None)).
Proof. split; [reflexivity|]. split; eexists; vm_compute; reflexivity. Qed.

(* ---------------- C04: zero_copy_len ---------------- *)

Definition zc_of_bytes (k : bk) (l : list byte) : Z :=
  match k with
  | BLinked true => if zero_copy_threshold <=? Z.of_nat (length l) then Z.of_nat (length l) else 0
  | _ => 0
  end.

Fixpoint zc_spec (k : bk) (v : tval) : Z :=
  match v with
  | VBinary l => zc_of_bytes k l
  | VStruct fs => (fix go (fs : list (Z * tval)) : Z :=
                     match fs with [] => 0 | (_, x) :: t => zc_spec k x + go t end) fs
  | VList _ l | VSet _ l => (fix go (l : list tval) : Z :=
                     match l with [] => 0 | x :: t => zc_spec k x + go t end) l
  | VMap _ _ l => (fix go (l : list (tval * tval)) : Z :=
                     match l with [] => 0 | (a, b) :: t => zc_spec k a + zc_spec k b + go t end) l
  | _ => 0
  end.

Definition zc_fields (k : bk) : list (Z * tval) -> Z :=
  fix go (fs : list (Z * tval)) : Z := match fs with [] => 0 | (_, x) :: t => zc_spec k x + go t end.
Definition zc_elems (k : bk) : list tval -> Z :=
  fix go (l : list tval) : Z := match l with [] => 0 | x :: t => zc_spec k x + go t end.
Definition zc_pairs (k : bk) : list (tval * tval) -> Z :=
  fix go (l : list (tval * tval)) : Z := match l with [] => 0 | (a, b) :: t => zc_spec k a + zc_spec k b + go t end.

Definition ZC (n : Z) (w : wm) : Prop := forall c ss c', w c = Ok (ss, c') -> zc_len ss = n.

Lemma ZC_seq n1 n2 a b : ZC n1 a -> ZC n2 b -> ZC (n1 + n2) (a ;; b).
Proof.
  intros Ha Hb c ss c' H. apply wseq_inv in H as (s1 & c1 & s2 & H1 & H2 & ->).
  rewrite zc_len_app, (Ha _ _ _ H1), (Hb _ _ _ H2). reflexivity.
Qed.
Lemma ZC_seq0 a b : ZC 0 a -> ZC 0 b -> ZC 0 (a ;; b).
Proof. intros. change 0 with (0 + 0). apply ZC_seq; auto. Qed.
Lemma ZC_ret l : ZC 0 (wret l).
Proof. intros c ss c' H. unfold wret in H. injection H as <- _. reflexivity. Qed.
Lemma ZC_nop : ZC 0 wnop.
Proof. intros c ss c' H. unfold wnop in H. injection H as <- _. reflexivity. Qed.
Lemma ZC_nil (w : wm) : (forall c ss c', w c = Ok (ss, c') -> ss = []) -> ZC 0 w.
Proof. intros Hn c ss c' H. rewrite (Hn _ _ _ H). reflexivity. Qed.

Lemma ZC_i16 p z : ZC 0 (w_i16 p z).
Proof. destruct p; apply ZC_ret. Qed.
Lemma ZC_i32 p z : ZC 0 (w_i32 p z).
Proof. destruct p; apply ZC_ret. Qed.
Lemma ZC_i64 p z : ZC 0 (w_i64 p z).
Proof. destruct p; apply ZC_ret. Qed.
Lemma ZC_double p z : ZC 0 (w_double p z).
Proof. destruct p; apply ZC_ret. Qed.
Lemma ZC_len p n : ZC 0 (w_len p n).
Proof. destruct p; cbn [w_len]; try apply ZC_i32; apply ZC_ret. Qed.

Lemma ZC_field_header ct id : ZC 0 (w_field_header ct id).
Proof.
  intros c ss c' H. unfold w_field_header in H.
  destruct ((0 <? id - w_last c) && (id - w_last c <? 15)).
  - injection H as <- _. reflexivity.
  - revert H. apply (ZC_seq0 (w_byte (ctype_code ct)) (w_i16 PCompact id)); [apply ZC_ret|apply ZC_i16].
Qed.

Lemma ZC_field_begin p ty id : ZC 0 (w_field_begin p ty id).
Proof.
  destruct p; cbn [w_field_begin]; try apply ZC_ret.
  intros c ss c' H. destruct ty;
    try (destruct (ctype_of_ttype _) as [ct|]; [eapply ZC_field_header; eauto|discriminate]).
  destruct (w_pend c); [discriminate|]. injection H as <- _. reflexivity.
Qed.

Lemma ZC_assert p : ZC 0 (assert_no_pending_w p).
Proof.
  intros c ss c' H. unfold assert_no_pending_w in H.
  destruct p; try (injection H as <- _; reflexivity).
  destruct (w_pend c); [discriminate|]. injection H as <- _. reflexivity.
Qed.
Lemma ZC_field_end p : ZC 0 (w_field_end p).
Proof. apply ZC_assert. Qed.
Lemma ZC_field_stop p : ZC 0 (w_field_stop p).
Proof. unfold w_field_stop. apply ZC_seq0; [apply ZC_assert|apply ZC_ret]. Qed.
Lemma ZC_struct_begin p : ZC 0 (w_struct_begin p).
Proof. intros c ss c' H. unfold w_struct_begin in H. destruct p; injection H as <- _; reflexivity. Qed.
Lemma ZC_struct_end p : ZC 0 (w_struct_end p).
Proof.
  intros c ss c' H. unfold w_struct_end in H. destruct p; try (injection H as <- _; reflexivity).
  destruct (w_pend c); [discriminate|]. destruct (w_stack c); [discriminate|]. injection H as <- _. reflexivity.
Qed.

Lemma ZC_bool p b : ZC 0 (w_bool p b).
Proof.
  destruct p; cbn [w_bool]; try apply ZC_ret.
  intros c ss c' H. destruct (w_pend c) as [id|].
  - eapply ZC_field_header; eauto.
  - revert H. apply ZC_ret.
Qed.

Lemma ZC_coll_begin p et n : ZC 0 (w_coll_begin p et n).
Proof.
  destruct p; cbn [w_coll_begin]; try (apply ZC_seq0; [apply ZC_ret|apply ZC_i32]).
  intros c ss c' H. destruct (ctype_of_ttype et) as [ct|]; [|discriminate].
  destruct (n <=? 14); revert H; [apply ZC_ret|apply ZC_seq0; apply ZC_ret].
Qed.

Lemma ZC_map_begin p kt vt n : ZC 0 (w_map_begin p kt vt n).
Proof.
  destruct p; cbn [w_map_begin]; try (apply ZC_seq0; [apply ZC_seq0; apply ZC_ret|apply ZC_i32]).
  intros c ss c' H. destruct (n =? 0); [revert H; apply ZC_ret|].
  destruct (ctype_of_ttype kt) as [kc|]; [|discriminate].
  destruct (ctype_of_ttype vt) as [vc|]; [|discriminate].
  revert H. apply ZC_seq0; apply ZC_ret.
Qed.

Lemma ZC_bytes p k l : ZC (zc_of_bytes k l) (w_bytes p k l).
Proof.
  unfold w_bytes. change (zc_of_bytes k l) with (0 + zc_of_bytes k l). apply ZC_seq; [apply ZC_len|].
  intros c ss c' H. unfold w_bytes_without_len in H. unfold zc_of_bytes.
  destruct k as [|[|]]; try (injection H as <- _; reflexivity).
  destruct (zero_copy_threshold <=? Z.of_nat (length l)); injection H as <- _; cbn [zc_len fold_right]; lia.
Qed.

(* zero_copy_len in terms of the value, for every protocol, buffer kind and starting context *)
Theorem zc_len_spec p k : forall v, ZC (zc_spec k v) (write_val p k v).
Proof.
  induction v as [b|z|z|z|z|z|l|l|fs HF|et l HF|et l HF|kt vt l HF] using tval_ind'.
  - apply ZC_bool.
  - apply ZC_ret.
  - apply ZC_i16.
  - apply ZC_i32.
  - apply ZC_i64.
  - apply ZC_double.
  - apply ZC_bytes.
  - apply ZC_ret.
  - change (write_val p k (VStruct fs)) with
      (w_struct_begin p ;; write_fields p k fs ;; w_field_stop p ;; w_struct_end p).
    change (zc_spec k (VStruct fs)) with (zc_fields k fs).
    replace (zc_fields k fs) with (0 + zc_fields k fs + 0 + 0) by lia.
    apply ZC_seq; [apply ZC_seq; [apply ZC_seq|]|]; auto using ZC_struct_begin, ZC_field_stop, ZC_struct_end.
    induction fs as [|[i x] t IHt]; [apply ZC_nop|].
    inversion HF as [|? ? Hx Ht]; subst. cbn [snd] in Hx.
    change (write_fields p k ((i, x) :: t)) with
      (w_field_begin p (ttype_of x) i ;; write_val p k x ;; w_field_end p ;; write_fields p k t).
    change (zc_fields k ((i, x) :: t)) with (zc_spec k x + zc_fields k t).
    replace (zc_spec k x + zc_fields k t) with (0 + zc_spec k x + 0 + zc_fields k t) by lia.
    apply ZC_seq; [apply ZC_seq; [apply ZC_seq|]|]; auto using ZC_field_begin, ZC_field_end.
  - change (write_val p k (VList et l)) with (w_coll_begin p et (Z.of_nat (length l)) ;; write_elems p k l).
    change (zc_spec k (VList et l)) with (0 + zc_elems k l). apply ZC_seq; [apply ZC_coll_begin|].
    induction l as [|x t IHt]; [apply ZC_nop|]. inversion HF; subst.
    change (write_elems p k (x :: t)) with (write_val p k x ;; write_elems p k t).
    change (zc_elems k (x :: t)) with (zc_spec k x + zc_elems k t). apply ZC_seq; auto.
  - change (write_val p k (VSet et l)) with (w_coll_begin p et (Z.of_nat (length l)) ;; write_elems p k l).
    change (zc_spec k (VSet et l)) with (0 + zc_elems k l). apply ZC_seq; [apply ZC_coll_begin|].
    induction l as [|x t IHt]; [apply ZC_nop|]. inversion HF; subst.
    change (write_elems p k (x :: t)) with (write_val p k x ;; write_elems p k t).
    change (zc_elems k (x :: t)) with (zc_spec k x + zc_elems k t). apply ZC_seq; auto.
  - change (write_val p k (VMap kt vt l)) with (w_map_begin p kt vt (Z.of_nat (length l)) ;; write_pairs p k l).
    change (zc_spec k (VMap kt vt l)) with (0 + zc_pairs k l). apply ZC_seq; [apply ZC_map_begin|].
    induction l as [|[a b] t IHt]; [apply ZC_nop|]. inversion HF as [|? ? [Ha Hb] Ht]; subst. cbn [fst snd] in *.
    change (write_pairs p k ((a, b) :: t)) with (write_val p k a ;; write_val p k b ;; write_pairs p k t).
    change (zc_pairs k ((a, b) :: t)) with (zc_spec k a + zc_spec k b + zc_pairs k t).
    apply ZC_seq; [apply ZC_seq|]; auto.
Qed.

Lemma zc_spec_off k v : k <> BLinked true -> zc_spec k v = 0.
Proof.
  intros Hk. induction v as [b|z|z|z|z|z|l|l|fs HF|et l HF|et l HF|kt vt l HF] using tval_ind'; try reflexivity.
  - cbn [zc_spec]. unfold zc_of_bytes. destruct k as [|[|]]; congruence.
  - change (zc_spec k (VStruct fs)) with (zc_fields k fs).
    induction fs as [|[i x] t IHt]; [reflexivity|]. inversion HF as [|? ? Hx Ht]; subst. cbn [snd] in Hx.
    change (zc_fields k ((i, x) :: t)) with (zc_spec k x + zc_fields k t). rewrite Hx, IHt; auto.
  - change (zc_spec k (VList et l)) with (zc_elems k l).
    induction l as [|x t IHt]; [reflexivity|]. inversion HF as [|? ? Hx Ht]; subst.
    change (zc_elems k (x :: t)) with (zc_spec k x + zc_elems k t). rewrite Hx, IHt; auto.
  - change (zc_spec k (VSet et l)) with (zc_elems k l).
    induction l as [|x t IHt]; [reflexivity|]. inversion HF as [|? ? Hx Ht]; subst.
    change (zc_elems k (x :: t)) with (zc_spec k x + zc_elems k t). rewrite Hx, IHt; auto.
  - change (zc_spec k (VMap kt vt l)) with (zc_pairs k l).
    induction l as [|[a b] t IHt]; [reflexivity|]. inversion HF as [|? ? [Ha Hb] Ht]; subst. cbn [fst snd] in *.
    change (zc_pairs k ((a, b) :: t)) with (zc_spec k a + zc_spec k b + zc_pairs k t). rewrite Ha, Hb, IHt; auto.
Qed.

(* C04_zero_copy_len *)
Theorem zero_copy_len_exact p k v c ss c' :
  write_val p k v c = Ok (ss, c') ->
  zc_len ss = zc_spec k v /\
  Z.of_nat (length (flat ss)) = copy_len ss + zc_len ss /\
  (k <> BLinked true -> zc_len ss = 0).
Proof.
  intros H. pose proof (zc_len_spec p k v c ss c' H) as E. split; [exact E|]. split; [apply flat_len|].
  intros Hk. rewrite E. apply zc_spec_off, Hk.
Qed.

(* what callers allocate: size - zero_copy_len is exactly the number of bytes copied into the contiguous part *)
Theorem malloc_size_exact p k v c ss c' :
  wt v = true -> pend_ok c -> write_val p k v c = Ok (ss, c') ->
  exists n, len_val p v c = Ok (n, c') /\ n - zc_len ss = copy_len ss /\ zc_len ss = zc_spec k v.
Proof.
  intros Hwt Hp H. destruct (len_val_exact p k v Hwt c ss c' Hp H) as [E _].
  exists (Z.of_nat (length (flat ss))). split; [exact E|]. rewrite flat_len.
  split; [lia|]. apply (zc_len_spec p k v c ss c' H).
Qed.

Theorem zc_len_vals p k : forall vs c ss c',
  write_vals p k vs c = Ok (ss, c') -> zc_len ss = fold_right (fun v a => zc_spec k v + a) 0 vs.
Proof.
  induction vs as [|v t IH]; intros c ss c' H; cbn [write_vals fold_right] in *.
  - unfold wnop in H. injection H as <- _. reflexivity.
  - apply wseq_inv in H as (s1 & c1 & s2 & H1 & H2 & ->).
    rewrite zc_len_app, (zc_len_spec p k v _ _ _ H1), (IH _ _ _ H2). reflexivity.
Qed.

(* non-vacuity: a 5000-byte and a 10-byte binary under one struct; only the first becomes a node, on a linked
   buffer with zero-copy on; compact size 5018 = 18 copied + 5000 inserted *)
Example zero_copy_len_example :
  let v := VStruct [(1, VBinary (repeat x61 5000)); (2, VBinary (repeat x62 10)); (3, VI32 7)] in
  zc_spec (BLinked true) v = 5000 /\ zc_spec (BLinked false) v = 0 /\ zc_spec BContig v = 0 /\
  (exists ss, write_val PCompact (BLinked true) v w0 = Ok (ss, w0) /\ zc_len ss = 5000 /\ copy_len ss = 18 /\
              len_val PCompact v w0 = Ok (5018, w0)).
Proof.
  cbv zeta. split; [vm_compute; reflexivity|]. split; [vm_compute; reflexivity|]. split; [vm_compute; reflexivity|].
  eexists. split; [vm_compute; reflexivity|]. split; [vm_compute; reflexivity|]. split; vm_compute; reflexivity.
Qed.
