(* The table lemma: the rows regenerated from the code the real pilota-build emitted for the corpus ARE the rows the
   template model prescribes for the schema of the configuration (schema.txt restricted to the types that configuration
   emits) -- by computation, on every run, for the plain and for the keep_unknown_fields configuration; and the chain
   emitted text -> ops -> Gen.v  for the corpus. *)
From Coq Require Import String Lia.
From PVGen Require Import Gen GenSpec EmitOps EmitDen Generated.EmittedOps Proofs.GenBase Proofs.EmitOpsP Proofs.EmitDecP Proofs.EmitNormP.
Open Scope Z_scope.

(* ---------- generic: what ops_match says about one row ---------- *)
Lemma ops_match_row S ck em n r d :
  ops_match S ck em -> nth_error em n = Some r -> lookup S n = Some d ->
  norm_row r = presc_row S ck d /\ names_ok r = true.
Proof.
  intros [Hm Hn] Hr Hd. split.
  - assert (E : nth_error (map norm_row em) n = Some (norm_row r)) by (rewrite nth_error_map, Hr; reflexivity).
    rewrite Hm in E. unfold presc_tbl in E. rewrite nth_error_map in E. unfold lookup in Hd. rewrite Hd in E. cbn in E.
    injection E as E. symmetry. exact E.
  - rewrite forallb_forall in Hn. exact (Hn r (nth_error_In _ _ Hr)).
Qed.

(* ---------- the corpus of this run ---------- *)
Theorem emitted_plain_match : ops_match schema_plain false emitted_plain.
Proof. split; vm_compute; reflexivity. Qed.

Theorem emitted_keep_match : ops_match schema_keep true emitted_keep.
Proof. split; vm_compute; reflexivity. Qed.

(* non-vacuity: the tables are not empty and have a row for every type of their schema *)
Lemma table_nonempty :
  (0 < length schema_plain)%nat /\ length emitted_plain = length schema_plain /\
  (0 < length schema_keep)%nat /\ length emitted_keep = length schema_keep.
Proof. vm_compute. repeat split; apply PeanoNat.Nat.ltb_lt; reflexivity. Qed.

Lemma plain_void_variants_zero : void_variants_zero schema_plain = true.
Proof. vm_compute. reflexivity. Qed.
Lemma keep_void_variants_zero : void_variants_zero schema_keep = true.
Proof. vm_compute. reflexivity. Qed.
Lemma plain_wf : wf_schema schema_plain = true.
Proof. vm_compute. reflexivity. Qed.

Theorem emitted_ops_match :
  ops_match schema_plain false emitted_plain /\ ops_match schema_keep true emitted_keep /\
  (0 < length emitted_plain)%nat /\ (0 < length emitted_keep)%nat.
Proof.
  split; [exact emitted_plain_match|]. split; [exact emitted_keep_match|].
  destruct table_nonempty as (H1 & H2 & H3 & H4). rewrite H2, H4. split; assumption.
Qed.

(* every emitted row of either configuration, normalised, is the prescription for its schema entry *)
Theorem emitted_row_is_prescribed : forall n r d,
  (nth_error emitted_plain n = Some r -> lookup schema_plain n = Some d -> norm_row r = presc_row schema_plain false d /\ names_ok r = true) /\
  (nth_error emitted_keep n = Some r -> lookup schema_keep n = Some d -> norm_row r = presc_row schema_keep true d /\ names_ok r = true).
Proof.
  intros n r d. split; intros Hr Hd.
  - exact (ops_match_row _ _ _ n r d emitted_plain_match Hr Hd).
  - exact (ops_match_row _ _ _ n r d emitted_keep_match Hr Hd).
Qed.

(* the decoder of a struct / of a union, in either configuration: variables, loop head, arms (id, TType guard, variable,
   Some-wrapping, read op, countdown), skip arm, retention statements, required checks, late defaults, construction *)
Theorem emitted_decode_arms : forall n r ck em S,
  (ck = false /\ em = emitted_plain /\ S = schema_plain) \/ (ck = true /\ em = emitted_keep /\ S = schema_keep) ->
  nth_error em n = Some r ->
  (forall fs keep ia, lookup S n = Some (DStruct fs keep ia) ->
     exists nm e eu s su d, r = EStruct nm e eu s su d /\ norm_ds d = presc_dstruct S ck fs keep ia) /\
  (forall vs vo keep, lookup S n = Some (DUnion vs vo keep) ->
     exists nm e eu s su d, r = EUnion nm e eu s su d /\ norm_du d = presc_dunion S ck vs vo keep).
Proof.
  intros n r ck em S Hc Hr.
  assert (Hrow : forall d, lookup S n = Some d -> norm_row r = presc_row S ck d).
  { intros d Hd. destruct (emitted_row_is_prescribed n r d) as [Hp Hk].
    destruct Hc as [(-> & -> & ->)|(-> & -> & ->)]; [exact (proj1 (Hp Hr Hd))|exact (proj1 (Hk Hr Hd))]. }
  split.
  - intros fs keep ia Hd. specialize (Hrow _ Hd). cbn [presc_row] in Hrow.
    destruct r as [|nm e eu s su d|nm e eu s su d|nm|nm e s d]; try discriminate Hrow.
    exists nm, e, eu, s, su, d. split; [reflexivity|]. cbn [norm_row] in Hrow.
    exact (f_equal (fun x => match x with EStruct _ _ _ _ _ y => y | _ => norm_ds d end) Hrow).
  - intros vs vo keep Hd. specialize (Hrow _ Hd). cbn [presc_row] in Hrow.
    destruct r as [|nm e eu s su d|nm e eu s su d|nm|nm e s d]; try discriminate Hrow.
    exists nm, e, eu, s, su, d. split; [reflexivity|]. cbn [norm_row] in Hrow.
    exact (f_equal (fun x => match x with EUnion _ _ _ _ _ y => y | _ => norm_du d end) Hrow).
Qed.

(* ---------- the chain for the corpus: the rows AS LOWERED from the text denote the model ---------- *)
Theorem emitted_encode_is_model : forall p k t v,
  (no_uu v = true -> den_enc emitted_plain p k (presc_vop schema_plain t) v = enc_ty schema_plain p k t v) /\
  den_enc emitted_keep p k (presc_vop schema_keep t) v = enc_ty schema_keep p k t v.
Proof.
  intros p k t v. split.
  - intros Hv. rewrite <- den_enc_norm, norm_presc_vop, (proj1 emitted_plain_match).
    exact (den_enc_presc schema_plain false p plain_void_variants_zero k v t (or_intror Hv)).
  - rewrite <- den_enc_norm, norm_presc_vop, (proj1 emitted_keep_match).
    exact (den_enc_presc schema_keep true p keep_void_variants_zero k v t (or_introl eq_refl)).
Qed.

Theorem emitted_size_is_model : forall p t v,
  (no_uu v = true -> den_size emitted_plain p (presc_vop schema_plain t) v = size_ty schema_plain p t v) /\
  den_size emitted_keep p (presc_vop schema_keep t) v = size_ty schema_keep p t v.
Proof.
  intros p t v. split.
  - intros Hv. rewrite <- den_size_norm, norm_presc_vop, (proj1 emitted_plain_match).
    exact (den_size_presc schema_plain false p plain_void_variants_zero v t (or_intror Hv)).
  - rewrite <- den_size_norm, norm_presc_vop, (proj1 emitted_keep_match).
    exact (den_size_presc schema_keep true p keep_void_variants_zero v t (or_introl eq_refl)).
Qed.

(* the decoders of the plain build: arbitrary bytes, every fuel *)
Theorem emitted_decode_is_model : forall p fuel t s,
  den_dec emitted_plain (dfl_of schema_plain) p fuel (presc_rop t) s = gen_decode schema_plain p fuel t s.
Proof.
  intros p fuel t s. rewrite <- den_dec_norm, norm_presc_rop, (proj1 emitted_plain_match).
  exact (den_dec_presc schema_plain p plain_void_variants_zero plain_wf fuel t s).
Qed.

(* ---------- decode_async ---------- *)
Theorem emitted_async_match :
  aops_match schema_plain false emitted_plain_async /\ aops_match schema_keep true emitted_keep_async /\
  length emitted_plain_async = length schema_plain /\ length emitted_keep_async = length schema_keep.
Proof. repeat split; vm_compute; reflexivity. Qed.

Lemma aops_match_row S ck em n r d :
  aops_match S ck em -> nth_error em n = Some r -> lookup S n = Some d -> norm_arow r = presc_arow S ck d.
Proof.
  intros Hm Hr Hd.
  assert (E : nth_error (map norm_arow em) n = Some (norm_arow r)) by (rewrite nth_error_map, Hr; reflexivity).
  rewrite Hm in E. rewrite nth_error_map in E. unfold lookup in Hd. rewrite Hd in E. cbn in E. injection E as E. symmetry. exact E.
Qed.

(* the async decoder of every struct / union of either configuration: the arms of the sync decoder read with .await, no
   length calls, no countdown, NO retention statement even where the sync decoder of the keep build has them *)
Theorem emitted_async_arms : forall n r ck em S,
  (ck = false /\ em = emitted_plain_async /\ S = schema_plain) \/ (ck = true /\ em = emitted_keep_async /\ S = schema_keep) ->
  nth_error em n = Some r ->
  (forall fs keep ia, lookup S n = Some (DStruct fs keep ia) ->
     exists d, r = AStruct d /\ norm_ds d = presc_dstruct_async S ck fs keep /\
               ds_unk d = false /\ ds_push d = false /\ ds_skip_all d = false /\ ds_count d = false) /\
  (forall vs vo keep, lookup S n = Some (DUnion vs vo keep) ->
     exists d, r = AUnion d /\ norm_du d = presc_dunion_async S vs vo /\ du_unknown d = false).
Proof.
  intros n r ck em S Hc Hr.
  assert (Hrow : forall d, lookup S n = Some d -> norm_arow r = presc_arow S ck d).
  { intros d Hd. destruct emitted_async_match as (Hp & Hk & _).
    destruct Hc as [(-> & -> & ->)|(-> & -> & ->)]; [exact (aops_match_row _ _ _ n r d Hp Hr Hd)|exact (aops_match_row _ _ _ n r d Hk Hr Hd)]. }
  split.
  - intros fs keep ia Hd. specialize (Hrow _ Hd). cbn [presc_arow] in Hrow.
    destruct r as [|d|d| |d]; try discriminate Hrow. cbn [norm_arow] in Hrow.
    assert (E : norm_ds d = presc_dstruct_async S ck fs keep) by (exact (f_equal (fun x => match x with AStruct y => y | _ => norm_ds d end) Hrow)).
    exists d. split; [reflexivity|]. split; [exact E|].
    repeat split.
    + exact (f_equal ds_unk E).
    + exact (f_equal ds_push E).
    + exact (f_equal ds_skip_all E).
    + exact (f_equal ds_count E).
  - intros vs vo keep Hd. specialize (Hrow _ Hd). cbn [presc_arow] in Hrow.
    destruct r as [|d|d| |d]; try discriminate Hrow. cbn [norm_arow] in Hrow.
    assert (E : norm_du d = presc_dunion_async S vs vo) by (exact (f_equal (fun x => match x with AUnion y => y | _ => norm_du d end) Hrow)).
    exists d. split; [reflexivity|]. split; [exact E|]. exact (f_equal du_unknown E).
Qed.
