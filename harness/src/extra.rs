//! Less used entry points (round 4): message envelopes in sequences on one protocol object (all four
//! protocols, in-memory and asynchronous readers), the hand-written Message impl of the runtime crate
//! (ApplicationException, also through the Box<M> / Arc<M> wrappers) with several size() / encode()
//! calls on ONE protocol object, ApplicationException::decode_async.
use std::sync::Arc;

use bytes::{Bytes, BytesMut};
use linkedbytes::LinkedBytes;
use pilota::thrift::{
    binary::{TAsyncBinaryProtocol, TBinaryProtocol},
    binary_le::{TAsyncBinaryProtocol as TAsyncBinaryLeProtocol, TBinaryProtocol as TBinaryLeProtocol},
    binary_unsafe::{TBinaryUnsafeInputProtocol, TBinaryUnsafeOutputProtocol},
    compact::{TAsyncCompactProtocol, TCompactInputProtocol, TCompactOutputProtocol},
    ApplicationException, ApplicationExceptionKind, Message, TAsyncInputProtocol, TInputProtocol,
    TLengthProtocol, TMessageIdentifier, TOutputProtocol, TStructIdentifier, TType, ThriftException,
};

use crate::asyncrd;
use crate::interp::{len_val, read_val, write_val, BinApi};
use crate::val::{hex, parse_val, show_val, ttype_code, unhex, TVal, Toks};
use crate::{linked_concat, mtype_of, parse_bk, parse_cuts, parse_pk, show_err, Bk, Pk};

fn ident(name: &[u8], mt: pilota::thrift::TMessageType, seq: i32) -> TMessageIdentifier {
    TMessageIdentifier::new(
        unsafe { faststr::FastStr::from_bytes_unchecked(Bytes::copy_from_slice(name)) },
        mt,
        seq,
    )
}

type Msg = (Vec<u8>, usize, i32, TVal);

fn write_msgs<P: TOutputProtocol>(p: &mut P, msgs: &[Msg]) -> Result<(), ThriftException> {
    for (name, mt, seq, v) in msgs {
        p.write_message_begin(&ident(name, mtype_of(*mt).unwrap(), *seq))?;
        write_val(p, v, BinApi::Bytes)?;
        p.write_message_end()?;
    }
    Ok(())
}

fn read_msgs<P: TInputProtocol>(p: &mut P, tys: &[u8]) -> Result<Vec<(TMessageIdentifier, TVal)>, ThriftException> {
    let mut out = Vec::new();
    for ty in tys {
        let m = p.read_message_begin()?;
        let v = read_val(p, *ty, BinApi::Bytes)?;
        p.read_message_end()?;
        out.push((m, v));
    }
    Ok(out)
}

async fn aread_msgs<P: TAsyncInputProtocol>(p: &mut P, tys: &[u8]) -> Result<Vec<(TMessageIdentifier, TVal)>, ThriftException> {
    let mut out = Vec::new();
    for ty in tys {
        let m = p.read_message_begin().await?;
        let v = asyncrd::aread_val(p, *ty, asyncrd::ABinApi::Bytes).await?;
        p.read_message_end().await?;
        out.push((m, v));
    }
    Ok(out)
}

fn show_msgs(out: &mut String, r: &[(TMessageIdentifier, TVal)]) {
    out.push_str(" R");
    for (m, v) in r {
        out.push_str(&format!(" {} {} {} ", hex(m.name.as_bytes()), m.message_type as u8, m.sequence_number));
        show_val(out, v);
    }
}

/// mrt <binary|binary_le|compact|unsafe> <contig|linked|linked_zc> <sync|async:sched> <rest hex> <n> (<name hex> <type> <seq> <value>)*n
///   n messages (envelope + value + message end) written back to back with ONE writer on one buffer and read back with ONE reader
///   -> W <hex> R (<name hex> <type> <seq> <value>)*n REM <k> | WERR <class> | W <hex> RERR <class>
pub fn suite_mrt(t: &mut Toks) -> Result<String, String> {
    let pks = t.next()?;
    let bk = parse_bk(t.next()?)?;
    let mode = t.next()?;
    let rest = unhex(t.next()?)?;
    let n = t.next_usize()?;
    let mut msgs: Vec<Msg> = Vec::new();
    for _ in 0..n {
        let name = unhex(t.next()?)?;
        let mt = t.next_usize()?;
        mtype_of(mt)?;
        let seq = t.next()?.parse::<i32>().map_err(|e| e.to_string())?;
        msgs.push((name, mt, seq, parse_val(t)?));
    }
    let tys: Vec<u8> = msgs.iter().map(|m| ttype_code(&m.3)).collect();
    let wr: Result<Vec<u8>, ThriftException> = if pks == "unsafe" {
        // the size the caller computes (checked binary lengths), a transport of exactly that size
        let size = {
            let mut b = BytesMut::new();
            let mut p = TBinaryProtocol::new(&mut b, false);
            msgs.iter()
                .map(|(name, mt, seq, v)| p.message_begin_len(&ident(name, mtype_of(*mt).unwrap(), *seq)) + len_val(&mut p, v) + p.message_end_len())
                .sum::<usize>()
        };
        match bk {
            Bk::Contig => {
                let mut buf = BytesMut::with_capacity(size);
                buf.resize(size, 0xEE);
                let window: &'static mut [u8] = unsafe { std::slice::from_raw_parts_mut(buf.as_mut_ptr(), buf.len()) };
                let mut p = unsafe { TBinaryUnsafeOutputProtocol::new(&mut buf, window, false) };
                let r = write_msgs(&mut p, &msgs);
                let idx = p.index();
                drop(p);
                r.map(|_| buf[..idx.min(buf.len())].to_vec())
            }
            Bk::Linked(z) => {
                let mut lb = LinkedBytes::with_capacity(size);
                let window: &'static mut [u8] = unsafe {
                    let l = lb.bytes_mut().len();
                    std::slice::from_raw_parts_mut(lb.bytes_mut().as_mut_ptr().add(l), lb.bytes_mut().capacity() - l)
                };
                let mut p = unsafe { TBinaryUnsafeOutputProtocol::new(&mut lb, window, z) };
                let r = write_msgs(&mut p, &msgs);
                let idx = p.index();
                drop(p);
                unsafe { bytes::BufMut::advance_mut(lb.bytes_mut(), idx) };
                r.map(|_| linked_concat(&mut lb))
            }
        }
    } else {
        let pk = parse_pk(pks)?;
        match bk {
            Bk::Contig => {
                let mut buf = BytesMut::new();
                let r = match pk {
                    Pk::Binary => write_msgs(&mut TBinaryProtocol::new(&mut buf, false), &msgs),
                    Pk::BinaryLe => write_msgs(&mut TBinaryLeProtocol::new(&mut buf, false), &msgs),
                    Pk::Compact => write_msgs(&mut TCompactOutputProtocol::new(&mut buf, false), &msgs),
                };
                r.map(|_| buf.to_vec())
            }
            Bk::Linked(z) => {
                let mut lb = LinkedBytes::new();
                let r = match pk {
                    Pk::Binary => write_msgs(&mut TBinaryProtocol::new(&mut lb, z), &msgs),
                    Pk::BinaryLe => write_msgs(&mut TBinaryLeProtocol::new(&mut lb, z), &msgs),
                    Pk::Compact => write_msgs(&mut TCompactOutputProtocol::new(&mut lb, z), &msgs),
                };
                r.map(|_| linked_concat(&mut lb))
            }
        }
    };
    let bytes = match wr {
        Err(e) => return Ok(format!("WERR {}", show_err(&e))),
        Ok(b) => b,
    };
    let mut out = format!("W {}", hex(&bytes));
    let mut input = bytes.clone();
    input.extend_from_slice(&rest);
    if pks == "unsafe" {
        let mut b = Bytes::copy_from_slice(&input);
        let total = b.len();
        let (r, idx) = {
            let mut p = unsafe { TBinaryUnsafeInputProtocol::new(&mut b) };
            let r = read_msgs(&mut p, &tys);
            (r, p.index())
        };
        match r {
            Err(e) => out.push_str(&format!(" RERR {}", show_err(&e))),
            Ok(ms) => {
                show_msgs(&mut out, &ms);
                let consumed = (total - b.len()) + idx;
                out.push_str(&format!(" REM {}", total as i64 - consumed as i64));
            }
        }
        return Ok(out);
    }
    let pk = parse_pk(pks)?;
    if mode == "sync" {
        let mut b = Bytes::copy_from_slice(&input);
        let r = match pk {
            Pk::Binary => read_msgs(&mut TBinaryProtocol::new(&mut b, false), &tys),
            Pk::BinaryLe => read_msgs(&mut TBinaryLeProtocol::new(&mut b, false), &tys),
            Pk::Compact => read_msgs(&mut TCompactInputProtocol::new(&mut b), &tys),
        };
        match r {
            Err(e) => out.push_str(&format!(" RERR {}", show_err(&e))),
            Ok(ms) => {
                show_msgs(&mut out, &ms);
                out.push_str(&format!(" REM {}", b.len()));
            }
        }
    } else {
        let sched = mode.strip_prefix("async:").unwrap_or("all");
        let (cuts, pend) = parse_cuts(sched, input.len())?;
        let mut rd = asyncrd::Scripted::new(input.clone(), cuts, pend);
        let budget = (input.len() + 16) * (pend + 2) * 8 + 100_000;
        macro_rules! go {
            ($p:expr) => {{
                let mut p = $p;
                asyncrd::block_on(async { aread_msgs(&mut p, &tys).await }, budget)
            }};
        }
        let r = match pk {
            Pk::Binary => go!(TAsyncBinaryProtocol::new(&mut rd)),
            Pk::BinaryLe => go!(TAsyncBinaryLeProtocol::new(&mut rd)),
            Pk::Compact => go!(TAsyncCompactProtocol::new(&mut rd)),
        };
        match r {
            None => out.push_str(" HANG"),
            Some(Err(e)) => out.push_str(&format!(" RERR {}", show_err(&e))),
            Some(Ok(ms)) => {
                show_msgs(&mut out, &ms);
                out.push_str(&format!(" REM {}", input.len() - rd.handed_out));
            }
        }
    }
    Ok(out)
}

trait Cur {
    fn cur(&self) -> usize;
}
impl Cur for BytesMut {
    fn cur(&self) -> usize {
        self.len()
    }
}
impl Cur for LinkedBytes {
    fn cur(&self) -> usize {
        self.bytes().len() + self.iter_list().map(|n| n.as_ref().len()).sum::<usize>()
    }
}

static OUTER: TStructIdentifier = TStructIdentifier { name: "Outer" };

enum Op {
    Size(Vec<u8>, i32),
    Encode(Vec<u8>, i32),
    Open(i16),
    Close,
}

fn app(msg: &[u8], kind: i32) -> ApplicationException {
    ApplicationException::new(ApplicationExceptionKind::from(kind), unsafe {
        faststr::FastStr::from_bytes_unchecked(Bytes::copy_from_slice(msg))
    })
}

fn run_ops<P: TOutputProtocol>(p: &mut P, ops: &[Op], wrap: &str, out: &mut String) -> Result<(), ThriftException>
where
    P::BufMut: Cur,
{
    for op in ops {
        let before = p.buf_mut().cur();
        match op {
            Op::Size(m, k) => {
                let x = app(m, *k);
                let n = match wrap {
                    "box" => Box::new(x).size(p),
                    "arc" => Arc::new(x).size(p),
                    _ => x.size(p),
                };
                out.push_str(&format!(" Z{n}"));
            }
            Op::Encode(m, k) => {
                let x = app(m, *k);
                match wrap {
                    "box" => Box::new(x).encode(p)?,
                    "arc" => Arc::new(x).encode(p)?,
                    _ => x.encode(p)?,
                }
                out.push_str(&format!(" E{}", p.buf_mut().cur() - before));
            }
            Op::Open(id) => {
                p.write_struct_begin(&OUTER)?;
                p.write_field_begin(TType::Struct, *id)?;
                out.push_str(&format!(" O{}", p.buf_mut().cur() - before));
            }
            Op::Close => {
                p.write_field_end()?;
                p.write_field_stop()?;
                p.write_struct_end()?;
                out.push_str(&format!(" C{}", p.buf_mut().cur() - before));
            }
        }
    }
    Ok(())
}

/// apps <pk> <bk> <plain|box|arc> <n> op*n     op = z <msg hex> <kind> | e <msg hex> <kind> | o <field id> | c
///   ApplicationException::size / ::encode (directly or through Box / Arc) called in the given order on ONE protocol
///   object; `o` opens an enclosing struct and a struct-typed field (the exception then sits in a non-trivial field-id
///   context), `c` closes it  ->  A Z<size> E<bytes written> O<bytes> C<bytes> ... W <hex> | ... ERR <class>
pub fn suite_apps(t: &mut Toks) -> Result<String, String> {
    let pk = parse_pk(t.next()?)?;
    let bk = parse_bk(t.next()?)?;
    let wrap = t.next()?;
    let n = t.next_usize()?;
    let mut ops = Vec::new();
    for _ in 0..n {
        match t.next()? {
            "z" => {
                let m = unhex(t.next()?)?;
                ops.push(Op::Size(m, t.next()?.parse::<i32>().map_err(|e| e.to_string())?));
            }
            "e" => {
                let m = unhex(t.next()?)?;
                ops.push(Op::Encode(m, t.next()?.parse::<i32>().map_err(|e| e.to_string())?));
            }
            "o" => ops.push(Op::Open(t.next()?.parse::<i16>().map_err(|e| e.to_string())?)),
            "c" => ops.push(Op::Close),
            s => return Err(format!("bad op {s}")),
        }
    }
    let mut out = String::from("A");
    let (r, bytes) = match bk {
        Bk::Contig => {
            let mut buf = BytesMut::new();
            let r = match pk {
                Pk::Binary => run_ops(&mut TBinaryProtocol::new(&mut buf, false), &ops, wrap, &mut out),
                Pk::BinaryLe => run_ops(&mut TBinaryLeProtocol::new(&mut buf, false), &ops, wrap, &mut out),
                Pk::Compact => run_ops(&mut TCompactOutputProtocol::new(&mut buf, false), &ops, wrap, &mut out),
            };
            (r, buf.to_vec())
        }
        Bk::Linked(z) => {
            let mut lb = LinkedBytes::new();
            let r = match pk {
                Pk::Binary => run_ops(&mut TBinaryProtocol::new(&mut lb, z), &ops, wrap, &mut out),
                Pk::BinaryLe => run_ops(&mut TBinaryLeProtocol::new(&mut lb, z), &ops, wrap, &mut out),
                Pk::Compact => run_ops(&mut TCompactOutputProtocol::new(&mut lb, z), &ops, wrap, &mut out),
            };
            (r, linked_concat(&mut lb))
        }
    };
    match r {
        Err(e) => out.push_str(&format!(" ERR {}", show_err(&e))),
        Ok(()) => out.push_str(&format!(" W {}", hex(&bytes))),
    }
    Ok(out)
}

fn show_app(r: Result<ApplicationException, ThriftException>, rem: usize) -> String {
    match r {
        Err(e) => show_err(&e),
        Ok(x) => format!("ok {} {} REM {}", hex(x.message().as_bytes()), x.kind().as_i32(), rem),
    }
}

/// the in-memory ApplicationException::decode through the Box / Arc wrappers as well (must agree)
pub fn app_decode_sync(pk: Pk, input: &[u8]) -> String {
    fn one<M: Message, F: Fn(M) -> ApplicationException>(pk: Pk, input: &[u8], f: F) -> String {
        let mut b = Bytes::copy_from_slice(input);
        let r = match pk {
            Pk::Binary => M::decode(&mut TBinaryProtocol::new(&mut b, false)),
            Pk::BinaryLe => M::decode(&mut TBinaryLeProtocol::new(&mut b, false)),
            Pk::Compact => M::decode(&mut TCompactInputProtocol::new(&mut b)),
        };
        show_app(r.map(f), b.len())
    }
    let a = one::<ApplicationException, _>(pk, input, |x| x);
    let b = one::<Box<ApplicationException>, _>(pk, input, |x| *x);
    let c = one::<Arc<ApplicationException>, _>(pk, input, |x| ApplicationException::new(x.kind(), x.message().clone()));
    let mut out = a.clone();
    if b != a || c != a {
        out.push_str(" ORACLE-FAIL decode-through-Box/Arc-differs");
    }
    out
}

/// aappr <pk> <hex> <schedule>  ->  ok <message hex> <kind> REM <k> | err <class> | HANG   (ApplicationException::decode_async)
pub fn suite_aappr(t: &mut Toks) -> Result<String, String> {
    let pk = parse_pk(t.next()?)?;
    let input = unhex(t.next()?)?;
    let (cuts, pend) = parse_cuts(t.next()?, input.len())?;
    let mut rd = asyncrd::Scripted::new(input.clone(), cuts, pend);
    let budget = (input.len() + 16) * (pend + 2) * 8 + 100_000;
    macro_rules! go {
        ($p:expr) => {{
            let mut p = $p;
            asyncrd::block_on(async { ApplicationException::decode_async(&mut p).await }, budget)
        }};
    }
    let r = match pk {
        Pk::Binary => go!(TAsyncBinaryProtocol::new(&mut rd)),
        Pk::BinaryLe => go!(TAsyncBinaryLeProtocol::new(&mut rd)),
        Pk::Compact => go!(TAsyncCompactProtocol::new(&mut rd)),
    };
    Ok(match r {
        None => "HANG".to_string(),
        Some(r) => show_app(r, input.len() - rd.handed_out),
    })
}
