(* C15, stage 2: paths and types (recursive: list / set / map to any depth), every layout.
   Proved for types without cpp_type clauses and without annotations ([simple_type]); the parser still tries both
   after every type, which is why the lemmas carry *follow conditions* (what the text after the type must not be
   mistaken for). *)
From PVIdl Require Import Comb Ast Parser Print Proofs.Total Proofs.RoundTok.
From Coq Require Import ZifyN ZifyNat ZifyBool.
From Coq Require String.
Import String.StringSyntax.
Open Scope nat_scope.

(* ---------- suffixes of printed text (fuel bookkeeping) ---------- *)
Lemma sfx_app_r r a k : sfx r k -> sfx r (a ++ k).
Proof. intros [p ->]. exists (a ++ p). now rewrite app_assoc. Qed.
Lemma sfx_cons_r r (b : byte) k : sfx r k -> sfx r (b :: k).
Proof. apply (sfx_app_r r [b]). Qed.
Lemma sfx_atom r a k : sfx r k -> sfx r (pr_atom a k).
Proof. destruct a; cbn [pr_atom]; intros H; repeat apply sfx_app_r; exact H. Qed.
Lemma sfx_blank r bl k : sfx r k -> sfx r (pr_blank bl k).
Proof. induction bl; cbn [pr_blank]; intros H; [exact H|]. apply sfx_atom. auto. Qed.
Lemma sfx_path_tail r t k : sfx r k -> sfx r (pr_path_tail t k).
Proof.
  induction t as [|[[b1 b2] s] t IH]; cbn [pr_path_tail]; intros H; [exact H|].
  apply sfx_blank, sfx_app_r, sfx_blank, sfx_app_r. auto.
Qed.
Lemma sfx_lit r l k : sfx r k -> sfx r (pr_lit l k).
Proof. intros H. unfold pr_lit. apply sfx_cons_r, sfx_app_r, sfx_cons_r, H. Qed.
Lemma sfx_sep r s k : sfx r k -> sfx r (pr_sep s k).
Proof. destruct s; cbn [pr_sep]; intros H; [exact H|]. apply sfx_cons_r, sfx_blank, H. Qed.
Lemma sfx_ann r a k : sfx r k -> sfx r (pr_ann a k).
Proof.
  intros H. unfold pr_ann. apply sfx_blank, sfx_app_r, sfx_blank, sfx_app_r, sfx_blank, sfx_lit, sfx_blank, sfx_sep, H.
Qed.
Lemma sfx_ann_list r l k : sfx r k -> sfx r (pr_ann_list l k).
Proof. induction l; cbn [pr_ann_list]; intros H; [exact H|]. apply sfx_ann. auto. Qed.
Lemma sfx_anns r l k : sfx r k -> sfx r (pr_anns l k).
Proof. intros H. unfold pr_anns. apply sfx_app_r, sfx_ann_list, sfx_app_r, H. Qed.
Lemma sfx_ocpp r c k : sfx r k -> sfx r (pr_ocpp c k).
Proof.
  destruct c as [c|]; cbn [pr_ocpp]; intros H; [|exact H]. unfold pr_cpp. apply sfx_blank, sfx_app_r, sfx_blank, sfx_lit, H.
Qed.
Lemma sfx_path r p k : sfx r k -> sfx r (pr_path p k).
Proof. intros H. unfold pr_path. apply sfx_app_r, sfx_path_tail, H. Qed.
#[export] Hint Resolve sfx_refl sfx_app_r sfx_cons_r sfx_blank sfx_path_tail sfx_lit sfx_sep sfx_anns sfx_ocpp sfx_path : sfxdb.

Fixpoint sfx_ty (t : cty) : forall r k, sfx r k -> sfx r (pr_ty t k)
with sfx_type (t : ctype) : forall r k, sfx r k -> sfx r (pr_type t k).
Proof.
  - destruct t; cbn [pr_ty]; intros r k H.
    + apply sfx_app_r, H.
    + apply sfx_app_r, sfx_blank, sfx_app_r, sfx_blank, sfx_type, sfx_blank, sfx_app_r, sfx_ocpp, H.
    + apply sfx_app_r, sfx_ocpp, sfx_blank, sfx_app_r, sfx_blank, sfx_type, sfx_blank, sfx_app_r, H.
    + apply sfx_app_r, sfx_ocpp, sfx_blank, sfx_app_r, sfx_blank, sfx_type, sfx_blank, sfx_cons_r, sfx_blank, sfx_type,
        sfx_blank, sfx_app_r, H.
    + apply sfx_path, H.
  - destruct t as [t [[bl a]|]]; cbn [pr_type]; intros r k H.
    + apply sfx_ty, sfx_blank, sfx_anns, H.
    + apply sfx_ty, H.
Qed.
#[export] Hint Resolve sfx_ty sfx_type : sfxdb.

(* deterministic: peel the printers of the enclosing text from the outside in *)
Ltac sfx_step :=
  first [ apply sfx_refl | apply sfx_app_r | apply sfx_cons_r | apply sfx_blank | apply sfx_type | apply sfx_ty
        | apply sfx_ocpp | apply sfx_path_tail | apply sfx_path | apply sfx_lit | apply sfx_sep | apply sfx_anns ].
Ltac sfx_of H := eapply sfx_trans; [|exact H]; repeat sfx_step.

Lemma sfx_lt lf whole t : length whole < lf -> sfx t whole -> length t < lf.
Proof. intros H S. apply sfx_len in S. lia. Qed.

Ltac sfx_of0 H := eapply sfx_trans; [|exact H]; auto 60 with sfxdb.

(* ---------- heads ---------- *)
Lemma blank_start_not_identch b : blank_start b = true -> identch b = false.
Proof. destruct b; vm_compute; intro H; try reflexivity; discriminate H. Qed.
Lemma blank_start_wordend b : blank_start b = true -> (N.ltb (bn b) 128 && negb (identch b)) = true.
Proof. destruct b; vm_compute; intro H; try reflexivity; discriminate H. Qed.
Lemma identhead_nb b : (is_alpha b || is_underscore b) = true -> blank_start b = false.
Proof. destruct b; vm_compute; intro H; try reflexivity; discriminate H. Qed.

Lemma ident_nb s k : is_ident s = true -> nb (s ++ k) = true.
Proof.
  destruct s as [|h t]; [discriminate|]. cbn [is_ident]. intros H. apply andb_prop in H. destruct H as [H _].
  cbn. now rewrite (identhead_nb h H).
Qed.

(* the head of [pr_blank bl k'] when bl is non-empty is a blank start; so every "next byte" condition that holds for
   blank starts and (when bl is empty) for k' holds for the whole *)
Lemma blank_then (f : byte -> bool) bl k' :
  wf_blank bl = true -> (forall b, blank_start b = true -> f b = true) -> (bl = [] -> hd_sat f k' = true) ->
  hd_sat f (pr_blank bl k') = true.
Proof.
  intros Hw Hf Hk. destruct bl as [|a bl]; [now apply Hk|].
  destruct (blank_head (a :: bl) k' Hw ltac:(discriminate)) as [b [r [-> Hb]]]. cbn. auto.
Qed.

(* ---------- paths ---------- *)
Definition pfollow (lf : nat) (k : list byte) : Prop :=
  hd_sat (fun b => negb (identch b)) k = true /\ is_perr (p_path_sep lf k).

Lemma dot_not_blank_start : blank_start x2e = false. Proof. reflexivity. Qed.

Section WithFuel.
Variable lf : nat.
Variable whole : list byte.
Hypothesis Hlf : length whole < lf.

Lemma oblank bl k : wf_blank bl = true -> nb k = true -> sfx (pr_blank bl k) whole ->
  exists o, opt (p_blank lf) (pr_blank bl k) = POk k o.
Proof. intros Hw Hk S. apply rt_oblank; auto. eapply sfx_lt; eauto. Qed.

Lemma path_tail_head t k : forallb (fun x => wf_blank (fst (fst x)) && wf_blank (snd (fst x)) && is_ident (snd x)) t = true ->
  hd_sat (fun b => negb (identch b)) k = true -> hd_sat (fun b => negb (identch b)) (pr_path_tail t k) = true.
Proof.
  intros Hw Hk. destruct t as [|[[b1 b2] s] t]; [exact Hk|]. cbn [pr_path_tail forallb fst snd] in *.
  apply andb_prop in Hw. destruct Hw as [Hw _]. apply andb_prop in Hw. destruct Hw as [Hw _]. apply andb_prop in Hw.
  destruct Hw as [Hw1 _]. apply blank_then; auto.
  - intros b Hb. now rewrite (blank_start_not_identch b Hb).
Qed.

Lemma path_loop : forall t k fuel,
  forallb (fun x => wf_blank (fst (fst x)) && wf_blank (snd (fst x)) && is_ident (snd x)) t = true ->
  pfollow lf k -> sfx (pr_path_tail t k) whole -> length (pr_path_tail t k) < fuel ->
  sep_loop fuel (p_path_sep lf) p_ident (pr_path_tail t k) = POk k (map (fun x => snd x) t).
Proof.
  induction t as [|[[b1 b2] s] t IH]; intros k fuel Hw [Hk1 Hk2] S Hf.
  - cbn [pr_path_tail map] in *. destruct fuel as [|f]; [lia|]. cbn [sep_loop].
    destruct (p_path_sep lf k); cbn in Hk2; try contradiction. reflexivity.
  - cbn [pr_path_tail forallb fst snd map] in *. apply andb_prop in Hw. destruct Hw as [Hw Hwt].
    apply andb_prop in Hw. destruct Hw as [Hw Hs]. apply andb_prop in Hw. destruct Hw as [Hw1 Hw2].
    destruct fuel as [|f]; [lia|]. cbn [sep_loop].
    set (rest := pr_path_tail t k) in *.
    assert (E : p_path_sep lf (pr_blank b1 (txt "." ++ pr_blank b2 (s ++ rest))) = POk (s ++ rest) tt).
    { unfold p_path_sep.
      destruct (oblank b1 (txt "." ++ pr_blank b2 (s ++ rest)) Hw1 eq_refl S) as [o1 ->]. cbn [pbind].
      change sym_path_dot with (txt "."). rewrite tag_ok. cbn [pbind].
      destruct (oblank b2 (s ++ rest) Hw2 (ident_nb s rest Hs) ltac:(sfx_of S)) as [o2 ->]. reflexivity. }
    rewrite E.
    assert (L : length (s ++ rest) < length (pr_blank b1 (txt "." ++ pr_blank b2 (s ++ rest)))).
    { assert (S1 : sfx (txt "." ++ pr_blank b2 (s ++ rest)) (pr_blank b1 (txt "." ++ pr_blank b2 (s ++ rest)))) by auto with sfxdb.
      assert (S2 : sfx (s ++ rest) (pr_blank b2 (s ++ rest))) by auto with sfxdb.
      apply sfx_len in S1, S2. change (txt "." ++ pr_blank b2 (s ++ rest)) with (x2e :: pr_blank b2 (s ++ rest)) in *.
      cbn [length] in S1. lia. }
    assert (SL : same_len (s ++ rest) (pr_blank b1 (txt "." ++ pr_blank b2 (s ++ rest))) = false).
    { destruct (same_len (s ++ rest) (pr_blank b1 (txt "." ++ pr_blank b2 (s ++ rest)))) eqn:E2; [|reflexivity].
      apply same_len_iff in E2. lia. }
    rewrite SL. rewrite (rt_ident s rest Hs (path_tail_head t k Hwt Hk1)).
    assert (S3 : sfx rest (s ++ rest)) by auto with sfxdb. apply sfx_len in S3.
    assert (S4 : sfx rest whole) by (sfx_of S).
    subst rest. rewrite (IH k f Hwt (conj Hk1 Hk2)); [reflexivity|exact S4|lia].
Qed.

Lemma rt_path p k : wf_path p = true -> pfollow lf k -> sfx (pr_path p k) whole ->
  p_path lf (pr_path p k) = POk k (erase_path p).
Proof.
  intros Hw Hk S. destruct p as [h t]. unfold wf_path, pr_path, erase_path in *. cbn [cp_head cp_tail] in *.
  apply andb_prop in Hw. destruct Hw as [Hh Ht]. unfold p_path, separated_list1.
  rewrite (rt_ident h (pr_path_tail t k) Hh (path_tail_head t k Ht (proj1 Hk))). cbn [pbind].
  rewrite (path_loop t k lf Ht Hk); [reflexivity|sfx_of S|]. eapply sfx_lt; [exact Hlf|sfx_of S].
Qed.

End WithFuel.

(* ---------- types ---------- *)
Fixpoint simple_ty (t : cty) : bool :=
  match t with
  | CTBase _ | CTPath _ => true
  | CTList _ _ inner _ cpp => simple_type inner && match cpp with None => true | Some _ => false end
  | CTSet cpp _ _ inner _ => simple_type inner && match cpp with None => true | Some _ => false end
  | CTMap cpp _ _ key _ _ _ value _ =>
    simple_type key && simple_type value && match cpp with None => true | Some _ => false end
  end
with simple_type (t : ctype) : bool :=
  match t with CType t None => simple_ty t | CType _ (Some _) => false end.

Fixpoint ty_depth (t : cty) : nat :=
  match t with
  | CTBase _ | CTPath _ => 0
  | CTList _ _ inner _ _ | CTSet _ _ _ inner _ => S (type_depth inner)
  | CTMap _ _ _ key _ _ _ value _ => S (Nat.max (type_depth key) (type_depth value))
  end
with type_depth (t : ctype) : nat := match t with CType t _ => ty_depth t end.

(* what follows a type: an optional blank and then something that is neither a cpp_type clause, nor a '.', nor an
   annotation list; if there is no blank and the type ends with a word, something that ends the word *)
Definition tyfollow (lf : nat) (ends_word : bool) (k : list byte) : Prop :=
  exists bl k', k = pr_blank bl k' /\ wf_blank bl = true /\ nb k' = true /\
    is_perr (p_cpp_type lf k') /\ is_perr (tag sym_path_dot k') /\ is_perr (p_annotations lf k') /\
    (bl = [] -> ends_word = true -> wordend k' = true).

Fixpoint mism (kw s : list byte) : bool :=
  match kw, s with
  | a :: kw', b :: s' => if Byte.eqb b a then mism kw' s' else true
  | _, _ => false
  end.

Lemma mism_strip kw : forall s k, mism kw s = true -> strip_prefix kw (s ++ k) = None.
Proof.
  induction kw as [|a kw IH]; intros s k H; [discriminate|]. destruct s as [|b s]; [discriminate|].
  cbn [mism] in H. cbn [app strip_prefix]. destruct (Byte.eqb b a); [auto|reflexivity].
Qed.

Lemma tag_mism kw s k : mism kw s = true -> is_perr (tag kw (s ++ k)).
Proof. intros H. unfold tag. now rewrite (mism_strip kw s k H). Qed.

Lemma base_err kw t s k : mism kw s = true -> is_perr (p_base_ty kw t (s ++ k)).
Proof. intros H. unfold p_base_ty, p_keyword. apply pbind_err, pbind_err, tag_mism, H. Qed.

Lemma base_ok kw t s k : kw = s -> wordend k = true -> p_base_ty kw t (s ++ k) = POk k t.
Proof. intros -> H. unfold p_base_ty. now rewrite rt_keyword. Qed.

Lemma base_ident_err kw t s k :
  forallb identch kw = true -> is_ident s = true -> hd_sat (fun b => negb (identch b)) k = true ->
  bytes_eq s kw = false -> is_perr (p_base_ty kw t (s ++ k)).
Proof. intros. unfold p_base_ty. apply pbind_err. now apply keyword_not_ident. Qed.

(* the alternatives of Ty::parse, named *)
Definition alt_list (lf : nat) (p_type : parser Type_) : parser Ty :=
  fun i => do i, _ <- tag kw_ty_list i ;; do i, _ <- opt (p_blank lf) i ;; do i, _ <- tag sym_list_lt i ;;
           do i, _ <- opt (p_blank lf) i ;; do i, inner <- p_type i ;; do i, _ <- opt (p_blank lf) i ;;
           do i, _ <- tag sym_list_gt i ;;
           do i, cpp <- opt (fun i => do i, _ <- p_blank lf i ;; p_cpp_type lf i) i ;; POk i (TList inner cpp).
Definition alt_set (lf : nat) (p_type : parser Type_) : parser Ty :=
  fun i => do i, _ <- tag kw_ty_set i ;; do i, cpp <- opt (fun i => do i, _ <- p_blank lf i ;; p_cpp_type lf i) i ;;
           do i, _ <- opt (p_blank lf) i ;; do i, _ <- tag sym_set_lt i ;; do i, _ <- opt (p_blank lf) i ;;
           do i, inner <- p_type i ;; do i, _ <- opt (p_blank lf) i ;; do i, _ <- tag sym_set_gt i ;; POk i (TSet inner cpp).
Definition alt_map (lf : nat) (p_type : parser Type_) : parser Ty :=
  fun i => do i, _ <- tag kw_ty_map i ;; do i, cpp <- opt (fun i => do i, _ <- p_blank lf i ;; p_cpp_type lf i) i ;;
           do i, _ <- opt (p_blank lf) i ;; do i, _ <- tag sym_map_lt i ;; do i, _ <- opt (p_blank lf) i ;;
           do i, k <- p_type i ;; do i, _ <- opt (p_blank lf) i ;; do i, _ <- p_list_separator lf i ;;
           do i, _ <- opt (p_blank lf) i ;; do i, v <- p_type i ;; do i, _ <- opt (p_blank lf) i ;;
           do i, _ <- tag sym_map_gt i ;; POk i (TMap k v cpp).

Definition base_alts : list (parser Ty) :=
  [ p_base_ty kw_ty_string TString; p_base_ty kw_ty_void TVoid; p_base_ty kw_ty_byte TByte; p_base_ty kw_ty_bool TBool;
    p_base_ty kw_ty_binary TBinary; p_base_ty kw_ty_i8 TI8; p_base_ty kw_ty_i16 TI16; p_base_ty kw_ty_i32 TI32;
    p_base_ty kw_ty_i64 TI64; p_base_ty kw_ty_double TDouble; p_base_ty kw_ty_uuid TUuid ].

Lemma p_ty_eq lf d i :
  p_ty lf (S d) i =
  alt (base_alts ++ [alt_list lf (p_type_of lf (p_ty lf d)); alt_set lf (p_type_of lf (p_ty lf d));
                     alt_map lf (p_type_of lf (p_ty lf d)); pmap TPath (p_path lf)]) i.
Proof. reflexivity. Qed.

Lemma alt_skip {A} (ps : list (parser A)) q qs i :
  Forall (fun p => is_perr (p i)) ps -> alt (ps ++ q :: qs) i = alt (q :: qs) i.
Proof.
  induction ps as [|p ps IH]; intros F; [reflexivity|]. inversion F; subst. cbn [app].
  destruct ps as [|p' ps']; cbn [app] in *; rewrite alt_err by assumption; auto.
Qed.

Lemma base_alts_err s k : Forall (fun kw => mism kw s = true)
    [kw_ty_string; kw_ty_void; kw_ty_byte; kw_ty_bool; kw_ty_binary; kw_ty_i8; kw_ty_i16; kw_ty_i32; kw_ty_i64;
     kw_ty_double; kw_ty_uuid] ->
  Forall (fun p : parser Ty => is_perr (p (s ++ k))) base_alts.
Proof.
  intros F. unfold base_alts.
  repeat (match goal with H : Forall _ (_ :: _) |- _ => inversion H; clear H; subst end).
  repeat apply Forall_cons; try apply Forall_nil; apply base_err; assumption.
Qed.

Section Types.
Variable lf : nat.
Variable whole : list byte.
Hypothesis Hlf : length whole < lf.

Lemma follow_wordend e k : tyfollow lf e k -> e = true -> wordend k = true.
Proof.
  intros [bl [k' [-> [Hw [Hn [_ [_ [_ Hwe]]]]]]]] He. apply blank_then; auto. apply blank_start_wordend.
Qed.

Lemma follow_nocpp e k : tyfollow lf e k -> sfx k whole ->
  opt (fun i => do i, _ <- p_blank lf i ;; p_cpp_type lf i) k = POk k None.
Proof.
  intros [bl [k' [-> [Hw [Hn [Hc _]]]]]] S. apply opt_err. destruct bl as [|a bl].
  - cbn [pr_blank]. apply pbind_err, blank_err, Hn.
  - rewrite (rt_blank lf (a :: bl) k' Hw ltac:(discriminate) Hn (sfx_lt lf whole _ Hlf S)). cbn [pbind]. exact Hc.
Qed.

Lemma follow_nodot e k : tyfollow lf e k -> sfx k whole -> is_perr (p_path_sep lf k).
Proof.
  intros [bl [k' [-> [Hw [Hn [_ [Hd _]]]]]]] S. unfold p_path_sep.
  destruct (oblank lf whole Hlf bl k' Hw Hn S) as [o ->]. cbn [pbind]. apply pbind_err, Hd.
Qed.

Lemma follow_noann e k : tyfollow lf e k -> sfx k whole ->
  opt (fun i => do i, pr <- permutation2 (opt (p_blank lf)) (p_annotations lf) i ;; POk i (snd pr)) k = POk k None.
Proof.
  intros [bl [k' [-> [Hw [Hn [_ [_ [Ha _]]]]]]]] S. apply opt_err, pbind_err. unfold permutation2.
  destruct (oblank lf whole Hlf bl k' Hw Hn S) as [o ->]. apply pbind_err, Ha.
Qed.

Lemma tyfollow_punct e bl c r : wf_blank bl = true -> (c = x3e \/ c = x2c \/ c = x3b \/ c = x3c) -> tyfollow lf e (pr_blank bl (c :: r)).
Proof.
  intros Hw Hc. exists bl, (c :: r). split; [reflexivity|]. split; [exact Hw|].
  destruct Hc as [->|[->|[->| ->]]]; repeat split; try reflexivity; try exact I;
    try (unfold p_cpp_type; apply pbind_err; exact I); try (unfold p_annotations; apply pbind_err; exact I).
Qed.

Lemma ty_head_nb t k : wf_ty t = true -> nb (pr_ty t k) = true.
Proof.
  destruct t as [b| | | |p]; cbn [pr_ty]; intros H; try reflexivity.
  - destruct b; reflexivity.
  - cbn [wf_ty] in H. apply andb_prop in H. destruct H as [H _]. unfold wf_path in H. apply andb_prop in H.
    destruct H as [H _]. unfold pr_path. now apply ident_nb.
Qed.

Lemma type_head_nb t k : wf_type t = true -> simple_type t = true -> nb (pr_type t k) = true.
Proof. destruct t as [t [a|]]; cbn [pr_type simple_type wf_type]; intros H S; [discriminate|]. now apply ty_head_nb. Qed.

(* a word that begins with list / set / map but is longer is not a container type *)
Lemma container_word_err {A} (kw : list byte) (rest : parser A) s k :
  forallb identch kw = true -> is_ident s = true -> hd_sat (fun b => negb (identch b)) k = true ->
  bytes_eq s kw = false ->
  (forall c r, identch c = true -> is_perr (rest (c :: r))) ->
  is_perr ((fun i => do i, _ <- tag kw i ;; rest i) (s ++ k)).
Proof.
  intros Hkw Hs Hk Hne Hrest. cbn beta. unfold tag. destruct (strip_prefix kw (s ++ k)) as [r|] eqn:E; [|exact I].
  destruct (strip_prefix_word kw s k r Hkw (ident_forall s Hs) Hk Hne E) as [c [r' [-> Hc]]]. cbn [pbind]. auto.
Qed.

Lemma identch_not_blank c r : identch c = true -> is_perr (p_blank lf (c :: r)).
Proof.
  intros H. apply blank_err. cbn. destruct (blank_start c) eqn:E; [|reflexivity].
  rewrite (blank_start_not_identch c E) in H. discriminate.
Qed.

Lemma identch_not_lt c r : identch c = true -> is_perr (tag [x3c] (c :: r)).
Proof. intros H. apply tag_hd_ne. destruct (Byte.eqb c x3c) eqn:E; [|reflexivity]. apply byte_dec_bl in E. subst. discriminate. Qed.

Lemma nb_sep semi x : nb (sep_byte semi :: x) = true.
Proof. destruct semi; reflexivity. Qed.

Ltac ob Hwf S :=
  match goal with |- context [opt (p_blank _) (pr_blank ?b ?k)] =>
    let o := fresh "o" in
    destruct (oblank lf whole Hlf b k Hwf
                ltac:(first [reflexivity | apply nb_sep | apply type_head_nb; assumption])
                ltac:(sfx_of S)) as [o ->]; cbn [pbind] end.

Lemma rt_ty : forall d t k,
  ty_depth t < d -> wf_ty t = true -> simple_ty t = true -> tyfollow lf (ty_ends_word t) k -> sfx (pr_ty t k) whole ->
  p_ty lf d (pr_ty t k) = POk k (erase_ty t).
Proof.
  induction d as [|d IH]; intros t k Hd Hw Hs Hf S; [lia|].
  (* the Type level, for the inner types *)
  assert (IHT : forall c r, type_depth c < d -> wf_type c = true -> simple_type c = true ->
            tyfollow lf (type_ends_word c) r -> sfx (pr_type c r) whole ->
            p_type_of lf (p_ty lf d) (pr_type c r) = POk r (erase_type c)).
  { intros [t' [a|]] r Hd' Hw' Hs' Hf' S'; cbn [simple_type] in Hs'; [discriminate|].
    cbn [pr_type wf_type type_depth type_ends_word erase_type] in *. unfold p_type_of.
    rewrite (IH t' r Hd' Hw' Hs' Hf' S'). cbn [pbind].
    rewrite (follow_noann _ r Hf') by (sfx_of S'). reflexivity. }
  rewrite p_ty_eq. destruct t as [b|b1 b2 inner b3 cpp|cpp b1 b2 inner b3|cpp b1 b2 key b3 semi b4 value b5|p].
  - (* base types *)
    cbn [pr_ty erase_ty ty_ends_word] in *. pose proof (follow_wordend _ k Hf eq_refl) as We.
    unfold base_alts. cbn [app].
    destruct b; cbn [base_kw base_ast];
      repeat (rewrite alt_err by (apply base_err; reflexivity));
      (apply alt_ok, base_ok; [reflexivity|exact We]).
  - (* list *)
    cbn [pr_ty erase_ty wf_ty simple_ty ty_depth] in *.
    repeat (apply andb_prop in Hw; destruct Hw as [Hw ?]).
    apply andb_prop in Hs. destruct Hs as [Hsi Hsc]. destruct cpp; [discriminate|]. cbn [pr_ocpp erase_ocpp option_map] in *.
    rewrite alt_skip by (apply base_alts_err; repeat apply Forall_cons; try apply Forall_nil; reflexivity).
    apply alt_ok. unfold alt_list.
    change kw_ty_list with (txt "list"). rewrite tag_ok. cbn [pbind].
    ob Hw S.
    change sym_list_lt with (txt "<"). rewrite tag_ok. cbn [pbind].
    ob H2 S.
    assert (F3 : tyfollow lf (type_ends_word inner) (pr_blank b3 (txt ">" ++ pr_ocpp None k)))
      by (apply (tyfollow_punct _ b3 x3e); [assumption|tauto]).
    cbn [pr_ocpp] in F3. rewrite (IHT inner _ ltac:(clear - Hd; lia) H1 Hsi F3 ltac:(sfx_of S)). cbn [pbind].
    ob H0 S.
    change sym_list_gt with (txt ">"). rewrite tag_ok. cbn [pbind].
    rewrite (follow_nocpp _ k Hf) by (sfx_of S). reflexivity.
  - (* set *)
    cbn [pr_ty erase_ty wf_ty simple_ty ty_depth] in *.
    repeat (apply andb_prop in Hw; destruct Hw as [Hw ?]).
    apply andb_prop in Hs. destruct Hs as [Hsi Hsc]. destruct cpp; [discriminate|]. cbn [pr_ocpp erase_ocpp option_map] in *.
    rewrite alt_skip by (apply base_alts_err; repeat apply Forall_cons; try apply Forall_nil; reflexivity).
    rewrite alt_err by (unfold alt_list; apply pbind_err; exact I).
    apply alt_ok. unfold alt_set.
    change kw_ty_set with (txt "set"). rewrite tag_ok. cbn [pbind].
    assert (Fl : tyfollow lf false (pr_blank b1 (txt "<" ++ pr_blank b2 (pr_type inner (pr_blank b3 (txt ">" ++ k))))))
      by (apply (tyfollow_punct _ b1 x3c); [assumption|tauto]).
    rewrite (follow_nocpp _ _ Fl) by (sfx_of S). cbn [pbind].
    ob H2 S.
    change sym_set_lt with (txt "<"). rewrite tag_ok. cbn [pbind].
    ob H1 S.
    assert (F3 : tyfollow lf (type_ends_word inner) (pr_blank b3 (txt ">" ++ k)))
      by (apply (tyfollow_punct _ b3 x3e); [assumption|tauto]).
    rewrite (IHT inner _ ltac:(clear - Hd; lia) H0 Hsi F3 ltac:(sfx_of S)). cbn [pbind].
    ob H S.
    change sym_set_gt with (txt ">"). rewrite tag_ok. reflexivity.
  - (* map *)
    cbn [pr_ty erase_ty wf_ty simple_ty ty_depth] in *.
    repeat (apply andb_prop in Hw; destruct Hw as [Hw ?]).
    apply andb_prop in Hs. destruct Hs as [Hs Hsc]. apply andb_prop in Hs. destruct Hs as [Hsk Hsv].
    destruct cpp; [discriminate|]. cbn [pr_ocpp erase_ocpp option_map] in *.
    rewrite alt_skip by (apply base_alts_err; repeat apply Forall_cons; try apply Forall_nil; reflexivity).
    rewrite alt_err by (unfold alt_list; apply pbind_err; exact I).
    rewrite alt_err by (unfold alt_set; apply pbind_err; exact I).
    apply alt_ok. unfold alt_map.
    change kw_ty_map with (txt "map"). rewrite tag_ok. cbn [pbind].
    match goal with |- context [opt (fun i => do i0, _ <- p_blank lf i;; p_cpp_type lf i0) ?X] =>
      assert (Fl : tyfollow lf false X) by (apply (tyfollow_punct _ b1 x3c); [assumption|tauto]) end.
    rewrite (follow_nocpp _ _ Fl) by (sfx_of S). cbn [pbind].
    ob H5 S.
    change sym_map_lt with (txt "<"). rewrite tag_ok. cbn [pbind].
    ob H4 S.
    assert (Fk : tyfollow lf (type_ends_word key) (pr_blank b3 (sep_byte semi :: pr_blank b4 (pr_type value (pr_blank b5 (txt ">" ++ k)))))).
    { apply tyfollow_punct; [assumption|]. destruct semi; cbn [sep_byte]; tauto. }
    assert (Dk : type_depth key < d) by (clear - Hd; lia). assert (Dv : type_depth value < d) by (clear - Hd; lia).
    assert (Sk : sfx (pr_type key (pr_blank b3 (sep_byte semi :: pr_blank b4 (pr_type value (pr_blank b5 (txt ">" ++ k)))))) whole) by (sfx_of S).
    assert (Sv : sfx (pr_type value (pr_blank b5 (txt ">" ++ k))) whole) by (sfx_of S).
    pose proof (IHT key _ Dk H3 Hsk Fk Sk) as Ek. rewrite Ek. cbn [pbind].
    ob H2 S.
    unfold p_list_separator. cbn [one_of].
    assert (M : bmem (sep_byte semi) set_list_separator = true) by (destruct semi; reflexivity). rewrite M. cbn [pbind].
    ob H1 S.
    rewrite (opt_err (p_blank lf)) by (apply blank_err, (type_head_nb value _ H0 Hsv)). cbn [pbind].
    assert (F5 : tyfollow lf (type_ends_word value) (pr_blank b5 (txt ">" ++ k)))
      by (apply (tyfollow_punct _ b5 x3e); [assumption|tauto]).
    pose proof (IHT value _ Dv H0 Hsv F5 Sv) as Ev. rewrite Ev. cbn [pbind].
    ob H S.
    change sym_map_gt with (txt ">"). rewrite tag_ok. reflexivity.
  - (* path *)
    cbn [pr_ty erase_ty wf_ty] in *. apply andb_prop in Hw. destruct Hw as [Hwp Hnw].
    pose proof Hwp as Hwp'. unfold wf_path in Hwp'. apply andb_prop in Hwp'. destruct Hwp' as [Hh Ht].
    destruct p as [h tl]. cbn [cp_head cp_tail] in *. unfold pr_path in *. cbn [cp_head cp_tail] in *.
    assert (Hk1 : hd_sat (fun b => negb (identch b)) k = true).
    { apply wordend_identch, (follow_wordend _ k Hf eq_refl). }
    pose proof (path_tail_head tl k Ht Hk1) as Hrest.
    apply negb_true_iff in Hnw. cbn [bytes_in type_words] in Hnw.
    repeat (apply orb_false_elim in Hnw; destruct Hnw as [? Hnw]).
    rewrite alt_skip.
    2:{ unfold base_alts. repeat apply Forall_cons; try apply Forall_nil;
          (apply base_ident_err; [reflexivity|exact Hh|exact Hrest|assumption]). }
    rewrite alt_err.
    2:{ apply (container_word_err kw_ty_list _ h _ eq_refl Hh Hrest); [assumption|]. intros c r Hc.
        rewrite (opt_err (p_blank lf)) by (now apply identch_not_blank). cbn [pbind]. apply pbind_err.
        change sym_list_lt with [x3c]. now apply identch_not_lt. }
    rewrite alt_err.
    2:{ apply (container_word_err kw_ty_set _ h _ eq_refl Hh Hrest); [assumption|]. intros c r Hc.
        rewrite opt_err by (apply pbind_err; now apply identch_not_blank). cbn [pbind].
        rewrite (opt_err (p_blank lf)) by (now apply identch_not_blank). cbn [pbind]. apply pbind_err.
        change sym_set_lt with [x3c]. now apply identch_not_lt. }
    rewrite alt_err.
    2:{ apply (container_word_err kw_ty_map _ h _ eq_refl Hh Hrest); [assumption|]. intros c r Hc.
        rewrite opt_err by (apply pbind_err; now apply identch_not_blank). cbn [pbind].
        rewrite (opt_err (p_blank lf)) by (now apply identch_not_blank). cbn [pbind]. apply pbind_err.
        change sym_map_lt with [x3c]. now apply identch_not_lt. }
    cbn [alt]. unfold pmap. change (h ++ pr_path_tail tl k) with (pr_path (mkCPath h tl) k).
    rewrite (rt_path lf whole Hlf (mkCPath h tl) k Hwp (conj Hk1 (follow_nodot _ k Hf ltac:(sfx_of S))) S). reflexivity.
Qed.

(* Type::parse inverts the printing of every simple type under every layout *)
Theorem rt_type : forall df t k,
  type_depth t < df -> wf_type t = true -> simple_type t = true -> tyfollow lf (type_ends_word t) k ->
  sfx (pr_type t k) whole ->
  p_type lf df (pr_type t k) = POk k (erase_type t).
Proof.
  intros df [t [a|]] k Hd Hw Hs Hf S; cbn [simple_type] in Hs; [discriminate|].
  cbn [pr_type wf_type type_depth type_ends_word erase_type] in *. unfold p_type, p_type_of.
  rewrite (rt_ty df t k Hd Hw Hs Hf S). cbn [pbind].
  rewrite (follow_noann _ k Hf) by (sfx_of S). reflexivity.
Qed.

End Types.

(* layout independence for types: two layouts of the same type parse to the same tree *)
Corollary type_layout_free lf whole1 whole2 df t1 t2 k1 k2 :
  length whole1 < lf -> length whole2 < lf ->
  type_depth t1 < df -> wf_type t1 = true -> simple_type t1 = true -> tyfollow lf (type_ends_word t1) k1 -> sfx (pr_type t1 k1) whole1 ->
  type_depth t2 < df -> wf_type t2 = true -> simple_type t2 = true -> tyfollow lf (type_ends_word t2) k2 -> sfx (pr_type t2 k2) whole2 ->
  erase_type t1 = erase_type t2 ->
  exists a, p_type lf df (pr_type t1 k1) = POk k1 a /\ p_type lf df (pr_type t2 k2) = POk k2 a.
Proof.
  intros L1 L2 D1 W1 S1 F1 X1 D2 W2 S2 F2 X2 E. exists (erase_type t1). split.
  - exact (rt_type lf whole1 L1 df t1 k1 D1 W1 S1 F1 X1).
  - rewrite E. exact (rt_type lf whole2 L2 df t2 k2 D2 W2 S2 F2 X2).
Qed.

(* non-vacuity: map /*c*/ < listing , list<i32x>#h\n > followed by " x" -- a keyword-prefixed path, all three
   comment styles of blank; the hypotheses of rt_type hold and the parser returns the erased tree *)
Example rt_type_example :
  let t := CType (CTMap None [BBlock (txt "c")] [BWs (txt " ")]
                   (CType (CTPath (mkCPath (txt "listing") [])) None) [BWs (txt " ")] false []
                   (CType (CTList [] [] (CType (CTPath (mkCPath (txt "i32x") [([], [BLine (txt "d"); BWs [x0a]], txt "optionalFoo")])) None) [] None) None)
                   [BHash (txt "h"); BWs [x0a]]) None in
  let k := txt " x" in
  wf_type t = true /\ simple_type t = true /\ type_depth t = 2 /\
  p_type 100 3 (pr_type t k) = POk k (erase_type t) /\
  erase_type t = MkType (TMap (MkType (TPath [txt "listing"]) [])
                              (MkType (TList (MkType (TPath [txt "i32x"; txt "optionalFoo"]) []) None) []) None) [].
Proof. vm_compute. repeat split. Qed.
