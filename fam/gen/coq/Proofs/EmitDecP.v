(* The decoder rows the template model prescribes for a build WITHOUT retention denote Gen.gen_decode:
     den_dec (presc_tbl S false) (dfl_of S) p fuel (presc_rop t) s = gen_decode S p fuel t s
   for every schema, protocol, fuel, declared type and reader state (arbitrary bytes). *)
From Coq Require Import String Lia.
From PVGen Require Import Gen GenSpec EmitOps EmitDen Proofs.GenBase Proofs.EmitOpsP.
Open Scope Z_scope.

(* the default VALUES come from the schema (the default expressions are not lowered; C20) *)
Definition dfl_of (S : schema) (n i : nat) : option gval :=
  match lookup S n with
  | Some (DStruct fs _ _) => match nth_error fs i with Some f => option_map snd (f_dflt f) | None => None end
  | _ => None
  end.

Section DecPresc.
  Variable S : schema.
  Variable p : pk.
  Hypothesis Hvz : void_variants_zero S = true.
  Notation T := (presc_tbl S false).

  Lemma unbox_presc t : unbox (presc_rop t) = presc_rop t.
  Proof. destruct t; reflexivity. Qed.
  Lemma rres_presc : forall f t, rres T f (presc_rop t) = presc_rop (resolve_n S f t).
  Proof.
    induction f as [|f IH]; intros t; [apply unbox_presc|]. destruct t; try reflexivity.
    cbn [presc_rop rres unbox resolve_n]. rewrite row_presc. destruct (lookup S n) as [[| | |t']|]; try reflexivity.
    cbn [presc_row]. apply IH.
  Qed.
  Lemma rres_res t : rres T (vfuel T) (presc_rop t) = presc_rop (resolve S t).
  Proof. unfold vfuel, presc_tbl, resolve. rewrite map_length. apply rres_presc. Qed.

  (* ---------- the arms ---------- *)
  Definition parm (q : nat * field) : darm :=
    mkArm (f_id (snd q)) (ttype_of_ty S (f_ty (snd q))) (fst q) (is_opt (snd q) || negb (const_dflt (snd q)))%bool
          (presc_rop (f_ty (snd q))) false.

  Lemma find_arm_presc : forall fs i id ft,
    find_arm (map parm (indexed i fs)) id ft = option_map (fun q => parm q) (match_field S fs i id ft).
  Proof.
    induction fs as [|f r IH]; intros i id ft; [reflexivity|]. cbn [indexed map find_arm match_field].
    destruct id as [z|]; [|reflexivity]. cbn [parm da_id da_tt fst snd].
    destruct ((f_id f =? z) && ttype_eqb (ttype_of_ty S (f_ty f)) ft)%bool; [reflexivity|]. apply IH.
  Qed.

  Lemma arm_of_var_presc : forall fs k i,
    arm_of_var (map parm (indexed k fs)) i =
    if Nat.leb k i then option_map f_id (nth_error fs (i - k)) else None.
  Proof.
    induction fs as [|f r IH]; intros k i.
    - cbn. destruct (Nat.leb k i); [|reflexivity]. destruct (i - k)%nat; reflexivity.
    - cbn [indexed map arm_of_var parm da_var da_id fst snd]. destruct (Nat.eqb k i) eqn:E.
      + apply PeanoNat.Nat.eqb_eq in E. subst i. rewrite PeanoNat.Nat.leb_refl, PeanoNat.Nat.sub_diag. reflexivity.
      + apply PeanoNat.Nat.eqb_neq in E. rewrite IH. destruct (Nat.leb k i) eqn:L.
        * apply PeanoNat.Nat.leb_le in L. assert (L' : Nat.leb (Datatypes.S k) i = true) by (apply PeanoNat.Nat.leb_le; lia).
          rewrite L'. replace (i - k)%nat with (Datatypes.S (i - Datatypes.S k)) by lia. reflexivity.
        * apply PeanoNat.Nat.leb_gt in L. assert (L' : Nat.leb (Datatypes.S k) i = false) by (apply PeanoNat.Nat.leb_gt; lia).
          rewrite L'. reflexivity.
  Qed.

  Lemma required_presc : forall fs k i,
    existsb (Nat.eqb i) (map fst (filter (fun q : nat * field => (negb (is_opt (snd q)) && no_dflt (snd q))%bool) (indexed k fs))) =
    if Nat.leb k i then match nth_error fs (i - k) with Some f => (negb (is_opt f) && no_dflt f)%bool | None => false end else false.
  Proof.
    induction fs as [|f r IH]; intros k i.
    - cbn. destruct (Nat.leb k i); [|reflexivity]. destruct (i - k)%nat; reflexivity.
    - cbn [indexed filter snd]. destruct (Nat.eqb i k) eqn:E.
      + apply PeanoNat.Nat.eqb_eq in E. subst i. rewrite PeanoNat.Nat.leb_refl, PeanoNat.Nat.sub_diag. cbn [nth_error].
        destruct (negb (is_opt f) && no_dflt f)%bool eqn:P.
        * cbn [map fst existsb]. rewrite PeanoNat.Nat.eqb_refl. reflexivity.
        * rewrite IH. assert (L' : Nat.leb (Datatypes.S k) k = false) by (apply PeanoNat.Nat.leb_gt; lia). rewrite L'. reflexivity.
      + pose proof E as En. apply PeanoNat.Nat.eqb_neq in En.
        assert (R : existsb (Nat.eqb i) (map fst (filter (fun q : nat * field => (negb (is_opt (snd q)) && no_dflt (snd q))%bool)
                                                         (indexed (Datatypes.S k) r))) =
                    (if Nat.leb k i then match nth_error (f :: r) (i - k) with Some f0 => (negb (is_opt f0) && no_dflt f0)%bool | None => false end else false)).
        { rewrite IH. destruct (Nat.leb k i) eqn:L.
          - apply PeanoNat.Nat.leb_le in L. assert (L' : Nat.leb (Datatypes.S k) i = true) by (apply PeanoNat.Nat.leb_le; lia).
            rewrite L'. replace (i - k)%nat with (Datatypes.S (i - Datatypes.S k)) by lia. reflexivity.
          - apply PeanoNat.Nat.leb_gt in L. assert (L' : Nat.leb (Datatypes.S k) i = false) by (apply PeanoNat.Nat.leb_gt; lia).
            rewrite L'. reflexivity. }
        destruct (negb (is_opt f) && no_dflt f)%bool; [|exact R].
        cbn [map fst existsb]. rewrite E. cbn [orb]. exact R.
  Qed.

  (* ---------- the loops ---------- *)
  Section Loops.
    Variable fk : nat.
    Variable recd : rop -> rst -> res (gval * rst).
    Variable recg : ty -> rst -> res (gval * rst).
    Hypothesis Hrec : forall t s, recd (presc_rop t) s = recg t s.

    Lemma dd_elems_presc : forall m et n s acc,
      dd_elems recd m (presc_rop et) n s acc = dec_elems recg m et n s acc.
    Proof.
      induction m as [|m IH]; intros et n s acc; cbn [dd_elems dec_elems]; destruct (n <=? 0); try reflexivity.
      rewrite Hrec. destruct (recg et s) as [[x s1]| |]; cbn [bind]; try reflexivity. apply IH.
    Qed.

    Lemma dd_pairs_presc : forall m kt vt n s acc,
      dd_pairs recd m (presc_rop kt) (presc_rop vt) n s acc = dec_pairs recg m kt vt n s acc.
    Proof.
      induction m as [|m IH]; intros kt vt n s acc; cbn [dd_pairs dec_pairs]; destruct (n <=? 0); try reflexivity.
      rewrite Hrec. destruct (recg kt s) as [[a s1]| |]; cbn [bind]; try reflexivity.
      rewrite Hrec. destruct (recg vt s1) as [[b s2]| |]; cbn [bind]; try reflexivity. apply IH.
    Qed.

    Lemma dd_fields_presc fs keep ia : forall m vars s,
      dd_fields p fk recd m (presc_dstruct S false fs keep ia) vars s = dec_fields S p fk recg m fs vars s.
    Proof.
      induction m as [|m IH]; intros vars s; [reflexivity|]. cbn [dd_fields dec_fields].
      destruct (r_field_begin p s) as [[h s1]| |]; cbn [bind]; try reflexivity.
      destruct (ttype_eqb (fst h) TStop); [reflexivity|].
      cbn [presc_dstruct andb lf ds_begin_len ds_stop_len ds_end_len ds_arms ds_skip len_form0].
      destruct (r_field_begin_len p (fst h) (snd h) s1) as [[z s2]| |]; cbn [bind]; try reflexivity.
      change (map (fun q : nat * field => mkArm (f_id (snd q)) (ttype_of_ty S (f_ty (snd q))) (fst q)
                                              (is_opt (snd q) || negb (const_dflt (snd q)))%bool (presc_rop (f_ty (snd q))) false)
                  (indexed 0 fs)) with (map parm (indexed 0 fs)).
      rewrite find_arm_presc. destruct (match_field S fs 0 (snd h) (fst h)) as [[i f]|]; cbn [option_map].
      - cbn [parm da_read da_var fst snd]. rewrite Hrec. destruct (recg (f_ty f) s2) as [[x s3]| |]; cbn [bind]; try reflexivity.
        destruct (r_field_end_len p s3) as [[z' s4]| |]; cbn [bind]; try reflexivity. apply IH.
      - destruct (skip p fk (fst h) s2) as [[z' s3]| |]; cbn [bind]; try reflexivity.
        destruct (r_field_end_len p s3) as [[z'' s4]| |]; cbn [bind]; try reflexivity. apply IH.
    Qed.
    (* ---------- the union loop ---------- *)
    Definition puarm (q : Z * ty) : uarm := mkUArm (fst q) EmptyString (presc_rop (snd q)) LCall (Some (presc_vop S (snd q))).
    Definition nonvoid (q : Z * ty) : bool := negb (is_void (resolve S (snd q))).

    Lemma find_uarm_absent : forall vs id, existsb (Z.eqb id) (map fst vs) = false ->
      find_uarm (map puarm (filter nonvoid vs)) id = None.
    Proof.
      induction vs as [|[i t] r IH]; intros id H; [reflexivity|]. cbn [map fst existsb] in H.
      apply Bool.orb_false_iff in H as [H1 H2]. cbn [filter]. destruct (nonvoid (i, t)); [|exact (IH id H2)].
      cbn [map find_uarm puarm ua_id fst]. rewrite Z.eqb_sym, H1. exact (IH id H2).
    Qed.

    Lemma find_uarm_presc : forall vs id, nodup_ids (map fst vs) = true ->
      find_uarm (map puarm (filter nonvoid vs)) id =
      match find_variant vs id with
      | Some vt => if is_void (resolve S vt) then None else Some (puarm (id, vt))
      | None => None
      end.
    Proof.
      induction vs as [|[i t] r IH]; intros id Hn; [reflexivity|]. cbn [map fst nodup_ids] in Hn.
      apply andb_prop in Hn as [H1 H2]. apply Bool.negb_true_iff in H1. cbn [find_variant filter].
      destruct (i =? id) eqn:E.
      - apply Z.eqb_eq in E. subst i. unfold nonvoid at 1. cbn [snd]. destruct (is_void (resolve S t)); cbn [negb].
        + exact (find_uarm_absent r id H1).
        + cbn [map find_uarm puarm ua_id fst]. rewrite Z.eqb_refl. reflexivity.
      - destruct (nonvoid (i, t)); [|exact (IH id H2)].
        cbn [map find_uarm puarm ua_id fst]. rewrite E. exact (IH id H2).
    Qed.

    Lemma dd_variants_presc vs vo keep : nodup_ids (map fst vs) = true -> forall m ret s,
      dd_variants p fk recd m (presc_dunion S false vs vo keep) ret s = dec_variants S p fk recg m vs ret s.
    Proof.
      intros Hn. induction m as [|m IH]; intros ret s; [reflexivity|]. cbn [dd_variants dec_variants].
      destruct (r_field_begin p s) as [[h s1]| |]; cbn [bind]; try reflexivity.
      destruct (ttype_eqb (fst h) TStop); [reflexivity|].
      cbn [presc_dunion andb lf du_begin_len du_stop_len du_arms du_skip len_form0].
      destruct (r_field_begin_len p (fst h) (snd h) s1) as [[z s2]| |]; cbn [bind]; try reflexivity.
      change (map (fun q : Z * ty => mkUArm (fst q) EmptyString (presc_rop (snd q)) LCall (Some (presc_vop S (snd q))))
                  (filter (fun q : Z * ty => negb (is_void (resolve S (snd q)))) vs)) with (map puarm (filter nonvoid vs)).
      destruct (snd h) as [id|].
      - rewrite (find_uarm_presc vs id Hn). destruct (find_variant vs id) as [vt|].
        + destruct (is_void (resolve S vt)).
          * destruct (skip p fk (fst h) s2) as [[z' s3]| |]; cbn [bind]; try reflexivity. apply IH.
          * cbn [puarm ua_read ua_id fst snd]. destruct ret; [reflexivity|]. rewrite Hrec.
            destruct (recg vt s2) as [[x s3]| |]; cbn [bind]; try reflexivity. apply IH.
        + destruct (skip p fk (fst h) s2) as [[z' s3]| |]; cbn [bind]; try reflexivity. apply IH.
      - destruct (skip p fk (fst h) s2) as [[z' s3]| |]; cbn [bind]; try reflexivity. apply IH.
    Qed.
  End Loops.

  (* ---------- before and after the struct loop ---------- *)
  Lemma nth_skipn {A} : forall k (l : list A), nth_error l k = match skipn k l with [] => None | v :: _ => Some v end.
  Proof. induction k as [|k IH]; intros [|a l]; try reflexivity. cbn [nth_error skipn]. apply IH. Qed.
  Lemma skipn_S {A} : forall k (l : list A), skipn (Datatypes.S k) l = tl (skipn k l).
  Proof. induction k as [|k IH]; intros [|a l]; try reflexivity. cbn [skipn]. rewrite <- IH. reflexivity. Qed.

  Section Struct.
    Variable n : nat.
    Variable fs : list field.
    Variable keep ia : bool.
    Hypothesis Hl : lookup S n = Some (DStruct fs keep ia).

    Lemma dfl_of_at k f : nth_error fs k = Some f -> dfl_of S n k = option_map snd (f_dflt f).
    Proof. intros H. unfold dfl_of. rewrite Hl, H. reflexivity. Qed.

    Lemma init_vars_presc : forall r k, (forall j, nth_error r j = nth_error fs (k + j)) ->
      init_vars (dfl_of S) n k (map (fun f => if const_dflt f then IConst (is_opt f) else INone) r) = map init_var r.
    Proof.
      induction r as [|f r IH]; intros k H; [reflexivity|]. cbn [map].
      assert (Hk : nth_error fs k = Some f) by (rewrite <- (PeanoNat.Nat.add_0_r k); rewrite <- H; reflexivity).
      assert (Hr : forall j, nth_error r j = nth_error fs (Datatypes.S k + j)).
      { intros j. replace (Datatypes.S k + j)%nat with (k + Datatypes.S j)%nat by lia. exact (H (Datatypes.S j)). }
      unfold const_dflt at 1, init_var at 1. destruct (f_dflt f) as [[[|] d]|] eqn:D; cbn [init_vars]; rewrite (IH _ Hr); try reflexivity.
      rewrite (dfl_of_at k f Hk), D. reflexivity.
    Qed.

    Lemma dd_finish_presc vars : forall r k, (forall j, nth_error r j = nth_error fs (k + j)) ->
      dd_finish (dfl_of S) n (presc_dstruct S false fs keep ia) (map (fun q : nat * field => (EmptyString, fst q)) (indexed k r)) vars
      = finish_fields r (skipn k vars).
    Proof.
      induction r as [|f r IH]; intros k H; [reflexivity|]. cbn [indexed map dd_finish fst].
      assert (Hk : nth_error fs k = Some f) by (rewrite <- (PeanoNat.Nat.add_0_r k); rewrite <- H; reflexivity).
      assert (Hr : forall j, nth_error r j = nth_error fs (Datatypes.S k + j)).
      { intros j. replace (Datatypes.S k + j)%nat with (k + Datatypes.S j)%nat by lia. exact (H (Datatypes.S j)). }
      rewrite (nth_skipn k vars). specialize (IH (Datatypes.S k) Hr). rewrite skipn_S in IH.
      destruct (skipn k vars) as [|v vt]; [reflexivity|]. cbn [tl] in IH. cbn [finish_fields].
      cbn [presc_dstruct ds_arms].
      change (map (fun q : nat * field => mkArm (f_id (snd q)) (ttype_of_ty S (f_ty (snd q))) (fst q)
                                              (is_opt (snd q) || negb (const_dflt (snd q)))%bool (presc_rop (f_ty (snd q))) (false && keep && ia))
                  (indexed 0 fs)) with (map parm (indexed 0 fs)).
      rewrite arm_of_var_presc. cbn [Nat.leb]. rewrite PeanoNat.Nat.sub_0_r, Hk. cbn [option_map].
      change (dd_finish (dfl_of S) n (presc_dstruct S false fs keep ia)
                        (map (fun q : nat * field => (EmptyString, fst q)) (indexed (Datatypes.S k) r)) vars) with
             (dd_finish (dfl_of S) n (presc_dstruct S false fs keep ia)
                        (map (fun q : nat * field => (EmptyString, fst q)) (indexed (Datatypes.S k) r)) vars) in IH.
      match goal with |- context [dd_finish ?a ?b ?c ?d ?e] => replace (dd_finish a b c d e) with (finish_fields r vt) by (symmetry; exact IH) end.
      destruct (finish_fields r vt) as [rest| |]; cbn [bind]; try reflexivity.
      destruct v as [x|]; [reflexivity|].
      rewrite (dfl_of_at k f Hk). destruct (f_dflt f) as [[c d]|] eqn:D; cbn [option_map snd]; [reflexivity|].
      unfold presc_dstruct. cbn [ds_required].
      rewrite (required_presc fs 0 k). cbn [Nat.leb]. rewrite PeanoNat.Nat.sub_0_r, Hk.
      unfold no_dflt, is_opt. rewrite D. destruct (f_req f); reflexivity.
    Qed.
  End Struct.

  (* ---------- the theorem ---------- *)
  Hypothesis Hwf : wf_schema S = true.

  Lemma union_ids_nodup n vs vo kp : lookup S n = Some (DUnion vs vo kp) -> nodup_ids (map fst vs) = true.
  Proof.
    intros L. unfold wf_schema in Hwf. rewrite forallb_forall in Hwf. specialize (Hwf _ (nth_error_In _ _ L)).
    cbn [decl_ok] in Hwf. apply andb_prop in Hwf as [Hw _]. apply andb_prop in Hw as [Hw _]. exact Hw.
  Qed.

  Theorem den_dec_presc : forall fuel t s,
    den_dec T (dfl_of S) p fuel (presc_rop t) s = gen_decode S p fuel t s.
  Proof.
    induction fuel as [|f IH]; intros t s; [reflexivity|]. cbn [den_dec gen_decode]. rewrite rres_res.
    destruct (resolve S t) as [| | | | | | | | | |et|et|kt vt|n]; try reflexivity; cbn [presc_rop].
    - destruct (r_coll_begin p s) as [[h s1]| |]; cbn [bind]; try reflexivity. rewrite (dd_elems_presc _ _ IH). reflexivity.
    - destruct (r_coll_begin p s) as [[h s1]| |]; cbn [bind]; try reflexivity. rewrite (dd_elems_presc _ _ IH). reflexivity.
    - destruct (r_map_begin p s) as [[h s1]| |]; cbn [bind]; try reflexivity. rewrite (dd_pairs_presc _ _ IH). reflexivity.
    - rewrite row_presc. destruct (lookup S n) as [[fs keep ia|vs vo kp|ms|t']|] eqn:L; try reflexivity; cbn [presc_row].
      + (* struct *)
        set (d := presc_dstruct S false fs keep ia).
        assert (Hret : retains_s d = false) by reflexivity.
        assert (Hin : ds_inits d = map (fun f0 : field => if const_dflt f0 then IConst (is_opt f0) else INone) fs) by reflexivity.
        assert (Hb : ds_build d = map (fun q : nat * field => (EmptyString, fst q)) (indexed 0 fs)) by reflexivity.
        rewrite Hret, Hin, Hb.
        destruct (r_struct_begin p s) as [[z s1]| |]; cbn [bind]; try reflexivity.
        rewrite (init_vars_presc n fs keep ia L fs 0 (fun j => eq_refl)).
        unfold d. rewrite (dd_fields_presc f _ _ IH fs keep ia).
        destruct (dec_fields S p f (gen_decode S p f) (Datatypes.S f) fs (map init_var fs) s1) as [[vars s2]| |]; cbn [bind]; try reflexivity.
        destruct (r_struct_end p s2) as [[z' s3]| |]; cbn [bind]; try reflexivity.
        rewrite (dd_finish_presc n fs keep ia L vars fs 0 (fun j => eq_refl)). reflexivity.
      + (* union *)
        set (d := presc_dunion S false vs vo kp).
        assert (Hret : retains_u d = false) by reflexivity.
        assert (Hvo : du_void_ok d = vo) by reflexivity.
        rewrite Hret, Hvo.
        destruct (r_struct_begin p s) as [[z s1]| |]; cbn [bind]; try reflexivity.
        unfold d. rewrite (dd_variants_presc f _ _ IH vs vo kp (union_ids_nodup n vs vo kp L)).
        destruct (dec_variants S p f (gen_decode S p f) (Datatypes.S f) vs None s1) as [[ret s2]| |]; cbn [bind]; try reflexivity.
        destruct (r_struct_end p s2) as [[z' s3]| |]; cbn [bind]; try reflexivity.
        destruct ret as [[id x]|]; [reflexivity|]. destruct vo; [|reflexivity].
        destruct vs as [|[id0 t0] r]; [reflexivity|]. cbn [presc_variants map].
        pose proof (void_zero_lookup S Hvz n _ _ _ L) as Hz. cbn [void_zero forallb fst snd] in Hz. apply andb_prop in Hz as [Hz _].
        unfold presc_variant. cbn [fst snd]. destruct (is_void (resolve S t0)); cbn [ef_id]; [|reflexivity].
        cbn [negb orb] in Hz. apply Z.eqb_eq in Hz. subst id0. reflexivity.
  Qed.
End DecPresc.
