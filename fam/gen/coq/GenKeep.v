(* keep_unknown_fields variants of the sync decode templates (codegen/thrift/mod.rs: `keep && !helper.is_async`):
     __pilota_begin_ptr / __pilota_offset / _unknown_fields        -> the consumed prefix of the input at the field start
     get_bytes(Some(ptr), len) (binary.rs 651: copy_from_slice)    -> firstn len of the input at the field start
     __pilota_fields_num + get_bytes(None, remaining - 2)          -> the countdown of `args` types (F-13a)
     union: `_UnknownFields` variant; an unknown field after any field is "multiple fields"
   The offsets are accumulated from the TLengthProtocol methods of the reader object and the skipper's return
   value; they equal the bytes really consumed in the binary protocols (the only ones property C13 names).
   Encoding and size of retained chunks are in Gen.v (w_unknown / l_unknown).  Model only, no proofs. *)
From PVGen Require Export Gen.
Open Scope Z_scope.

Inductive uret :=
| UNone
| UKnown (id : Z) (v : gval)
| UUnknown (chunk : list byte).

Section KeepLoops.
  Variable S : schema.
  Variable p : pk.
  Variable fuel_skip : nat.
  Variable rec : ty -> rst -> res (gval * rst).

  Fixpoint dec_fields_keep (m : nat) (fs : list field) (is_arg : bool) (vars : list (option gval)) (num : Z)
           (unk : list (list byte)) (s : rst) {struct m} : res (list (option gval) * list (list byte) * rst) :=
    match m with
    | O => Err EOutOfFuel
    | Datatypes.S m' =>
        if is_arg && (num =? 0) then
          (* skip_all: `_unknown_fields.push_back(get_bytes(None, remaining - 2)?); break;` *)
          let rem := Z.of_nat (length (rbuf s)) in
          if rem <? 2 then Panic SOverflow          (* usize underflow (debug build) *)
          else let* (chunk, s) := r_take (Z.to_nat (rem - 2)) s in Ok (vars, unk ++ [chunk], s)
        else
          let s0 := s in
          let* (h, s) := r_field_begin p s in
          if ttype_eqb (fst h) TStop then
            let* (_, s) := r_field_stop_len p s in Ok (vars, unk, s)
          else
            let* (n1, s) := r_field_begin_len p (fst h) (snd h) s in
            let* (r, s) :=
              match match_field S fs O (snd h) (fst h) with
              | Some (i, f) =>
                  let* (x, s) := rec (f_ty f) s in Ok ((set_nth i (Some x) vars, num - 1, unk), s)
              | None =>
                  let* (n2, s) := skip p fuel_skip (fst h) s in
                  Ok ((vars, num, unk ++ [firstn (Z.to_nat (n1 + n2)) (rbuf s0)]), s)
              end in
            let* (_, s) := r_field_end_len p s in
            dec_fields_keep m' fs is_arg (fst (fst r)) (snd (fst r)) (snd r) s
    end.

  Fixpoint dec_variants_keep (m : nat) (vs : list (Z * ty)) (ret : uret) (s : rst) {struct m} : res (uret * rst) :=
    match m with
    | O => Err EOutOfFuel
    | Datatypes.S m' =>
        let s0 := s in
        let* (h, s) := r_field_begin p s in
        if ttype_eqb (fst h) TStop then
          let* (_, s) := r_field_stop_len p s in Ok (ret, s)
        else
          let* (n1, s) := r_field_begin_len p (fst h) (snd h) s in
          let known := match snd h with
                       | Some id => match find_variant vs id with
                                    | Some vt => if is_void (resolve S vt) then None else Some (id, vt)
                                    | None => None
                                    end
                       | None => None
                       end in
          match known with
          | Some (id, vt) =>
              match ret with
              | UNone => let* (x, s) := rec vt s in dec_variants_keep m' vs (UKnown id x) s
              | _ => Err EInvalidData
              end
          | None =>
              let* (n2, s) := skip p fuel_skip (fst h) s in
              match ret with
              | UNone => dec_variants_keep m' vs (UUnknown (firstn (Z.to_nat (n1 + n2)) (rbuf s0))) s
              | _ => Err EInvalidData            (* received multiple fields for union *)
              end
          end
    end.
End KeepLoops.

(* decoder of a build with keep_unknown_fields: types whose decl has keep = true retain *)
Fixpoint gen_decode_keep (S : schema) (p : pk) (fuel : nat) (t : ty) (s : rst) {struct fuel} : res (gval * rst) :=
  match fuel with
  | O => Err EOutOfFuel
  | Datatypes.S f =>
      match resolve S t with
      | TyBool => let* (b, s) := r_bool p s in Ok (GBool b, s)
      | TyI8 => let* (z, s) := r_i8 s in Ok (GI8 z, s)
      | TyI16 => let* (z, s) := r_i16 p s in Ok (GI16 z, s)
      | TyI32 => let* (z, s) := r_i32 p s in Ok (GI32 z, s)
      | TyI64 => let* (z, s) := r_i64 p s in Ok (GI64 z, s)
      | TyDouble => let* (z, s) := r_double p s in Ok (GDouble z, s)
      | TyString | TyBinary => let* (l, s) := r_bytes p s in Ok (GBytes l, s)
      | TyUuid => let* (l, s) := r_uuid s in Ok (GUuid l, s)
      | TyVoid =>
          let* (_, s) := r_struct_begin p s in
          let* (_, s) := r_struct_end p s in Ok (GVoid, s)
      | TyList et =>
          let* (h, s) := r_coll_begin p s in
          let* (l, s) := dec_elems (gen_decode_keep S p f) (Datatypes.S f) et (snd h) s [] in
          Ok (GList l, s)
      | TySet et =>
          let* (h, s) := r_coll_begin p s in
          let* (l, s) := dec_elems (gen_decode_keep S p f) (Datatypes.S f) et (snd h) s [] in
          Ok (GSet l, s)
      | TyMap kt vt =>
          let* (h, s) := r_map_begin p s in
          let* (l, s) := dec_pairs (gen_decode_keep S p f) (Datatypes.S f) kt vt (snd h) s [] in
          Ok (GMap l, s)
      | TyRef n =>
          match lookup S n with
          | Some (DEnum _) => let* (z, s) := r_i32 p s in Ok (GEnum z, s)
          | Some (DStruct fs true is_arg) =>
              let* (_, s) := r_struct_begin p s in
              let* (r, s) := dec_fields_keep S p f (gen_decode_keep S p f) (Datatypes.S f) fs is_arg (map init_var fs)
                                             (Z.of_nat (length fs)) [] s in
              let* (_, s) := r_struct_end p s in
              let* out := finish_fields fs (fst r) in
              Ok (GStruct out (snd r), s)
          | Some (DStruct fs false _) =>
              let* (_, s) := r_struct_begin p s in
              let* (vars, s) := dec_fields S p f (gen_decode_keep S p f) (Datatypes.S f) fs (map init_var fs) s in
              let* (_, s) := r_struct_end p s in
              let* out := finish_fields fs vars in
              Ok (GStruct out [], s)
          | Some (DUnion vs void_ok true) =>
              let* (_, s) := r_struct_begin p s in
              let* (ret, s) := dec_variants_keep S p f (gen_decode_keep S p f) (Datatypes.S f) vs UNone s in
              let* (_, s) := r_struct_end p s in
              match ret with
              | UKnown id x => Ok (GUnion id x, s)
              | UUnknown c => Ok (GUnionUnknown c, s)
              | UNone =>
                  if void_ok then
                    match vs with (id0, _) :: _ => Ok (GUnion id0 GVoid, s) | [] => Err EInvalidData end
                  else Err EInvalidData
              end
          | Some (DUnion vs void_ok false) =>
              let* (_, s) := r_struct_begin p s in
              let* (ret, s) := dec_variants S p f (gen_decode_keep S p f) (Datatypes.S f) vs None s in
              let* (_, s) := r_struct_end p s in
              match ret with
              | Some (id, x) => Ok (GUnion id x, s)
              | None =>
                  if void_ok then
                    match vs with (id0, _) :: _ => Ok (GUnion id0 GVoid, s) | [] => Err EInvalidData end
                  else Err EInvalidData
              end
          | Some (DTypedef _) => Err EOther
          | None => Err EOther
          end
      end
  end.

Definition gen_decode_keep_top (S : schema) (p : pk) (t : ty) (l : list byte) : res (gval * list byte) :=
  let* (v, s) := gen_decode_keep S p (length l + 80) t (mkS l r0) in Ok (v, rbuf s).
