//! pv-gen-pb: line-oriented driver over the code that the REAL pilota-build generates for the pb
//! corpus (fam/pb/proto/*.proto) plus the well-known wrapper impls of pilota/src/prost/types.rs.
//! One case line in on stdin, exactly one result line out.
//!
//!   dec    <idx> <hex>          Message::decode(Bytes)
//!   decq   <idx> <hex>          same, but the value is not rendered with {:?} (arbitrary bytes may
//!                               leave invalid UTF-8 in a FastStr)
//!   merge  <idx> <hex1> <hex2>  decode hex1, then Message::merge(&mut m, hex2)
//!   mergeq <idx> <hex1> <hex2>
//!   declen <idx> <hex>          Message::decode_length_delimited (quiet)
//!   lendelim <hex>              pilota::prost::decode_length_delimiter
//!   leak   <idx> <hex>          Message::decode(Bytes) (zero-copy path), then the result (value or error) and the
//!                               input are dropped:  ok|err LIVE <live heap bytes after - before> REFS <0|1>
//!                               REFS 1 = a second handle to the input Bytes is not unique after the result was dropped
//!                               ... HELD <live heap blocks while the result is held, above the level before the decode>
//!                               HREFS <0|1> (1 = the result references the input buffer)
//!   dec / decq / merge / mergeq / declen / lendelim additionally run the same call over NON-CONTIGUOUS layouts of the
//!   same bytes (two chunks cut at every position of short inputs / after continuation bytes and at pseudo-random
//!   positions of long ones and INSIDE the payloads of their length-delimited records, through a multi-chunk Buf and
//!   through Buf::chain; pieces of 1, 2, 3, 7 bytes; a VecDeque<u8>
//!   that wraps around) and append ` ORACLE-FAIL <layout> gives <answer>` when the answer (value re-encoded / error
//!   class) differs from the contiguous one
//!   grp    <idx> <opt> <req> <many> <tail>   the group codec (pilota::prost::encoding::group) through the hand-written
//!                               GroupHolder<M> below (M = message <idx>): <opt> = hex of an encoding of M | ~ (absent),
//!                               <req> = hex, <many> = hex,hex,.. | ~ (none), <tail> = u32.  The parts are decoded to build
//!                               the holder, which is encoded, measured and decoded again:
//!                               OK L<encoded_len> E<hex> P<peak> I <parts as pilota re-encodes them> B <parts read back>
//!                               (parts = <opt|~> <req> <many|~> <tail>)
//!   grpdec <idx> <hex>          GroupHolder::<M>::decode: OK L E P B <parts> | ERR <class> P
//!   info   <idx>                NAME <proto name> SIZE <size_of>
//!   count                       N <number of message types>
//!
//! results:  OK L<encoded_len> E<hex of encode_to_vec> P<peak> [D <{:?}>]  [ORACLE-FAIL <why>]
//!           ERR <class> P<peak>      PANIC <msg>      BADCASE <why>
//! <hex> is lowercase hex, `-` for the empty string.  P = peak live heap bytes above the level at
//! the start of the case (input buffer excluded), measured by a counting global allocator.
#[allow(warnings, clippy::all)]
mod generated {
    include!(concat!(env!("OUT_DIR"), "/pb_generated.rs"));
}

use std::{
    fmt::Debug,
    io::{BufRead, Write},
    panic::{catch_unwind, AssertUnwindSafe},
    sync::atomic::{AtomicUsize, Ordering::Relaxed},
};

use bytes::{Buf, BufMut, Bytes, BytesMut};
use pilota::prost::encoding::{self as enc, DecodeContext, WireType};
use pilota::prost::{DecodeError, Message};

/// A hand-written message (pilota-build cannot emit group fields; the runtime codec `encoding::group` is public API):
/// an optional, a required and a repeated GROUP field whose body is the generated message M, and a scalar behind them.
#[derive(Debug, Default, Clone, PartialEq)]
pub struct GroupHolder<M> {
    pub opt: Option<M>, // group, field 3
    pub req: M,         // group, field 4 (always written)
    pub many: Vec<M>,   // group, field 1000 (two-byte key)
    pub tail: u32,      // uint32, field 1001 (always written)
}

impl<M: Message + Default> Message for GroupHolder<M> {
    fn encode_raw<B>(&self, buf: &mut B)
    where
        B: BufMut,
        Self: Sized,
    {
        if let Some(m) = &self.opt {
            enc::group::encode(3, m, buf);
        }
        enc::group::encode(4, &self.req, buf);
        enc::group::encode_repeated(1000, &self.many, buf);
        enc::uint32::encode(1001, &self.tail, buf);
    }

    fn merge_field<B>(&mut self, tag: u32, wire_type: WireType, buf: &mut B, ctx: DecodeContext) -> Result<(), DecodeError>
    where
        B: Buf,
        Self: Sized,
    {
        match tag {
            3 => enc::group::merge(3, wire_type, self.opt.get_or_insert_with(Default::default), buf, ctx),
            4 => enc::group::merge(4, wire_type, &mut self.req, buf, ctx),
            1000 => enc::group::merge_repeated(1000, wire_type, &mut self.many, buf, ctx),
            1001 => enc::uint32::merge(wire_type, &mut self.tail, buf, ctx),
            _ => enc::skip_field(wire_type, tag, buf, ctx),
        }
    }

    fn encoded_len(&self) -> usize {
        self.opt.as_ref().map_or(0, |m| enc::group::encoded_len(3, m))
            + enc::group::encoded_len(4, &self.req)
            + enc::group::encoded_len_repeated(1000, &self.many)
            + enc::uint32::encoded_len(1001, &self.tail)
    }
}

fn holder_parts<M: Message>(h: &GroupHolder<M>) -> String {
    let opt = match &h.opt {
        Some(m) => hex(&m.encode_to_vec()),
        None => "~".to_string(),
    };
    let many = if h.many.is_empty() {
        "~".to_string()
    } else {
        h.many.iter().map(|m| hex(&m.encode_to_vec())).collect::<Vec<_>>().join(",")
    };
    format!("{} {} {} {}", opt, hex(&h.req.encode_to_vec()), many, h.tail)
}

pub struct Counting;
static LIVE: AtomicUsize = AtomicUsize::new(0);
static PEAK: AtomicUsize = AtomicUsize::new(0);
static BLOCKS: AtomicUsize = AtomicUsize::new(0);
unsafe impl std::alloc::GlobalAlloc for Counting {
    unsafe fn alloc(&self, l: std::alloc::Layout) -> *mut u8 {
        // a request above 4 GiB would be satisfied lazily by the OS and go unnoticed: refuse it
        // (Rust then aborts, which the Python side reports as a crash of the case)
        if l.size() > (4usize << 30) {
            return std::ptr::null_mut();
        }
        let p = std::alloc::System.alloc(l);
        if !p.is_null() {
            BLOCKS.fetch_add(1, Relaxed);
            let live = LIVE.fetch_add(l.size(), Relaxed) + l.size();
            PEAK.fetch_max(live, Relaxed);
        }
        p
    }
    unsafe fn dealloc(&self, p: *mut u8, l: std::alloc::Layout) {
        LIVE.fetch_sub(l.size(), Relaxed);
        BLOCKS.fetch_sub(1, Relaxed);
        std::alloc::System.dealloc(p, l)
    }
    unsafe fn realloc(&self, p: *mut u8, l: std::alloc::Layout, new_size: usize) -> *mut u8 {
        if new_size > (4usize << 30) {
            return std::ptr::null_mut();
        }
        // worst case both blocks are live during the copy
        let live = LIVE.fetch_add(new_size, Relaxed) + new_size;
        PEAK.fetch_max(live, Relaxed);
        let q = std::alloc::System.realloc(p, l, new_size);
        if q.is_null() {
            LIVE.fetch_sub(new_size, Relaxed);
        } else {
            LIVE.fetch_sub(l.size(), Relaxed);
        }
        q
    }
}
#[global_allocator]
static GLOBAL: Counting = Counting;

struct Peak(usize);
impl Peak {
    fn start() -> Peak {
        let before = LIVE.load(Relaxed);
        PEAK.store(before, Relaxed);
        Peak(before)
    }
    fn get(&self) -> usize {
        PEAK.load(Relaxed).saturating_sub(self.0)
    }
}

pub enum Op {
    Dec { data: Vec<u8>, quiet: bool },
    Merge { a: Vec<u8>, b: Vec<u8>, quiet: bool },
    DecLen { data: Vec<u8> },
    Leak { data: Vec<u8> },
    Grp { opt: Option<Vec<u8>>, req: Vec<u8>, many: Vec<Vec<u8>>, tail: u32 },
    GrpDec { data: Vec<u8> },
    Info,
}

fn hex(b: &[u8]) -> String {
    if b.is_empty() {
        return "-".into();
    }
    let mut s = String::with_capacity(b.len() * 2);
    for x in b {
        s.push(char::from_digit((x >> 4) as u32, 16).unwrap());
        s.push(char::from_digit((x & 15) as u32, 16).unwrap());
    }
    s
}

fn unhex(s: &str) -> Result<Vec<u8>, String> {
    if s == "-" {
        return Ok(vec![]);
    }
    if s.len() % 2 != 0 {
        return Err("odd hex length".into());
    }
    let b = s.as_bytes();
    let mut out = Vec::with_capacity(s.len() / 2);
    for i in (0..b.len()).step_by(2) {
        let h = (b[i] as char).to_digit(16).ok_or("bad hex")?;
        let l = (b[i + 1] as char).to_digit(16).ok_or("bad hex")?;
        out.push((h * 16 + l) as u8);
    }
    Ok(out)
}

fn err_class(e: &DecodeError) -> &'static str {
    let s = e.to_string();
    // the description is the tail of the Display text (after the "Msg.field: " location stack)
    for (pat, cls) in [
        ("invalid varint", "varint"),
        ("invalid key value", "key"),
        ("invalid wire type value", "wiretypevalue"),
        ("invalid tag value: 0", "tagzero"),
        ("invalid wire type:", "wiretype"),
        ("buffer underflow", "underflow"),
        ("delimited length exceeded", "delimited"),
        ("unexpected end group tag", "endgroup"),
        ("recursion limit reached", "recursion"),
        ("invalid string value", "utf8"),
        ("length delimiter exceeds", "lenusize"),
    ] {
        if s.contains(pat) {
            return cls;
        }
    }
    "other"
}

/// encodes m in every way the API offers and renders the OK line
fn render_ok<T: Message + Debug>(m: &T, pk: &Peak, quiet: bool) -> String {
    // the peak of decoding alone: re-encoding and rendering below are the driver's own business
    let peak = pk.get();
    let len = m.encoded_len();
    let v = m.encode_to_vec();
    let mut fails: Vec<String> = vec![];
    if v.len() != len {
        fails.push(format!("encoded_len()={} but encode_to_vec wrote {} bytes", len, v.len()));
    }
    let mut bm = BytesMut::with_capacity(len + 16);
    match m.encode(&mut bm) {
        Ok(()) => {
            if bm[..] != v[..] {
                fails.push(format!("Message::encode into BytesMut wrote {} instead of encode_to_vec's bytes", hex(&bm)));
            }
        }
        Err(e) => fails.push(format!("Message::encode into a large enough BytesMut failed: {e}")),
    }
    let ld = m.encode_length_delimited_to_vec();
    let mut pre = Vec::new();
    pilota::prost::encode_length_delimiter(v.len(), &mut pre).unwrap();
    if ld.len() != pre.len() + v.len() || ld[..pre.len()] != pre[..] || ld[pre.len()..] != v[..] {
        fails.push("encode_length_delimited_to_vec != length delimiter ++ encode_to_vec".to_string());
    }
    let mut s = format!("OK L{} E{} P{}", len, hex(&v), peak);
    if !quiet {
        s.push_str(&format!(" D {:?}", m));
    }
    if !fails.is_empty() {
        s.push_str(&format!(" ORACLE-FAIL {}", fails.join("; ")));
    }
    s
}

// ---------------------------------------------------------------- non-contiguous buffers
struct Chunks {
    parts: std::collections::VecDeque<Bytes>,
}
impl Buf for Chunks {
    fn remaining(&self) -> usize {
        self.parts.iter().map(|p| p.len()).sum()
    }
    fn chunk(&self) -> &[u8] {
        match self.parts.front() {
            Some(p) => p,
            None => &[],
        }
    }
    fn advance(&mut self, mut cnt: usize) {
        while cnt > 0 {
            let front = self.parts.front_mut().expect("advance past the end");
            if cnt < front.len() {
                front.advance(cnt);
                return;
            }
            cnt -= front.len();
            self.parts.pop_front();
        }
        while matches!(self.parts.front(), Some(p) if p.is_empty()) {
            self.parts.pop_front();
        }
    }
}

enum Layout {
    Split(usize),
    Chain(usize),
    Pieces(usize),
    Deque(usize),
}

impl Layout {
    fn name(&self) -> String {
        match self {
            Layout::Split(k) => format!("two chunks cut at {k}"),
            Layout::Chain(k) => format!("Buf::chain cut at {k}"),
            Layout::Pieces(s) => format!("pieces of {s}"),
            Layout::Deque(r) => format!("VecDeque<u8> wrapping at {r}"),
        }
    }
    fn run<R>(&self, data: &[u8], f: &dyn Fn(&mut dyn Buf) -> R) -> R {
        match *self {
            Layout::Split(k) => {
                let mut c = Chunks { parts: [Bytes::copy_from_slice(&data[..k]), Bytes::copy_from_slice(&data[k..])].into_iter().collect() };
                f(&mut c)
            }
            Layout::Chain(k) => {
                let mut c = Bytes::copy_from_slice(&data[..k]).chain(Bytes::copy_from_slice(&data[k..]));
                f(&mut c)
            }
            Layout::Pieces(s) => {
                let mut c = Chunks { parts: data.chunks(s.max(1)).map(Bytes::copy_from_slice).collect() };
                f(&mut c)
            }
            Layout::Deque(r) => {
                // head moved to r in a ring of exactly data.len() slots: the content wraps around the end
                let mut d: std::collections::VecDeque<u8> = std::collections::VecDeque::with_capacity(data.len());
                for _ in 0..r {
                    d.push_back(0);
                }
                for _ in 0..r {
                    d.pop_front();
                }
                d.extend(data.iter().copied());
                f(&mut d)
            }
        }
    }
}

fn read_varint(d: &[u8]) -> Option<(u64, usize)> {
    let mut v = 0u64;
    for (i, b) in d.iter().enumerate().take(10) {
        v |= ((b & 0x7f) as u64) << (7 * i);
        if b & 0x80 == 0 {
            return Some((v, i + 1));
        }
    }
    None
}

/// positions strictly INSIDE the payloads of the length-delimited records of `data` (strings, bytes, packed runs, embedded
/// messages, map entries -- read without a schema, embedded payloads that parse as records recursively): just behind the
/// start, the middle, just before the end
fn payload_cuts(data: &[u8], base: usize, depth: u32, out: &mut Vec<usize>) {
    let mut p = 0;
    while p < data.len() && out.len() < 96 {
        let (k, n) = match read_varint(&data[p..]) {
            Some(x) => x,
            None => return,
        };
        p += n;
        match k & 7 {
            0 => match read_varint(&data[p..]) {
                Some((_, n)) => p += n,
                None => return,
            },
            1 => p += 8,
            5 => p += 4,
            2 => {
                let (len, n) = match read_varint(&data[p..]) {
                    Some(x) => x,
                    None => return,
                };
                p += n;
                if len > (data.len().saturating_sub(p)) as u64 {
                    return;
                }
                let len = len as usize;
                if len >= 2 {
                    out.push(base + p + 1);
                    out.push(base + p + len / 2);
                    out.push(base + p + len - 1);
                }
                if depth < 3 {
                    payload_cuts(&data[p..p + len], base + p, depth + 1, out);
                }
                p += len;
            }
            3 | 4 => {}
            _ => return,
        }
    }
}

fn layouts(data: &[u8]) -> Vec<Layout> {
    let n = data.len();
    let mut out = vec![];
    if n < 2 {
        return out;
    }
    let mut cuts: Vec<usize> = if n <= 40 {
        (1..n).collect()
    } else {
        // after continuation bytes (inside multi-byte varints), inside the payloads of length-delimited records, plus
        // pseudo-random positions
        let mut v: Vec<usize> = (1..n).filter(|&k| data[k - 1] & 0x80 != 0).take(if n <= 4096 { 24 } else { 6 }).collect();
        let mut inside = vec![];
        payload_cuts(data, 0, 0, &mut inside);
        inside.retain(|&k| k >= 1 && k < n);
        let step = (inside.len() / (if n <= 4096 { 36 } else { 9 })).max(1);
        v.extend(inside.iter().step_by(step).copied());
        let mut x = (n as u64).wrapping_mul(2654435761).wrapping_add(data[0] as u64);
        for _ in 0..(if n <= 4096 { 8 } else { 3 }) {
            x = x.wrapping_mul(6364136223846793005).wrapping_add(1442695040888963407);
            v.push(1 + ((x >> 33) as usize) % (n - 1));
        }
        v
    };
    cuts.sort();
    cuts.dedup();
    for (j, &k) in cuts.iter().enumerate() {
        out.push(Layout::Split(k));
        if n <= 40 || j % 3 == 0 {
            out.push(Layout::Chain(k));
        }
    }
    let sizes: &[usize] = if n <= 256 { &[1, 2, 3, 7] } else if n <= 4096 { &[3, 64] } else { &[64] };
    for &s in sizes {
        if s < n {
            out.push(Layout::Pieces(s));
        }
    }
    out.push(Layout::Deque(n / 2));
    out
}

/// ` ORACLE-FAIL ...` if under some layout of `data` the call answers differently (f returns what it answered then)
fn layout_check(data: &[u8], f: &dyn Fn(&mut dyn Buf) -> Option<String>) -> String {
    for l in layouts(data) {
        if let Some(s) = l.run(data, f) {
            return format!(" ORACLE-FAIL chunked buffer ({}) gives {}", l.name(), s);
        }
    }
    String::new()
}

/// equal values: PartialEq; for values holding a NaN (never equal to themselves) the encodings -- whose map entries come
/// in the iteration order of each hash map instance -- are compared as byte multisets
fn same<T: Message + PartialEq>(a: &T, b: &T) -> bool {
    if a == b {
        return true;
    }
    let (ea, eb) = (a.encode_to_vec(), b.encode_to_vec());
    if ea == eb {
        return true;
    }
    #[allow(clippy::eq_op)]
    if a != a {
        let (mut sa, mut sb) = (ea, eb);
        sa.sort();
        sb.sort();
        return sa == sb;
    }
    false
}

/// None if `other` is the answer `main`, else a rendering of `other`
fn differs<T: Message + PartialEq>(main: &Result<T, DecodeError>, other: &Result<T, DecodeError>) -> Option<String> {
    match (main, other) {
        (Ok(a), Ok(b)) if same(a, b) => None,
        (Err(a), Err(b)) if err_class(a) == err_class(b) => None,
        (_, Ok(b)) => Some(format!("OK E{}", hex(&b.encode_to_vec()))),
        (_, Err(b)) => Some(format!("ERR {}", err_class(b))),
    }
}

/// one measurement: live heap bytes before the input exists vs after result and input are gone
fn leak_once<T: Message + Default>(data: &[u8]) -> (&'static str, i64, u8, i64, u8) {
    let before = LIVE.load(Relaxed) as i64;
    let input = Bytes::copy_from_slice(data);
    let keep = input.clone();
    // the input (its buffer and, once cloned, its shared header) is in place: blocks from here on belong to the decode
    let blocks_before = BLOCKS.load(Relaxed) as i64;
    let r = T::decode(input);
    let st = if r.is_ok() { "ok" } else { "err" };
    // while the result is held: what it owns (for an Err: the DecodeError)
    let held = BLOCKS.load(Relaxed) as i64 - blocks_before;
    let hrefs = if data.is_empty() || keep.is_unique() { 0 } else { 1 };
    drop(r);
    // (an empty Bytes is a static: there is no buffer anyone could hold on to)
    let refs = if data.is_empty() || keep.is_unique() { 0 } else { 1 };
    drop(keep);
    let after = LIVE.load(Relaxed) as i64;
    (st, after - before, refs, held, hrefs)
}

fn run_op<T: Message + Default + Debug + Clone + PartialEq>(op: &Op) -> String {
    match op {
        Op::Info => format!("SIZE {}", std::mem::size_of::<T>()),
        Op::Leak { data } => {
            // the first decode of a type may initialise process-wide state (hasher seeds, thread locals):
            // a leak repeats, so the second measurement is the one reported
            let _ = leak_once::<T>(data);
            let (st, live, refs, held, hrefs) = leak_once::<T>(data);
            format!("{} LIVE {} REFS {} HELD {} HREFS {}", st, live, refs, held, hrefs)
        }
        Op::Grp { opt, req, many, tail } => {
            let part = |b: &Vec<u8>| T::decode(Bytes::from(b.clone()));
            let mut h = GroupHolder::<T> { opt: None, req: T::default(), many: vec![], tail: *tail };
            if let Some(b) = opt {
                match part(b) {
                    Ok(m) => h.opt = Some(m),
                    Err(e) => return format!("BADCASE the optional part does not decode: {}", err_class(&e)),
                }
            }
            match part(req) {
                Ok(m) => h.req = m,
                Err(e) => return format!("BADCASE the required part does not decode: {}", err_class(&e)),
            }
            for b in many {
                match part(b) {
                    Ok(m) => h.many.push(m),
                    Err(e) => return format!("BADCASE a repeated part does not decode: {}", err_class(&e)),
                }
            }
            let pk = Peak::start();
            let len = h.encoded_len();
            let e = h.encode_to_vec();
            let peak = pk.get();
            let mut fails: Vec<String> = vec![];
            // the helpers on their own: what is reported is what is written
            let mut b1 = BytesMut::new();
            enc::group::encode_repeated(1000, &h.many, &mut b1);
            let l1 = enc::group::encoded_len_repeated(1000, &h.many);
            if b1.len() != l1 {
                fails.push(format!("group::encoded_len_repeated reports {} but group::encode_repeated wrote {} bytes", l1, b1.len()));
            }
            for m in h.opt.iter().chain(std::iter::once(&h.req)).chain(h.many.iter()) {
                let mut b2 = BytesMut::new();
                enc::group::encode(3, m, &mut b2);
                let l2 = enc::group::encoded_len(3, m);
                if b2.len() != l2 {
                    fails.push(format!("group::encoded_len reports {} but group::encode wrote {} bytes", l2, b2.len()));
                    break;
                }
            }
            // Message::encode into a buffer of exactly encoded_len() bytes
            let mut exact = vec![0u8; len];
            {
                let mut slice: &mut [u8] = &mut exact[..];
                match h.encode(&mut slice) {
                    Ok(()) => {
                        let left = slice.len();
                        if left != 0 || exact[..] != e[..] {
                            fails.push(format!("Message::encode into a buffer of encoded_len() = {} bytes left {} unused / wrote different bytes", len, left));
                        }
                    }
                    Err(err) => fails.push(format!("Message::encode into a buffer of encoded_len() bytes failed: {err}")),
                }
            }
            let back = GroupHolder::<T>::decode(Bytes::from(e.clone()));
            let b = match &back {
                Ok(h2) => holder_parts(h2),
                Err(err) => format!("ERR {}", err_class(err)),
            };
            let mut s = format!("OK L{} E{} P{} I {} B {}", len, hex(&e), peak, holder_parts(&h), b);
            if !fails.is_empty() {
                s.push_str(&format!(" ORACLE-FAIL {}", fails.join("; ")));
            }
            s + &layout_check(&e, &|buf: &mut dyn Buf| differs(&back, &GroupHolder::<T>::decode(buf)))
        }
        Op::GrpDec { data } => {
            let pk = Peak::start();
            let r = GroupHolder::<T>::decode(Bytes::from(data.clone()));
            let s = match &r {
                Ok(h) => format!("OK L{} E{} P{} B {}", h.encoded_len(), hex(&h.encode_to_vec()), pk.get(), holder_parts(h)),
                Err(e) => format!("ERR {} P{}", err_class(e), pk.get()),
            };
            s + &layout_check(data, &|buf: &mut dyn Buf| differs(&r, &GroupHolder::<T>::decode(buf)))
        }
        Op::Dec { data, quiet } => {
            let input = Bytes::from(data.clone());
            let pk = Peak::start();
            let r = T::decode(input);
            let s = match &r {
                Ok(m) => render_ok(m, &pk, *quiet),
                Err(e) => format!("ERR {} P{}", err_class(e), pk.get()),
            };
            s + &layout_check(data, &|b: &mut dyn Buf| differs(&r, &T::decode(b)))
        }
        Op::DecLen { data } => {
            let input = Bytes::from(data.clone());
            let pk = Peak::start();
            let r = T::decode_length_delimited(input);
            let s = match &r {
                Ok(m) => render_ok(m, &pk, true),
                Err(e) => format!("ERR {} P{}", err_class(e), pk.get()),
            };
            // decode_length_delimited and merge_length_delimited (into a default value)
            s + &layout_check(data, &|b: &mut dyn Buf| differs(&r, &T::decode_length_delimited(b)))
                + &layout_check(data, &|b: &mut dyn Buf| {
                    let mut m = T::default();
                    differs(&r, &m.merge_length_delimited(b).map(|()| m))
                })
        }
        Op::Merge { a, b, quiet } => {
            let ia = Bytes::from(a.clone());
            let ib = Bytes::from(b.clone());
            let pk = Peak::start();
            match T::decode(ia) {
                Err(e) => format!("ERR {} P{}", err_class(&e), pk.get()),
                Ok(m0) => {
                    let mut m = m0.clone();
                    let r = Message::merge(&mut m, ib).map(|()| m);
                    let s = match &r {
                        Ok(m) => render_ok(m, &pk, *quiet),
                        Err(e) => format!("ERR {} P{}", err_class(e), pk.get()),
                    };
                    s + &layout_check(b, &|buf: &mut dyn Buf| {
                        let mut m = m0.clone();
                        differs(&r, &Message::merge(&mut m, buf).map(|()| m))
                    })
                }
            }
        }
    }
}

include!(concat!(env!("OUT_DIR"), "/pb_dispatch.rs"));

fn run_line(line: &str) -> Result<String, String> {
    // everything from a ";;" token on is an annotation of the Python side
    let line = match line.find(";;") {
        Some(i) => line[..i].trim_end(),
        None => line,
    };
    let t: Vec<&str> = line.split_ascii_whitespace().collect();
    let idx = |i: usize| -> Result<usize, String> {
        t.get(i).ok_or("missing index")?.parse::<usize>().map_err(|e| e.to_string())
    };
    let bytes_at = |i: usize| -> Result<Vec<u8>, String> { unhex(t.get(i).ok_or("missing hex")?) };
    let (i, op) = match *t.first().ok_or("empty")? {
        "dec" => (idx(1)?, Op::Dec { data: bytes_at(2)?, quiet: false }),
        "decq" => (idx(1)?, Op::Dec { data: bytes_at(2)?, quiet: true }),
        "merge" => (idx(1)?, Op::Merge { a: bytes_at(2)?, b: bytes_at(3)?, quiet: false }),
        "mergeq" => (idx(1)?, Op::Merge { a: bytes_at(2)?, b: bytes_at(3)?, quiet: true }),
        "declen" => (idx(1)?, Op::DecLen { data: bytes_at(2)? }),
        "leak" => (idx(1)?, Op::Leak { data: bytes_at(2)? }),
        "grp" => {
            let opt = match *t.get(2).ok_or("missing optional part")? {
                "~" => None,
                h => Some(unhex(h)?),
            };
            let many = match *t.get(4).ok_or("missing repeated part")? {
                "~" => vec![],
                l => l.split(',').map(unhex).collect::<Result<Vec<_>, _>>()?,
            };
            let tail = t.get(5).ok_or("missing tail")?.parse::<u32>().map_err(|e| e.to_string())?;
            (idx(1)?, Op::Grp { opt, req: bytes_at(3)?, many, tail })
        }
        "grpdec" => (idx(1)?, Op::GrpDec { data: bytes_at(2)? }),
        "info" => {
            let i = idx(1)?;
            let r = dispatch(i, &Op::Info).ok_or("no such message index")?;
            return Ok(format!("NAME {} {}", MESSAGE_NAMES[i], r));
        }
        "count" => return Ok(format!("N {}", MESSAGE_NAMES.len())),
        "lendelim" => {
            let data = bytes_at(1)?;
            let input = Bytes::from(data.clone());
            let pk = Peak::start();
            let r = pilota::prost::decode_length_delimiter(input);
            let show = |r: &Result<usize, pilota::prost::DecodeError>| match r {
                Ok(n) => format!("OK L{}", n),
                Err(e) => format!("ERR {}", err_class(e)),
            };
            let main = show(&r);
            let s = format!("{} P{}", main, pk.get());
            return Ok(s + &layout_check(&data, &|b: &mut dyn Buf| {
                let o = show(&pilota::prost::decode_length_delimiter(b));
                if o == main { None } else { Some(o) }
            }));
        }
        s => return Err(format!("unknown command {s}")),
    };
    dispatch(i, &op).ok_or_else(|| "no such message index".to_string())
}

fn serve() {
    let stdin = std::io::stdin();
    let stdout = std::io::stdout();
    let mut out = std::io::BufWriter::new(stdout.lock());
    for line in stdin.lock().lines() {
        let line = match line {
            Ok(l) => l,
            Err(_) => break,
        };
        let line = line.trim();
        if line.is_empty() {
            writeln!(out).unwrap();
            continue;
        }
        let r = catch_unwind(AssertUnwindSafe(|| run_line(line)));
        match r {
            Ok(Ok(s)) => writeln!(out, "{s}").unwrap(),
            Ok(Err(e)) => writeln!(out, "BADCASE {e}").unwrap(),
            Err(p) => {
                let msg = if let Some(s) = p.downcast_ref::<&str>() {
                    s.to_string()
                } else if let Some(s) = p.downcast_ref::<String>() {
                    s.clone()
                } else {
                    "?".to_string()
                };
                writeln!(out, "PANIC {}", msg.replace('\n', " ")).unwrap()
            }
        }
        // a later case may abort the process: what has been computed must already be out
        out.flush().unwrap();
    }
    out.flush().unwrap();
}

fn main() {
    std::panic::set_hook(Box::new(|_| {}));
    // decode, Debug rendering and drop recurse once or twice per nesting level; the documented
    // limit is 100 levels, a fixed 256 MiB stack makes the driver independent of `ulimit -s`
    let h = std::thread::Builder::new()
        .name("pv-gen-pb".into())
        .stack_size(256 << 20)
        .spawn(serve)
        .expect("spawn worker");
    let _ = h.join();
}
