(* C06: the regenerated codec-selection table agrees with the encoding guide, and for every declared
   scalar type the bytes pilota writes are the bytes the guide prescribes. *)
From PVPb Require Import Spec Proofs.BitsP Proofs.VarintP Proofs.WireP Proofs.CastP Proofs.CodecP.
From Coq Require Import ZifyN ZifyNat ZifyBool.
Open Scope Z_scope.

(* the finite lemma, by computation over the REGENERATED ty_module / ty_category / lower_ty / resolve
   tables: a wrong arm (e.g. sint32 routed to the int32 codec) makes this false *)
Lemma module_table_forallb :
  forallb (fun t => match scalar_module t, spec_module t with
                    | Some m, Some m' => codec_module_eqb m m'
                    | _, _ => false
                    end) declared_scalars = true.
Proof. vm_compute. reflexivity. Qed.

Lemma codec_module_eqb_eq a b : codec_module_eqb a b = true -> a = b.
Proof. destruct a, b; try reflexivity; discriminate. Qed.

Theorem module_table : forall t, In t declared_scalars -> scalar_module t = spec_module t /\ spec_module t <> None.
Proof.
  intros t Ht. pose proof module_table_forallb as H. rewrite forallb_forall in H. specialize (H t Ht).
  destruct (scalar_module t) as [m|], (spec_module t) as [m'|]; try discriminate H.
  apply codec_module_eqb_eq in H. subst. split; [reflexivity|discriminate].
Qed.

(* message-typed fields go through encoding::message, and maps / messages are classified as such *)
Lemma message_table : module_of_decl TYPE_MESSAGE = Some MMessage /\ category_of_decl TYPE_MESSAGE = Some CatMessage /\
  scalar_module TYPE_MESSAGE = None /\ module_of_decl TYPE_GROUP = None.
Proof. vm_compute. auto. Qed.

(* ------------------------------------------------------------------ varints and keys: pilota = spec *)
Lemma spec_varint_f_eq f : forall v, 0 <= v -> spec_varint_f f v = enc_varint f v.
Proof.
  induction f as [|f IH]; intros v Hv; [reflexivity|].
  rewrite enc_varint_unfold by exact Hv. cbn [spec_varint_f].
  destruct (v <? 128); [reflexivity|]. rewrite IH by (apply Z.div_pos; lia). f_equal. f_equal. lia.
Qed.

Lemma spec_varint_eq v : 0 <= v -> spec_varint v = encode_varint v.
Proof. apply spec_varint_f_eq. Qed.

Lemma spec_key_eq tag w wt : tag_ok tag -> spec_wt_code w = wire_type_code wt -> spec_key tag w = encode_key tag wt.
Proof.
  intros Ht Hw. rewrite encode_key_eq by exact Ht. unfold spec_key, key_of. rewrite Hw.
  apply spec_varint_eq. pose proof (tag_ok_range _ Ht). pose proof (wire_code_range wt). lia.
Qed.

Lemma spec_le_eq n : forall z, spec_le n z = le_bytes n z.
Proof.
  induction n as [|n IH]; intros z; [reflexivity|]. cbn [spec_le le_bytes]. rewrite IH. f_equal. apply z2b_mod.
Qed.

(* ------------------------------------------------------------------ every declared scalar type *)
Ltac fixed_of_tac :=
  match goal with
  | |- context [fixed_of ?m] =>
      let r := eval vm_compute in (fixed_of m) in
      replace (fixed_of m) with r by reflexivity
  end; cbv beta iota.

Ltac ssb_setup :=
  intros Hm Ht Hv; vm_compute in Hm; inversion Hm; subst; clear Hm;
  match goal with v : val |- _ => destruct v as [z|l|k l]; try discriminate Hv end;
  cbn [spec_value_ok] in Hv; unfold encode_scalar, spec_encode_field;
  (f_equal; [symmetry; apply spec_key_eq; [exact Ht|reflexivity]|]);
  unfold payload; cbn [is_varint_mod spec_payload vint vbytes].

Lemma ssb_TYPE_DOUBLE m tag v : scalar_module TYPE_DOUBLE = Some m -> tag_ok tag -> spec_value_ok TYPE_DOUBLE v = true ->
  encode_scalar m tag v = spec_encode_field TYPE_DOUBLE tag v.
Proof.
  ssb_setup.
  fixed_of_tac. unfold fixed_payload. rewrite spec_le_eq. cbn [Z.to_nat Pos.to_nat Pos.iter_op Nat.add].
    f_equal. consts. change (2 ^ (8 * 8)) with 18446744073709551616. rewrite Z.mod_small by lia. reflexivity.
Qed.

Lemma ssb_TYPE_FLOAT m tag v : scalar_module TYPE_FLOAT = Some m -> tag_ok tag -> spec_value_ok TYPE_FLOAT v = true ->
  encode_scalar m tag v = spec_encode_field TYPE_FLOAT tag v.
Proof.
  ssb_setup.
  fixed_of_tac. unfold fixed_payload. rewrite spec_le_eq.
    f_equal. consts. change (2 ^ (8 * 4)) with 4294967296. rewrite Z.mod_small by lia. reflexivity.
Qed.

Lemma ssb_TYPE_INT64 m tag v : scalar_module TYPE_INT64 = Some m -> tag_ok tag -> spec_value_ok TYPE_INT64 v = true ->
  encode_scalar m tag v = spec_encode_field TYPE_INT64 tag v.
Proof.
  ssb_setup.
  cbv [to_uint64]. unfold as_u64. consts. rewrite spec_varint_eq by (destruct (z <? 0) eqn:E; lia).
    f_equal. destruct (Z.ltb_spec z 0); [|rewrite Z.mod_small by lia; reflexivity].
    symmetry. apply (Z.mod_unique_pos _ _ (-1)); lia.
Qed.

Lemma ssb_TYPE_UINT64 m tag v : scalar_module TYPE_UINT64 = Some m -> tag_ok tag -> spec_value_ok TYPE_UINT64 v = true ->
  encode_scalar m tag v = spec_encode_field TYPE_UINT64 tag v.
Proof.
  ssb_setup.
  cbv [to_uint64]. symmetry. apply spec_varint_eq. lia.
Qed.

Lemma ssb_TYPE_INT32 m tag v : scalar_module TYPE_INT32 = Some m -> tag_ok tag -> spec_value_ok TYPE_INT32 v = true ->
  encode_scalar m tag v = spec_encode_field TYPE_INT32 tag v.
Proof.
  ssb_setup.
  cbv [to_uint64]. unfold as_u64. consts. rewrite spec_varint_eq by (destruct (z <? 0) eqn:E; lia).
    f_equal. destruct (Z.ltb_spec z 0); [|rewrite Z.mod_small by lia; reflexivity].
    symmetry. apply (Z.mod_unique_pos _ _ (-1)); lia.
Qed.

Lemma ssb_TYPE_FIXED64 m tag v : scalar_module TYPE_FIXED64 = Some m -> tag_ok tag -> spec_value_ok TYPE_FIXED64 v = true ->
  encode_scalar m tag v = spec_encode_field TYPE_FIXED64 tag v.
Proof.
  ssb_setup.
  fixed_of_tac. unfold fixed_payload. rewrite spec_le_eq.
    f_equal. consts. change (2 ^ (8 * 8)) with 18446744073709551616. rewrite Z.mod_small by lia. reflexivity.
Qed.

Lemma ssb_TYPE_FIXED32 m tag v : scalar_module TYPE_FIXED32 = Some m -> tag_ok tag -> spec_value_ok TYPE_FIXED32 v = true ->
  encode_scalar m tag v = spec_encode_field TYPE_FIXED32 tag v.
Proof.
  ssb_setup.
  fixed_of_tac. unfold fixed_payload. rewrite spec_le_eq.
    f_equal. consts. change (2 ^ (8 * 4)) with 4294967296. rewrite Z.mod_small by lia. reflexivity.
Qed.

Lemma ssb_TYPE_BOOL m tag v : scalar_module TYPE_BOOL = Some m -> tag_ok tag -> spec_value_ok TYPE_BOOL v = true ->
  encode_scalar m tag v = spec_encode_field TYPE_BOOL tag v.
Proof.
  ssb_setup.
  cbv [to_uint64]. symmetry. apply spec_varint_eq. lia.
Qed.

Lemma ssb_TYPE_STRING m tag v : scalar_module TYPE_STRING = Some m -> tag_ok tag -> spec_value_ok TYPE_STRING v = true ->
  encode_scalar m tag v = spec_encode_field TYPE_STRING tag v.
Proof.
  ssb_setup.
  fixed_of_tac. unfold zlen. rewrite spec_varint_eq by lia. reflexivity.
Qed.

Lemma ssb_TYPE_BYTES m tag v : scalar_module TYPE_BYTES = Some m -> tag_ok tag -> spec_value_ok TYPE_BYTES v = true ->
  encode_scalar m tag v = spec_encode_field TYPE_BYTES tag v.
Proof.
  ssb_setup.
  fixed_of_tac. unfold zlen. rewrite spec_varint_eq by lia. reflexivity.
Qed.

Lemma ssb_TYPE_UINT32 m tag v : scalar_module TYPE_UINT32 = Some m -> tag_ok tag -> spec_value_ok TYPE_UINT32 v = true ->
  encode_scalar m tag v = spec_encode_field TYPE_UINT32 tag v.
Proof.
  ssb_setup.
  cbv [to_uint64]. symmetry. apply spec_varint_eq. lia.
Qed.

Lemma ssb_TYPE_ENUM m tag v : scalar_module TYPE_ENUM = Some m -> tag_ok tag -> spec_value_ok TYPE_ENUM v = true ->
  encode_scalar m tag v = spec_encode_field TYPE_ENUM tag v.
Proof.
  ssb_setup.
  cbv [to_uint64]. unfold as_u64. consts. rewrite spec_varint_eq by (destruct (z <? 0) eqn:E; lia).
    f_equal. destruct (Z.ltb_spec z 0); [|rewrite Z.mod_small by lia; reflexivity].
    symmetry. apply (Z.mod_unique_pos _ _ (-1)); lia.
Qed.

Lemma ssb_TYPE_SFIXED32 m tag v : scalar_module TYPE_SFIXED32 = Some m -> tag_ok tag -> spec_value_ok TYPE_SFIXED32 v = true ->
  encode_scalar m tag v = spec_encode_field TYPE_SFIXED32 tag v.
Proof.
  ssb_setup.
  fixed_of_tac. unfold fixed_payload. rewrite spec_le_eq.
    f_equal. consts. change (2 ^ (8 * 4)) with 4294967296.
    destruct (Z.ltb_spec z 0); [|rewrite Z.mod_small by lia; reflexivity].
    symmetry. apply (Z.mod_unique_pos _ _ (-1)); lia.
Qed.

Lemma ssb_TYPE_SFIXED64 m tag v : scalar_module TYPE_SFIXED64 = Some m -> tag_ok tag -> spec_value_ok TYPE_SFIXED64 v = true ->
  encode_scalar m tag v = spec_encode_field TYPE_SFIXED64 tag v.
Proof.
  ssb_setup.
  fixed_of_tac. unfold fixed_payload. rewrite spec_le_eq.
    f_equal. consts. change (2 ^ (8 * 8)) with 18446744073709551616.
    destruct (Z.ltb_spec z 0); [|rewrite Z.mod_small by lia; reflexivity].
    symmetry. apply (Z.mod_unique_pos _ _ (-1)); lia.
Qed.

Lemma ssb_TYPE_SINT32 m tag v : scalar_module TYPE_SINT32 = Some m -> tag_ok tag -> spec_value_ok TYPE_SINT32 v = true ->
  encode_scalar m tag v = spec_encode_field TYPE_SINT32 tag v.
Proof.
  ssb_setup.
  rewrite sint32_to by (consts; lia). unfold spec_zigzag, zz.
    symmetry. apply spec_varint_eq. destruct (z <? 0) eqn:E; lia.
Qed.

Lemma ssb_TYPE_SINT64 m tag v : scalar_module TYPE_SINT64 = Some m -> tag_ok tag -> spec_value_ok TYPE_SINT64 v = true ->
  encode_scalar m tag v = spec_encode_field TYPE_SINT64 tag v.
Proof.
  ssb_setup.
  rewrite sint64_to by (consts; lia). unfold spec_zigzag, zz.
    symmetry. apply spec_varint_eq. destruct (z <? 0) eqn:E; lia.
Qed.

Theorem spec_scalar_bytes t m tag v : In t declared_scalars -> scalar_module t = Some m -> tag_ok tag ->
  spec_value_ok t v = true ->
  encode_scalar m tag v = spec_encode_field t tag v.
Proof.
  intros Hin. cbn [declared_scalars In] in Hin.
  repeat (destruct Hin as [<-|Hin]; [first [apply ssb_TYPE_DOUBLE|apply ssb_TYPE_FLOAT|apply ssb_TYPE_INT64|apply ssb_TYPE_UINT64|apply ssb_TYPE_INT32|apply ssb_TYPE_FIXED64|apply ssb_TYPE_FIXED32|apply ssb_TYPE_BOOL|apply ssb_TYPE_STRING|apply ssb_TYPE_BYTES|apply ssb_TYPE_UINT32|apply ssb_TYPE_ENUM|apply ssb_TYPE_SFIXED32|apply ssb_TYPE_SFIXED64|apply ssb_TYPE_SINT32|apply ssb_TYPE_SINT64]|]).
  contradiction.
Qed.



(* the value ranges agree *)
Lemma spec_value_ok_mod t m v : In t declared_scalars -> scalar_module t = Some m ->
  spec_value_ok t v = true -> mod_value_okb m v = true.
Proof.
  intros Hin Hm Hv. destruct (module_table t Hin) as [Hs _]. rewrite Hm in Hs. symmetry in Hs.
  destruct t; try (exfalso; cbn in Hin; intuition discriminate); cbn in Hs; inversion Hs; subst m; clear Hs;
    destruct v as [z|l|k l]; try discriminate Hv; cbn [spec_value_ok mod_value_okb] in *;
    unfold in_sb, zlen; consts; lia.
Qed.

Lemma scalar_module_scalar_mod t m : In t declared_scalars -> scalar_module t = Some m -> scalar_mod m = true.
Proof.
  intros Hin Hm. destruct (module_table t Hin) as [Hs _]. rewrite Hm in Hs. symmetry in Hs.
  destruct t; try (exfalso; cbn in Hin; intuition discriminate); cbn in Hs; inversion Hs; reflexivity.
Qed.

(* in direction, scalar level: what a conforming encoder writes for a field, pilota reads back *)
Theorem spec_scalar_in t m tag v r a : In t declared_scalars -> scalar_module t = Some m -> tag_ok tag ->
  spec_value_ok t v = true ->
  bind decode_key (fun k => merge_scalar m (snd k)) (mkR (spec_encode_field t tag v ++ r) a)
  = OOk v (mkR r (a + payload_cost m v)).
Proof.
  intros Hin Hm Ht Hv. rewrite <- (spec_scalar_bytes t m tag v Hin Hm Ht Hv).
  apply scalar_rt; [eapply scalar_module_scalar_mod; eauto|exact Ht|eapply spec_value_ok_mod; eauto].
Qed.

Lemma spec_payload_eq t m v : In t declared_scalars -> scalar_module t = Some m -> spec_value_ok t v = true ->
  payload m v = spec_payload t v.
Proof.
  intros Hin Hm Hv. pose proof (spec_scalar_bytes t m 1 v Hin Hm ltac:(unfold tag_ok; vm_compute; split; discriminate) Hv) as H.
  unfold encode_scalar, spec_encode_field in H.
  destruct (module_table t Hin) as [Hs _]. rewrite Hm in Hs. symmetry in Hs.
  rewrite (spec_key_eq 1 (spec_wire_type t) (mod_wire_type m)) in H.
  - apply app_inv_head in H. exact H.
  - unfold tag_ok; vm_compute; split; discriminate.
  - destruct t; try (exfalso; cbn in Hin; intuition discriminate); cbn in Hs; inversion Hs; reflexivity.
Qed.

(* packed form: the spec's packed record is what encode_packed writes, and merge_repeated reads it *)
Theorem spec_packed_in t m tag vs acc r a : In t declared_scalars -> scalar_module t = Some m -> numeric_mod m = true ->
  tag_ok tag -> vs <> [] -> Forall (fun v => spec_value_ok t v = true) vs ->
  zlen (flat_map (spec_payload t) vs) < two64 ->
  bind decode_key (fun k => merge_repeated m (snd k) acc) (mkR (spec_encode_packed t tag vs ++ r) a)
  = OOk (acc ++ vs) (mkR r (a + Z.of_nat (length vs))).
Proof.
  intros Hin Hm Hn Ht Hne Hg Hl.
  assert (Hp : flat_map (payload m) vs = flat_map (spec_payload t) vs).
  { clear Hl Hne. induction Hg as [|v vs Hv Hg IH]; [reflexivity|]. cbn [flat_map]. rewrite IH.
    rewrite (spec_payload_eq t m v Hin Hm Hv). reflexivity. }
  assert (Hok : Forall (fun v => mod_value_okb m v = true) vs).
  { eapply Forall_impl; [|exact Hg]. intros v Hv. eapply spec_value_ok_mod; eauto. }
  assert (E : spec_encode_packed t tag vs = encode_packed m tag vs).
  { unfold spec_encode_packed, encode_packed. destruct vs as [|v0 vs0]; [congruence|].
    rewrite packed_body_len_correct by auto. rewrite Hp.
    rewrite (spec_key_eq tag W_LEN LengthDelimited Ht eq_refl). unfold zlen.
    rewrite spec_varint_eq by lia. reflexivity. }
  rewrite E. apply packed_rt; auto. rewrite Hp. exact Hl.
Qed.

Example spec_nonvacuous :
  spec_encode_field TYPE_SINT32 1 (VI (-1)) = [x08; x01] /\ spec_encode_field TYPE_SFIXED32 2 (VI (-2)) = [x15; xfe; xff; xff; xff] /\
  scalar_module TYPE_SINT64 = Some MSInt64.
Proof. vm_compute. auto. Qed.

(* ------------------------------------------------------------------ the model's defaults are the guide's *)
Lemma spec_default_scalar_eq p : spec_default_scalar p = default_scalar p.
Proof. destruct p; vm_compute; reflexivity. Qed.

Lemma spec_default_msg_eq sc : forall d i, spec_default_msg d sc i = default_msg d sc i.
Proof.
  induction d as [|d IH]; intros i; cbn [spec_default_msg default_msg]; [reflexivity|].
  destruct (nth_error sc i) as [fs|]; [|reflexivity]. f_equal. apply map_ext. intros f.
  destruct f as [t ty|t ty|t ty|t k vt|ms]; cbn [spec_default_field default_field]; try reflexivity.
  destruct ty as [p|j]; [apply spec_default_scalar_eq|apply IH].
Qed.

Theorem defaults_spec :
  (forall p, spec_default_scalar p = default_scalar p) /\
  (forall d sc i, spec_default_msg d sc i = default_msg d sc i) /\
  (forall d sc t, match t with TScalar p => spec_default_scalar p | TMsg j => spec_default_msg d sc j end = default_ty d sc t).
Proof.
  split; [exact spec_default_scalar_eq|]. split; [intros; apply spec_default_msg_eq|].
  intros d sc [p|j]; cbn [default_ty]; [apply spec_default_scalar_eq|apply spec_default_msg_eq].
Qed.
