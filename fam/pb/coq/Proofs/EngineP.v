(* The projection engine behind C06_in and C18_interleave.
   A record loop whose state is a tuple of slots, where every record is routed to one slot (or skipped), reads that
   slot only and writes that slot only, computes slot by slot: the final content of slot p is what the records of
   slot p, in their arrival order, make of its initial content -- whatever records of other slots come in between.
   Consequently every interleaving with the same per-slot subsequences gives the same result. *)
From PVPb Require Import Conform Proofs.BitsP Proofs.VarintP Proofs.WireP Proofs.CastP Proofs.CodecP Proofs.TotalP Proofs.DepthP
  Proofs.ShapeP Proofs.MsgLenP Proofs.MergeP Proofs.MergeCor Proofs.UnknownP Proofs.InterleaveP Proofs.MsgRtP.
From Coq Require Import ZifyN ZifyNat ZifyBool.
Open Scope Z_scope.

Section Engine.
  Context {S : Type}.
  Variable body : S -> M S.
  Variable n : nat.                                   (* number of slots *)
  Variable get : S -> nat -> val.
  Variable set : S -> nat -> val -> S.
  Variable inv : S -> Prop.
  Variable pos : crec -> option nat.                  (* the slot a record is routed to; None = skipped *)
  Variable fstep : nat -> val -> crec -> val -> Prop. (* what one record makes of the content of its slot *)
  Variable skip_ok : crec -> Prop.

  Hypothesis get_set_same : forall s p v, inv s -> (p < n)%nat -> get (set s p v) p = v.
  Hypothesis get_set_other : forall s p q v, p <> q -> get (set s p v) q = get s q.
  Hypothesis inv_set : forall s p v, inv s -> inv (set s p v).
  Hypothesis step_ok : forall s r p c', inv s -> pos r = Some p -> (p < n)%nat -> fstep p (get s p) r c' ->
    forall rest a, exists a', body s (mkR (enc_crec r ++ rest) a) = OOk (set s p c') (mkR rest a').
  Hypothesis skip_step : forall s r, inv s -> pos r = None -> skip_ok r ->
    forall rest a, exists a', body s (mkR (enc_crec r ++ rest) a) = OOk s (mkR rest a').

  (* every record of the list is consumed exactly by one iteration of the loop, whatever follows *)
  Inductive rsteps : S -> list crec -> S -> Prop :=
  | rsteps_nil s : rsteps s [] s
  | rsteps_cons s r s' rs s'' :
      enc_crec r <> [] ->
      (forall rest a, exists a', body s (mkR (enc_crec r ++ rest) a) = OOk s' (mkR rest a')) ->
      rsteps s' rs s'' -> rsteps s (r :: rs) s''.

  Lemma rsteps_app s r1 s1 r2 s2 : rsteps s r1 s1 -> rsteps s1 r2 s2 -> rsteps s (r1 ++ r2) s2.
  Proof. intros H1 H2. induction H1; [exact H2|]. cbn [app]. econstructor; eauto. Qed.

  Lemma rsteps_split : forall r1 r2 s s2, rsteps s (r1 ++ r2) s2 -> exists s1, rsteps s r1 s1 /\ rsteps s1 r2 s2.
  Proof.
    induction r1 as [|r r1 IH]; intros r2 s s2 H; [exists s; split; [constructor|exact H]|].
    cbn [app] in H. inversion H as [|? ? s' ? ? Hne Hb Hr]; subst. destruct (IH r2 s' s2 Hr) as (s1 & H1 & H2).
    exists s1. split; [econstructor; eauto|exact H2].
  Qed.

  Lemma rsteps_gsteps s rs s' : rsteps s rs s' -> gsteps body s (enc_crecs rs) s'.
  Proof.
    induction 1 as [s|s r s' rs s'' Hne Hb Hr IH]; [constructor|]. cbn [enc_crecs]. econstructor; eauto.
  Qed.

  Lemma rsteps_det s rs s1 s2 : rsteps s rs s1 -> rsteps s rs s2 -> s1 = s2.
  Proof.
    intros H1. revert s2. induction H1 as [s|s r s' rs s'' Hne Hb Hr IH]; intros s2 H2; inversion H2 as [|? ? t' ? ? Hne2 Hb2 Hr2]; subst; [reflexivity|].
    destruct (Hb [] 0) as [a1 E1]. destruct (Hb2 [] 0) as [a2 E2]. rewrite E1 in E2. inversion E2; subst. apply IH. exact Hr2.
  Qed.

  (* the records of slot p, applied one after the other to the content of slot p *)
  Inductive fchain (p : nat) : val -> list crec -> val -> Prop :=
  | fchain_nil c0 : fchain p c0 [] c0
  | fchain_cons c0 r c1 rs c2 : fstep p c0 r c1 -> fchain p c1 rs c2 -> fchain p c0 (r :: rs) c2.

  Lemma fchain_app p c0 r1 c1 r2 c2 : fchain p c0 r1 c1 -> fchain p c1 r2 c2 -> fchain p c0 (r1 ++ r2) c2.
  Proof. intros H1 H2. induction H1; [exact H2|]. cbn [app]. econstructor; eauto. Qed.

  Definition at_slot (p : nat) (r : crec) : bool := match pos r with Some q => Nat.eqb q p | None => false end.
  Definition proj (p : nat) (rs : list crec) : list crec := filter (at_slot p) rs.

  Definition routed (r : crec) : Prop := match pos r with Some p => (p < n)%nat | None => skip_ok r end.

  Definition nonempty (r : crec) : Prop := enc_crec r <> [].

  Theorem engine : forall rs s (x : nat -> val), inv s -> Forall routed rs -> Forall nonempty rs ->
    (forall p, (p < n)%nat -> fchain p (get s p) (proj p rs) (x p)) ->
    exists s', rsteps s rs s' /\ inv s' /\ forall p, (p < n)%nat -> get s' p = x p.
  Proof.
    induction rs as [|r rs IH]; intros s x Hi Hr Hne Hc.
    - exists s. split; [constructor|]. split; [exact Hi|]. intros p Hp. specialize (Hc p Hp). inversion Hc. reflexivity.
    - inversion Hr as [|? ? Hr0 Hrs]; subst. inversion Hne as [|? ? Hne0 Hnes]; subst. unfold routed in Hr0. destruct (pos r) as [q|] eqn:Eq.
      + (* routed to slot q *)
        pose proof (Hc q Hr0) as Hq. unfold proj in Hq. cbn [filter] in Hq. unfold at_slot at 1 in Hq. rewrite Eq, Nat.eqb_refl in Hq.
        inversion Hq as [|? ? c1 ? ? Hst Hch]; subst.
        destruct (IH (set s q c1) x (inv_set s q c1 Hi) Hrs Hnes) as (s' & Hs' & Hi' & Hg').
        * intros p Hp. destruct (Nat.eq_dec p q) as [->|Hpq].
          -- rewrite get_set_same by assumption. exact Hch.
          -- rewrite get_set_other by congruence. specialize (Hc p Hp). unfold proj in Hc. cbn [filter] in Hc.
             unfold at_slot at 1 in Hc. rewrite Eq in Hc. replace (Nat.eqb q p) with false in Hc by (symmetry; apply Nat.eqb_neq; congruence).
             exact Hc.
        * exists s'. split; [|split; assumption]. econstructor; [exact Hne0| |exact Hs']. intros rest a. eapply step_ok; eauto.
      + (* skipped *)
        destruct (IH s x Hi Hrs Hnes) as (s' & Hs' & Hi' & Hg').
        * intros p Hp. specialize (Hc p Hp). unfold proj in Hc. cbn [filter] in Hc. unfold at_slot at 1 in Hc. rewrite Eq in Hc. exact Hc.
        * exists s'. split; [|split; assumption]. econstructor; [exact Hne0| |exact Hs']. intros rest a. eapply skip_step; eauto.
  Qed.

  (* ... so two lists with the same per-slot subsequences end in states with the same slots *)
  Corollary engine_interleave rs rs' s (x : nat -> val) : inv s -> Forall routed rs -> Forall routed rs' ->
    Forall nonempty rs -> Forall nonempty rs' ->
    (forall p, (p < n)%nat -> proj p rs = proj p rs') ->
    (forall p, (p < n)%nat -> fchain p (get s p) (proj p rs) (x p)) ->
    exists s1 s2, rsteps s rs s1 /\ rsteps s rs' s2 /\ inv s1 /\ inv s2 /\ forall p, (p < n)%nat -> get s1 p = get s2 p.
  Proof.
    intros Hi H1 H2 N1 N2 Hp Hc. destruct (engine rs s x Hi H1 N1 Hc) as (s1 & R1 & I1 & G1).
    destruct (engine rs' s x Hi H2 N2) as (s2 & R2 & I2 & G2).
    - intros p Hlt. rewrite <- Hp by exact Hlt. apply Hc; exact Hlt.
    - exists s1, s2. repeat split; auto. intros p Hlt. rewrite G1, G2 by exact Hlt. reflexivity.
  Qed.
End Engine.
