(* C04 at the generated-code level: the emitted size() equals the number of bytes the emitted encode()
   writes.  Statements only; lemmas in Proofs/SizeP.v (which reduce to the primitive-level C04 theorem
   PV.Proofs.LenP.len_val_exact through  enc_ty = write_val . to_tval  and  size_ty = len_val . to_tval). *)
From PVGen Require Import Gen GenSpec Proofs.SizeP.
From PV Require Import Proofs.LenP.
Open Scope Z_scope.

(* For every well-formed schema, every value of declared type t, every protocol and buffer kind and EVERY starting
   context of the protocol object whose pending bool id (if any) is an i16: whenever the emitted encoder succeeds,
   the emitted size pass from the same context returns exactly the number of bytes written and ends in the same
   context.  For the compact protocol the schema must be outside the decidable class of finding F-04a
   (no_tdbool: no struct field / union variant whose declared type is a typedef resolving to bool). *)
Theorem C04_gen : forall S p k t v,
  wf_schema S = true -> has_type S t v = true -> (p = PCompact -> no_tdbool S = true) ->
  forall c ss c', pend_ok c -> enc_ty S p k t v c = Ok (ss, c') ->
    size_ty S p t v c = Ok (Z.of_nat (length (flat ss)), c') /\ pend_ok c'.
Proof. exact size_exact. Qed.
Print Assumptions C04_gen.

(* entry points on a fresh protocol object *)
Theorem C04_gen_top : forall S p k t v b,
  wf_schema S = true -> has_type S t v = true -> (p = PCompact -> no_tdbool S = true) ->
  gen_encode S p k t v = Ok b -> gen_size S p t v = Ok (Z.of_nat (length b)).
Proof. exact gen_size_exact. Qed.
Print Assumptions C04_gen_top.

(* the excluded class is a real divergence of the emitted code: finding F-04a (size 3, 2 bytes written) *)
Theorem C04_gen_refuted : exists S t v,
  wf_schema S = true /\ has_type S t v = true /\
  exists n b, gen_size S PCompact t v = Ok n /\ gen_encode S PCompact BContig t v = Ok b /\ n <> Z.of_nat (length b).
Proof. exact size_refuted. Qed.
Print Assumptions C04_gen_refuted.
