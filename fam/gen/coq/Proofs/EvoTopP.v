(* C08 at the level of pilota's own encodings: evo_sim composed with the proved runtime round trip
   (PV.Proofs.RoundtripP.roundtrip_val: read_val (write_val v) = canon v), the frame property of [view], and the
   refutation witness of finding F-08a. *)
From PVGen Require Import Gen GenSpec EvoSpec Proofs.GenBase Proofs.EncP Proofs.EvoBase Proofs.EvoP Proofs.EvoErrP.
From PV Require Import Proofs.TablesP Proofs.PrimP Proofs.HeaderP Proofs.RoundtripP.
From Coq Require Import ZifyN ZifyNat ZifyBool.
Open Scope Z_scope.

(* ---------- [canon] (the one thing the wire forgets: the announced types of an empty compact map) is invisible
   to the specification ---------- *)
Lemma ttype_of_canon p v : ttype_of (canon p v) = ttype_of v.
Proof.
  destruct v; try reflexivity. cbn [canon]. unfold canon1. destruct p; try reflexivity.
  destruct (map _ l); reflexivity.
Qed.

Lemma vdepth_canon' p v : vdepth (canon p v) = vdepth v.
Proof.
  induction v using tval_ind'; try reflexivity.
  - cbn [canon]. cbn [vdepth]. f_equal.
    induction fs as [|[i x] t IHt]; [reflexivity|]. inversion H as [|? ? Hx Ht]; subst.
    cbn [map]. cbn [snd] in Hx. rewrite Hx, IHt; auto.
  - cbn [canon vdepth]. f_equal.
    induction l as [|x t IHt]; [reflexivity|]. inversion H as [|? ? Hx Ht]; subst.
    cbn [map]. rewrite Hx, IHt; auto.
  - cbn [canon vdepth]. f_equal.
    induction l as [|x t IHt]; [reflexivity|]. inversion H as [|? ? Hx Ht]; subst.
    cbn [map]. rewrite Hx, IHt; auto.
  - cbn [canon].
    assert (E : forall a b a' b', vdepth (VMap a b (map (fun '(x, y) => (canon p x, canon p y)) l)) = vdepth (VMap a' b' l)).
    { intros a b a' b'. cbn [vdepth]. f_equal.
      induction l as [|[k x] t IHt]; [reflexivity|]. inversion H as [|? ? [Hk Hx] Ht]; subst.
      cbn [map]. cbn [fst snd] in Hk, Hx. rewrite Hk, Hx, IHt; auto. }
    unfold canon1. destruct p; try apply E.
    destruct l as [|q t]; [reflexivity|]. cbn [map]. destruct q. apply (E kt vt kt vt).
Qed.

Section Canon.
  Variable R : schema.
  Variable p : pk.

  Lemma canon_map_shape kt vt l :
    exists a b, canon p (VMap kt vt l) = VMap a b (map (fun '(x, y) => (canon p x, canon p y)) l) /\
                (l <> [] -> a = kt /\ b = vt).
  Proof.
    cbn [canon]. unfold canon1. destruct p; try (exists kt, vt; split; [reflexivity|auto]).
    destruct l as [|[x y] t]; cbn [map].
    - exists TStop, TStop. split; [reflexivity|]. intros N. congruence.
    - exists kt, vt. split; [reflexivity|auto].
  Qed.

  Lemma view_canon v : forall t, view R t (canon p v) = view R t v.
  Proof.
    induction v using tval_ind'; intros t; try reflexivity.
    - (* struct *)
      cbn [canon]. rewrite !view_struct.
      destruct (resolve R t) as [| | | | | | | | | |?|?|? ?|n]; try reflexivity.
      destruct (lookup R n) as [[dfs ? ?|vs vok ?|?|?]|]; try reflexivity.
      + assert (E : forall vars, view_fields R dfs (map (fun '(i, x) => (i, canon p x)) fs) vars = view_fields R dfs fs vars).
        { induction fs as [|[i x] r IHr]; intros vars; [reflexivity|].
          inversion H as [|? ? Hx Hr]; subst. cbn [snd] in Hx. cbn [map].
          rewrite !view_fields_cons, ttype_of_canon.
          destruct (match_field R dfs 0 (Some i) (ttype_of x)) as [[j fl]|]; [|apply IHr; auto].
          rewrite Hx. destruct (view R (f_ty fl) x); cbn [bind]; auto. }
        rewrite E. reflexivity.
      + assert (E : forall ret, view_variants R vs (map (fun '(i, x) => (i, canon p x)) fs) ret = view_variants R vs fs ret).
        { induction fs as [|[i x] r IHr]; intros ret; [reflexivity|].
          inversion H as [|? ? Hx Hr]; subst. cbn [snd] in Hx. cbn [map].
          rewrite !view_variants_cons, ttype_of_canon.
          destruct (known_variant R vs i (ttype_of x)) as [vt|]; [|apply IHr; auto].
          destruct ret; [reflexivity|]. rewrite Hx. destruct (view R vt x); cbn [bind]; auto. }
        rewrite E. reflexivity.
    - (* list *)
      cbn [canon]. rewrite !view_list. destruct (resolve R t); try reflexivity.
      assert (E : view_elems R t0 (map (canon p) l) = view_elems R t0 l).
      { induction l as [|x r IHr]; [reflexivity|]. inversion H as [|? ? Hx Hr]; subst. cbn [map].
        rewrite !view_elems_cons, Hx, IHr; auto. }
      rewrite E. reflexivity.
    - (* set *)
      cbn [canon]. rewrite !view_set. destruct (resolve R t); try reflexivity.
      assert (E : view_elems R t0 (map (canon p) l) = view_elems R t0 l).
      { induction l as [|x r IHr]; [reflexivity|]. inversion H as [|? ? Hx Hr]; subst. cbn [map].
        rewrite !view_elems_cons, Hx, IHr; auto. }
      rewrite E. reflexivity.
    - (* map *)
      destruct (canon_map_shape kt vt l) as (a & b & -> & _). rewrite !view_map.
      destruct (resolve R t); try reflexivity.
      assert (E : view_pairs R t0_1 t0_2 (map (fun '(x, y) => (canon p x, canon p y)) l) = view_pairs R t0_1 t0_2 l).
      { induction l as [|[x y] r IHr]; [reflexivity|]. inversion H as [|? ? [Hx Hy] Hr]; subst. cbn [fst snd] in *.
        cbn [map]. rewrite !view_pairs_cons, Hx, Hy, IHr; auto. }
      rewrite E. reflexivity.
  Qed.

  Variable od : tval -> bool.
  Variable ro : bool.
  Hypothesis Hod : forall x, od (canon p x) = od x.

  Lemma walk_canon v : forall t, walk R od ro t (canon p v) = walk R od ro t v.
  Proof.
    induction v using tval_ind'; intros t; try reflexivity.
    - (* struct *)
      cbn [canon]. rewrite !walk_struct.
      destruct (resolve R t) as [| | | | | | | | | |?|?|? ?|n]; try reflexivity.
      destruct (lookup R n) as [[dfs ? ?|vs vok ?|?|?]|]; try reflexivity.
      + induction fs as [|[i x] r IHr]; [reflexivity|].
        inversion H as [|? ? Hx Hr]; subst. cbn [snd] in Hx. cbn [map].
        rewrite !walk_fields_cons. unfold walk_field. rewrite ttype_of_canon, IHr by auto. f_equal.
        destruct (match_field R dfs 0 (Some i) (ttype_of x)) as [[j fl]|]; auto.
      + induction fs as [|[i x] r IHr]; [reflexivity|].
        inversion H as [|? ? Hx Hr]; subst. cbn [snd] in Hx. cbn [map].
        rewrite !walk_variants_cons. unfold walk_variant. rewrite ttype_of_canon, IHr by auto. f_equal.
        destruct (find_variant vs i) as [vt|]; auto.
        destruct (is_void (resolve R vt)); auto.
        destruct (ttype_eqb (ttype_of_ty R vt) (ttype_of x)); auto. rewrite Hod. reflexivity.
    - (* list *)
      cbn [canon]. rewrite !walk_list. destruct (resolve R t); try reflexivity.
      assert (E : walk_elems R od ro t0 (map (canon p) l) = walk_elems R od ro t0 l).
      { induction l as [|x r IHr]; [reflexivity|]. inversion H as [|? ? Hx Hr]; subst. cbn [map].
        rewrite !walk_elems_cons, Hx, IHr; auto. }
      rewrite E. destruct l; reflexivity.
    - (* set *)
      cbn [canon]. rewrite !walk_set. destruct (resolve R t); try reflexivity.
      assert (E : walk_elems R od ro t0 (map (canon p) l) = walk_elems R od ro t0 l).
      { induction l as [|x r IHr]; [reflexivity|]. inversion H as [|? ? Hx Hr]; subst. cbn [map].
        rewrite !walk_elems_cons, Hx, IHr; auto. }
      rewrite E. destruct l; reflexivity.
    - (* map *)
      destruct (canon_map_shape kt vt l) as (a & b & -> & Hab). rewrite !walk_map.
      destruct (resolve R t); try reflexivity.
      assert (E : walk_pairs R od ro t0_1 t0_2 (map (fun '(x, y) => (canon p x, canon p y)) l) = walk_pairs R od ro t0_1 t0_2 l).
      { clear Hab. induction l as [|[x y] r IHr]; [reflexivity|]. inversion H as [|? ? [Hx Hy] Hr]; subst. cbn [fst snd] in *.
        cbn [map]. rewrite !walk_pairs_cons, Hx, Hy, IHr; auto. }
      rewrite E. destruct l as [|q r]; [reflexivity|]. destruct (Hab ltac:(discriminate)) as [-> ->]. reflexivity.
  Qed.
End Canon.

Lemma skippable_canon p x : skippable (canon p x) = skippable x.
Proof. unfold skippable. rewrite vdepth_canon'. reflexivity. Qed.

(* ---------- the refinement, on every input the generic reader accepts ---------- *)
Theorem evo_refines : forall R p fuel T s v s',
  read_val p fuel (ttype_of_ty R T) s = Ok (v, s') -> r_pfield (rc s) = false ->
  evo_dom R T v = true -> no_retyped_variant R T v = true ->
  gen_decode R p fuel T s = lift_view (view R T v) s'.
Proof. intros R p fuel T s v s' H Hn Hd Hr. exact (evo_sim R p fuel _ s v s' H Hn T eq_refl Hd Hr). Qed.

(* ---------- the refinement on pilota's own encodings ---------- *)
Theorem evo_tolerant : forall R p k T tv,
  wt tv = true -> ttype_of tv = ttype_of_ty R T ->
  evo_dom R T tv = true -> no_retyped_variant R T tv = true ->
  forall c, w_pend c = None ->
  exists ss, write_val p k tv c = Ok (ss, c) /\
    forall fuel r rcx, (vsize tv <= fuel)%nat -> idle rcx ->
      gen_decode R p fuel T (mkS (flat ss ++ r) rcx) = lift_view (view R T tv) (mkS r rcx).
Proof.
  intros R p k T tv Hwt Hty Hd Hn c Hp.
  destruct (roundtrip_val p k tv Hwt c Hp) as (ss & Hw & _ & Hr).
  exists ss. split; [exact Hw|]. intros fuel r rcx Hf Hi.
  specialize (Hr fuel r rcx Hf Hi).
  rewrite <- (view_canon R p tv T).
  apply (evo_sim R p fuel _ _ _ _ Hr).
  - destruct Hi as [_ Hpf]. exact Hpf.
  - symmetry. exact Hty.
  - unfold evo_dom in Hd. rewrite (walk_canon R p skippable true (skippable_canon p)). exact Hd.
  - unfold no_retyped_variant in Hn. rewrite (walk_canon R p (fun _ => true) false (fun _ => eq_refl)). exact Hn.
Qed.

(* ---------- frame: fields the reader does not know are invisible ---------- *)
Lemma view_fields_frame R dfs a id x b : match_field R dfs 0 (Some id) (ttype_of x) = None ->
  forall vars, view_fields R dfs (a ++ (id, x) :: b) vars = view_fields R dfs (a ++ b) vars.
Proof.
  intros Hm. induction a as [|[i y] a IH]; intros vars; cbn [app].
  - rewrite view_fields_cons, Hm. reflexivity.
  - rewrite !view_fields_cons. destruct (match_field R dfs 0 (Some i) (ttype_of y)) as [[j fl]|]; [|apply IH].
    destruct (view R (f_ty fl) y); cbn [bind]; auto.
Qed.

Lemma view_variants_frame R vs a id x b : known_variant R vs id (ttype_of x) = None ->
  forall ret, view_variants R vs (a ++ (id, x) :: b) ret = view_variants R vs (a ++ b) ret.
Proof.
  intros Hm. induction a as [|[i y] a IH]; intros ret; cbn [app].
  - rewrite view_variants_cons, Hm. reflexivity.
  - rewrite !view_variants_cons. destruct (known_variant R vs i (ttype_of y)) as [vt|]; [|apply IH].
    destruct ret; [reflexivity|]. destruct (view R vt y); cbn [bind]; auto.
Qed.

(* is the wire field (id, x) one the reader ignores when it decodes at type t? *)
Definition ignored (R : schema) (t : ty) (id : Z) (x : tval) : bool :=
  match resolve R t with
  | TyRef n =>
      match lookup R n with
      | Some (DStruct dfs _ _) => match match_field R dfs 0 (Some id) (ttype_of x) with None => true | Some _ => false end
      | Some (DUnion vs _ _) => match known_variant R vs id (ttype_of x) with None => true | Some _ => false end
      | _ => false
      end
  | _ => false
  end.

Theorem view_frame R t a id x b : ignored R t id x = true ->
  view R t (VStruct (a ++ (id, x) :: b)) = view R t (VStruct (a ++ b)).
Proof.
  unfold ignored. rewrite !view_struct.
  destruct (resolve R t) as [| | | | | | | | | |?|?|? ?|n]; try discriminate.
  destruct (lookup R n) as [[dfs ? ?|vs vok ?|?|?]|]; try discriminate.
  - destruct (match_field R dfs 0 (Some id) (ttype_of x)) eqn:Em; [discriminate|]. intros _.
    rewrite (view_fields_frame R dfs a id x b Em). reflexivity.
  - destruct (known_variant R vs id (ttype_of x)) eqn:Em; [discriminate|]. intros _.
    rewrite (view_variants_frame R vs a id x b Em). reflexivity.
Qed.

(* removing a field keeps a struct well-typed, in the domain, and smaller *)
Lemma wtf_remove a q b : wtf (a ++ q :: b) = true -> wtf (a ++ b) = true.
Proof.
  induction a as [|[i y] a IH]; cbn [app wtf].
  - destruct q as [j z]. intros H. apply andb_prop in H as [_ H]. exact H.
  - intros H. apply andb_prop in H as [H1 H2]. rewrite H1, (IH H2). reflexivity.
Qed.

Lemma walk_remove R od ro t a q b :
  walk R od ro t (VStruct (a ++ q :: b)) = true -> walk R od ro t (VStruct (a ++ b)) = true.
Proof.
  rewrite !walk_struct.
  destruct (resolve R t) as [| | | | | | | | | |?|?|? ?|n]; auto.
  destruct (lookup R n) as [[dfs ? ?|vs vok ?|?|?]|]; auto.
  - induction a as [|[i y] a IH]; cbn [app].
    + destruct q as [j z]. rewrite walk_fields_cons. intros H. apply andb_prop in H as [_ H]. exact H.
    + rewrite !walk_fields_cons. intros H. apply andb_prop in H as [H1 H2]. rewrite H1, (IH H2). reflexivity.
  - induction a as [|[i y] a IH]; cbn [app].
    + destruct q as [j z]. rewrite walk_variants_cons. intros H. apply andb_prop in H as [_ H]. exact H.
    + rewrite !walk_variants_cons. intros H. apply andb_prop in H as [H1 H2]. rewrite H1, (IH H2). reflexivity.
Qed.

Lemma vsize_remove a q b : (vsize (VStruct (a ++ b)) <= vsize (VStruct (a ++ q :: b)))%nat.
Proof.
  induction a as [|[i y] a IH]; cbn [app].
  - destruct q as [j z]. cbn [vsize]. lia.
  - cbn [vsize] in *. lia.
Qed.

(* byte level: the same struct written with and without a field the reader ignores, anywhere in the field list,
   decodes to the same result -- the view of the struct WITHOUT that field -- (value or error); each decoder stops at
   the end of its own input with the reader context it started from *)
Theorem evo_frame : forall R p k T a id x b,
  ignored R T id x = true ->
  wt (VStruct (a ++ (id, x) :: b)) = true -> TStruct = ttype_of_ty R T ->
  evo_dom R T (VStruct (a ++ (id, x) :: b)) = true -> no_retyped_variant R T (VStruct (a ++ (id, x) :: b)) = true ->
  forall c, w_pend c = None ->
  exists ss1 ss2,
    write_val p k (VStruct (a ++ (id, x) :: b)) c = Ok (ss1, c) /\
    write_val p k (VStruct (a ++ b)) c = Ok (ss2, c) /\
    forall fuel r rcx, (vsize (VStruct (a ++ (id, x) :: b)) <= fuel)%nat -> idle rcx ->
      gen_decode R p fuel T (mkS (flat ss1 ++ r) rcx) = lift_view (view R T (VStruct (a ++ b))) (mkS r rcx) /\
      gen_decode R p fuel T (mkS (flat ss2 ++ r) rcx) = lift_view (view R T (VStruct (a ++ b))) (mkS r rcx).
Proof.
  intros R p k T a id x b Hig Hwt1 Hty Hd1 Hn1 c Hp.
  assert (Hwt2 : wt (VStruct (a ++ b)) = true).
  { rewrite wt_struct in *. eapply wtf_remove; eauto. }
  pose proof (walk_remove _ _ _ _ _ _ _ Hd1) as Hd2. pose proof (walk_remove _ _ _ _ _ _ _ Hn1) as Hn2.
  destruct (evo_tolerant R p k T _ Hwt1 Hty Hd1 Hn1 c Hp) as (ss1 & Hw1 & Hr1).
  destruct (evo_tolerant R p k T _ Hwt2 Hty Hd2 Hn2 c Hp) as (ss2 & Hw2 & Hr2).
  exists ss1, ss2. split; [exact Hw1|]. split; [exact Hw2|].
  intros fuel r rcx Hf1 Hi. pose proof (vsize_remove a (id, x) b) as Hle.
  rewrite (Hr1 fuel r rcx Hf1 Hi), (Hr2 fuel r rcx ltac:(lia) Hi).
  rewrite (view_frame R T a id x b Hig). split; reflexivity.
Qed.

(* ---------- non-vacuity ---------- *)
(* reader: struct Top { 1: required i32 a; 2: optional string s = "d"; 3: optional list<Sub> l; 4: optional E e;
                        5: optional U u }   struct Sub { 1: optional bool b }   enum E { 0, 1 }
           union U { 1: i64 n; 2: string t } *)
Definition Rx : schema :=
  [ DStruct [mkField 1 Required TyI32 None; mkField 2 Optional TyString (Some (false, GBytes [x64]));
             mkField 3 Optional (TyList (TyRef 1)) None; mkField 4 Optional (TyRef 2) None;
             mkField 5 Optional (TyRef 3) None] false false;
    DStruct [mkField 1 Optional TyBool None] false false;
    DEnum [0; 1];
    DUnion [(1, TyI64); (2, TyString)] false false ].

(* written by a schema that has an extra map field 9, field 2 re-typed to i64, an extra double in Sub, enum number
   99, an extra bool variant 7 in front of variant 2, and field 1 twice *)
Definition tvx : tval :=
  VStruct [ (9, VMap TBinary TI32 [(VBinary [x61], VI32 1)]);
            (1, VI32 7);
            (2, VI64 5);
            (3, VList TStruct [VStruct [(1, VBool true); (8, VDouble 0)]; VStruct []]);
            (4, VI32 99);
            (5, VStruct [(7, VBool false); (2, VBinary [x62])]);
            (1, VI32 8) ].

Example evo_tolerant_nonvacuous :
  wf_schema Rx = true /\ wt tvx = true /\ ttype_of tvx = ttype_of_ty Rx (TyRef 0) /\
  evo_dom Rx (TyRef 0) tvx = true /\ no_retyped_variant Rx (TyRef 0) tvx = true /\
  view Rx (TyRef 0) tvx =
    Ok (GStruct [(1, GI32 8); (2, GBytes [x64]); (3, GList [GStruct [(1, GBool true)] []; GStruct [] []]);
                 (4, GEnum 99); (5, GUnion 2 (GBytes [x62]))] []) /\
  forall p, exists ss, write_val p BContig tvx w0 = Ok (ss, w0) /\
    gen_decode Rx p 40 (TyRef 0) (mkS (flat ss ++ [xff]) r0) = lift_view (view Rx (TyRef 0) tvx) (mkS [xff] r0).
Proof.
  split; [vm_compute; reflexivity|]. split; [vm_compute; reflexivity|]. split; [vm_compute; reflexivity|].
  split; [vm_compute; reflexivity|]. split; [vm_compute; reflexivity|]. split; [vm_compute; reflexivity|].
  intros p.
  destruct (evo_tolerant Rx p BContig (TyRef 0) tvx eq_refl eq_refl eq_refl eq_refl w0 eq_refl) as (ss & Hw & Hr).
  exists ss. split; [exact Hw|]. apply Hr; [vm_compute; lia|apply idle_r0].
Qed.

(* the reader must fail: field 1 arrives as a string, so the required field is absent *)
Definition tvy : tval := VStruct [(1, VBinary [x61]); (2, VBinary [])].

Example evo_error_nonvacuous :
  wt tvy = true /\ evo_dom Rx (TyRef 0) tvy = true /\ no_retyped_variant Rx (TyRef 0) tvy = true /\
  view Rx (TyRef 0) tvy = Err EInvalidData /\ must_fail Rx (TyRef 0) tvy = true /\
  forall p, exists ss, write_val p BContig tvy w0 = Ok (ss, w0) /\
    gen_decode Rx p 40 (TyRef 0) (mkS (flat ss) r0) = Err EInvalidData.
Proof.
  split; [vm_compute; reflexivity|]. split; [vm_compute; reflexivity|]. split; [vm_compute; reflexivity|].
  split; [vm_compute; reflexivity|]. split; [vm_compute; reflexivity|].
  intros p.
  destruct (evo_tolerant Rx p BContig (TyRef 0) tvy eq_refl eq_refl eq_refl eq_refl w0 eq_refl) as (ss & Hw & Hr).
  exists ss. split; [exact Hw|].
  specialize (Hr 40%nat [] r0 ltac:(vm_compute; lia) idle_r0). rewrite app_nil_r in Hr. exact Hr.
Qed.

Example evo_frame_nonvacuous :
  ignored Rx (TyRef 0) 9 (VMap TBinary TI32 [(VBinary [x61], VI32 1)]) = true /\
  ignored Rx (TyRef 0) 2 (VI64 5) = true /\ ignored Rx (TyRef 0) 1 (VI32 7) = false.
Proof. repeat split; vm_compute; reflexivity. Qed.

(* ---------- finding F-08a: a union variant the reader knows, re-typed by the writer ---------- *)
(* reader: union Res { 0: i32 Ok }; the writer's variant 0 is a list<struct> (binary-LE: the i32 reader swallows
   the list header, the next byte happens to be a Stop) *)
Definition Ru : schema := [ DUnion [(0, TyI32)] false false ].
Definition tvu : tval := VStruct [(0, VList TStruct [VStruct [(1, VI32 1)]])].

Theorem union_retyped_refuted :
  exists R p k T tv ss,
    wf_schema R = true /\ wt tv = true /\ ttype_of tv = ttype_of_ty R T /\ evo_dom R T tv = true /\
    no_retyped_variant R T tv = false /\
    write_val p k tv w0 = Ok (ss, w0) /\
    view R T tv = Err EInvalidData /\                       (* no KNOWN variant of the declared wire type: must fail *)
    exists g s', gen_decode R p 40 T (mkS (flat ss) r0) = Ok (g, s') /\ rbuf s' <> [].   (* a wrong value, input left over *)
Proof.
  exists Ru, PBinaryLE, BContig, (TyRef 0), tvu. eexists.
  split; [vm_compute; reflexivity|]. split; [vm_compute; reflexivity|]. split; [vm_compute; reflexivity|].
  split; [vm_compute; reflexivity|]. split; [vm_compute; reflexivity|]. split; [vm_compute; reflexivity|].
  split; [vm_compute; reflexivity|]. eexists. eexists. split; [vm_compute; reflexivity|]. cbn. discriminate.
Qed.

(* ---------- the two readings asked for by the property ---------- *)
Theorem evo_tolerant_ok : forall R p k T tv g,
  wt tv = true -> ttype_of tv = ttype_of_ty R T ->
  evo_dom R T tv = true -> no_retyped_variant R T tv = true ->
  view R T tv = Ok g ->
  forall c, w_pend c = None ->
  exists ss, write_val p k tv c = Ok (ss, c) /\
    forall fuel r rcx, (vsize tv <= fuel)%nat -> idle rcx ->
      gen_decode R p fuel T (mkS (flat ss ++ r) rcx) = Ok (g, mkS r rcx).
Proof.
  intros R p k T tv g Hwt Hty Hd Hn Hv c Hp.
  destruct (evo_tolerant R p k T tv Hwt Hty Hd Hn c Hp) as (ss & Hw & Hr).
  exists ss. split; [exact Hw|]. intros fuel r rcx Hf Hi. rewrite (Hr fuel r rcx Hf Hi), Hv. reflexivity.
Qed.

Theorem evo_errors_exact : forall R p k T tv,
  wt tv = true -> ttype_of tv = ttype_of_ty R T ->
  evo_dom R T tv = true -> no_retyped_variant R T tv = true ->
  forall c, w_pend c = None ->
  exists ss, write_val p k tv c = Ok (ss, c) /\
    forall fuel r rcx, (vsize tv <= fuel)%nat -> idle rcx ->
      (forall e, gen_decode R p fuel T (mkS (flat ss ++ r) rcx) = Err e <-> view R T tv = Err e) /\
      (forall g s', gen_decode R p fuel T (mkS (flat ss ++ r) rcx) = Ok (g, s') -> view R T tv = Ok g /\ s' = mkS r rcx) /\
      (forall q, gen_decode R p fuel T (mkS (flat ss ++ r) rcx) <> Panic q).
Proof.
  intros R p k T tv Hwt Hty Hd Hn c Hp.
  destruct (evo_tolerant R p k T tv Hwt Hty Hd Hn c Hp) as (ss & Hw & Hr).
  exists ss. split; [exact Hw|]. intros fuel r rcx Hf Hi. rewrite (Hr fuel r rcx Hf Hi).
  pose proof (view_np R tv T) as Hnp.
  destruct (view R T tv) as [g|e|q]; cbn [lift_view].
  - split; [intros e; split; discriminate|]. split; [|discriminate].
    intros g' s' H. injection H as <- <-. auto.
  - split; [intros e'; split; intros H; injection H as <-; reflexivity|]. split; [discriminate|discriminate].
  - exfalso. apply (Hnp q). reflexivity.
Qed.

(* ---------- finding F-08b: a container whose ELEMENT type was re-typed by the writer ---------- *)
(* reader: struct Inner { 1: required i32 a; 4: optional list<i32> d }; the writer's field 4 is list<string> ["ab", "c"].
   The field's wire type is List for both, the emitted container decoder never looks at the announced element type
   and reads the elements at the declared type: a wrong value, and the rest of the message is left unread. *)
Definition Re : schema := [ DStruct [mkField 1 Required TyI32 None; mkField 4 Optional (TyList TyI32) None] false false ].
Definition tve : tval := VStruct [(1, VI32 7); (4, VList TBinary [VBinary [x61; x62]; VBinary [x63]])].

Theorem elem_retyped_refuted :
  exists R p k T tv ss,
    wf_schema R = true /\ wt tv = true /\ ttype_of tv = ttype_of_ty R T /\
    walk R skippable true T (VStruct [(1, VI32 7)]) = true /\                   (* the rest of the message is in the domain; no union occurs *)
    evo_dom R T tv = false /\                                   (* only because field 4 announces another element type *)
    write_val p k tv w0 = Ok (ss, w0) /\
    gen_decode R p 40 T (mkS (flat ss) r0)
      = Ok (GStruct [(1, GI32 7); (4, GList [GI32 2; GI32 1633812480])] [], mkS [x01; x63; x00] r0).
Proof.
  exists Re, PBinary, BContig, (TyRef 0), tve. eexists.
  split; [vm_compute; reflexivity|]. split; [vm_compute; reflexivity|]. split; [vm_compute; reflexivity|].
  split; [vm_compute; reflexivity|]. split; [vm_compute; reflexivity|].
  split; [vm_compute; reflexivity|]. vm_compute. reflexivity.
Qed.
