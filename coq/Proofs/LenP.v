(* C04 (primitive level): the size pass returns exactly the number of bytes the write pass emits,
   and walks the same contexts. *)
From PV Require Import Thrift.Len Proofs.VarintP Proofs.TablesP Proofs.PrimP Proofs.HeaderP Proofs.RoundtripP.
From Coq Require Import ZifyN ZifyNat ZifyBool.
Open Scope Z_scope.

Definition LW (l : lm) (w : wm) : Prop :=
  forall c ss c', w c = Ok (ss, c') -> l c = Ok (Z.of_nat (length (flat ss)), c').

Lemma wseq_inv (a b : wm) c ss c' :
  (a ;; b) c = Ok (ss, c') -> exists s1 c1 s2, a c = Ok (s1, c1) /\ b c1 = Ok (s2, c') /\ ss = s1 ++ s2.
Proof.
  unfold wseq. destruct (a c) as [[s1 c1]| |] eqn:Ea; cbn [bind]; try discriminate.
  destruct (b c1) as [[s2 c2]| |] eqn:Eb; cbn [bind]; try discriminate.
  intros H. injection H as <- <-. exists s1, c1, s2. repeat split; auto.
Qed.

Lemma LW_seq l1 w1 l2 w2 : LW l1 w1 -> LW l2 w2 -> LW (l1 +++ l2) (w1 ;; w2).
Proof.
  intros H1 H2 c ss c' Hw. apply wseq_inv in Hw as (s1 & c1 & s2 & Ha & Hb & ->).
  unfold lseq. rewrite (H1 _ _ _ Ha). cbn [bind]. rewrite (H2 _ _ _ Hb). cbn [bind].
  rewrite flat_app, app_length. f_equal. f_equal. lia.
Qed.

Lemma LW_ret n l : n = Z.of_nat (length l) -> LW (lret n) (wret l).
Proof. intros -> c ss c' H. unfold wret in H. injection H as <- <-. rewrite flat_copy. reflexivity. Qed.

Lemma LW_nop : LW (lret 0) wnop.
Proof. intros c ss c' H. unfold wnop in H. injection H as <- <-. reflexivity. Qed.

(* required_space = number of bytes encode_var produces *)
Lemma req_loop_enc : forall f n, 0 < n < 128 ^ Z.of_nat (S f) ->
  req_loop (S f) n = Z.of_nat (length (enc_var f n)).
Proof.
  induction f as [|f IH]; intros n Hn.
  - change (128 ^ Z.of_nat 1) with 128 in Hn. cbn [req_loop enc_var length].
    replace (n <=? 0) with false by lia. replace (n / 128 <=? 0) with true by lia. reflexivity.
  - cbn [req_loop]. replace (n <=? 0) with false by lia.
    cbn [enc_var]. destruct (Z.ltb_spec n 128).
    + replace (n / 128 <=? 0) with true by lia. reflexivity.
    + rewrite Nat2Z.inj_succ, Z.pow_succ_r in Hn by lia.
      assert (0 < n / 128 < 128 ^ Z.of_nat (S f)).
      { split; [apply Z.div_str_pos; lia|apply Z.div_lt_upper_bound; lia]. }
      specialize (IH (n / 128) H0). cbn [req_loop] in IH. rewrite IH.
      cbn [length]. lia.
Qed.

Lemma required_space_u_len n : 0 <= n < two64 -> required_space_u n = Z.of_nat (length (encode_var n)).
Proof.
  intros Hn. unfold required_space_u, encode_var.
  destruct (Z.eqb_spec n 0) as [->|Hz]; [reflexivity|].
  apply (req_loop_enc 9). unfold two64 in Hn. change (128 ^ Z.of_nat 10) with (2 ^ 70).
  assert (2 ^ 64 < 2 ^ 70) by (apply Z.pow_lt_mono_r; lia). lia.
Qed.

Lemma required_space_s_len z : in_s 64 z -> required_space_s z = Z.of_nat (length (encode_var (zigzag z))).
Proof.
  intros Hz. unfold required_space_s. apply required_space_u_len.
  pose proof (zigzag_bound 64 z ltac:(lia) Hz). unfold two64. lia.
Qed.

Lemma in_s_mono a b z : 0 < a <= b -> in_s a z -> in_s b z.
Proof.
  intros Hab [H1 H2]. unfold in_s.
  assert (2 ^ (a - 1) <= 2 ^ (b - 1)) by (apply Z.pow_le_mono_r; lia). lia.
Qed.

Lemma LW_i16 p z : in_s 16 z -> LW (l_i16 p z) (w_i16 p z).
Proof.
  intros Hz. destruct p; cbn [l_i16 w_i16]; apply LW_ret; rewrite ?fx_length; auto.
  apply required_space_s_len. eapply in_s_mono; [|eauto]; lia.
Qed.
Lemma LW_i32 p z : in_s 32 z -> LW (l_i32 p z) (w_i32 p z).
Proof.
  intros Hz. destruct p; cbn [l_i32 w_i32]; apply LW_ret; rewrite ?fx_length; auto.
  apply required_space_s_len. eapply in_s_mono; [|eauto]; lia.
Qed.
Lemma LW_i64 p z : in_s 64 z -> LW (l_i64 p z) (w_i64 p z).
Proof.
  intros Hz. destruct p; cbn [l_i64 w_i64]; apply LW_ret; rewrite ?fx_length; auto.
  apply required_space_s_len. auto.
Qed.
Lemma LW_double p z : LW l_double (w_double p z).
Proof. destruct p; cbn [w_double]; apply LW_ret; rewrite ?be_bytes_length, ?le_bytes_length; reflexivity. Qed.

Lemma wrap_u32_range n : 0 <= wrap_u 32 n < two64.
Proof.
  pose proof (wrap_u_range 32 n ltac:(lia)). unfold two64.
  assert (2 ^ 32 < 2 ^ 64) by (apply Z.pow_lt_mono_r; lia). lia.
Qed.

Lemma LW_bytes p k l : len_ok (length l) = true -> LW (l_bytes p (Z.of_nat (length l))) (w_bytes p k l).
Proof.
  intros Hl c ss c' Hw. unfold w_bytes in Hw.
  apply wseq_inv in Hw as (s1 & c1 & s2 & Ha & Hb & ->).
  destruct (w_bwl_ok k l c1) as (s & Hs & Hsb). rewrite Hs in Hb. injection Hb as <- <-.
  rewrite flat_app, app_length. unfold flat at 2. cbn [map concat]. rewrite Hsb, app_nil_r.
  destruct p; cbn [w_len l_bytes] in *.
  1,2: cbn [w_i32] in Ha; unfold wret in Ha; injection Ha as <- <-; rewrite flat_copy;
       rewrite ?fx_length, ?be_bytes_length, ?le_bytes_length; cbn [length];
       unfold lret; f_equal; f_equal; lia.
  unfold wret in Ha. injection Ha as <- <-. rewrite flat_copy. unfold lret. f_equal. f_equal.
  rewrite required_space_u_len by apply wrap_u32_range. lia.
Qed.

Lemma LW_field_header ct id : in_s 16 id -> LW (l_field_header id) (w_field_header ct id).
Proof.
  intros Hid c ss c' Hw. unfold w_field_header in Hw. unfold l_field_header.
  destruct ((0 <? id - w_last c) && (id - w_last c <? 15)).
  - injection Hw as <- <-. reflexivity.
  - apply wseq_inv in Hw as (s1 & c1 & s2 & Ha & Hb & ->).
    unfold w_byte, wret in Ha. injection Ha as <- <-.
    cbn [w_i16] in Hb. unfold wret in Hb. injection Hb as <- <-.
    rewrite flat_app, !flat_copy, app_length. cbn [length].
    rewrite required_space_s_len by (eapply in_s_mono; [|eauto]; lia).
    f_equal. f_equal. lia.
Qed.

Lemma LW_field_begin p ty id : in_s 16 id -> LW (l_field_begin p ty id) (w_field_begin p ty id).
Proof.
  intros Hid. destruct p; cbn [l_field_begin w_field_begin].
  1,2: apply LW_ret; cbn [length]; rewrite fx_length; reflexivity.
  intros c ss c' Hw.
  destruct ty; try (destruct (ctype_of_ttype _); [eapply LW_field_header; eauto|discriminate]).
  destruct (w_pend c); [discriminate|]. injection Hw as <- <-. reflexivity.
Qed.

Lemma LW_assert p n l : n = Z.of_nat (length l) ->
  LW (assert_no_pending_l p n) (assert_no_pending_w p ;; wret l).
Proof.
  intros -> c ss c' Hw. apply wseq_inv in Hw as (s1 & c1 & s2 & Ha & Hb & ->).
  unfold assert_no_pending_w in Ha. unfold assert_no_pending_l.
  destruct p, (w_pend c); cbn in Ha; try discriminate;
    injection Ha as <- <-; unfold wret in Hb; injection Hb as <- <-; cbn [app]; rewrite flat_copy; reflexivity.
Qed.

Lemma LW_field_end p : LW (l_field_end p) (w_field_end p).
Proof.
  intros c ss c' Hw. unfold w_field_end, assert_no_pending_w in Hw. unfold l_field_end, assert_no_pending_l.
  destruct p, (w_pend c); cbn in Hw; try discriminate; injection Hw as <- <-; reflexivity.
Qed.

Lemma LW_field_stop p : LW (l_field_stop p) (w_field_stop p).
Proof. unfold l_field_stop, w_field_stop, w_byte. apply LW_assert. reflexivity. Qed.

Lemma LW_struct_begin p : LW (l_struct_begin p) (w_struct_begin p).
Proof. intros c ss c' Hw. destruct p; cbn in *; injection Hw as <- <-; reflexivity. Qed.

Lemma LW_struct_end p : LW (l_struct_end p) (w_struct_end p).
Proof.
  intros c ss c' Hw. destruct p; cbn [w_struct_end l_struct_end] in *; try (injection Hw as <- <-; reflexivity).
  destruct (w_pend c); [discriminate|]. destruct (w_stack c); [discriminate|].
  injection Hw as <- <-; reflexivity.
Qed.

(* bool: the pending id (if any) was put there by field_begin and is an i16 *)
Definition pend_ok (c : wctx) : Prop := match w_pend c with Some id => in_s 16 id | None => True end.

Lemma LW_bool_at p b c ss c' : pend_ok c -> w_bool p b c = Ok (ss, c') ->
  l_bool p c = Ok (Z.of_nat (length (flat ss)), c').
Proof.
  intros Hp Hw. destruct p; cbn [w_bool l_bool] in *.
  1,2: unfold w_i8, wret in Hw; injection Hw as <- <-; reflexivity.
  unfold pend_ok in Hp. destruct (w_pend c) as [id|].
  - eapply LW_field_header; eauto.
  - unfold w_byte, wret in Hw. injection Hw as <- <-. reflexivity.
Qed.

Lemma LW_coll_begin p et n : 0 <= n -> LW (l_coll_begin p et n) (w_coll_begin p et n).
Proof.
  intros Hn. destruct p; cbn [l_coll_begin w_coll_begin].
  1,2: intros c ss c' Hw; apply wseq_inv in Hw as (s1 & c1 & s2 & Ha & Hb & ->);
       unfold w_byte, wret in Ha; injection Ha as <- <-;
       cbn [w_i32] in Hb; unfold wret in Hb; injection Hb as <- <-;
       rewrite flat_app, !flat_copy, app_length; rewrite ?fx_length, ?be_bytes_length, ?le_bytes_length; reflexivity.
  intros c ss c' Hw. destruct (ctype_of_ttype et) as [ct|]; [|discriminate].
  destruct (n <=? 14).
  - unfold w_byte, wret in Hw. injection Hw as <- <-. reflexivity.
  - apply wseq_inv in Hw as (s1 & c1 & s2 & Ha & Hb & ->).
    unfold w_byte, wret in Ha, Hb. injection Ha as <- <-. injection Hb as <- <-.
    rewrite flat_app, !flat_copy, app_length. cbn [length].
    rewrite required_space_u_len by apply wrap_u32_range. f_equal. f_equal. lia.
Qed.

Lemma LW_map_begin p kt vt n : LW (l_map_begin p kt vt n) (w_map_begin p kt vt n).
Proof.
  destruct p; cbn [l_map_begin w_map_begin].
  1,2: intros c ss c' Hw; apply wseq_inv in Hw as (s1 & c1 & s2 & Ha & Hb & ->);
       apply wseq_inv in Ha as (s0 & c0 & s3 & Ha1 & Ha2 & E0); subst s1;
       unfold w_byte, wret in Ha1, Ha2; injection Ha1 as <- <-; injection Ha2 as <- <-;
       cbn [w_i32] in Hb; unfold wret in Hb; injection Hb as <- <-;
       rewrite !flat_app, !flat_copy, !app_length; rewrite ?fx_length, ?be_bytes_length, ?le_bytes_length; reflexivity.
  intros c ss c' Hw. destruct (n =? 0).
  - unfold w_byte, wret in Hw. injection Hw as <- <-. reflexivity.
  - destruct (ctype_of_ttype kt) as [kc|]; [|discriminate]. destruct (ctype_of_ttype vt) as [vc|]; [|discriminate].
    apply wseq_inv in Hw as (s1 & c1 & s2 & Ha & Hb & ->).
    unfold w_byte, wret in Ha, Hb. injection Ha as <- <-. injection Hb as <- <-.
    rewrite flat_app, !flat_copy, app_length. cbn [length].
    rewrite required_space_u_len by apply wrap_u32_range. f_equal. f_equal. lia.
Qed.

(* --- threading the "pending id is an i16" invariant --- *)
Definition LWp (l : lm) (w : wm) : Prop :=
  forall c ss c', pend_ok c -> w c = Ok (ss, c') ->
    l c = Ok (Z.of_nat (length (flat ss)), c') /\ pend_ok c'.

Definition pres (w : wm) : Prop := forall c ss c', w c = Ok (ss, c') -> pend_ok c -> pend_ok c'.

Lemma LWp_of l w : LW l w -> pres w -> LWp l w.
Proof. intros H P c ss c' Hp Hw. split; [apply H; auto|eapply P; eauto]. Qed.

Lemma LWp_seq l1 w1 l2 w2 : LWp l1 w1 -> LWp l2 w2 -> LWp (l1 +++ l2) (w1 ;; w2).
Proof.
  intros H1 H2 c ss c' Hp Hw. apply wseq_inv in Hw as (s1 & c1 & s2 & Ha & Hb & ->).
  destruct (H1 _ _ _ Hp Ha) as [E1 P1]. destruct (H2 _ _ _ P1 Hb) as [E2 P2].
  split; [|exact P2].
  unfold lseq. rewrite E1. cbn [bind]. rewrite E2. cbn [bind].
  rewrite flat_app, app_length. f_equal. f_equal. lia.
Qed.

Lemma pres_ret l : pres (wret l).
Proof. intros c ss c' H. unfold wret in H. injection H as <- <-. auto. Qed.

Lemma pres_same (w : wm) : (forall c ss c', w c = Ok (ss, c') -> w_pend c' = w_pend c) -> pres w.
Proof. intros H c ss c' Hw Hp. unfold pend_ok in *. rewrite (H _ _ _ Hw). exact Hp. Qed.

Lemma pres_none (w : wm) : (forall c ss c', w c = Ok (ss, c') -> w_pend c' = None) -> pres w.
Proof. intros H c ss c' Hw Hp. unfold pend_ok in *. rewrite (H _ _ _ Hw). exact I. Qed.

Ltac inv_ok H := first [injection H as <- <- | discriminate].

Lemma LWp_i8 z : LWp l_i8 (w_i8 z).
Proof. apply LWp_of; [apply LW_ret; reflexivity|apply pres_ret]. Qed.
Lemma LWp_i16 p z : in_s 16 z -> LWp (l_i16 p z) (w_i16 p z).
Proof. intros. apply LWp_of; [apply LW_i16; auto|destruct p; apply pres_ret]. Qed.
Lemma LWp_i32 p z : in_s 32 z -> LWp (l_i32 p z) (w_i32 p z).
Proof. intros. apply LWp_of; [apply LW_i32; auto|destruct p; apply pres_ret]. Qed.
Lemma LWp_i64 p z : in_s 64 z -> LWp (l_i64 p z) (w_i64 p z).
Proof. intros. apply LWp_of; [apply LW_i64; auto|destruct p; apply pres_ret]. Qed.
Lemma LWp_double p z : LWp l_double (w_double p z).
Proof. apply LWp_of; [apply LW_double|destruct p; apply pres_ret]. Qed.
Lemma LWp_uuid l : length l = 16%nat -> LWp l_uuid (w_uuid l).
Proof. intros H. apply LWp_of; [apply LW_ret; rewrite H; reflexivity|apply pres_ret]. Qed.

Lemma LWp_bytes p k l : len_ok (length l) = true -> LWp (l_bytes p (Z.of_nat (length l))) (w_bytes p k l).
Proof.
  intros H. apply LWp_of; [apply LW_bytes; auto|].
  apply pres_same. intros c ss c' Hw. unfold w_bytes in Hw.
  apply wseq_inv in Hw as (s1 & c1 & s2 & Ha & Hb & ->).
  destruct (w_bwl_ok k l c1) as (s & Hs & _). rewrite Hs in Hb. injection Hb as <- <-.
  destruct p; cbn [w_len w_i32] in Ha; unfold wret in Ha; injection Ha as <- <-; reflexivity.
Qed.

Lemma LWp_bool p b : LWp (l_bool p) (w_bool p b).
Proof.
  intros c ss c' Hp Hw. split; [eapply LW_bool_at; eauto|].
  destruct p; cbn [w_bool] in Hw.
  1,2: unfold w_i8, wret in Hw; injection Hw as <- <-; exact Hp.
  destruct (w_pend c) as [id|] eqn:E.
  - unfold w_field_header in Hw. cbn [w_last w_stack w_pend] in Hw.
    destruct ((0 <? id - w_last c) && (id - w_last c <? 15)).
    + injection Hw as <- <-. exact I.
    + apply wseq_inv in Hw as (s1 & c1 & s2 & Ha & Hb & ->).
      unfold w_byte, wret in Ha. injection Ha as <- <-.
      cbn [w_i16] in Hb. unfold wret in Hb. injection Hb as <- <-. exact I.
  - unfold w_byte, wret in Hw. injection Hw as <- <-. unfold pend_ok. rewrite E. exact I.
Qed.

Lemma w_field_header_pend ct id c ss c' : w_field_header ct id c = Ok (ss, c') -> w_pend c' = w_pend c.
Proof.
  unfold w_field_header. destruct ((0 <? id - w_last c) && (id - w_last c <? 15)).
  - intros H. injection H as <- <-. reflexivity.
  - intros Hw. apply wseq_inv in Hw as (s1 & c1 & s2 & Ha & Hb & ->).
    unfold w_byte, wret in Ha. injection Ha as <- <-.
    cbn [w_i16] in Hb. unfold wret in Hb. injection Hb as <- <-. reflexivity.
Qed.

Lemma LWp_field_begin p ty id : in_s 16 id -> LWp (l_field_begin p ty id) (w_field_begin p ty id).
Proof.
  intros Hid. apply LWp_of; [apply LW_field_begin; auto|].
  intros c ss c' Hw Hp. destruct p; cbn [w_field_begin] in Hw.
  1,2: unfold wret in Hw; injection Hw as <- <-; exact Hp.
  destruct ty;
    try (destruct (ctype_of_ttype _) as [ct|]; [|discriminate];
         unfold pend_ok in *; rewrite (w_field_header_pend _ _ _ _ _ Hw); exact Hp).
  destruct (w_pend c); [discriminate|]. injection Hw as <- <-. exact Hid.
Qed.

Lemma LWp_field_end p : LWp (l_field_end p) (w_field_end p).
Proof.
  apply LWp_of; [apply LW_field_end|]. apply pres_same. intros c ss c' Hw.
  unfold w_field_end, assert_no_pending_w in Hw.
  destruct p; destruct (w_pend c) eqn:E; cbn in Hw; try discriminate; injection Hw as <- <-; auto.
Qed.

Lemma LWp_field_stop p : LWp (l_field_stop p) (w_field_stop p).
Proof.
  apply LWp_of; [apply LW_field_stop|]. apply pres_same. intros c ss c' Hw.
  unfold w_field_stop in Hw. apply wseq_inv in Hw as (s1 & c1 & s2 & Ha & Hb & ->).
  unfold w_byte, wret in Hb. injection Hb as <- <-.
  unfold assert_no_pending_w in Ha.
  destruct p; destruct (w_pend c) eqn:E; cbn in Ha; try discriminate; injection Ha as <- <-; auto.
Qed.

Lemma LWp_struct_begin p : LWp (l_struct_begin p) (w_struct_begin p).
Proof.
  apply LWp_of; [apply LW_struct_begin|]. apply pres_same. intros c ss c' Hw.
  destruct p; cbn in Hw; injection Hw as <- <-; reflexivity.
Qed.

Lemma LWp_struct_end p : LWp (l_struct_end p) (w_struct_end p).
Proof.
  apply LWp_of; [apply LW_struct_end|]. intros c ss c' Hw Hp.
  destruct p; cbn [w_struct_end] in Hw; try (injection Hw as <- <-; exact Hp).
  destruct (w_pend c); [discriminate|]. destruct (w_stack c); [discriminate|].
  injection Hw as <- <-. exact I.
Qed.

Lemma LWp_coll_begin p et n : 0 <= n -> LWp (l_coll_begin p et n) (w_coll_begin p et n).
Proof.
  intros Hn. apply LWp_of; [apply LW_coll_begin; auto|]. apply pres_same. intros c ss c' Hw.
  destruct p; cbn [w_coll_begin] in Hw.
  1,2: apply wseq_inv in Hw as (s1 & c1 & s2 & Ha & Hb & ->);
       unfold w_byte, wret in Ha; injection Ha as <- <-;
       cbn [w_i32] in Hb; unfold wret in Hb; injection Hb as <- <-; reflexivity.
  destruct (ctype_of_ttype et) as [ct|]; [|discriminate].
  destruct (n <=? 14).
  - unfold w_byte, wret in Hw. injection Hw as <- <-. reflexivity.
  - apply wseq_inv in Hw as (s1 & c1 & s2 & Ha & Hb & ->).
    unfold w_byte, wret in Ha, Hb. injection Ha as <- <-. injection Hb as <- <-. reflexivity.
Qed.

Lemma LWp_map_begin p kt vt n : LWp (l_map_begin p kt vt n) (w_map_begin p kt vt n).
Proof.
  apply LWp_of; [apply LW_map_begin|]. apply pres_same. intros c ss c' Hw.
  destruct p; cbn [w_map_begin] in Hw.
  1,2: apply wseq_inv in Hw as (s1 & c1 & s2 & Ha & Hb & ->);
       apply wseq_inv in Ha as (s0 & c0 & s3 & Ha1 & Ha2 & E0); subst s1;
       unfold w_byte, wret in Ha1, Ha2; injection Ha1 as <- <-; injection Ha2 as <- <-;
       cbn [w_i32] in Hb; unfold wret in Hb; injection Hb as <- <-; reflexivity.
  destruct (n =? 0).
  - unfold w_byte, wret in Hw. injection Hw as <- <-. reflexivity.
  - destruct (ctype_of_ttype kt) as [kc|]; [|discriminate]. destruct (ctype_of_ttype vt) as [vc|]; [|discriminate].
    apply wseq_inv in Hw as (s1 & c1 & s2 & Ha & Hb & ->).
    unfold w_byte, wret in Ha, Hb. injection Ha as <- <-. injection Hb as <- <-. reflexivity.
Qed.

Lemma LWp_nop : LWp (lret 0) wnop.
Proof. apply LWp_of; [apply LW_nop|]. intros c ss c' H. unfold wnop in H. injection H as <- <-. auto. Qed.

(* --- the value-level theorem --- *)
Theorem len_val_exact p k v : wt v = true -> LWp (len_val p v) (write_val p k v).
Proof.
  induction v using tval_ind'; intros Hwt.
  - apply LWp_bool.
  - apply LWp_i8.
  - cbn [wt] in Hwt. apply in_sb_spec in Hwt. apply LWp_i16; auto.
  - cbn [wt] in Hwt. apply in_sb_spec in Hwt. apply LWp_i32; auto.
  - cbn [wt] in Hwt. apply in_sb_spec in Hwt. apply LWp_i64; auto.
  - apply LWp_double.
  - cbn [wt] in Hwt. apply LWp_bytes; auto.
  - cbn [wt] in Hwt. apply Nat.eqb_eq in Hwt. apply LWp_uuid; auto.
  - rewrite wt_struct in Hwt.
    change (write_val p k (VStruct fs)) with
      (w_struct_begin p ;; write_fields p k fs ;; w_field_stop p ;; w_struct_end p).
    change (len_val p (VStruct fs)) with
      (l_struct_begin p +++ len_fields p fs +++ l_field_stop p +++ l_struct_end p).
    apply LWp_seq; [apply LWp_seq; [apply LWp_seq|]|];
      auto using LWp_struct_begin, LWp_field_stop, LWp_struct_end.
    induction fs as [|[i x] t IHt]; [apply LWp_nop|].
    inversion H as [|? ? Hx Ht]; subst. cbn [snd] in Hx.
    cbn [wtf] in Hwt. apply andb_prop in Hwt as [Hwt Hwt3]. apply andb_prop in Hwt as [Hid Hwx].
    apply in_sb_spec in Hid.
    change (write_fields p k ((i, x) :: t)) with
      (w_field_begin p (ttype_of x) i ;; write_val p k x ;; w_field_end p ;; write_fields p k t).
    change (len_fields p ((i, x) :: t)) with
      (l_field_begin p (ttype_of x) i +++ len_val p x +++ l_field_end p +++ len_fields p t).
    apply LWp_seq; [apply LWp_seq; [apply LWp_seq|]|]; auto using LWp_field_begin, LWp_field_end.
  - destruct (wt_list_inv et l Hwt) as (Het & Hlen & Hel).
    cbn [write_val len_val]. apply LWp_seq; [apply LWp_coll_begin; lia|].
    clear Hwt Hlen. induction l as [|x t IHt]; [apply LWp_nop|].
    inversion H as [|? ? Hx Ht]; subst.
    apply LWp_seq; [apply Hx; apply Hel; left; reflexivity|apply IHt; auto].
    intros y Hy. apply Hel. right. exact Hy.
  - destruct (wt_list_inv et l Hwt) as (Het & Hlen & Hel).
    cbn [write_val len_val]. apply LWp_seq; [apply LWp_coll_begin; lia|].
    clear Hwt Hlen. induction l as [|x t IHt]; [apply LWp_nop|].
    inversion H as [|? ? Hx Ht]; subst.
    apply LWp_seq; [apply Hx; apply Hel; left; reflexivity|apply IHt; auto].
    intros y Hy. apply Hel. right. exact Hy.
  - destruct (wt_map_inv kt vt l Hwt) as (Hk & Hv & Hlen & Hel).
    cbn [write_val len_val]. apply LWp_seq; [apply LWp_map_begin|].
    clear Hwt Hlen. induction l as [|[a b] t IHt]; [apply LWp_nop|].
    inversion H as [|? ? Hx Ht]; subst. cbn [fst snd] in Hx. destruct Hx as [Ha Hb].
    destruct (Hel (a, b) (or_introl eq_refl)) as (Hwa & _ & Hwb & _). cbn [fst snd] in *.
    apply LWp_seq; [apply LWp_seq; auto|apply IHt; auto].
    intros y Hy. apply Hel. right. exact Hy.
Qed.

(* corollary in the form callers use it: size first, then encode, on one protocol object *)
Corollary size_then_encode p k v c ss c' :
  wt v = true -> w_pend c = None -> write_val p k v c = Ok (ss, c') ->
  len_val p v c = Ok (Z.of_nat (length (flat ss)), c') /\ c' = c.
Proof.
  intros Hwt Hp Hw.
  assert (Hpo : pend_ok c) by (unfold pend_ok; rewrite Hp; exact I).
  destruct (len_val_exact p k v Hwt c ss c' Hpo Hw) as [E _]. split; [exact E|].
  destruct (roundtrip_val p k v Hwt c Hp) as (ss' & Hw' & _). congruence.
Qed.

Theorem len_vals_exact p k vs : forallb wt vs = true -> LWp (len_vals p vs) (write_vals p k vs).
Proof.
  induction vs as [|v t IH]; intros Hwt; [apply LWp_nop|].
  cbn [forallb] in Hwt. apply andb_prop in Hwt as [Hv Ht].
  cbn [len_vals write_vals]. apply LWp_seq; [apply len_val_exact; auto|auto].
Qed.
