(* C18_unknown_nested, completed: the levels may also go through the VALUE of a map entry (map<K, Message>).
   A map level is the record of the map field holding an entry: records of the entry before, the value record
   (field 2) holding the next level, bytes after.  It costs two units of the recursion budget (the entry and its value
   both enter) and one native nesting level.  The lifting of UnknownP.v is repeated for the entry loop: its state is the
   (key, value) pair, its body the closure of hash_map::merge. *)
From PVPb Require Import Msg Proofs.BitsP Proofs.VarintP Proofs.WireP Proofs.CastP Proofs.CodecP Proofs.TotalP Proofs.DepthP
  Proofs.ShapeP Proofs.MergeP Proofs.MergeCor Proofs.UnknownP.
From Coq Require Import ZifyN ZifyNat ZifyBool.
Open Scope Z_scope.

(* ------------------------------------------------------------------ interchangeability for any record loop *)
Section Generic.
  Context {T : Type}.
  Variable P : T -> Prop.
  Variable body : T -> M T.
  Hypothesis Hfr : forall v, framed (body v).
  Hypothesis Hprog : forall v s, sound_prog s (body v s).
  Hypothesis HP : forall v s, P v -> nit P (body v s).

  Definition gseq_eq (b b' : list byte) : Prop :=
    forall x tail a limit f f', P x -> (limit <= length tail)%nat ->
      (length (b ++ tail) < f)%nat -> (length (b' ++ tail) < f')%nat ->
      oeq (while_remaining f limit body x (mkR (b ++ tail) a)) (while_remaining f' limit body x (mkR (b' ++ tail) a)).

  Definition grec_eq (R R' : list byte) : Prop :=
    forall x tail a, P x -> oeq (body x (mkR (R ++ tail) a)) (body x (mkR (R' ++ tail) a)).

  Definition gruns (b1 : list byte) : Prop :=
    forall x a, P x -> exists x' a', while_remaining (S (length b1)) 0 body x (mkR b1 a) = OOk x' (mkR [] a').

  Lemma gruns_P b1 x a x' s' : P x -> while_remaining (S (length b1)) 0 body x (mkR b1 a) = OOk x' s' -> P x'.
  Proof.
    intros Hx H. pose proof (nit_while P body 0 HP (S (length b1)) x (mkR b1 a) Hx) as N. rewrite H in N. exact N.
  Qed.

  Lemma gseq_eq_record b1 b2 R R' : R <> [] -> R' <> [] -> gruns b1 -> grec_eq R R' -> gseq_eq (b1 ++ R ++ b2) (b1 ++ R' ++ b2).
  Proof.
    intros HR HR' Hr Heq x tail a limit f f' Hx Hl H1 H2.
    destruct (Hr x a Hx) as (x' & a' & E). pose proof (gruns_P _ _ _ _ _ Hx E) as Hx'.
    rewrite <- !app_assoc in *.
    rewrite (while_remaining_concat_lim body Hfr Hprog _ _ _ _ _ _ (R ++ b2 ++ tail) limit f (S (length (R ++ b2 ++ tail))) E);
      [|rewrite !app_length; lia|exact H1|lia].
    rewrite (while_remaining_concat_lim body Hfr Hprog _ _ _ _ _ _ (R' ++ b2 ++ tail) limit f' (S (length (R' ++ b2 ++ tail))) E);
      [|rewrite !app_length; lia|exact H2|lia].
    cbn [ra while_remaining rb]. rewrite !app_length.
    replace (Nat.ltb limit (length R + (length b2 + length tail))) with true
      by (symmetry; apply Nat.ltb_lt; destruct R; [congruence|cbn [length]; lia]).
    replace (Nat.ltb limit (length R' + (length b2 + length tail))) with true
      by (symmetry; apply Nat.ltb_lt; destruct R'; [congruence|cbn [length]; lia]).
    specialize (Heq x' (b2 ++ tail) a' Hx').
    pose proof (Hprog x' (mkR (R ++ b2 ++ tail) a')) as P1.
    pose proof (Hprog x' (mkR (R' ++ b2 ++ tail) a')) as P2.
    unfold bind.
    destruct (body x' (mkR (R ++ b2 ++ tail) a')) as [v s2|e s2|p],
             (body x' (mkR (R' ++ b2 ++ tail) a')) as [v' s2'|e' s2'|p']; cbn in Heq; try tauto; try (cbn; exact Heq).
    destruct Heq as [-> ->]. apply oeq_of_eq.
    cbn in P1, P2. unfold st_lt in P1, P2. cbn [rb] in P1, P2. rewrite !app_length in P1, P2.
    apply while_remaining_fuel; [exact Hprog|lia|lia].
  Qed.

  (* through the length prefix of the enclosing record *)
  Lemma merge_loop_seq B B' v tail a : zlen B < two64 -> zlen B' < two64 -> P v -> gseq_eq B B' ->
    oeq (merge_loop body v (mkR (encode_varint (zlen B) ++ B ++ tail) a))
        (merge_loop body v (mkR (encode_varint (zlen B') ++ B' ++ tail) a)).
  Proof.
    clear Hfr Hprog HP. intros HB HB' Hv Hseq. unfold merge_loop. pose proof (zlen_nonneg B). pose proof (zlen_nonneg B').
    rewrite (bind_ok _ _ _ _ _ (decode_varint_rt (zlen B) _ a ltac:(lia))).
    rewrite (bind_ok _ _ _ _ _ (decode_varint_rt (zlen B') _ a ltac:(lia))).
    rewrite !(bind_ok _ _ _ _ _ (remaining_eq _)). cbn [rb]. rewrite !app_length.
    replace (Z.of_nat (length B + length tail) <? zlen B) with false by (unfold zlen; lia).
    replace (Z.of_nat (length B' + length tail) <? zlen B') with false by (unfold zlen; lia).
    replace (length B + length tail - Z.to_nat (zlen B))%nat with (length tail) by (unfold zlen; lia).
    replace (length B' + length tail - Z.to_nat (zlen B'))%nat with (length tail) by (unfold zlen; lia).
    apply oeq_bind_same. unfold while_rem. rewrite !(bind_ok _ _ _ _ _ (remaining_eq _)). cbn [rb].
    apply (Hseq v tail a (length tail)); [exact Hv|lia|lia|lia].
  Qed.
End Generic.

Section NestedMap.
  Variable sc : schema.
  Hypothesis Hs : schema_ok sc = true.

  (* ---------------------------------------------------------------- the entry loop of hash_map::merge, message values *)
  Definition ebody (d : nat) (kp : proto_type) (k : nat) (c' : Z) : val * val -> M (val * val) :=
    fun kv =>
      let+ (tag, wt) := decode_key in
      if tag =? 1 then let+ k' := merge_ty (merge_field d sc) (TScalar kp) wt (fst kv) c' in ret (k', snd kv)
      else if tag =? 2 then let+ v' := merge_ty (merge_field d sc) (TMsg k) wt (snd kv) c' in ret (fst kv, v')
      else let+ _ := skip_field depth_fuel wt tag c' in ret kv.

  (* the value under construction is in the shape of message #k *)
  Definition eP (k : nat) (kv : val * val) : Prop := shaped sc k (snd kv).

  Lemma ebody_framed d kp k c' kv : framed (ebody d kp k c' kv).
  Proof.
    unfold ebody. apply framed_bind; [apply framed_decode_key|]. intros [tag wt].
    destruct (tag =? 1); [apply framed_bind; [apply framed_merge_ty; intros; apply framed_merge_field|intros; apply framed_ret]|].
    destruct (tag =? 2); [apply framed_bind; [apply framed_merge_ty; intros; apply framed_merge_field|intros; apply framed_ret]|].
    apply framed_bind; [apply framed_skip_field|intros; apply framed_ret].
  Qed.

  Lemma ebody_prog d kp k c' kv s : 0 <= c' <= recursion_limit -> c' <= Z.of_nat d -> sound_prog s (ebody d kp k c' kv s).
  Proof.
    intros Hc Hd. unfold ebody. apply sound_prog_bind_l; [apply sound_prog_decode_key|]. intros [tag wt] s' _.
    assert (Hty : forall t x s0, sound s0 (merge_ty (merge_field d sc) t wt x c' s0)).
    { intros t x s0. apply sound_strict_sound. apply (merge_ty_strict_at (merge_field d sc) c'); [|lia].
      intros c0 i0 x0 tag0 wt0 s1 Hc0. apply merge_field_sound; lia. }
    destruct (tag =? 1); [apply sound_bind; [apply Hty|intros; apply sound_ret]|].
    destruct (tag =? 2); [apply sound_bind; [apply Hty|intros; apply sound_ret]|].
    apply sound_bind; [apply skip_field_budget; lia|intros; apply sound_ret].
  Qed.

  Lemma ebody_nit d kp k c' kv s : ty_ok sc (TScalar kp) = true -> ty_ok sc (TMsg k) = true -> eP k kv -> nit (eP k) (ebody d kp k c' kv s).
  Proof.
    intros Hkp Hk Hkv. unfold ebody, eP in *. eapply nit_bind; [apply nit_decode_key|]. intros [tag wt] s' _.
    destruct (tag =? 1).
    - eapply nit_bind with (P := shaped_ty sc (TScalar kp)).
      + apply nit_merge_ty_scalar. exact Hkp.
      + intros k' s3 _. apply nit_ret. exact Hkv.
    - destruct (tag =? 2).
      + eapply nit_bind with (P := shaped_ty sc (TMsg k)).
        * apply (nit_merge_ty sc (merge_field d sc)); [intros j0 x0 tag0 wt0 c0 s0 Hsh; apply (merge_field_shaped sc Hs); exact Hsh|exact Hk|constructor; exact Hkv].
        * intros v' s3 Hv'. apply nit_ret. cbn [snd]. inversion Hv'; subst. assumption.
      + eapply nit_bind; [apply nit_skip_field|]. intros _ s3 _. apply nit_ret. exact Hkv.
  Qed.

  (* the value record of an entry whose body changes interchangeably *)
  Lemma erec_eq_value d kp k c' B B' : 1 <= c' -> zlen B < two64 -> zlen B' < two64 ->
    seq_eq sc d k (c' - 1) B B' -> grec_eq (eP k) (ebody d kp k c') (embed 2 B) (embed 2 B').
  Proof.
    intros Hc HB HB' Hseq kv tail a Hkv. unfold ebody, embed. rewrite <- !app_assoc.
    rewrite !(bind_ok _ _ _ _ _ (decode_key_rt 2 LengthDelimited _ a tag_ok_2)). cbn beta iota.
    change (2 =? 1) with false. change (2 =? 2) with true. cbv iota. apply oeq_bind_same. cbn [merge_ty].
    apply (message_merge_seq sc Hs); auto.
  Qed.

  (* ---------------------------------------------------------------- the record of the map field *)
  Lemma rec_eq_map d j (fs : msgdesc) t0 kp k c t E E' :
    nth_error sc j = Some fs -> find_field fs t = Some (FMap t0 kp (TMsg k)) -> tag_ok t ->
    1 <= c <= recursion_limit -> zlen E < two64 -> zlen E' < two64 ->
    gseq_eq (eP k) (ebody d kp k (c - 1)) E E' -> rec_eq sc (S d) j c (embed t E) (embed t E').
  Proof.
    intros Hn Hff Ht Hc HE HE' Hseq x tail a Hx. unfold rbody, embed. rewrite <- !app_assoc.
    rewrite !(bind_ok _ _ _ _ _ (decode_key_rt t LengthDelimited _ a Ht)).
    inversion Hx as [j0 fs' xs Hn' Hsf]; subst. rewrite Hn in Hn'. inversion Hn'; subst fs'.
    cbn [merge_field]. rewrite Hn. apply oeq_bind_same.
    destruct (locate fs xs t) as [[[f' xf] kk]|] eqn:El.
    - pose proof (locate_find_field _ _ _ _ _ _ El) as Hff'. rewrite Hff in Hff'. inversion Hff'; subst f'.
      destruct (locate_shaped _ _ _ _ _ _ _ Hsf El) as [Hxf Hin].
      rewrite !(merge_in_fields_located _ _ _ _ _ _ _ _ _ _ _ El). apply oeq_bind_same.
      assert (Hfok : field_ok sc (FMap t0 kp (TMsg k)) = true).
      { pose proof (schema_ok_fields sc j fs Hs Hn) as Hall. rewrite forallb_forall in Hall. apply Hall; exact Hin. }
      cbn [field_ok] in Hfok. apply andb_prop in Hfok. destruct Hfok as [Hfok Hvt]. apply andb_prop in Hfok. destruct Hfok as [_ Hkt].
      cbn [merge_fieldval]. inversion Hxf; subst. apply oeq_bind_same. unfold merge_map. apply oeq_bind_same.
      unfold map_entry_merge.
      rewrite !(bind_ok _ _ _ _ _ (limit_ok c _ ltac:(lia))).
      rewrite !(bind_ok _ _ _ _ _ (enter_ok c _ ltac:(lia))).
      apply (merge_loop_seq (eP k) (ebody d kp k (c - 1)) E E' (default_ty d sc (TScalar kp), default_ty d sc (TMsg k)) tail a HE HE'); [|exact Hseq].
      unfold eP. cbn [snd default_ty]. cbn [ty_ok] in Hvt. apply Nat.ltb_lt in Hvt. apply (default_msg_shaped sc Hs _ k Hvt).
    - rewrite !(merge_in_fields_unlocated _ _ _ _ _ _ _ _ El).
      pose proof (skip_field_exact (ULen E) t c depth_fuel tail a) as S1.
      pose proof (skip_field_exact (ULen E') t c depth_fuel tail a) as S2.
      cbn [uwf wt_of enc_upay ulevels] in S1, S2. rewrite <- !app_assoc in S1, S2.
      rewrite (bind_ok _ _ _ _ _ (S1 HE Ht ltac:(lia) ltac:(unfold depth_fuel; lia))).
      rewrite (bind_ok _ _ _ _ _ (S2 HE' Ht ltac:(lia) ltac:(unfold depth_fuel; lia))).
      apply oeq_refl.
  Qed.

  (* ---------------------------------------------------------------- levels *)
  Inductive level2 :=
  | LMsg (pre : list byte) (t : Z) (post : list byte)                   (* as UnknownP.level *)
  | LMap (pre : list byte) (t : Z) (epre epost : list byte) (post : list byte).
    (* records before; the map field's number; inside the entry: records before the value record, bytes after it; bytes after *)

  Fixpoint wrap2 (ls : list level2) (inner : list byte) : list byte :=
    match ls with
    | [] => inner
    | LMsg pre t post :: more => pre ++ embed t (wrap2 more inner) ++ post
    | LMap pre t epre epost post :: more => pre ++ embed t (epre ++ embed 2 (wrap2 more inner) ++ epost) ++ post
    end.

  Definition lcost (l : level2) : Z := match l with LMsg _ _ _ => 1 | LMap _ _ _ _ _ => 2 end.
  Fixpoint cost (ls : list level2) : Z := match ls with [] => 0 | l :: more => lcost l + cost more end.

  Lemma cost_nonneg ls : 0 <= cost ls.
  Proof. induction ls as [|l ls IH]; cbn [cost]; [lia|]. destruct l; cbn [lcost]; lia. Qed.

  Fixpoint chain2 (d : nat) (j : nat) (c : Z) (ls : list level2) (jn : nat) {struct ls} : Prop :=
    match ls with
    | [] => jn = j
    | LMsg pre t post :: more =>
        match d with
        | O => False
        | S d' => tag_ok t /\ runs sc (S d') j c pre /\
                  exists fs f k, nth_error sc j = Some fs /\ find_field fs t = Some f /\ child_msg f t = Some k /\
                                 chain2 d' k (c - 1) more jn
        end
    | LMap pre t epre epost post :: more =>
        match d with
        | O => False
        | S d' => tag_ok t /\ runs sc (S d') j c pre /\
                  exists fs t0 kp k, nth_error sc j = Some fs /\ find_field fs t = Some (FMap t0 kp (TMsg k)) /\
                                     gruns (eP k) (ebody d' kp k (c - 1)) epre /\
                                     chain2 d' k (c - 2) more jn
        end
    end.

  Fixpoint sizes_ok2 (ls : list level2) (inner : list byte) : Prop :=
    match ls with
    | [] => True
    | LMsg _ _ _ :: more => zlen (wrap2 more inner) < two64 /\ sizes_ok2 more inner
    | LMap _ _ epre epost _ :: more =>
        zlen (wrap2 more inner) < two64 /\ zlen (epre ++ embed 2 (wrap2 more inner) ++ epost) < two64 /\ sizes_ok2 more inner
    end.

  Theorem seq_eq_wrap2 : forall ls d j c jn B B',
    chain2 d j c ls jn -> cost ls <= c <= recursion_limit -> c < Z.of_nat d ->
    sizes_ok2 ls B -> sizes_ok2 ls B' ->
    seq_eq sc (d - length ls) jn (c - cost ls) B B' -> seq_eq sc d j c (wrap2 ls B) (wrap2 ls B').
  Proof.
    induction ls as [|l ls IH]; intros d j c jn B B' Hch Hc Hd Hz Hz' Hseq.
    - cbn [chain2] in Hch. subst jn. cbn [wrap2 length cost] in *. rewrite Nat.sub_0_r, Z.sub_0_r in Hseq. exact Hseq.
    - pose proof (cost_nonneg ls) as Hcn. destruct l as [pre t post|pre t epre epost post]; cbn [chain2] in Hch;
        (destruct d as [|d]; [contradiction|]); cbn [length cost lcost sizes_ok2 wrap2] in *.
      + destruct Hch as (Ht & Hr & fs & f & k & Hn & Hff & Hck & Hrest).
        apply (seq_eq_record sc Hs); [lia|exact Hd|apply embed_nonempty|apply embed_nonempty|exact Hr|].
        eapply (rec_eq_embed sc Hs); eauto; try tauto; try lia.
        apply (IH d k (c - 1) jn B B' Hrest); [lia|lia|tauto|tauto|].
        replace (S d - S (length ls))%nat with (d - length ls)%nat in Hseq by lia.
        replace (c - 1 - cost ls) with (c - (1 + cost ls)) by lia. exact Hseq.
      + destruct Hch as (Ht & Hr & fs & t0 & kp & k & Hn & Hff & Her & Hrest).
        destruct Hz as (Hz1 & Hz2 & Hz3). destruct Hz' as (Hz1' & Hz2' & Hz3').
        apply (seq_eq_record sc Hs); [lia|exact Hd|apply embed_nonempty|apply embed_nonempty|exact Hr|].
        assert (Hfok : field_ok sc (FMap t0 kp (TMsg k)) = true).
        { pose proof (schema_ok_fields sc j fs Hs Hn) as Hall. rewrite forallb_forall in Hall. apply Hall.
          clear -Hff. induction fs as [|f0 fs IHf]; cbn [find_field] in Hff; [discriminate|].
          destruct (existsb (Z.eqb t) (field_tags f0)); [inversion Hff; left; reflexivity|right; apply IHf; exact Hff]. }
        cbn [field_ok] in Hfok. apply andb_prop in Hfok. destruct Hfok as [Hfok Hvt]. apply andb_prop in Hfok. destruct Hfok as [_ Hkt].
        apply (rec_eq_map d j fs t0 kp k c t); auto; [lia|].
        apply (gseq_eq_record (eP k) (ebody d kp k (c - 1))).
        * intros kv. apply ebody_framed.
        * intros kv s. apply ebody_prog; lia.
        * intros kv s Hkv. apply ebody_nit; assumption.
        * apply embed_nonempty.
        * apply embed_nonempty.
        * exact Her.
        * apply erec_eq_value; [lia|exact Hz1|exact Hz1'|].
          replace (c - 1 - 1) with (c - 2) by lia.
          apply (IH d k (c - 2) jn B B' Hrest); [lia|lia|exact Hz3|exact Hz3'|].
          replace (S d - S (length ls))%nat with (d - length ls)%nat in Hseq by lia.
          replace (c - 2 - cost ls) with (c - (2 + cost ls)) by lia. exact Hseq.
  Qed.

  (* C18_unknown at every nesting level, map-entry values included *)
  Theorem unknown_insert_nested2 i ls jn (fs : msgdesc) b1 b2 t u a :
    chain2 depth_fuel i ctx_default ls jn -> nth_error sc jn = Some fs -> find_field fs t = None -> tag_ok t -> uwf u ->
    ulevels u <= recursion_limit - cost ls ->
    runs sc (depth_fuel - length ls) jn (ctx_default - cost ls) b1 ->
    sizes_ok2 ls (b1 ++ urecord t u ++ b2) -> sizes_ok2 ls (b1 ++ b2) -> (i < length sc)%nat ->
    oeq (msg_decode sc i (mkR (wrap2 ls (b1 ++ urecord t u ++ b2)) a)) (msg_decode sc i (mkR (wrap2 ls (b1 ++ b2)) a)).
  Proof.
    intros Hch Hn Hf Ht Hu Hlv Hr Hz Hz' Hi. destruct ctx_default_range as [[H1 H2] H3]. pose proof (ulevels_pos u) as Hpos.
    assert (Hlc : Z.of_nat (length ls) <= cost ls).
    { clear. induction ls as [|l ls IH]; cbn [length cost]; [lia|]. destruct l; cbn [lcost]; lia. }
    assert (Hlen : Z.of_nat (length ls) < Z.of_nat depth_fuel) by (unfold ctx_default in *; lia).
    assert (Hseq : seq_eq sc depth_fuel i ctx_default (wrap2 ls (b1 ++ urecord t u ++ b2)) (wrap2 ls (b1 ++ b2))).
    { apply (seq_eq_wrap2 ls depth_fuel i ctx_default jn); auto; [unfold ctx_default in *; lia|].
      destruct (depth_fuel - length ls)%nat as [|d0] eqn:Ed; [lia|].
      eapply (seq_eq_unknown sc Hs); eauto; unfold ctx_default in *; lia. }
    unfold msg_decode. rewrite !msg_merge_unfold. cbn [rb].
    pose proof (Hseq (default_msg depth_fuel sc i) [] a 0%nat
                  (S (length (wrap2 ls (b1 ++ urecord t u ++ b2)))) (S (length (wrap2 ls (b1 ++ b2))))
                  (default_msg_shaped sc Hs _ i Hi) ltac:(cbn; lia)) as G.
    rewrite !app_nil_r in G. apply G; lia.
  Qed.
End NestedMap.

(* ------------------------------------------------------------------ non-vacuity *)
Lemma gruns_nil {T} (P : T -> Prop) (body : T -> M T) : gruns P body [].
Proof. intros x a Hx. exists x, a. reflexivity. Qed.

(* Tree { int32 v = 1; optional Tree t = 2; map<string, Tree> m = 4 }: a map level (the entry has its key record before the
   value record and an unknown varint field behind it), then a message level; an unknown group with a nested group in the
   innermost body *)
Example unknown_nested_map_hypotheses :
  let ls := [LMap [] 4 [x0a; x01; x6b] [x18; x05] [x08; x09]; LMsg [] 2 [x08; x01]] in
  let g := UGroup [(5, UVarint 300); (6, UGroup [(7, ULen [x01; x02])])] in
  oeq (msg_decode tree_schema 0 (mkR (wrap2 ls ([] ++ urecord 9 g ++ [x08; x03])) 0))
      (msg_decode tree_schema 0 (mkR (wrap2 ls ([] ++ [x08; x03])) 0)) /\
  is_ok (msg_decode tree_schema 0 (mkR (wrap2 ls ([] ++ [x08; x03])) 0)) = true.
Proof.
  cbv zeta. split; [|vm_compute; reflexivity].
  assert (T2 : tag_ok 2) by (unfold tag_ok; vm_compute; split; congruence).
  assert (T4 : tag_ok 4) by (unfold tag_ok; vm_compute; split; congruence).
  apply (unknown_insert_nested2 tree_schema tree_schema_ok 0 _ 0%nat
           [FSingular 1 (TScalar TYPE_INT32); FOptional 2 (TMsg 0); FMap 4 TYPE_STRING (TMsg 0)]).
  - unfold depth_fuel. change (Z.to_nat recursion_limit) with 100%nat. cbn [chain2].
    split; [exact T4|]. split.
    + apply runs_nil.
    + exists [FSingular 1 (TScalar TYPE_INT32); FOptional 2 (TMsg 0); FMap 4 TYPE_STRING (TMsg 0)], 4, TYPE_STRING, 0%nat.
      split; [reflexivity|]. split; [reflexivity|]. split.
      * (* the key record of the entry *)
        intros [kv vv] a Hkv. eexists. eexists. vm_compute. reflexivity.
      * split; [exact T2|]. split; [apply runs_nil|].
        exists [FSingular 1 (TScalar TYPE_INT32); FOptional 2 (TMsg 0); FMap 4 TYPE_STRING (TMsg 0)], (FOptional 2 (TMsg 0)), 0%nat.
        repeat split; reflexivity.
  - reflexivity.
  - reflexivity.
  - unfold tag_ok; vm_compute; split; congruence.
  - vm_compute. repeat split; congruence.
  - vm_compute. congruence.
  - apply runs_nil.
  - vm_compute. repeat split; reflexivity.
  - vm_compute. repeat split; reflexivity.
  - vm_compute. lia.
Qed.
