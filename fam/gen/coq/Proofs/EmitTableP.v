(* The table lemma: the rows regenerated from the code the real pilota-build emitted for the corpus ARE the rows the
   template model prescribes for the corpus schema -- by computation, on every run, for the plain and for the
   keep_unknown_fields configuration; and the chain  emitted text -> ops -> Gen.v  for the corpus. *)
From Coq Require Import String Lia.
From PVGen Require Import Gen GenSpec EmitOps EmitDen Generated.EmittedOps Proofs.GenBase Proofs.EmitOpsP Proofs.EmitDecP.
Open Scope Z_scope.

(* ---------- generic: what ops_match says about one row ---------- *)
Lemma mask_row : forall em pr n r x,
  map norm_row em = mask em pr -> nth_error em n = Some r -> r <> ENone -> nth_error pr n = Some x -> norm_row r = x.
Proof.
  induction em as [|e em IH]; intros pr n r x H Hn Hr Hx; [destruct n; discriminate Hn|].
  destruct pr as [|y pr]; [destruct n; discriminate Hx|].
  destruct n as [|n].
  - cbn in Hn, Hx. injection Hn as ->. injection Hx as ->.
    destruct r; [exfalso; apply Hr; reflexivity| | | |]; cbn [map mask] in H; injection H as H1 H2; exact H1.
  - cbn in Hn, Hx. apply (IH pr n r x); try assumption.
    destruct e; cbn [map mask] in H; [injection H as H2|injection H as H1 H2|injection H as H1 H2|injection H as H1 H2|injection H as H1 H2]; exact H2.
Qed.

Lemma ops_match_row S ck em n r d :
  ops_match S ck em -> nth_error em n = Some r -> r <> ENone -> lookup S n = Some d ->
  norm_row r = presc_row S ck d /\ names_ok r = true.
Proof.
  intros [Hm Hn] Hr Hne Hd. split.
  - apply (mask_row em (presc_tbl S ck) n r _ Hm Hr Hne). unfold presc_tbl. rewrite nth_error_map. unfold lookup in Hd. rewrite Hd. reflexivity.
  - rewrite forallb_forall in Hn. exact (Hn r (nth_error_In _ _ Hr)).
Qed.

(* ---------- the corpus of this run ---------- *)
Theorem emitted_plain_match : ops_match corpus_schema false emitted_plain.
Proof. split; vm_compute; reflexivity. Qed.

Theorem emitted_keep_match : ops_match corpus_schema true emitted_keep.
Proof. split; vm_compute; reflexivity. Qed.

(* non-vacuity: the tables are not empty, every type of the schema is emitted in the plain configuration, and the rows are
   not all trivial *)
Lemma table_nonempty :
  (0 < length corpus_schema)%nat /\ present emitted_plain = length corpus_schema /\ (0 < present emitted_keep)%nat /\
  length emitted_keep = length corpus_schema.
Proof. vm_compute. repeat split; apply PeanoNat.Nat.ltb_lt; reflexivity. Qed.

Lemma corpus_void_variants_zero : void_variants_zero corpus_schema = true.
Proof. vm_compute. reflexivity. Qed.

(* every emitted row of either configuration, normalised, is the prescription for its schema entry *)
Theorem emitted_row_is_prescribed : forall n r d,
  lookup corpus_schema n = Some d ->
  (nth_error emitted_plain n = Some r -> r <> ENone -> norm_row r = presc_row corpus_schema false d /\ names_ok r = true) /\
  (nth_error emitted_keep n = Some r -> r <> ENone -> norm_row r = presc_row corpus_schema true d /\ names_ok r = true).
Proof.
  intros n r d Hd. split; intros Hr Hne.
  - exact (ops_match_row _ _ _ n r d emitted_plain_match Hr Hne Hd).
  - exact (ops_match_row _ _ _ n r d emitted_keep_match Hr Hne Hd).
Qed.

(* the plain table as a whole *)
Lemma mask_all_present : forall em pr, length em = length pr -> present em = length em -> mask em pr = pr.
Proof.
  induction em as [|e em IH]; intros pr Hl Hp; [destruct pr; [reflexivity|discriminate Hl]|].
  destruct pr as [|y pr]; [discriminate Hl|]. cbn [length] in Hl. injection Hl as Hl.
  assert (Hle : forall l, (present l <= length l)%nat).
  { induction l as [|a l IHl]; [apply le_n|]. unfold present in *. cbn [filter]. destruct a; cbn [length]; lia. }
  unfold present in Hp. cbn [filter length] in Hp.
  destruct e; cbn [length] in Hp;
    try (cbn [mask]; f_equal; apply IH; [exact Hl|unfold present; lia]).
  exfalso. specialize (Hle em). unfold present in Hle. lia.
Qed.

Theorem emitted_plain_table : map norm_row emitted_plain = presc_tbl corpus_schema false.
Proof.
  destruct emitted_plain_match as [Hm _]. rewrite Hm. apply mask_all_present.
  - unfold presc_tbl. rewrite map_length. vm_compute. reflexivity.
  - vm_compute. reflexivity.
Qed.

(* ---------- the chain for the corpus: the normalised emitted rows of the plain build denote the model ---------- *)
Theorem emitted_encode_is_model : forall p k t v, no_uu v = true ->
  den_enc (map norm_row emitted_plain) p k (presc_vop corpus_schema t) v = enc_ty corpus_schema p k t v.
Proof.
  intros p k t v Hv. rewrite emitted_plain_table.
  exact (den_enc_presc corpus_schema false p corpus_void_variants_zero k v t (or_intror Hv)).
Qed.

Theorem emitted_size_is_model : forall p t v, no_uu v = true ->
  den_size (map norm_row emitted_plain) p (presc_vop corpus_schema t) v = size_ty corpus_schema p t v.
Proof.
  intros p t v Hv. rewrite emitted_plain_table.
  exact (den_size_presc corpus_schema false p corpus_void_variants_zero v t (or_intror Hv)).
Qed.

Theorem emitted_ops_match :
  ops_match corpus_schema false emitted_plain /\ ops_match corpus_schema true emitted_keep /\
  present emitted_plain = length corpus_schema /\ (0 < present emitted_keep)%nat.
Proof.
  split; [exact emitted_plain_match|]. split; [exact emitted_keep_match|].
  destruct table_nonempty as (_ & H1 & H2 & _). split; assumption.
Qed.

(* the decoder of a struct / of a union, in either configuration: variables, loop head, arms (id, TType guard, variable,
   Some-wrapping, read op, countdown), skip arm, retention statements, required checks, late defaults, construction *)
Theorem emitted_decode_arms : forall n r ck em,
  (ck = false /\ em = emitted_plain) \/ (ck = true /\ em = emitted_keep) ->
  nth_error em n = Some r -> r <> ENone ->
  (forall fs keep ia, lookup corpus_schema n = Some (DStruct fs keep ia) ->
     exists nm e eu s su d, r = EStruct nm e eu s su d /\ norm_ds d = presc_dstruct corpus_schema ck fs keep ia) /\
  (forall vs vo keep, lookup corpus_schema n = Some (DUnion vs vo keep) ->
     exists nm e eu s su d, r = EUnion nm e eu s su d /\ norm_du d = presc_dunion corpus_schema ck vs vo keep).
Proof.
  intros n r ck em Hc Hr Hne.
  assert (Hrow : forall d, lookup corpus_schema n = Some d -> norm_row r = presc_row corpus_schema ck d).
  { intros d Hd. destruct (emitted_row_is_prescribed n r d Hd) as [Hp Hk].
    destruct Hc as [[-> ->]|[-> ->]]; [exact (proj1 (Hp Hr Hne))|exact (proj1 (Hk Hr Hne))]. }
  split.
  - intros fs keep ia Hd. specialize (Hrow _ Hd). cbn [presc_row] in Hrow.
    destruct r as [|nm e eu s su d|nm e eu s su d|nm|nm e s d]; try discriminate Hrow.
    exists nm, e, eu, s, su, d. split; [reflexivity|]. cbn [norm_row] in Hrow.
    exact (f_equal (fun x => match x with EStruct _ _ _ _ _ y => y | _ => norm_ds d end) Hrow).
  - intros vs vo keep Hd. specialize (Hrow _ Hd). cbn [presc_row] in Hrow.
    destruct r as [|nm e eu s su d|nm e eu s su d|nm|nm e s d]; try discriminate Hrow.
    exists nm, e, eu, s, su, d. split; [reflexivity|]. cbn [norm_row] in Hrow.
    exact (f_equal (fun x => match x with EUnion _ _ _ _ _ y => y | _ => norm_du d end) Hrow).
Qed.

(* the decoders of the plain build: arbitrary bytes, every fuel *)
Lemma corpus_wf : wf_schema corpus_schema = true.
Proof. vm_compute. reflexivity. Qed.

Theorem emitted_decode_is_model : forall p fuel t s,
  den_dec (map norm_row emitted_plain) (dfl_of corpus_schema) p fuel (presc_rop t) s = gen_decode corpus_schema p fuel t s.
Proof.
  intros p fuel t s. rewrite emitted_plain_table.
  exact (den_dec_presc corpus_schema p corpus_void_variants_zero corpus_wf fuel t s).
Qed.
