(* Effective.v -- the name under which a Thrift function's helper items are created and looked up (C14).

   Modelled code: pilota-build/src/parser/thrift/mod.rs
     ThriftLower::lower_service  (a) the scan that fills function_name_duplicates: effective name of every function, grouped by its
                                     upper camel form; the forms that occur more than once
                                 (b) PRODUCER of the helper items of a function: {Service}{Function}ResultRecv, ...ResultSend,
                                     ...Exception (only with a non-empty `throws`), ...ArgsSend, ...ArgsRecv
     ThriftLower::lower_method   CONSUMER: ir::Method.exceptions = the path {Service}{Function}Exception (only with `throws`), which
                                 Resolver::lower_path must find among the items of the file (panic "can not find path" otherwise)
   {Function} = the function's EFFECTIVE name (value of its pilota.name annotation if present, else the IDL name) in upper camel
   case, unless that form is shared by another function of the service: then the effective name itself.
   Which of the three sites starts from the effective name is REGENERATED (Generated/NameSites.v: helper_name_sites counts the reads
   of the PilotaName tag per function); the model reads it.  Upper camel conversion (heck) is the Section variable [camel].
   No proofs here. *)
From Coq Require Import String List Bool Arith.
From PVBld Require Import Generated.NameSites Names.
Import ListNotations.
Open Scope string_scope.

Record func := mkFunc { f_name : string; f_tag : option string (* pilota.name *); f_throws : bool }.

Definition effective (f : func) : string := match f_tag f with Some t => t | None => f_name f end.

(* number of places in fn [name] that read the PilotaName tag *)
Definition tag_reads (name : string) : nat :=
  match find (fun e => String.eqb (fst (fst e)) name) helper_name_sites with
  | Some e => snd e
  | None => 0
  end.
Definition suffixes_of (name : string) : list string :=
  match find (fun e => String.eqb (fst (fst e)) name) helper_name_sites with
  | Some e => snd (fst e)
  | None => []
  end.

(* lower_service reads the tag twice (scan, producer), lower_method once (consumer); a site that does not read it starts from the
   raw IDL name *)
Definition scan_uses_tag : bool := (2 <=? tag_reads "lower_service")%nat.
Definition producer_uses_tag : bool := (1 <=? tag_reads "lower_service")%nat.
Definition consumer_uses_tag : bool := (1 <=? tag_reads "lower_method")%nat.

Definition start_name (uses_tag : bool) (f : func) : string := if uses_tag then effective f else f_name f.

Section Camel.
  Variable camel : string -> string.

  (* function_name_duplicates: upper camel forms shared by at least two functions of the service *)
  Definition duplicates (fs : list func) : list string :=
    let forms := map (fun f => camel (start_name scan_uses_tag f)) fs in
    filter (fun k => (1 <? count_str k forms)%nat) forms.

  Definition method_ident (dups : list string) (name : string) : string :=
    if mem (camel name) dups then name else camel name.

  (* names of the items lower_service creates for one function *)
  Definition helper_items (service : string) (dups : list string) (f : func) : list string :=
    map (fun suf => service ++ method_ident dups (start_name producer_uses_tag f) ++ suf)
        (filter (fun suf => negb (String.eqb suf "Exception") || f_throws f) (suffixes_of "lower_service")).

  (* the path lower_method stores in ir::Method.exceptions *)
  Definition exception_path (service : string) (dups : list string) (f : func) : option string :=
    if f_throws f then Some (service ++ method_ident dups (start_name consumer_uses_tag f) ++ "Exception") else None.

  (* the clause as it would read if the consumer started from the raw IDL name (what seeded change C14d did) *)
  Definition exception_path_raw (service : string) (dups : list string) (f : func) : option string :=
    if f_throws f then Some (service ++ method_ident dups (f_name f) ++ "Exception") else None.
End Camel.
