(* Derive.v -- executable model of AutoDerivePlugin (C14): which items get #[derive(PartialOrd)] and
   #[derive(Hash, Eq, Ord)].

   Modelled code (read line by line at the pinned tree; the text is pinned by digest in Proofs/DeriveP.v):
     pilota-build/src/plugin/mod.rs   AutoDerivePlugin::can_derive (212-279), on_item (286-289), on_emit (291-297),
                                      CanDerive, PredicateResult, PathCollector (197-206)
     pilota-build/src/lib.rs          fn holds_kind and the two predicate closures of Builder::compile_with_config
     pilota-build/src/middle/ty.rs    TyKind, Visitor, walk_ty
     pilota-build/src/middle/workspace_graph.rs  WorkspaceGraph::from_items (the nested fn visit), is_nested
     pilota-build/src/middle/type_graph.rs       TypeGraph::from_items, is_nested (only if the downgrade consults it)
   REGENERATED (Generated/DeriveTables.v): the TyKind member list, the kinds each predicate closure answers
   PredicateResult::No for, the kinds it peels, the graph accessor used in the downgrade of delayed items.

   HashSet<DefId> (visiting, delayed) = list of ids read through membership only (insert = cons, remove = filter);
   FxHashMap<DefId, CanDerive> = association list, newest binding first; the iteration orders of these containers do
   not matter (the downgrade inserts the same value for every selected key; on_emit treats the entries independently).
   petgraph's has_path_connecting = BoxCycle.reachb (reflexive-transitive reachability, proved in BoxCycleP).
   `cx.expect_item` on an id that names no item panics: outcome Panic.  The recursion is on fuel: outcome OutOfFuel
   (shown unreachable for fuel > number of items in DeriveP.can_derive_terminates).  No proofs here. *)
From Coq Require Import String List Bool Arith.
From PVBld Require Import Generated.DeriveTables BoxCycle.
Import ListNotations.
Open Scope string_scope.

(* ---- ty::TyKind ------------------------------------------------------------------------------------------- *)
Inductive base :=
| BString | BFastStr | BVoid | BU8 | BBool | BBytesVec | BBytes | BI8 | BI16 | BI32 | BI64
| BUInt32 | BUInt64 | BF32 | BF64 | BOrderedF64 | BUuid.

Definition all_base : list base :=
  [BString; BFastStr; BVoid; BU8; BBool; BBytesVec; BBytes; BI8; BI16; BI32; BI64;
   BUInt32; BUInt64; BF32; BF64; BOrderedF64; BUuid].

Definition base_name (b : base) : string :=
  match b with
  | BString => "String" | BFastStr => "FastStr" | BVoid => "Void" | BU8 => "U8" | BBool => "Bool"
  | BBytesVec => "BytesVec" | BBytes => "Bytes" | BI8 => "I8" | BI16 => "I16" | BI32 => "I32" | BI64 => "I64"
  | BUInt32 => "UInt32" | BUInt64 => "UInt64" | BF32 => "F32" | BF64 => "F64" | BOrderedF64 => "OrderedF64"
  | BUuid => "Uuid"
  end.

Inductive dty :=
| DBase (b : base)
| DPath (d : nat)
| DVec (t : dty)
| DSet (t : dty)
| DBTreeSet (t : dty)
| DMap (k v : dty)
| DBTreeMap (k v : dty)
| DArc (t : dty).

Definition container_names : list string := ["Vec"; "Set"; "BTreeSet"; "Map"; "BTreeMap"; "Arc"; "Path"].

(* the TyKind member a type's top node is *)
Definition top_name (t : dty) : string :=
  match t with
  | DBase b => base_name b
  | DPath _ => "Path"
  | DVec _ => "Vec"
  | DSet _ => "Set"
  | DBTreeSet _ => "BTreeSet"
  | DMap _ _ => "Map"
  | DBTreeMap _ _ => "BTreeMap"
  | DArc _ => "Arc"
  end.

Definition mem_str (s : string) (l : list string) : bool := existsb (String.eqb s) l.

(* ---- the predicate closures (lib.rs) ------------------------------------------------------------------------
     fn holds_kind(ty, rejected) = match &ty.kind {
         ty::Vec(el) | ty::BTreeSet(el) | ty::Arc(el) => holds_kind(el, rejected),
         ty::BTreeMap(k, v) => holds_kind(k, rejected) || holds_kind(v, rejected),
         kind => rejected(kind) }
     |ty| if holds_kind(ty, &|kind| matches!(kind, <table>)) { PredicateResult::No } else { PredicateResult::GoOn }
   (repair of finding F-14k.  Before it the closures peeled Vec only -- `while let ty::Vec(_ty) = &ty.kind` -- and tested
   the kind below: a btree container holding a double or a hash container got the derive.) *)
Fixpoint holds_kind (tbl : list string) (t : dty) : bool :=
  match t with
  | DVec e | DBTreeSet e | DArc e => holds_kind tbl e
  | DBTreeMap k v => holds_kind tbl k || holds_kind tbl v
  | _ => mem_str (top_name t) tbl
  end.

Inductive bundle := PO | HEO.          (* #[derive(PartialOrd)]  |  #[derive(Hash, Eq, Ord)] *)

Definition pred_table (tr : bundle) : list string :=
  match tr with PO => po_pred_no | HEO => heo_pred_no end.

(* true = PredicateResult::No *)
Definition pred_no (tr : bundle) (t : dty) : bool := holds_kind (pred_table tr) t.

(* ---- PathCollector (ty::Visitor with the default methods, walk_ty) --------------------------------------------- *)
Fixpoint collect (t : dty) : list nat :=
  match t with
  | DBase _ => []
  | DPath d => [d]
  | DVec e | DSet e | DBTreeSet e | DArc e => collect e
  | DMap k v | DBTreeMap k v => collect k ++ collect v
  end.

(* ---- WorkspaceGraph::from_items, nested fn visit: Path | Vec | Set | BTreeSet | Arc | Map | BTreeMap, `_ => {}` ----------
   (repair of finding F-14s.  Before it BTreeSet, BTreeMap and Arc fell under `_ => {}`: a cycle closed through one of them
   had no edge in this graph, and the downgrade of delayed items missed its members.) *)
Fixpoint ws_visit (t : dty) : list nat :=
  match t with
  | DPath d => [d]
  | DVec e | DSet e | DBTreeSet e | DArc e => ws_visit e
  | DMap k v | DBTreeMap k v => ws_visit k ++ ws_visit v
  | DBase _ => []
  end.

(* ---- TypeGraph::from_items: `if let ty::Path(p) = &ty.kind` ----------------------------------------------------- *)
Definition tg_visit (t : dty) : list nat := match t with DPath d => [d] | _ => [] end.

(* ---- rir::Item ---------------------------------------------------------------------------------------------------- *)
Inductive ditem :=
| DMsg (fields : list dty)
| DEnum (variants : list (list dty))
| DNewType (t : dty)
| DService | DConst | DMod.

Definition dgraph := list (nat * ditem).

(* `let deps = match &*item { ... }`; None = the arms that `return CanDerive::No` *)
Definition deps (it : ditem) : option (list dty) :=
  match it with
  | DMsg fs => Some fs
  | DEnum vs => Some (concat vs)
  | DNewType t => Some [t]
  | DService | DConst | DMod => None
  end.

Definition find_item (g : dgraph) (d : nat) : option ditem :=
  match find (fun di => Nat.eqb (fst di) d) g with Some di => Some (snd di) | None => None end.

Definition item_edges (visit : dty -> list nat) (di : nat * ditem) : list (nat * nat) :=
  match deps (snd di) with
  | Some ds => map (pair (fst di)) (flat_map visit ds)
  | None => []
  end.
Definition ws_edges (g : dgraph) : list (nat * nat) := flat_map (item_edges ws_visit) g.
Definition tg_edges (g : dgraph) : list (nat * nat) := flat_map (item_edges tg_visit) g.

(* `cx.<accessor>().is_nested(delayed id, def_id)`: the accessor is regenerated *)
Definition downgrade_edges (g : dgraph) : list (nat * nat) :=
  if String.eqb downgrade_graph "type_graph" then tg_edges g else ws_edges g.

(* ---- CanDerive, the plugin's state ---------------------------------------------------------------------------------- *)
Inductive cd := Yes | No | Delay.
Definition is_no (c : cd) : bool := match c with No => true | _ => false end.
Definition is_delay (c : cd) : bool := match c with Delay => true | _ => false end.

Definition cmapT := list (nat * cd).
Definition getm (m : cmapT) (d : nat) : option cd :=
  match find (fun kv => Nat.eqb (fst kv) d) m with Some kv => Some (snd kv) | None => None end.
Definition setm (m : cmapT) (d : nat) (c : cd) : cmapT := (d, c) :: m.

Definition memb (d : nat) (l : list nat) : bool := existsb (Nat.eqb d) l.
Definition remove_nat (d : nat) (l : list nat) : list nat := filter (fun x => negb (Nat.eqb x d)) l.

Record st := mkSt { cmap : cmapT; vis : list nat; del : list nat }.

Inductive out (A : Type) := Done (a : A) | Panic | OutOfFuel.
Arguments Done {A} a.
Arguments Panic {A}.
Arguments OutOfFuel {A}.

Section Walk.
  Variable g : dgraph.
  Variable pred : dty -> bool.         (* true = PredicateResult::No *)
  Variable E : list (nat * nat).       (* edges of the graph the downgrade consults *)

  (* paths.map(|p| (p.did, self.can_derive(cx, p.did, visiting, delayed))).collect::<Vec<_>>() *)
  Fixpoint walk_list (f : nat -> st -> out (cd * st)) (ps : list nat) (s : st) : out (list cd * st) :=
    match ps with
    | [] => Done ([], s)
    | p :: r =>
        match f p s with
        | Done (b, s1) =>
            match walk_list f r s1 with
            | Done (bs, s2) => Done (b :: bs, s2)
            | Panic => Panic
            | OutOfFuel => OutOfFuel
            end
        | Panic => Panic
        | OutOfFuel => OutOfFuel
        end
    end.

  (* self.can_derive.insert(def_id, can_derive); visiting.remove(&def_id); can_derive *)
  Definition finish (d : nat) (r : cd) (s : st) : out (cd * st) :=
    Done (r, mkSt (setm (cmap s) d r) (remove_nat d (vis s)) (del s)).

  (* delayed.iter().for_each(|x| if graph.is_nested(x, def_id) { self.can_derive.insert(x, CanDerive::No); }) *)
  Definition downgrade_map (d : nat) (dl : list nat) (m : cmapT) : cmapT :=
    fold_left (fun m x => if reachb E x d then setm m x No else m) dl m.
  Definition downgrade (d : nat) (s : st) : st :=
    mkSt (downgrade_map d (del s) (cmap s)) (vis s) (del s).

  Fixpoint can_derive (fuel : nat) (d : nat) (s : st) : out (cd * st) :=
    match fuel with
    | 0 => OutOfFuel
    | S f =>
        match getm (cmap s) d with
        | Some b => Done (b, s)                                  (* if let Some(b) = self.can_derive.get(def_id) *)
        | None =>
            if memb d (vis s) then Done (Delay, s)               (* if visiting.contains(&def_id) *)
            else
              let s1 := mkSt (cmap s) (d :: vis s) (del s) in    (* visiting.insert(def_id) *)
              match find_item g d with
              | None => Panic                                    (* cx.expect_item(def_id) *)
              | Some it =>
                  match deps it with
                  | None => Done (No, s1)                        (* Service / Const / Mod: return CanDerive::No *)
                  | Some ds =>
                      if existsb pred ds then finish d No s1
                      else
                        match walk_list (can_derive f) (flat_map collect ds) s1 with
                        | Done (rs, s2) =>
                            if existsb is_no rs then finish d No (downgrade d s2)
                            else if existsb is_delay rs then
                              finish d Delay (mkSt (cmap s2) (vis s2) (d :: del s2))   (* delayed.insert(def_id) *)
                            else finish d Yes s2
                        | Panic => Panic
                        | OutOfFuel => OutOfFuel
                        end
                  end
              end
        end
    end.

  (* Plugin::on_item: self.can_derive(cx, def_id, &mut HashSet::default(), &mut HashSet::default()) *)
  Definition on_item (fuel : nat) (m : cmapT) (d : nat) : out cmapT :=
    match can_derive fuel d (mkSt m [] []) with
    | Done (_, s) => Done (cmap s)
    | Panic => Panic
    | OutOfFuel => OutOfFuel
    end.

  (* walk_codegen_uint: items.iter().for_each(on_item) *)
  Fixpoint run_items (fuel : nat) (order : list nat) (m : cmapT) : out cmapT :=
    match order with
    | [] => Done m
    | d :: r =>
        match on_item fuel m d with
        | Done m1 => run_items fuel r m1
        | Panic => Panic
        | OutOfFuel => OutOfFuel
        end
    end.
End Walk.

(* one AutoDerivePlugin instance over the codegen items `order` *)
Definition run (tr : bundle) (g : dgraph) (order : list nat) : out cmapT :=
  run_items g (pred_no tr) (downgrade_edges g) (S (length g)) order [].

(* on_emit: `if !matches!(can_derive, CanDerive::No) { adj.add_attrs(&self.attrs) }` for every entry of the map *)
Definition derives (m : cmapT) (d : nat) : bool :=
  match getm m d with
  | Some Yes | Some Delay => true
  | Some No | None => false
  end.

(* ---- specification side: what rustc demands of a derived impl ------------------------------------------------------
   #[derive(Tr)] on an item emits `impl Tr for Item` (no where-clause on concrete field types) whose body needs
   `FieldTy: Tr` for every field / variant payload / newtype target.  Which Rust types the TyKinds are emitted as
   (codegen ty.rs / the pilota runtime), hand-written and validated by the compile runs:
     f64, f32                      PartialOrd only (no Hash, Eq, Ord)
     AHashMap<K,V>, AHashSet<T>    none of the four (Eq only)
     Vec<T>, BTreeSet<T>, Arc<T>, Box<T>, Option<T>     Tr iff T: Tr      BTreeMap<K,V>   Tr iff K: Tr and V: Tr
     everything else (FastStr, String, (), u8, bool, Vec<u8>, Bytes, i8..i64, u32, u64, OrderedFloat<f64>, [u8; 16])  all four
     a path                        Tr iff the named item carries the derive *)
Definition base_ok (tr : bundle) (b : base) : bool :=
  match tr, b with
  | HEO, BF32 | HEO, BF64 => false
  | _, _ => true
  end.

Fixpoint kinds_ok (tr : bundle) (t : dty) : bool :=
  match t with
  | DBase b => base_ok tr b
  | DPath _ => true
  | DVec e | DBTreeSet e | DArc e => kinds_ok tr e
  | DSet _ | DMap _ _ => false
  | DBTreeMap k v => kinds_ok tr k && kinds_ok tr v
  end.

(* FieldTy: Tr, given the set D of items that carry the derive *)
Definition ty_ok (tr : bundle) (D : nat -> bool) (t : dty) : bool :=
  kinds_ok tr t && forallb D (collect t).

(* every derived impl type-checks *)
Definition consistent (tr : bundle) (g : dgraph) (D : nat -> bool) : Prop :=
  forall d it ds, find_item g d = Some it -> deps it = Some ds -> D d = true -> forallb (ty_ok tr D) ds = true.

Definition consistent_b (tr : bundle) (g : dgraph) (D : nat -> bool) : bool :=
  forallb (fun d => match find_item g d with
                    | Some it => match deps it with
                                 | Some ds => negb (D d) || forallb (ty_ok tr D) ds
                                 | None => true
                                 end
                    | None => true
                    end) (map fst g).

(* the types an item contains by value, transitively through fields, containers and typedefs *)
Definition paths_of (g : dgraph) (d : nat) : list nat :=
  match find_item g d with
  | Some it => match deps it with Some ds => flat_map collect ds | None => [] end
  | None => []
  end.
(* d contains d' by value, transitively *)
Inductive contains (g : dgraph) : nat -> nat -> Prop :=
| contains_refl d : contains g d d
| contains_step d p d' : In p (paths_of g d) -> contains g p d' -> contains g d d'.

(* item d supports the bundle: every item it contains, transitively, consists of supporting kinds only *)
Definition supports (tr : bundle) (g : dgraph) (d : nat) : Prop :=
  forall d' it ds, contains g d d' -> find_item g d' = Some it -> deps it = Some ds ->
                   forallb (kinds_ok tr) ds = true.

(* ---- decidable side conditions ---------------------------------------------------------------------------------------- *)
(* every path names a type item (Message / Enum / NewType) of the graph *)
Definition is_type_b (g : dgraph) (d : nat) : bool :=
  match find_item g d with
  | Some it => match deps it with Some _ => true | None => false end
  | None => false
  end.
Definition closed_b (g : dgraph) : bool :=
  forallb (fun di => match deps (snd di) with
                     | Some ds => forallb (is_type_b g) (flat_map collect ds)
                     | None => true
                     end) g.

(* every path PathCollector finds is an edge of the workspace graph (true of every graph since the repair of F-14s:
   DeriveP.ws_complete_all) *)
Definition ws_complete_b (g : dgraph) : bool :=
  forallb (fun di => match deps (snd di) with
                     | Some ds => forallb (fun p => memb p (flat_map ws_visit ds)) (flat_map collect ds)
                     | None => true
                     end) g.

(* ---- for the correspondence runner: decisions per item, and the model's verdict on the document ------------------------- *)
Definition decisions (tr : bundle) (g : dgraph) (order : list nat) : out (list (nat * cd)) :=
  match run tr g order with
  | Done m => Done (flat_map (fun d => match getm m d with Some c => [(d, c)] | None => [] end) (map fst g))
  | Panic => Panic
  | OutOfFuel => OutOfFuel
  end.

Definition verdict (tr : bundle) (g : dgraph) (order : list nat) : out bool :=
  match run tr g order with
  | Done m => Done (consistent_b tr g (derives m))
  | Panic => Panic
  | OutOfFuel => OutOfFuel
  end.
