//! Scripted AsyncRead and a minimal single-threaded executor (deterministic: no runtime threads).
//! Same idea as /verif/harness/src/asyncrd.rs (main family), copied so that this crate is self-contained.
use std::future::Future;
use std::pin::Pin;
use std::task::{Context, Poll, RawWaker, RawWakerVTable, Waker};

use tokio::io::{AsyncRead, ReadBuf};

/// hands out `data` in chunks of at most `chunk` bytes (0 = everything that fits); optionally returns
/// Pending (after waking the waker) before every hand-out
pub struct Scripted {
    pub data: Vec<u8>,
    pub pos: usize,
    pub chunk: usize,
    pub pend: bool,
    calls: usize,
}

impl Scripted {
    pub fn new(data: Vec<u8>, chunk: usize, pend: bool) -> Self {
        Scripted { data, pos: 0, chunk, pend, calls: 0 }
    }
    pub fn handed_out(&self) -> usize {
        self.pos
    }
}

impl AsyncRead for Scripted {
    fn poll_read(mut self: Pin<&mut Self>, cx: &mut Context<'_>, buf: &mut ReadBuf<'_>) -> Poll<std::io::Result<()>> {
        self.calls += 1;
        if self.pend && self.calls % 2 == 1 {
            cx.waker().wake_by_ref();
            return Poll::Pending;
        }
        if self.pos >= self.data.len() {
            return Poll::Ready(Ok(())); // EOF
        }
        let mut n = std::cmp::min(buf.remaining(), self.data.len() - self.pos);
        if self.chunk > 0 {
            n = std::cmp::min(n, self.chunk);
        }
        let (a, b) = (self.pos, self.pos + n);
        buf.put_slice(&self.data[a..b]);
        self.pos = b;
        Poll::Ready(Ok(()))
    }
}

fn noop_waker() -> Waker {
    fn clone(_: *const ()) -> RawWaker {
        RawWaker::new(std::ptr::null(), &VTABLE)
    }
    fn noop(_: *const ()) {}
    static VTABLE: RawWakerVTable = RawWakerVTable::new(clone, noop, noop, noop);
    unsafe { Waker::from_raw(RawWaker::new(std::ptr::null(), &VTABLE)) }
}

/// polls to completion; every Pending was preceded by a wake, so re-polling at once is legitimate.
/// Returns None if the future does not complete within the poll budget (a hang).
pub fn block_on<F: Future>(fut: F, budget: usize) -> Option<F::Output> {
    let waker = noop_waker();
    let mut cx = Context::from_waker(&waker);
    let mut fut = Box::pin(fut);
    for _ in 0..budget {
        if let Poll::Ready(v) = fut.as_mut().poll(&mut cx) {
            return Some(v);
        }
    }
    None
}
