"""gen family, C09 "never requests memory out of proportion to the input length": the tie between the ghost allocation
counter of the Coq model of the emitted decoders (fam/gen/coq/GenAlloc.v, theorems C09_gen_alloc* in Properties/C09.v) and
the code.

For every malformed-stream case of the generated-code half of C09 (driver op `mem`: outcome + PEAK bytes requested from the
counting allocator, relative to the live bytes at the start of the call) the extracted model (runner op `alloc`: the plain
templates sync / async, the retention templates for the sync decoders of keep_unknown_fields builds) gives its cumulative ghost
count -- an upper bound of the peak -- and, when the type has a certificate of bounded weight (the class of C09_gen_alloc: no
cycle through a container; async: no container; keep builds: no `args` struct), the explicit constants a, b of the bound.  Checked per case:
    measured peak <= model count                    (the model charges every allocation site of the templates)
    model count  <= a * |input| + b                 (what the theorem says; a guard against glue errors)
A case where the measured peak exceeds the model's count means the model no longer describes the code (a new allocation site,
a bigger layout, a constant of frame_const / top_const that is too small): reported as a broken correspondence with the case.
The distribution of peak / count is put into the evidence."""
import os, re
from . import core, gencheck

MEM_RE = re.compile(r'^(ok|err|panic|hang) LIVE (-?\d+) PEAK (\d+) REFS (\d+)$')
ALLOC_RE = re.compile(r'^(ok|err|panic)(?: \w+)? ALLOC (-?\d+) CLASS (0|1)(?: A (\d+) B (\d+))?$')
MAX_MODEL_CASES = 120000   # per run (the quick tier has about 46 000)
MAX_MODEL_INPUT = 20000      # bytes: beyond that the extracted model (inductive naturals, lists of bytes) is too slow


class Tie:
    def __init__(self, chk):
        self.chk = chk
        self.stats = dict(compared=0, in_class=0, outside_class=0, skipped_long=0, not_measured=0,
                          peak_above_model=0, model_above_bound=0)
        self.ratios = []          # measured peak / model count
        self.bound_ratios = []    # measured peak / (a * n + b), class cases
        self.by_template = {}     # template family (sync / async / keep_sync) -> ratios peak / count
        self.worst = None

    def post(self, gb, cases, outs):
        runner = gencheck.FAM.runner if os.path.exists(gencheck.FAM.runner) else None
        if runner is None:
            return []
        sel = []
        for i, c in enumerate(cases):
            if not c['line'].startswith('mem '):
                continue
            if c.get('n', 0) > MAX_MODEL_INPUT:
                self.stats['skipped_long'] += 1
                continue
            sel.append(i)
        # the extracted model is slow (inductive naturals, lists of bytes): at most MAX_MODEL_CASES cases are put to it, drawn
        # deterministically from the run's cases; the measured peak of EVERY case is still judged by the oracle
        self.stats['eligible'] = len(sel)
        if len(sel) > MAX_MODEL_CASES:
            import random
            sel = sorted(random.Random(len(sel)).sample(sel, MAX_MODEL_CASES))
        lines = ['alloc ' + cases[i]['line'].split(' ', 1)[1] for i in sel]
        mouts = core.run_lines(runner, lines, args=[os.path.join(gb.out_dir, 'schema.txt')])
        bad = []
        for i, mo in zip(sel, mouts):
            c, o = cases[i], outs[i]
            m = MEM_RE.match(o or '')
            am = ALLOC_RE.match(mo or '')
            if not m or m.group(1) in ('panic', 'hang'):
                self.stats['not_measured'] += 1            # abort / panic of the async preallocation (F-09e), hang
                continue
            if not am and (mo or '').startswith('CRASH runner produced no output'):
                # the extracted model did not answer within the batch's time limit (long input, loaded machine): not compared --
                # the oracle still bounds the measured peak directly
                self.stats['model_no_answer'] = self.stats.get('model_no_answer', 0) + 1
                continue
            if not am:
                bad.append((c, o, mo, 'model runner: %s' % (mo or '')[:100]))
                continue
            peak, alloc, cls = int(m.group(3)), int(am.group(2)), am.group(3) == '1'
            self.stats['compared'] += 1
            self.stats['in_class' if cls else 'outside_class'] += 1
            r = peak / max(alloc, 1)
            self.ratios.append(r)
            tpl = 'async' if c['mode'] != 'sync' else ('keep_sync' if 'keep' in c['cfg'] else 'sync')
            self.by_template.setdefault(tpl, []).append(r)
            if self.worst is None or r > self.worst[0]:
                self.worst = (r, c['line'][:200], o, mo)
            if peak > alloc:
                self.stats['peak_above_model'] += 1
                bad.append((c, o, mo, 'the decoder requested %d bytes at its peak, the model of the templates accounts for %d' % (peak, alloc)))
            if cls:
                bound = int(am.group(4)) * c.get('n', 0) + int(am.group(5))
                self.bound_ratios.append(peak / max(bound, 1))
                if alloc > bound:
                    self.stats['model_above_bound'] += 1
                    bad.append((c, o, mo, 'model count %d above the proved bound %d (runner glue or extraction error)' % (alloc, bound)))
        if bad:
            c, o, mo, why = bad[0]
            self.chk.violation('correspondence gen-allocation broken: the allocation model of the emitted decoders and the measured peak '
                               'disagree (%d cases: %s)' % (len(bad), why),
                               dict(kind='correspondence', correspondence='ghost allocation counter (fam/gen/coq/GenAlloc.v, runner op `alloc`) vs '
                                    'counting allocator of the driver', case=c, impl_output=(o or '')[:2000], model_output=(mo or '')[:2000]),
                               no_input=True)
        return []

    @staticmethod
    def _dist(xs):
        if not xs:
            return None
        xs = sorted(xs)
        q = lambda f: round(xs[min(len(xs) - 1, int(f * len(xs)))], 4)
        return dict(n=len(xs), min=round(xs[0], 4), p10=q(0.1), p50=q(0.5), p90=q(0.9), p99=q(0.99), max=round(xs[-1], 4))

    def extra(self, cases, outs):
        d = dict(self.stats)
        d['measured_peak_over_model_count'] = self._dist(self.ratios)
        d['measured_peak_over_proved_bound'] = self._dist(self.bound_ratios)
        d['measured_peak_over_model_count_by_template'] = {k: self._dist(v) for k, v in sorted(self.by_template.items())}
        if self.worst:
            d['tightest_case'] = dict(ratio=round(self.worst[0], 4), case=self.worst[1], measured=self.worst[2], model=self.worst[3])
        return dict(allocation_model=d)
