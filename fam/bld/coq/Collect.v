(* Collect.v -- which items are generated, and in which order, when ignore_unused is on (C17).

   Modelled code: pilota-build/src/middle/context.rs
     ContextBuilder::collect, arm CollectMode::OnlyUsed { touches } (136-177)
         touches : Vec<(PathBuf, Vec<String>)>  -- walked in the order the user gave (a Vec); every name looked up among the items of
                                                   its file (`find` over a Vec: first match); roots = input_items ++ the ids found
         def_ids = self.collect_items(&self.input_items)        : FxHashSet<DefId>
         self.codegen_items.extend(def_ids.iter())              : the ITERATION ORDER of that set is the emission order
     ContextBuilder::collect_items (189-268)
         fn collect(cx, def_id, set): if set.contains(def_id) return; (a non-item node is replaced by its parent item;) insert unless
         the item is a Mod; then its related_nodes, then the paths of its fields / default / variant payloads / extends, arguments and
         result types / newtype target / const type, in declaration order, recursively
         roots first, then every Const item of `self.db.nodes()` (an FxHashMap: fixed seed)
   Order-bearing containers (regenerated: Generated/Inventory.v lists the seeded ones -- there is none on this path -- and
   Generated/FxSites.v the fixed-seed Fx containers that are ITERATED here):
     Vec (touches, input_items, file.items, fields, ...)   insertion order
     FxHashSet<DefId> `set`                                hash order of a FIXED-seed hasher: the iteration order is a function of the
                                                           insertion HISTORY (hashbrown: colliding keys keep their insertion order), not
                                                           of the key set alone -- the abstract function [fx_iter] below
     FxHashMap `nodes`                                     likewise fixed; its Const items in that order are the list [consts]
   A document is its dependency function: [succs d] = the items collect visits from item d, in that order (non-item nodes already
   replaced by their parent item, Mod items by their members -- a Mod is never inserted and every path leads to a type item).
   No proofs here. *)
From Coq Require Import List Bool Arith.
Import ListNotations.

Definition memn (d : nat) (l : list nat) : bool := existsb (Nat.eqb d) l.

Section Collect.
  Variable succs : nat -> list nat.

  (* collect: the insertion history (oldest first) *)
  Fixpoint visit (fuel : nat) (d : nat) (h : list nat) : list nat :=
    match fuel with
    | 0 => h
    | S f => if memn d h then h else fold_left (fun h c => visit f c h) (succs d) (h ++ [d])
    end.

  Definition visit_all (fuel : nat) (roots : list nat) (h : list nat) : list nat :=
    fold_left (fun h d => visit fuel d h) roots h.

  (* collect_items(input): roots, then the Const items *)
  Definition collect_items (fuel : nat) (roots consts : list nat) : list nat :=
    visit_all fuel consts (visit_all fuel roots []).
End Collect.

(* the touch list: (items of the file in declaration order as (name, id), names touched); names that do not exist are skipped with a
   warning; the first item of that name is taken *)
Definition touch_entry : Type := (list (nat * nat) * list nat)%type.    (* names are numbers here *)
Definition lookup_name (items : list (nat * nat)) (n : nat) : list nat :=
  match find (fun kv => Nat.eqb (fst kv) n) items with Some kv => [snd kv] | None => [] end.
Definition touch_roots (touches : list touch_entry) : list nat :=
  flat_map (fun e => flat_map (lookup_name (fst e)) (snd e)) touches.

(* ContextBuilder::collect, OnlyUsed: codegen_items.  [fx_iter] = iteration order of an FxHashSet with the given insertion history;
   [pi_roots] = the order in which the touch entries are walked: the identity in the code as it is (a Vec); an arbitrary permutation
   models a seeded hash container at that place (seeded change C17d: into_group_map) *)
Definition codegen_items (fx_iter : list nat -> list nat) (pi_roots : list touch_entry -> list touch_entry)
           (succs : nat -> list nat) (fuel : nat) (input consts : list nat) (touches : list touch_entry) : list nat :=
  fx_iter (collect_items succs fuel (input ++ touch_roots (pi_roots touches)) consts).

(* specification side: reachability *)
Inductive reaches (succs : nat -> list nat) : nat -> nat -> Prop :=
| reaches_refl d : reaches succs d d
| reaches_step d c x : In c (succs d) -> reaches succs c x -> reaches succs d x.
