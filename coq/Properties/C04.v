(* C04 -- the reported size equals the number of bytes encoding writes (primitive level:
   TLengthProtocol methods of binary / binary-LE / compact driven by the value interpreter's
   size pass; the generated size() bodies are covered at the generated-code level). *)
From PV Require Import Thrift.Len Proofs.HeaderP Proofs.RoundtripP Proofs.LenP.
Open Scope Z_scope.

(* For every well-typed value, every protocol, every buffer kind and EVERY starting context [c]
   of the protocol object (whose pending bool id, if any, is an i16): whenever the write pass
   succeeds with segments [ss] and final context [c'], the size pass started from the same context
   returns exactly the number of bytes written and ends in the same final context -- the two passes
   walk the same field-id delta contexts, so they can be interleaved on one object. *)
Theorem C04_prim : forall p k v, wt v = true ->
  forall c ss c', pend_ok c -> write_val p k v c = Ok (ss, c') ->
    len_val p v c = Ok (Z.of_nat (length (flat ss)), c') /\ pend_ok c'.
Proof. exact len_val_exact. Qed.
Print Assumptions C04_prim.

(* size, then encode, on one protocol object with nothing pending: the size is the byte count and
   both passes leave the object as they found it *)
Theorem C04_size_then_encode : forall p k v c ss c',
  wt v = true -> w_pend c = None -> write_val p k v c = Ok (ss, c') ->
  len_val p v c = Ok (Z.of_nat (length (flat ss)), c') /\ c' = c.
Proof. exact size_then_encode. Qed.
Print Assumptions C04_size_then_encode.

Theorem C04_sequence : forall p k vs, forallb wt vs = true ->
  forall c ss c', pend_ok c -> write_vals p k vs c = Ok (ss, c') ->
    len_vals p vs c = Ok (Z.of_nat (length (flat ss)), c') /\ pend_ok c'.
Proof. exact len_vals_exact. Qed.
Print Assumptions C04_sequence.

(* varint sizes: required_space is the number of bytes encode_var produces, for every u64 *)
Theorem C04_required_space : forall n, 0 <= n < two64 ->
  required_space_u n = Z.of_nat (length (encode_var n)).
Proof. exact required_space_u_len. Qed.
Print Assumptions C04_required_space.
