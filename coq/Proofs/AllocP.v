(* C09, memory: the instrumented interpreter of Thrift/Alloc.v
   (1) projects to the plain interpreters when the counter is erased (sync: read_val, async: aread_val);
   (2) its counter is bounded by the input length: every value that is read pays for what it
       allocates with the bytes it consumes (potential [phi] = bytes remaining + 1 if a bool value is
       pending), and what a FAILING read has requested is bounded by what remained. *)
From PV Require Import Thrift.Alloc Proofs.VarintP Proofs.TablesP Proofs.PrimP Proofs.HeaderP Proofs.RoundtripP Proofs.TotalP.
From PV Require Import Generated.ReaderSites.
From Coq Require Import ZifyN ZifyNat ZifyBool.
Open Scope Z_scope.

(* ================================================================== *)
(* (1) erasing the counter *)

Lemma fst_abind {A B} (x : ares A) (f : A -> am B) :
  fst (abind x f) =
  match fst x with
  | Ok (v, s) => fst (f v s (snd x))
  | Err e => Err e
  | Panic st => Panic st
  end.
Proof. unfold abind. destruct (fst x) as [[v s]| |]; reflexivity. Qed.

Lemma fst_amap {A B} (g : A -> B) (x : ares A) :
  fst (amap g x) = (let* (v, s) := fst x in Ok (g v, s)).
Proof. unfold amap. rewrite fst_abind. destruct (fst x) as [[v s]| |]; reflexivity. Qed.

Lemma fst_amap_lift {A B} (g : A -> B) (m : rm A) s a :
  fst (amap g (alift m s a)) = (let* (x, s') := m s in Ok (g x, s')).
Proof. rewrite fst_amap. reflexivity. Qed.

Lemma r_bytes_erase p s a : fst (r_bytes_alloc p s a) = r_bytes p s.
Proof.
  unfold r_bytes_alloc, r_bytes. rewrite fst_abind. cbn [alift fst snd].
  destruct (r_len p s) as [[n s1]| |]; cbn [bind]; auto.
  unfold r_split. destruct (n <=? Z.of_nat (length (rbuf s1))); reflexivity.
Qed.

Lemma a_bytes_erase p s a : fst (a_bytes_alloc p s a) = a_bytes p s.
Proof.
  destruct p; cbn [a_bytes_alloc a_bytes]; rewrite fst_abind; cbn [alift fst snd].
  1,2: match goal with |- context [a_i32 ?p ?s0] => destruct (a_i32 p s0) as [[n s1]| |] end; cbn [bind]; auto;
       destruct (n <? 0); [reflexivity|];
       destruct (n <=? Z.of_nat (length (rbuf s1))); reflexivity.
  destruct (a_varint maxsize_32 s) as [[n s1]| |]; cbn [bind]; auto.
  destruct (wrap_u 32 n <=? Z.of_nat (length (rbuf s1))); reflexivity.
Qed.

Section EraseLoops.
  Variable pre : bool.
  Variable rec : ttype -> am tval.
  Variable r : ttype -> rst -> res (tval * rst).
  Hypothesis Hrec : forall ty s a, fst (rec ty s a) = r ty s.

  Lemma elems_erase : forall m et n acc s a,
    fst (elems_loop_a pre rec m et n acc s a) = elems_loop r m et n s acc.
  Proof.
    induction m as [|m IH]; intros et n acc s a; cbn [elems_loop_a elems_loop];
      destruct (n <=? 0); try reflexivity.
    rewrite fst_abind, Hrec. destruct (r et s) as [[x s1]| |]; cbn [bind]; auto.
  Qed.

  Lemma pairs_erase : forall m kt vt n acc s a,
    fst (pairs_loop_a pre rec m kt vt n acc s a) = pairs_loop r m kt vt n s acc.
  Proof.
    induction m as [|m IH]; intros kt vt n acc s a; cbn [pairs_loop_a pairs_loop];
      destruct (n <=? 0); try reflexivity.
    rewrite fst_abind, Hrec. destruct (r kt s) as [[x s1]| |]; cbn [bind]; auto.
    rewrite fst_abind, Hrec. destruct (r vt s1) as [[y s2]| |]; cbn [bind]; auto.
  Qed.

  Lemma fields_erase_sync p : forall n acc s a,
    fst (fields_loop_a (sync_prims p) rec n acc s a) = fields_loop p r n s acc.
  Proof.
    induction n as [|n IH]; intros acc s a; cbn [fields_loop_a fields_loop]; [reflexivity|].
    rewrite fst_abind. cbn [alift fst snd sync_prims p_field_begin].
    destruct (r_field_begin p s) as [[h s1]| |]; cbn [bind]; auto.
    destruct (ttype_eqb (fst h) TStop); [reflexivity|].
    rewrite fst_abind, Hrec. destruct (r (fst h) s1) as [[x s2]| |]; cbn [bind]; auto.
  Qed.

  Lemma fields_erase_async p : forall n acc s a,
    fst (fields_loop_a (async_prims p) rec n acc s a) = afields_loop p r n s acc.
  Proof.
    induction n as [|n IH]; intros acc s a; cbn [fields_loop_a afields_loop]; [reflexivity|].
    rewrite fst_abind. cbn [alift fst snd async_prims p_field_begin].
    destruct (a_field_begin p s) as [[h s1]| |]; cbn [bind]; auto.
    destruct (ttype_eqb (fst h) TStop); [reflexivity|].
    rewrite fst_abind, Hrec. destruct (r (fst h) s1) as [[x s2]| |]; cbn [bind]; auto.
  Qed.
End EraseLoops.

(* erasing the counter of the instrumented in-memory interpreter gives read_val: same outcome (value, state,
   error class, panic site) for every input, whatever the counter starts at and in both client modes *)
Theorem alloc_erase_sync pre p : forall f ty s a,
  fst (read_val_alloc pre p f ty s a) = read_val p f ty s.
Proof.
  unfold read_val_alloc. induction f as [|f IH]; intros ty s a; [reflexivity|].
  rewrite read_val_S. cbn [read_val_a].
  destruct ty; try reflexivity; cbn [sync_prims p_bool p_i8 p_i16 p_i32 p_i64 p_double p_uuid p_bytes
    p_struct_begin p_struct_cost p_struct_end p_coll_begin p_map_begin]; try apply fst_amap_lift.
  - rewrite fst_amap, r_bytes_erase. reflexivity.
  - rewrite fst_abind. cbn [alift fst snd]. destruct (r_struct_begin p s) as [[u s0]| |]; cbn [bind]; auto.
    rewrite fst_abind, (fields_erase_sync _ (read_val p f) IH).
    destruct (fields_loop p (read_val p f) (S f) s0 []) as [[fs s1]| |]; cbn [bind]; auto.
    rewrite fst_abind. cbn [alift fst snd]. destruct (r_struct_end p s1) as [[u2 s2]| |]; reflexivity.
  - rewrite fst_abind. cbn [alift fst snd]. destruct (r_map_begin p s) as [[h s0]| |]; cbn [bind]; auto.
    rewrite fst_amap, (pairs_erase pre _ (read_val p f) IH). reflexivity.
  - rewrite fst_abind. cbn [alift fst snd]. destruct (r_coll_begin p s) as [[h s0]| |]; cbn [bind]; auto.
    rewrite fst_amap, (elems_erase pre _ (read_val p f) IH). reflexivity.
  - rewrite fst_abind. cbn [alift fst snd]. destruct (r_coll_begin p s) as [[h s0]| |]; cbn [bind]; auto.
    rewrite fst_amap, (elems_erase pre _ (read_val p f) IH). reflexivity.
Qed.

Lemma aread_val_S p f ty s : aread_val p (S f) ty s =
  match ty with
  | TBool => let* (b, s) := a_bool p s in Ok (VBool b, s)
  | TI8 => let* (z, s) := a_i8 s in Ok (VI8 z, s)
  | TI16 => let* (z, s) := a_i16 p s in Ok (VI16 z, s)
  | TI32 => let* (z, s) := a_i32 p s in Ok (VI32 z, s)
  | TI64 => let* (z, s) := a_i64 p s in Ok (VI64 z, s)
  | TDouble => let* (z, s) := a_double p s in Ok (VDouble z, s)
  | TBinary => let* (l, s) := a_bytes p s in Ok (VBinary l, s)
  | TUuid => let* (l, s) := a_uuid s in Ok (VUuid l, s)
  | TStruct =>
      let* (_, s) := a_struct_begin p s in
      let* (fs, s) := afields_loop p (aread_val p f) (S f) s [] in
      let* (_, s) := a_struct_end p s in
      Ok (VStruct fs, s)
  | TList =>
      let* (h, s) := a_coll_begin p s in
      let* (l, s) := elems_loop (aread_val p f) (S f) (fst h) (snd h) s [] in
      Ok (VList (fst h) l, s)
  | TSet =>
      let* (h, s) := a_coll_begin p s in
      let* (l, s) := elems_loop (aread_val p f) (S f) (fst h) (snd h) s [] in
      Ok (VSet (fst h) l, s)
  | TMap =>
      let* (h, s) := a_map_begin p s in
      let* (l, s) := pairs_loop (aread_val p f) (S f) (fst (fst h)) (snd (fst h)) (snd h) s [] in
      Ok (VMap (fst (fst h)) (snd (fst h)) l, s)
  | TStop | TVoid => Err EInvalidData
  end.
Proof. reflexivity. Qed.

(* ... and of the instrumented asynchronous interpreter, aread_val *)
Theorem alloc_erase_async pre p : forall f ty s a,
  fst (aread_val_alloc pre p f ty s a) = aread_val p f ty s.
Proof.
  unfold aread_val_alloc. induction f as [|f IH]; intros ty s a; [reflexivity|].
  rewrite aread_val_S. cbn [read_val_a].
  destruct ty; try reflexivity; cbn [async_prims p_bool p_i8 p_i16 p_i32 p_i64 p_double p_uuid p_bytes
    p_struct_begin p_struct_cost p_struct_end p_coll_begin p_map_begin]; try apply fst_amap_lift.
  - rewrite fst_amap, a_bytes_erase. reflexivity.
  - rewrite fst_abind. cbn [alift fst snd]. destruct (a_struct_begin p s) as [[u s0]| |]; cbn [bind]; auto.
    rewrite fst_abind, (fields_erase_async _ (aread_val p f) IH).
    destruct (afields_loop p (aread_val p f) (S f) s0 []) as [[fs s1]| |]; cbn [bind]; auto.
    rewrite fst_abind. cbn [alift fst snd]. destruct (a_struct_end p s1) as [[u2 s2]| |]; reflexivity.
  - rewrite fst_abind. cbn [alift fst snd]. destruct (a_map_begin p s) as [[h s0]| |]; cbn [bind]; auto.
    rewrite fst_amap, (pairs_erase pre _ (aread_val p f) IH). reflexivity.
  - rewrite fst_abind. cbn [alift fst snd]. destruct (a_coll_begin p s) as [[h s0]| |]; cbn [bind]; auto.
    rewrite fst_amap, (elems_erase pre _ (aread_val p f) IH). reflexivity.
  - rewrite fst_abind. cbn [alift fst snd]. destruct (a_coll_begin p s) as [[h s0]| |]; cbn [bind]; auto.
    rewrite fst_amap, (elems_erase pre _ (aread_val p f) IH). reflexivity.
Qed.

(* ================================================================== *)
(* (2) the bound *)

(* potential of a reader state: [w] per byte that remains, plus 1 if a bool value is pending (a compact
   bool field header leaves its value pending; the TBool read that follows consumes it and no byte) *)
Definition pend (s : rst) : Z := match r_pbool (rc s) with Some _ => 1 | None => 0 end.
Definition phi (w : Z) (s : rst) : Z := w * Z.of_nat (blen s) + pend s.

Lemma pend_range s : 0 <= pend s <= 1.
Proof. unfold pend. destruct (r_pbool (rc s)); lia. Qed.
Lemma phi_nonneg w s : 0 <= w -> 0 <= phi w s.
Proof. intros. unfold phi. pose proof (pend_range s). nia. Qed.

(* --- frame: the context is untouched and [k] bytes are consumed --- *)
Definition frame {A} (o : res (A * rst)) (s : rst) (k : nat) : Prop :=
  match o with
  | Ok (_, s') => rc s' = rc s /\ (blen s' + k <= blen s)%nat
  | _ => True
  end.

Lemma frame_weaken {A} (o : res (A * rst)) s k k' : (k' <= k)%nat -> frame o s k -> frame o s k'.
Proof. destruct o as [[a s']| |]; cbn; auto. intros ? [? ?]. split; auto. lia. Qed.

Lemma frame_bind {A B} (o : res (A * rst)) (f : A * rst -> res (B * rst)) s k1 k2 :
  frame o s k1 -> (forall a s', frame (f (a, s')) s' k2) -> frame (bind o f) s (k1 + k2).
Proof.
  destruct o as [[a s']| |]; cbn [bind frame]; auto. intros [H1 H2] Hf.
  specialize (Hf a s'). destruct (f (a, s')) as [[b s'']| |]; cbn [frame] in *; auto.
  destruct Hf as [Hf1 Hf2]. split; [congruence|lia].
Qed.

Lemma frame_map {A B} (o : res (A * rst)) (g : A -> B) s k :
  frame o s k -> frame (let* (x, s') := o in Ok (g x, s')) s k.
Proof. destruct o as [[a s']| |]; cbn; auto. Qed.

Lemma r_take_frame n s : frame (r_take n s) s n.
Proof.
  unfold r_take. destruct (take n (rbuf s)) as [[a r]|] eqn:E; cbn [frame]; auto.
  apply take_some in E as [E1 E2]. split; [reflexivity|]. unfold blen, set_buf. cbn [rbuf]. rewrite E1, app_length. lia.
Qed.
Lemma a_take_frame n s : frame (a_take n s) s n.
Proof.
  unfold a_take. destruct (take n (rbuf s)) as [[a r]|] eqn:E; cbn [frame]; auto.
  apply take_some in E as [E1 E2]. split; [reflexivity|]. unfold blen, set_buf. cbn [rbuf]. rewrite E1, app_length. lia.
Qed.

Lemma r_varint_frame m s : frame (r_varint m s) s 1.
Proof.
  unfold r_varint, read_var_u64. pose proof (rd_var_good m 0 0 (rbuf s)) as H.
  destruct (rd_var m 0 0 (rbuf s)) as [[n r]| |]; cbn [bind frame]; [|exact I|exact I].
  split; [reflexivity|]. unfold blen, set_buf. cbn [rbuf]. lia.
Qed.
Lemma a_varint_frame m s : frame (a_varint m s) s 1.
Proof.
  unfold a_varint, read_var_u64. pose proof (rd_var_good m 0 0 (rbuf s)) as H.
  destruct (rd_var m 0 0 (rbuf s)) as [[n r]| |]; cbn [frame]; [|exact I|exact I].
  split; [reflexivity|]. unfold blen, set_buf. cbn [rbuf]. lia.
Qed.

Lemma r_byte_frame s : frame (r_byte s) s 1.
Proof. unfold r_byte. apply frame_map, r_take_frame. Qed.
Lemma r_i8_frame s : frame (r_i8 s) s 1.
Proof. unfold r_i8. apply (frame_map _ (fun a => wrap_s 8 (of_le a))), r_take_frame. Qed.
Lemma r_fixed_frame p n bits s : frame (r_fixed p n bits s) s n.
Proof. unfold r_fixed. apply (frame_map _ (fun a => wrap_s bits (unfx p a))), r_take_frame. Qed.
Lemma r_zz_frame m bits s : frame (let* (n, s) := r_varint m s in Ok (wrap_s bits (unzigzag n), s)) s 1.
Proof. apply (frame_map _ (fun n => wrap_s bits (unzigzag n))), r_varint_frame. Qed.
Lemma r_i16_frame p s : frame (r_i16 p s) s 1.
Proof. destruct p; cbn [r_i16]; try apply r_zz_frame; apply (frame_weaken _ _ 2); try lia; apply r_fixed_frame. Qed.
Lemma r_i32_frame p s : frame (r_i32 p s) s 1.
Proof. destruct p; cbn [r_i32]; try apply r_zz_frame; apply (frame_weaken _ _ 4); try lia; apply r_fixed_frame. Qed.
Lemma r_i64_frame p s : frame (r_i64 p s) s 1.
Proof. destruct p; cbn [r_i64]; try apply r_zz_frame; apply (frame_weaken _ _ 8); try lia; apply r_fixed_frame. Qed.
Lemma r_double_frame p s : frame (r_double p s) s 1.
Proof.
  unfold r_double. apply (frame_weaken _ _ 8); [lia|].
  apply (frame_map _ (fun a => match p with PBinary => of_be a | _ => of_le a end)), r_take_frame.
Qed.
Lemma r_uuid_frame s : frame (r_uuid s) s 1.
Proof. apply (frame_weaken _ _ 16); [lia|]. apply r_take_frame. Qed.
Lemma r_len_frame p s : frame (r_len p s) s 1.
Proof.
  destruct p; cbn [r_len].
  1,2: apply (frame_map _ (fun n => wrap_u 64 n)), r_i32_frame.
  apply (frame_map _ (fun n => wrap_u 32 n)), r_varint_frame.
Qed.
Lemma r_ttype_frame s : frame (r_ttype s) s 1.
Proof.
  unfold r_ttype. pose proof (r_byte_frame s) as G.
  destruct (r_byte s) as [[b s1]| |]; cbn [bind frame] in *; auto.
  destruct (ttype_of_byte b); cbn [frame]; auto.
Qed.

Lemma a_byte_frame s : frame (a_byte s) s 1.
Proof. unfold a_byte. apply frame_map, a_take_frame. Qed.
Lemma a_i8_frame s : frame (a_i8 s) s 1.
Proof. unfold a_i8. apply (frame_map _ (fun a => wrap_s 8 (of_le a))), a_take_frame. Qed.
Lemma a_fixed_frame p n bits s : frame (a_fixed p n bits s) s n.
Proof. unfold a_fixed. apply (frame_map _ (fun a => wrap_s bits (unfx p a))), a_take_frame. Qed.
Lemma a_zz_frame m bits s : frame (let* (n, s) := a_varint m s in Ok (wrap_s bits (unzigzag n), s)) s 1.
Proof. apply (frame_map _ (fun n => wrap_s bits (unzigzag n))), a_varint_frame. Qed.
Lemma a_i16_frame p s : frame (a_i16 p s) s 1.
Proof. destruct p; cbn [a_i16]; try apply a_zz_frame; apply (frame_weaken _ _ 2); try lia; apply a_fixed_frame. Qed.
Lemma a_i32_frame p s : frame (a_i32 p s) s 1.
Proof. destruct p; cbn [a_i32]; try apply a_zz_frame; apply (frame_weaken _ _ 4); try lia; apply a_fixed_frame. Qed.
Lemma a_i64_frame p s : frame (a_i64 p s) s 1.
Proof. destruct p; cbn [a_i64]; try apply a_zz_frame; apply (frame_weaken _ _ 8); try lia; apply a_fixed_frame. Qed.
Lemma a_double_frame p s : frame (a_double p s) s 1.
Proof.
  unfold a_double. apply (frame_weaken _ _ 8); [lia|].
  apply (frame_map _ (fun a => match p with PBinary => of_be a | _ => of_le a end)), a_take_frame.
Qed.
Lemma a_uuid_frame s : frame (a_uuid s) s 1.
Proof. apply (frame_weaken _ _ 16); [lia|]. apply a_take_frame. Qed.
Lemma a_ttype_frame s : frame (a_ttype s) s 1.
Proof.
  unfold a_ttype. pose proof (a_byte_frame s) as G.
  destruct (a_byte s) as [[b s1]| |]; cbn [bind frame] in *; auto.
  destruct (ttype_of_byte b); cbn [frame]; auto.
Qed.

(* container headers touch no context *)
Lemma r_coll_begin_frame p s : frame (r_coll_begin p s) s 1.
Proof.
  destruct p; cbn [r_coll_begin].
  1,2: pose proof (r_ttype_frame s) as G1; destruct (r_ttype s) as [[et s1]| |]; cbn [bind frame] in *; auto;
       match goal with |- context [r_i32 ?p s1] => pose proof (r_i32_frame p s1) as G2; destruct (r_i32 p s1) as [[n s2]| |] end;
       cbn [bind frame] in *; auto;
       destruct (check_size n s2) as [m| |]; cbn [bind frame]; auto;
       destruct G1, G2; split; [congruence|lia].
  pose proof (r_byte_frame s) as G1. destruct (r_byte s) as [[h s1]| |]; cbn [bind frame] in *; auto.
  destruct (ttype_of_nibble (h mod 16)) as [et| |]; cbn [bind frame]; auto.
  destruct (negb (h / 16 =? 15)).
  - destruct (check_size (h / 16) s1) as [m| |]; cbn [bind frame]; auto.
  - pose proof (r_varint_frame maxsize_32 s1) as G2.
    destruct (r_varint maxsize_32 s1) as [[n s2]| |]; cbn [bind frame] in *; auto.
    destruct (check_size (wrap_s 32 n) s2) as [m| |]; cbn [bind frame]; auto.
    destruct G1, G2; split; [congruence|lia].
Qed.

Lemma r_map_begin_frame p s : frame (r_map_begin p s) s 1.
Proof.
  destruct p; cbn [r_map_begin].
  1,2: pose proof (r_ttype_frame s) as G1; destruct (r_ttype s) as [[kt s1]| |]; cbn [bind frame] in *; auto;
       pose proof (r_ttype_frame s1) as G1'; destruct (r_ttype s1) as [[vt s1']| |]; cbn [bind frame] in *; auto;
       match goal with |- context [r_i32 ?p s1'] => pose proof (r_i32_frame p s1') as G2; destruct (r_i32 p s1') as [[n s2]| |] end;
       cbn [bind frame] in *; auto;
       destruct (check_size n s2) as [m| |]; cbn [bind frame]; auto;
       destruct G1, G1', G2; split; [congruence|lia].
  pose proof (r_varint_frame maxsize_32 s) as G1.
  destruct (r_varint maxsize_32 s) as [[n s1]| |]; cbn [bind frame] in *; auto.
  destruct (wrap_s 32 n =? 0); [cbn [frame]; exact G1|].
  pose proof (r_byte_frame s1) as G2. destruct (r_byte s1) as [[h s2]| |]; cbn [bind frame] in *; auto.
  destruct (ttype_of_nibble (h / 16)) as [kt| |]; cbn [bind frame]; auto.
  destruct (ttype_of_nibble (h mod 16)) as [vt| |]; cbn [bind frame]; auto.
  destruct (check_size (wrap_s 32 n) s2) as [m| |]; cbn [bind frame]; auto.
  destruct G1, G2; split; [congruence|lia].
Qed.

Lemma a_coll_begin_frame p s : frame (a_coll_begin p s) s 1.
Proof.
  destruct p; cbn [a_coll_begin].
  1,2: pose proof (a_ttype_frame s) as G1; destruct (a_ttype s) as [[et s1]| |]; cbn [bind frame] in *; auto;
       match goal with |- context [a_i32 ?p s1] => pose proof (a_i32_frame p s1) as G2; destruct (a_i32 p s1) as [[n s2]| |] end;
       cbn [bind frame] in *; auto; destruct G1, G2; split; [congruence|lia].
  pose proof (a_byte_frame s) as G1. destruct (a_byte s) as [[h s1]| |]; cbn [bind frame] in *; auto.
  destruct (ttype_of_nibble (h mod 16)) as [et| |]; cbn [bind frame]; auto.
  destruct (negb (h / 16 =? 15)); [cbn [frame]; exact G1|].
  pose proof (a_varint_frame maxsize_32 s1) as G2.
  destruct (a_varint maxsize_32 s1) as [[n s2]| |]; cbn [bind frame] in *; auto.
  destruct G1, G2; split; [congruence|lia].
Qed.

Lemma a_map_begin_frame p s : frame (a_map_begin p s) s 1.
Proof.
  destruct p; cbn [a_map_begin].
  1,2: pose proof (a_ttype_frame s) as G1; destruct (a_ttype s) as [[kt s1]| |]; cbn [bind frame] in *; auto;
       pose proof (a_ttype_frame s1) as G1'; destruct (a_ttype s1) as [[vt s1']| |]; cbn [bind frame] in *; auto;
       match goal with |- context [a_i32 ?p s1'] => pose proof (a_i32_frame p s1') as G2; destruct (a_i32 p s1') as [[n s2]| |] end;
       cbn [bind frame] in *; auto; destruct G1, G1', G2; split; [congruence|lia].
  pose proof (a_varint_frame maxsize_32 s) as G1.
  destruct (a_varint maxsize_32 s) as [[n s1]| |]; cbn [bind frame] in *; auto.
  destruct (wrap_s 32 n =? 0); [cbn [frame]; exact G1|].
  pose proof (a_byte_frame s1) as G2. destruct (a_byte s1) as [[h s2]| |]; cbn [bind frame] in *; auto.
  destruct (ttype_of_nibble (h / 16)) as [kt| |]; cbn [bind frame]; auto.
  destruct (ttype_of_nibble (h mod 16)) as [vt| |]; cbn [bind frame]; auto.
  destruct G1, G2; split; [congruence|lia].
Qed.

(* --- arithmetic helpers (the only non-linear steps) --- *)
Lemma errb E K p : 0 <= E -> 0 <= p -> 0 <= K -> 0 <= E * p + K.
Proof. intros. nia. Qed.
Lemma Emono E E' p1 p0 : 0 <= E <= E' -> 0 <= p1 <= p0 -> E * p1 <= E' * p0.
Proof. intros. nia. Qed.
Lemma Emix E p1 p0 : 1 <= E -> p1 <= p0 -> E * p1 + (p0 - p1) <= E * p0.
Proof. intros. nia. Qed.
Lemma Estep E p1 p0 : 0 <= E -> p1 + 1 <= p0 -> E * p1 + E <= E * p0.
Proof. intros. nia. Qed.

Section Bound.
  Variable w : Z.
  Hypothesis Hw : 0 <= w.
  Notation phi := (phi w).

  (* a plain step: on success the potential drops by at least [d] *)
  Definition stepd {A} (d : Z) (o : res (A * rst)) (s : rst) : Prop :=
    match o with Ok (_, s') => phi s' + d <= phi s | _ => True end.

  (* an instrumented step started in [s] with counter [a]: on success the potential drops by at least [d] and
     pays for the charge with [e] to spare; on failure what was charged is at most [E * phi s + K] *)
  Definition ainv {A} (d e E K : Z) (x : ares A) (s : rst) (a : Z) : Prop :=
    match fst x with
    | Ok (_, s') => phi s' + d <= phi s /\ snd x - a + e <= phi s - phi s'
    | _ => snd x - a <= E * phi s + K
    end.

  Lemma ainv_weakenE {A} d e E E' K (x : ares A) s a :
    0 <= E <= E' -> ainv d e E K x s a -> ainv d e E' K x s a.
  Proof.
    intros HE. unfold ainv. pose proof (phi_nonneg w s Hw) as Hp.
    destruct (fst x) as [[v s']| |]; auto; intros H;
      pose proof (Emono E E' (phi s) (phi s) HE ltac:(lia)); lia.
  Qed.

  Lemma ainv_amap {A B} (g : A -> B) d e E K (x : ares A) s a :
    ainv d e E K x s a -> ainv d e E K (amap g x) s a.
  Proof.
    unfold ainv, amap, abind. destruct x as [o a']. cbn [fst snd].
    destruct o as [[v s']| |]; cbn [fst snd]; auto.
  Qed.

  Lemma ainv_lift_map {A B} (g : A -> B) (m : rm A) E K s a :
    0 <= E -> 0 <= K -> stepd 1 (m s) s -> ainv 1 1 E K (amap g (alift m s a)) s a.
  Proof.
    intros HE HK H. apply ainv_amap. unfold ainv, alift. cbn [fst snd].
    pose proof (phi_nonneg w s Hw).
    destruct (m s) as [[v s']| |]; cbn [stepd] in *; [lia| |]; pose proof (errb E K (phi s)); lia.
  Qed.

  Variable pre : bool.
  Variable K : Z.
  Variable P : prims.

  Record prims_ok : Prop := {
    ok_bool : forall s, stepd 1 (p_bool P s) s;
    ok_i8 : forall s, stepd 1 (p_i8 P s) s;
    ok_i16 : forall s, stepd 1 (p_i16 P s) s;
    ok_i32 : forall s, stepd 1 (p_i32 P s) s;
    ok_i64 : forall s, stepd 1 (p_i64 P s) s;
    ok_double : forall s, stepd 1 (p_double P s) s;
    ok_uuid : forall s, stepd 1 (p_uuid P s) s;
    ok_bytes : forall s a, ainv 1 1 1 K (p_bytes P s a) s a;
    ok_sb : forall s, stepd 0 (p_struct_begin P s) s;
    ok_se : forall s, stepd 0 (p_struct_end P s) s;
    ok_sc : 0 <= p_struct_cost P <= 1 /\ p_struct_cost P <= K;
    ok_fb : forall s, match p_field_begin P s with
                      | Ok (h, s') => phi s' + (if ttype_eqb (fst h) TStop then 2 else 1) <= phi s
                      | _ => True
                      end;
    ok_cb : forall s, match p_coll_begin P s with
                      | Ok (h, s') => phi s' + 1 <= phi s /\ (pre = true -> 0 <= snd h <= phi s')
                      | _ => True
                      end;
    ok_mb : forall s, match p_map_begin P s with
                      | Ok (h, s') => phi s' + 1 <= phi s /\ (pre = true -> 0 <= snd h <= phi s')
                      | _ => True
                      end
  }.

  Hypothesis HP : prims_ok.

  Lemma K_nonneg : 0 <= K.
  Proof. destruct (ok_sc HP). lia. Qed.

  (* what a header has prepaid per announced element *)
  Definition prepaid : Z := if pre then 1 else 0.

  Section Loops.
    Variable rec : ttype -> am tval.
    Variable E : Z.
    Hypothesis HE : 1 <= E.
    Hypothesis Hrec : forall ty s a, ainv 1 1 E K (rec ty s a) s a.

    Lemma elems_inv : forall m et n acc s a,
      ainv 0 (prepaid * Z.max n 0) E K (elems_loop_a pre rec m et n acc s a) s a.
    Proof.
      pose proof K_nonneg as HK.
      induction m as [|m IH]; intros et n acc s a; cbn [elems_loop_a];
        pose proof (phi_nonneg w s Hw) as Hp0; pose proof (errb E K (phi s) ltac:(lia) Hp0 HK) as Hb0;
        (destruct (Z.leb_spec n 0) as [Hn|Hn];
         [unfold ainv; cbn [fst snd]; replace (Z.max n 0) with 0 by lia; lia|]).
      - unfold ainv; cbn [fst snd]. lia.
      - pose proof (Hrec et s a) as H1. unfold abind. unfold ainv in H1 |- *.
        destruct (rec et s a) as [o1 a1]. cbn [fst snd] in *.
        destruct o1 as [[x s1]| |]; cbn [fst snd]; [|exact H1|exact H1].
        specialize (IH et (n - 1) (x :: acc) s1 (a1 + push_cost pre)). unfold ainv in IH.
        destruct (elems_loop_a pre rec m et (n - 1) (x :: acc) s1 (a1 + push_cost pre)) as [o2 a2].
        cbn [fst snd] in *. destruct H1 as [H1 H1'].
        assert (Hpc : push_cost pre + prepaid = 1) by (unfold push_cost, prepaid; destruct pre; lia).
        assert (Hpp : 0 <= prepaid <= 1) by (unfold prepaid; destruct pre; lia).
        pose proof (phi_nonneg w s1 Hw) as Hp1.
        destruct o2 as [[l s2]| |].
        + destruct IH as [I1 I2]. split; [lia|].
          replace (Z.max n 0) with (Z.max (n - 1) 0 + 1) by lia. lia.
        + pose proof (Emix E (phi s1) (phi s) ltac:(lia) ltac:(lia)). lia.
        + pose proof (Emix E (phi s1) (phi s) ltac:(lia) ltac:(lia)). lia.
    Qed.

    Lemma pairs_inv : forall m kt vt n acc s a,
      ainv 0 (prepaid * Z.max n 0) E K (pairs_loop_a pre rec m kt vt n acc s a) s a.
    Proof.
      pose proof K_nonneg as HK.
      induction m as [|m IH]; intros kt vt n acc s a; cbn [pairs_loop_a];
        pose proof (phi_nonneg w s Hw) as Hp0; pose proof (errb E K (phi s) ltac:(lia) Hp0 HK) as Hb0;
        (destruct (Z.leb_spec n 0) as [Hn|Hn];
         [unfold ainv; cbn [fst snd]; replace (Z.max n 0) with 0 by lia; lia|]).
      - unfold ainv; cbn [fst snd]. lia.
      - pose proof (Hrec kt s a) as H1. unfold abind. unfold ainv in H1 |- *.
        destruct (rec kt s a) as [o1 a1]. cbn [fst snd] in *.
        destruct o1 as [[x s1]| |]; cbn [fst snd]; [|exact H1|exact H1].
        destruct H1 as [H1 H1'].
        pose proof (phi_nonneg w s1 Hw) as Hp1.
        pose proof (Emix E (phi s1) (phi s) ltac:(lia) ltac:(lia)) as M1.
        pose proof (Hrec vt s1 a1) as H2. unfold ainv in H2.
        destruct (rec vt s1 a1) as [o2 a2]. cbn [fst snd] in *.
        destruct o2 as [[y s2]| |]; cbn [fst snd]; [|lia|lia].
        destruct H2 as [H2 H2'].
        pose proof (phi_nonneg w s2 Hw) as Hp2.
        pose proof (Emix E (phi s2) (phi s) ltac:(lia) ltac:(lia)) as M2.
        specialize (IH kt vt (n - 1) ((x, y) :: acc) s2 (a2 + push_cost pre)). unfold ainv in IH.
        destruct (pairs_loop_a pre rec m kt vt (n - 1) ((x, y) :: acc) s2 (a2 + push_cost pre)) as [o3 a3].
        cbn [fst snd] in *.
        assert (Hpc : push_cost pre + prepaid = 1) by (unfold push_cost, prepaid; destruct pre; lia).
        assert (Hpp : 0 <= prepaid <= 1) by (unfold prepaid; destruct pre; lia).
        destruct o3 as [[l s3]| |].
        + destruct IH as [I1 I2]. split; [lia|].
          replace (Z.max n 0) with (Z.max (n - 1) 0 + 1) by lia. lia.
        + lia.
        + lia.
    Qed.

    (* the field loop: the stop byte leaves 2 to spare; a failure has charged at most E * phi + K - struct cost *)
    Lemma fields_inv : forall n acc s a,
      match fst (fields_loop_a P rec n acc s a) with
      | Ok (_, s') => phi s' + 2 <= phi s /\ snd (fields_loop_a P rec n acc s a) - a + 2 <= phi s - phi s'
      | _ => snd (fields_loop_a P rec n acc s a) - a <= E * phi s + K - p_struct_cost P
      end.
    Proof.
      pose proof K_nonneg as HK. destruct (ok_sc HP) as [Hsc HscK].
      induction n as [|n IH]; intros acc s a; cbn [fields_loop_a];
        pose proof (phi_nonneg w s Hw) as Hp0; pose proof (errb E 0 (phi s) ltac:(lia) Hp0 ltac:(lia)) as Hb0.
      - cbn [fst snd]. lia.
      - unfold abind, alift. cbn [fst snd].
        pose proof (ok_fb HP s) as Hf.
        destruct (p_field_begin P s) as [[h s1]| |]; cbn [fst snd]; [|lia|lia].
        pose proof (phi_nonneg w s1 Hw) as Hp1.
        destruct (ttype_eqb (fst h) TStop); cbn [fst snd]; [lia|].
        pose proof (Hrec (fst h) s1 a) as H1. unfold ainv in H1.
        destruct (rec (fst h) s1 a) as [o1 a1]. cbn [fst snd] in *.
        pose proof (Estep E (phi s1) (phi s) ltac:(lia) Hf) as M1.
        destruct o1 as [[x s2]| |]; cbn [fst snd]; [|lia|lia].
        destruct H1 as [H1 H1'].
        pose proof (phi_nonneg w s2 Hw) as Hp2.
        pose proof (Emix E (phi s2) (phi s) ltac:(lia) ltac:(lia)) as M2.
        specialize (IH ((match snd h with Some i => i | None => 0 end, x) :: acc) s2 (a1 + 1)).
        destruct (fields_loop_a P rec n ((match snd h with Some i => i | None => 0 end, x) :: acc) s2 (a1 + 1)) as [o2 a2].
        cbn [fst snd] in *.
        destruct o2 as [[fs s3]| |]; lia.
    Qed.
  End Loops.

  (* failure factor at fuel [f]: a preallocating client may hold one announced size per nesting level *)
  Definition Ef (f : nat) : Z := 1 + (if pre then Z.of_nat f else 0).

  Lemma Ef_ge1 f : 1 <= Ef f.
  Proof. unfold Ef. destruct pre; lia. Qed.
  Lemma Ef_S f : Ef (S f) = Ef f + (if pre then 1 else 0).
  Proof. unfold Ef. destruct pre; lia. Qed.

  Theorem read_val_a_inv : forall f ty s a,
    ainv 1 1 (Ef f) K (read_val_a pre P f ty s a) s a.
  Proof.
    pose proof K_nonneg as HK. destruct (ok_sc HP) as [Hsc HscK].
    induction f as [|f IH]; intros ty s a; pose proof (phi_nonneg w s Hw) as Hp0.
    - cbn [read_val_a]. unfold ainv. cbn [fst snd]. pose proof (Ef_ge1 0). pose proof (errb (Ef 0) K (phi s)). lia.
    - pose proof (Ef_ge1 f) as HE. pose proof (Ef_ge1 (S f)) as HE'. pose proof (Ef_S f) as HES.
      assert (HEE : 0 <= Ef f <= Ef (S f)) by (destruct pre; lia).
      pose proof (errb (Ef (S f)) K (phi s) ltac:(lia) Hp0 HK) as Hb0.
      pose proof (Emix (Ef (S f)) 0 (phi s) HE' Hp0) as Hb1.
      cbn [read_val_a].
      destruct ty.
      + unfold ainv. cbn [fst snd]. lia.
      + unfold ainv. cbn [fst snd]. lia.
      + apply ainv_lift_map; try lia. apply (ok_bool HP).
      + apply ainv_lift_map; try lia. apply (ok_i8 HP).
      + apply ainv_lift_map; try lia. apply (ok_double HP).
      + apply ainv_lift_map; try lia. apply (ok_i16 HP).
      + apply ainv_lift_map; try lia. apply (ok_i32 HP).
      + apply ainv_lift_map; try lia. apply (ok_i64 HP).
      + apply ainv_amap. apply (ainv_weakenE _ _ 1); [lia|]. apply (ok_bytes HP).
      + (* struct *)
        unfold abind, alift. cbn [fst snd].
        pose proof (ok_sb HP s) as H0.
        destruct (p_struct_begin P s) as [[u s0]| |]; cbn [fst snd stepd] in *;
          [|unfold ainv; cbn [fst snd]; lia|unfold ainv; cbn [fst snd]; lia].
        pose proof (phi_nonneg w s0 Hw) as Hp1.
        pose proof (fields_inv (read_val_a pre P f) (Ef f) HE IH (S f) [] s0 (a + p_struct_cost P)) as H1.
        pose proof (Emono (Ef f) (Ef (S f)) (phi s0) (phi s) HEE ltac:(lia)) as M1.
        destruct (fields_loop_a P (read_val_a pre P f) (S f) [] s0 (a + p_struct_cost P)) as [o1 a1].
        cbn [fst snd] in *.
        destruct o1 as [[fs s1]| |]; cbn [fst snd]; [|unfold ainv; cbn [fst snd]; lia|unfold ainv; cbn [fst snd]; lia].
        destruct H1 as [H1 H1'].
        pose proof (phi_nonneg w s1 Hw) as Hp2.
        pose proof (ok_se HP s1) as H2.
        destruct (p_struct_end P s1) as [[u2 s2]| |]; cbn [fst snd stepd] in *; unfold ainv; cbn [fst snd]; lia.
      + (* map *)
        unfold abind, alift. cbn [fst snd].
        pose proof (ok_mb HP s) as H0.
        destruct (p_map_begin P s) as [[h s0]| |]; cbn [fst snd];
          [|unfold ainv; cbn [fst snd]; lia|unfold ainv; cbn [fst snd]; lia].
        destruct H0 as [H0 Hn].
        pose proof (phi_nonneg w s0 Hw) as Hp1.
        apply ainv_amap.
        pose proof (pairs_inv (read_val_a pre P f) (Ef f) HE IH (S f) (fst (fst h)) (snd (fst h)) (snd h) [] s0
                      (a + header_cost pre (snd h))) as H1.
        pose proof (Emono (Ef f) (Ef (S f)) (phi s0) (phi s) HEE ltac:(lia)) as M1.
        unfold ainv in H1 |- *.
        destruct (pairs_loop_a pre (read_val_a pre P f) (S f) (fst (fst h)) (snd (fst h)) (snd h) [] s0
                    (a + header_cost pre (snd h))) as [o1 a1].
        cbn [fst snd] in *. unfold header_cost, prepaid in *.
        destruct pre; [specialize (Hn eq_refl)|]; (destruct o1 as [[l s1]| |]; [destruct H1 as [H1 H1']; split; lia| |]); nia.
      + (* set *)
        unfold abind, alift. cbn [fst snd].
        pose proof (ok_cb HP s) as H0.
        destruct (p_coll_begin P s) as [[h s0]| |]; cbn [fst snd];
          [|unfold ainv; cbn [fst snd]; lia|unfold ainv; cbn [fst snd]; lia].
        destruct H0 as [H0 Hn].
        pose proof (phi_nonneg w s0 Hw) as Hp1.
        apply ainv_amap.
        pose proof (elems_inv (read_val_a pre P f) (Ef f) HE IH (S f) (fst h) (snd h) [] s0
                      (a + header_cost pre (snd h))) as H1.
        pose proof (Emono (Ef f) (Ef (S f)) (phi s0) (phi s) HEE ltac:(lia)) as M1.
        unfold ainv in H1 |- *.
        destruct (elems_loop_a pre (read_val_a pre P f) (S f) (fst h) (snd h) [] s0
                    (a + header_cost pre (snd h))) as [o1 a1].
        cbn [fst snd] in *. unfold header_cost, prepaid in *.
        destruct pre; [specialize (Hn eq_refl)|]; (destruct o1 as [[l s1]| |]; [destruct H1 as [H1 H1']; split; lia| |]); nia.
      + (* list *)
        unfold abind, alift. cbn [fst snd].
        pose proof (ok_cb HP s) as H0.
        destruct (p_coll_begin P s) as [[h s0]| |]; cbn [fst snd];
          [|unfold ainv; cbn [fst snd]; lia|unfold ainv; cbn [fst snd]; lia].
        destruct H0 as [H0 Hn].
        pose proof (phi_nonneg w s0 Hw) as Hp1.
        apply ainv_amap.
        pose proof (elems_inv (read_val_a pre P f) (Ef f) HE IH (S f) (fst h) (snd h) [] s0
                      (a + header_cost pre (snd h))) as H1.
        pose proof (Emono (Ef f) (Ef (S f)) (phi s0) (phi s) HEE ltac:(lia)) as M1.
        unfold ainv in H1 |- *.
        destruct (elems_loop_a pre (read_val_a pre P f) (S f) (fst h) (snd h) [] s0
                    (a + header_cost pre (snd h))) as [o1 a1].
        cbn [fst snd] in *. unfold header_cost, prepaid in *.
        destruct pre; [specialize (Hn eq_refl)|]; (destruct o1 as [[l s1]| |]; [destruct H1 as [H1 H1']; split; lia| |]); nia.
      + apply ainv_lift_map; try lia. apply (ok_uuid HP).
  Qed.
End Bound.

(* ================================================================== *)
(* (3) the primitive operations of both readers satisfy [prims_ok] *)

Lemma phi_frame w s s' k : 0 <= w -> rc s' = rc s -> (blen s' + k <= blen s)%nat ->
  phi w s' + w * Z.of_nat k <= phi w s.
Proof. intros Hw Hr Hb. unfold phi, pend. rewrite Hr. nia. Qed.

(* whatever happened to the pending slot *)
Lemma phi_le w s s' k : 0 <= w -> (blen s' + k <= blen s)%nat -> phi w s' + w * Z.of_nat k <= phi w s + 1.
Proof. intros Hw Hb. unfold phi. pose proof (pend_range s). pose proof (pend_range s'). nia. Qed.

Lemma frame_stepd {A} w (o : res (A * rst)) s k : 1 <= w -> (1 <= k)%nat -> frame o s k -> stepd w 1 o s.
Proof.
  intros Hw Hk. destruct o as [[x s']| |]; cbn [frame stepd]; auto. intros [Hr Hb].
  pose proof (phi_frame w s s' k ltac:(lia) Hr Hb). nia.
Qed.

Section PrimsOk.
  Variable w : Z.
  Hypothesis Hw : 2 <= w.

  Lemma r_bool_step p s : stepd w 1 (r_bool p s) s.
  Proof.
    destruct p; cbn [r_bool].
    1,2: apply (frame_stepd w _ s 1); try lia; apply (frame_map _ (fun b => negb (b =? 0))), r_i8_frame.
    destruct (r_pbool (rc s)) eqn:E.
    - cbn [stepd]. unfold phi, pend, blen. cbn [rc rbuf set_rc r_pbool]. rewrite E. lia.
    - set (s1 := set_rc s _).
      assert (H1 : phi w s1 = phi w s) by (unfold phi, pend, blen, s1; cbn [rc rbuf set_rc r_pbool]; rewrite E; reflexivity).
      pose proof (r_byte_frame s1) as G.
      destruct (r_byte s1) as [[b s2]| |]; cbn [bind frame stepd] in *; auto.
      destruct G as [Gr Gb]. pose proof (phi_frame w s1 s2 1 ltac:(lia) Gr Gb).
      destruct (ctype_of_code b) as [[]|]; cbn [stepd]; auto; lia.
  Qed.

  Lemma a_bool_step p s : stepd w 1 (a_bool p s) s.
  Proof.
    destruct p; cbn [a_bool].
    1,2: apply (frame_stepd w _ s 1); try lia; apply (frame_map _ (fun b => negb (b =? 0))), a_i8_frame.
    destruct (r_pbool (rc s)) eqn:E.
    - cbn [stepd]. unfold phi, pend, blen. cbn [rc rbuf set_rc r_pbool]. rewrite E. lia.
    - pose proof (a_byte_frame s) as G.
      destruct (a_byte s) as [[b s2]| |]; cbn [bind frame stepd] in *; auto.
      destruct G as [Gr Gb]. pose proof (phi_frame w s s2 1 ltac:(lia) Gr Gb).
      destruct (ctype_of_code b) as [[]|]; cbn [stepd]; auto; lia.
  Qed.

  Lemma r_struct_begin_step p s : stepd w 0 (r_struct_begin p s) s.
  Proof. destruct p; cbn [r_struct_begin stepd]; unfold phi, pend, blen; cbn [rc rbuf set_rc r_pbool]; lia. Qed.
  Lemma r_struct_end_step p s : stepd w 0 (r_struct_end p s) s.
  Proof.
    destruct p; cbn [r_struct_end stepd]; try (unfold phi, pend, blen; cbn [rc rbuf set_rc r_pbool]; lia).
    destruct (r_stack (rc s)); cbn [stepd]; auto. unfold phi, pend, blen; cbn [rc rbuf set_rc r_pbool]; lia.
  Qed.

  (* a field header: the stop byte costs a whole byte; any other header costs a byte and may leave a bool pending *)
  Definition fb_ok (o : res ((ttype * option Z) * rst)) (s : rst) : Prop :=
    match o with
    | Ok (h, s') => phi w s' + (if ttype_eqb (fst h) TStop then 2 else 1) <= phi w s
    | _ => True
    end.

  (* the tail shared by the in-memory and the asynchronous compact field header *)
  Lemma compact_field_tail (i16 : rm Z) b s0 s1 :
    (forall s, frame (i16 s) s 1) ->
    rc s1 = rc s0 -> (blen s1 + 1 <= blen s0)%nat ->
    fb_ok
      (let c := rc s1 in
       let* (ty, s) :=
         (if b mod 16 =? ctype_code CBooleanTrue then Ok (TBool, set_rc s1 (mkR (r_last c) (r_stack c) (Some true) (r_pfield c)))
          else if b mod 16 =? ctype_code CBooleanFalse then Ok (TBool, set_rc s1 (mkR (r_last c) (r_stack c) (Some false) (r_pfield c)))
          else match ctype_of_code (b mod 16) with
               | None => Err EInvalidData
               | Some ct => match ttype_of_ctype ct with
                            | Some t => Ok (t, s1)
                            | None => Err EInvalidData
                            end
               end) in
       match ty with
       | TStop => Ok ((TStop, None), s)
       | _ =>
           let c := rc s in
           if negb (b / 16 =? 0) then
             let id := wrap_s 16 (r_last c + b / 16) in
             Ok ((ty, Some id), set_rc s (mkR id (r_stack c) (r_pbool c) (r_pfield c)))
           else
             let* (id, s) := i16 s in
             let c := rc s in
             Ok ((ty, Some id), set_rc s (mkR id (r_stack c) (r_pbool c) (r_pfield c)))
       end) s0.
  Proof.
    intros Hi R1 B1. cbv zeta.
    set (X := if b mod 16 =? ctype_code CBooleanTrue then _ else _).
    assert (GX : match X with
                 | Ok (ty, s2) => blen s2 = blen s1 /\ (ty = TBool \/ rc s2 = rc s1)
                 | _ => True
                 end).
    { subst X. destruct (b mod 16 =? ctype_code CBooleanTrue); [split; [reflexivity|left; reflexivity]|].
      destruct (b mod 16 =? ctype_code CBooleanFalse); [split; [reflexivity|left; reflexivity]|].
      destruct (ctype_of_code (b mod 16)) as [ct|]; [|exact I].
      destruct (ttype_of_ctype ct); [split; [reflexivity|right; reflexivity]|exact I]. }
    destruct X as [[ty s2]| |]; cbn [bind fb_ok]; auto.
    destruct GX as [B2 R2].
    assert (Hgen : forall s3 id, (blen s3 <= blen s2)%nat -> (ty = TBool \/ r_pbool (rc s3) = r_pbool (rc s0)) ->
              fb_ok (Ok ((ty, Some id), set_rc s3 (mkR id (r_stack (rc s3)) (r_pbool (rc s3)) (r_pfield (rc s3))))) s0 \/ ty = TStop).
    { intros s3 id B3 [->|R3]; left; cbn [fb_ok fst ttype_eqb].
      - pose proof (phi_le w s0 (set_rc s3 (mkR id (r_stack (rc s3)) (r_pbool (rc s3)) (r_pfield (rc s3)))) 1 ltac:(lia)
                      ltac:(unfold blen in *; cbn [rbuf set_rc]; lia)). lia.
      - assert (phi w (set_rc s3 (mkR id (r_stack (rc s3)) (r_pbool (rc s3)) (r_pfield (rc s3)))) + w * 1 <= phi w s0).
        { unfold phi, pend, blen in *. cbn [rc rbuf set_rc r_pbool]. rewrite R3. nia. }
        destruct (ttype_eqb ty TStop); lia. }
    assert (R2' : ty = TBool \/ r_pbool (rc s2) = r_pbool (rc s0)) by (destruct R2 as [?|R2]; [left; auto|right; congruence]).
    assert (Hstop : ty = TStop -> fb_ok (Ok ((TStop, @None Z), s2)) s0).
    { intros ->. destruct R2 as [R2|R2]; [discriminate|]. cbn [fb_ok fst ttype_eqb].
      pose proof (phi_frame w s0 s2 1 ltac:(lia) ltac:(congruence) ltac:(lia)). lia. }
    assert (Hrest : ty <> TStop ->
      fb_ok (if negb (b / 16 =? 0)
             then Ok ((ty, Some (wrap_s 16 (r_last (rc s2) + b / 16))),
                      set_rc s2 (mkR (wrap_s 16 (r_last (rc s2) + b / 16)) (r_stack (rc s2)) (r_pbool (rc s2)) (r_pfield (rc s2))))
             else let* (id, s) := i16 s2 in
                  Ok ((ty, Some id), set_rc s (mkR id (r_stack (rc s)) (r_pbool (rc s)) (r_pfield (rc s))))) s0).
    { intros Hns. destruct (negb (b / 16 =? 0)).
      - destruct (Hgen s2 (wrap_s 16 (r_last (rc s2) + b / 16)) ltac:(lia) R2'); [assumption|contradiction].
      - pose proof (Hi s2) as G3. destruct (i16 s2) as [[id s3]| |]; cbn [bind frame fb_ok] in *; auto.
        destruct G3 as [R3 B3].
        destruct (Hgen s3 id ltac:(lia) ltac:(destruct R2' as [?|R2']; [left; auto|right; congruence])); [assumption|contradiction]. }
    destruct ty; try (apply Hrest; discriminate). apply Hstop. reflexivity.
  Qed.

  Lemma r_field_begin_step p s : fb_ok (r_field_begin p s) s.
  Proof.
    destruct p; cbn [r_field_begin].
    1,2: pose proof (r_ttype_frame s) as G1; destruct (r_ttype s) as [[ty s1]| |]; cbn [bind frame fb_ok] in *; auto;
         destruct G1 as [R1 B1]; pose proof (phi_frame w s s1 1 ltac:(lia) R1 B1) as F1;
         assert (Hrest : forall pp, fb_ok (let* (id, s0) := r_i16 pp s1 in Ok ((ty, Some id), s0)) s)
           by (intros pp; pose proof (r_i16_frame pp s1) as G2; destruct (r_i16 pp s1) as [[id s2]| |]; cbn [bind frame fb_ok] in *; auto;
               destruct G2 as [R2 B2]; pose proof (phi_frame w s1 s2 1 ltac:(lia) R2 B2); destruct (ttype_eqb (fst (ty, Some id)) TStop); lia);
         destruct ty; try apply Hrest; cbn [fb_ok fst ttype_eqb]; lia.
    set (s0 := clear_pfield s).
    assert (H0 : phi w s0 = phi w s) by reflexivity.
    pose proof (r_byte_frame s0) as G1. destruct (r_byte s0) as [[b s1]| |]; cbn [bind frame] in *; auto.
    destruct G1 as [R1 B1].
    pose proof (compact_field_tail (r_i16 PCompact) b s0 s1 (r_i16_frame PCompact) R1 B1) as T.
    cbv zeta in T. unfold fb_ok in *. rewrite <- H0. exact T.
  Qed.

  Lemma a_field_begin_step p s : fb_ok (a_field_begin p s) s.
  Proof.
    destruct p; cbn [a_field_begin].
    1,2: pose proof (a_ttype_frame s) as G1; destruct (a_ttype s) as [[ty s1]| |]; cbn [bind frame fb_ok] in *; auto;
         destruct G1 as [R1 B1]; pose proof (phi_frame w s s1 1 ltac:(lia) R1 B1) as F1;
         assert (Hrest : forall pp, fb_ok (let* (id, s0) := a_i16 pp s1 in Ok ((ty, Some id), s0)) s)
           by (intros pp; pose proof (a_i16_frame pp s1) as G2; destruct (a_i16 pp s1) as [[id s2]| |]; cbn [bind frame fb_ok] in *; auto;
               destruct G2 as [R2 B2]; pose proof (phi_frame w s1 s2 1 ltac:(lia) R2 B2); destruct (ttype_eqb (fst (ty, Some id)) TStop); lia);
         destruct ty; try apply Hrest; cbn [fb_ok fst ttype_eqb]; lia.
    pose proof (a_byte_frame s) as G1. destruct (a_byte s) as [[b s1]| |]; cbn [bind frame] in *; auto.
    destruct G1 as [R1 B1].
    pose proof (compact_field_tail (a_i16 PCompact) b s s1 (a_i16_frame PCompact) R1 B1) as T.
    cbv zeta in T. exact T.
  Qed.
End PrimsOk.

Lemma prealloc_limit_nonneg : 0 <= prealloc_limit.
Proof. unfold prealloc_limit. lia. Qed.

Lemma phi_ge_blen w s : 1 <= w -> w * Z.of_nat (blen s) <= phi w s.
Proof. intros. unfold phi. pose proof (pend_range s). nia. Qed.

(* in-memory readers: weight 2 per byte, constant 1 (the id-stack slot of a struct whose first header fails) *)
Lemma sync_prims_ok pre p : prims_ok 2 pre 1 (sync_prims p).
Proof.
  constructor; cbn [sync_prims p_bool p_i8 p_i16 p_i32 p_i64 p_double p_uuid p_bytes p_struct_begin p_struct_cost
                    p_struct_end p_field_begin p_coll_begin p_map_begin]; intros.
  - apply r_bool_step. lia.
  - apply (frame_stepd 2 _ s 1); try lia. apply r_i8_frame.
  - apply (frame_stepd 2 _ s 1); try lia. apply r_i16_frame.
  - apply (frame_stepd 2 _ s 1); try lia. apply r_i32_frame.
  - apply (frame_stepd 2 _ s 1); try lia. apply r_i64_frame.
  - apply (frame_stepd 2 _ s 1); try lia. apply r_double_frame.
  - apply (frame_stepd 2 _ s 1); try lia. apply r_uuid_frame.
  - (* bytes *)
    unfold r_bytes_alloc, abind, alift, ainv. cbn [fst snd].
    pose proof (phi_nonneg 2 s ltac:(lia)) as Hp0.
    pose proof (r_len_frame p s) as G1.
    destruct (r_len p s) as [[n s1]| |]; cbn [fst snd frame] in *; [|lia|lia].
    destruct G1 as [R1 B1]. pose proof (phi_frame 2 s s1 1 ltac:(lia) R1 B1) as F1.
    pose proof (phi_ge_blen 2 s1 ltac:(lia)) as F2. unfold blen in F2.
    destruct (Z.leb_spec n (Z.of_nat (length (rbuf s1)))) as [Hn|Hn]; cbn [fst snd]; [|lia].
    pose proof (r_take_frame (Z.to_nat n) s1) as G2.
    destruct (r_take (Z.to_nat n) s1) as [[l s2]| |]; cbn [fst snd frame] in *; [|lia|lia].
    destruct G2 as [R2 B2]. pose proof (phi_frame 2 s1 s2 (Z.to_nat n) ltac:(lia) R2 B2) as F3. lia.
  - apply r_struct_begin_step.
  - apply r_struct_end_step.
  - unfold stack_cost. destruct p; lia.
  - apply (r_field_begin_step 2 ltac:(lia)).
  - pose proof (r_coll_begin_frame p s) as G. pose proof (coll_size_bounded p s) as Hn.
    destruct (r_coll_begin p s) as [[[et n] s']| |]; cbn [frame] in *; auto.
    destruct G as [R B]. pose proof (phi_frame 2 s s' 1 ltac:(lia) R B).
    split; [lia|]. intros _. specialize (Hn et n s' eq_refl). pose proof (phi_ge_blen 2 s' ltac:(lia)). cbn [snd]. lia.
  - pose proof (r_map_begin_frame p s) as G. pose proof (map_size_bounded p s) as Hn.
    destruct (r_map_begin p s) as [[[[kt vt] n] s']| |]; cbn [frame] in *; auto.
    destruct G as [R B]. pose proof (phi_frame 2 s s' 1 ltac:(lia) R B).
    split; [lia|]. intros _. specialize (Hn kt vt n s' eq_refl). pose proof (phi_ge_blen 2 s' ltac:(lia)). cbn [snd]. lia.
Qed.

(* asynchronous readers (a client that does not preallocate from headers): weight 3 per byte, constant
   prealloc_limit + 1 (the buffer requested before a short byte string is received) *)
Lemma async_prims_ok p : prims_ok 3 false (prealloc_limit + 1) (async_prims p).
Proof.
  pose proof prealloc_limit_nonneg as HL.
  constructor; cbn [async_prims p_bool p_i8 p_i16 p_i32 p_i64 p_double p_uuid p_bytes p_struct_begin p_struct_cost
                    p_struct_end p_field_begin p_coll_begin p_map_begin]; intros.
  - apply a_bool_step. lia.
  - apply (frame_stepd 3 _ s 1); try lia. apply a_i8_frame.
  - apply (frame_stepd 3 _ s 1); try lia. apply a_i16_frame.
  - apply (frame_stepd 3 _ s 1); try lia. apply a_i32_frame.
  - apply (frame_stepd 3 _ s 1); try lia. apply a_i64_frame.
  - apply (frame_stepd 3 _ s 1); try lia. apply a_double_frame.
  - apply (frame_stepd 3 _ s 1); try lia. apply a_uuid_frame.
  - (* bytes *)
    pose proof (phi_nonneg 3 s ltac:(lia)) as Hp0.
    assert (Htail : forall n s1, rc s1 = rc s -> (blen s1 + 1 <= blen s)%nat ->
      let a1 := a + rx_alloc n (Z.of_nat (length (rbuf s1))) in
      let x := (if n <=? Z.of_nat (length (rbuf s1)) then (a_take (Z.to_nat n) s1, a1) else (@Err (list byte * rst) ETransport, a1)) in
      match fst x with
      | Ok (_, s') => phi 3 s' + 1 <= phi 3 s /\ snd x - a + 1 <= phi 3 s - phi 3 s'
      | _ => snd x - a <= 1 * phi 3 s + (prealloc_limit + 1)
      end).
    { intros n s1 R1 B1. cbv zeta.
      pose proof (phi_frame 3 s s1 1 ltac:(lia) R1 B1) as F1.
      pose proof (phi_ge_blen 3 s1 ltac:(lia)) as F2. unfold blen in F2.
      unfold rx_alloc.
      destruct (Z.leb_spec n (Z.of_nat (length (rbuf s1)))) as [Hn|Hn]; cbn [fst snd].
      - pose proof (a_take_frame (Z.to_nat n) s1) as G2.
        destruct (a_take (Z.to_nat n) s1) as [[l s2]| |]; cbn [fst snd frame] in *.
        + destruct G2 as [R2 B2]. pose proof (phi_frame 3 s1 s2 (Z.to_nat n) ltac:(lia) R2 B2) as F3.
          destruct (Z.leb_spec n prealloc_limit); lia.
        + destruct (Z.leb_spec n prealloc_limit); lia.
        + destruct (Z.leb_spec n prealloc_limit); lia.
      - destruct (Z.leb_spec n prealloc_limit); lia. }
    unfold ainv. destruct p; cbn [a_bytes_alloc]; unfold abind, alift; cbn [fst snd].
    1,2: match goal with |- context [a_i32 ?pp ?ss] => pose proof (a_i32_frame pp ss) as G1; destruct (a_i32 pp ss) as [[n s1]| |] end;
         cbn [fst snd frame] in *; [|lia|lia]; destruct G1 as [R1 B1];
         destruct (n <? 0); cbn [fst snd]; [lia|]; exact (Htail n s1 R1 B1).
    pose proof (a_varint_frame maxsize_32 s) as G1. destruct (a_varint maxsize_32 s) as [[n s1]| |];
      cbn [fst snd frame] in *; [|lia|lia]. destruct G1 as [R1 B1]. exact (Htail (wrap_u 32 n) s1 R1 B1).
  - apply r_struct_begin_step.
  - apply r_struct_end_step.
  - unfold stack_cost. destruct p; lia.
  - apply (a_field_begin_step 3 ltac:(lia)).
  - pose proof (a_coll_begin_frame p s) as G.
    destruct (a_coll_begin p s) as [[h s']| |]; cbn [frame] in *; auto.
    destruct G as [R B]. pose proof (phi_frame 3 s s' 1 ltac:(lia) R B). split; [lia|discriminate].
  - pose proof (a_map_begin_frame p s) as G.
    destruct (a_map_begin p s) as [[h s']| |]; cbn [frame] in *; auto.
    destruct G as [R B]. pose proof (phi_frame 3 s s' 1 ltac:(lia) R B). split; [lia|discriminate].
Qed.

(* ================================================================== *)
(* (4) the statements of C09 about memory, primitive level *)

Lemma phi_init w l rcx : 0 <= w -> phi w (mkS l rcx) <= w * Z.of_nat (length l) + 1.
Proof. intros. unfold phi, blen. cbn [rbuf]. pose proof (pend_range (mkS l rcx)). lia. Qed.

(* in-memory readers, the interpreter that exists (containers grown by push): for EVERY byte string, requested
   type, protocol, initial context and fuel, whatever the outcome (value, error), the counter is at most
   2 * (length + 1) *)
Theorem alloc_sync p f ty (l : list byte) rcx :
  alloc_of (read_val_alloc false p f ty (mkS l rcx) 0) <= 2 * (Z.of_nat (length l) + 1).
Proof.
  pose proof (read_val_a_inv 2 ltac:(lia) false 1 (sync_prims p) (sync_prims_ok false p) f ty (mkS l rcx) 0) as H.
  unfold alloc_of, read_val_alloc, ainv in *. pose proof (phi_init 2 l rcx ltac:(lia)) as Hi.
  pose proof (phi_nonneg 2 (mkS l rcx) ltac:(lia)).
  destruct (read_val_a false (sync_prims p) f ty (mkS l rcx) 0) as [o a]. cbn [fst snd] in *.
  unfold Ef in H. destruct o as [[v s']| |]; [destruct H; pose proof (phi_nonneg 2 s' ltac:(lia))|..]; lia.
Qed.

(* ... and when the client preallocates from the container headers (Vec::with_capacity(size), what the emitted
   sync decoders do): a SUCCESSFUL read still requested at most 2 * (length + 1) -- every announced element was
   read and cost a byte -- *)
Theorem alloc_sync_prealloc_ok p f ty (l : list byte) rcx v s' :
  fst (read_val_alloc true p f ty (mkS l rcx) 0) = Ok (v, s') ->
  alloc_of (read_val_alloc true p f ty (mkS l rcx) 0) <= 2 * (Z.of_nat (length l) + 1).
Proof.
  pose proof (read_val_a_inv 2 ltac:(lia) true 1 (sync_prims p) (sync_prims_ok true p) f ty (mkS l rcx) 0) as H.
  unfold alloc_of, read_val_alloc, ainv in *. pose proof (phi_init 2 l rcx ltac:(lia)) as Hi.
  destruct (read_val_a true (sync_prims p) f ty (mkS l rcx) 0) as [o a]. cbn [fst snd] in *.
  intros ->. destruct H. pose proof (phi_nonneg 2 s' ltac:(lia)). lia.
Qed.

(* ... but a FAILING read may have requested one announced size per nesting level before it fails: the bound is
   the depth budget times the input length (checked_container_size bounds each size by the bytes that remain, not
   the sum over the nesting levels) *)
Theorem alloc_sync_prealloc p f ty (l : list byte) rcx :
  alloc_of (read_val_alloc true p f ty (mkS l rcx) 0) <= (1 + Z.of_nat f) * (2 * Z.of_nat (length l) + 1) + 1.
Proof.
  pose proof (read_val_a_inv 2 ltac:(lia) true 1 (sync_prims p) (sync_prims_ok true p) f ty (mkS l rcx) 0) as H.
  unfold alloc_of, read_val_alloc, ainv in *. pose proof (phi_init 2 l rcx ltac:(lia)) as Hi.
  pose proof (phi_nonneg 2 (mkS l rcx) ltac:(lia)) as Hp.
  destruct (read_val_a true (sync_prims p) f ty (mkS l rcx) 0) as [o a]. cbn [fst snd] in *.
  unfold Ef in H.
  pose proof (Emono (1 + Z.of_nat f) (1 + Z.of_nat f) (phi 2 (mkS l rcx)) (2 * Z.of_nat (length l) + 1) ltac:(lia) ltac:(lia)).
  pose proof (Emix (1 + Z.of_nat f) 0 (2 * Z.of_nat (length l) + 1) ltac:(lia) ltac:(lia)).
  destruct o as [[v s']| |]; [destruct H; pose proof (phi_nonneg 2 s' ltac:(lia))|..]; lia.
Qed.

(* asynchronous readers, the interpreter that exists: for every byte string the stream will deliver, requested
   type, protocol, initial context and fuel, whatever the outcome: at most 3 * (length + 1) + PREALLOC_LIMIT *)
Theorem alloc_async p f ty (l : list byte) rcx :
  alloc_of (aread_val_alloc false p f ty (mkS l rcx) 0) <= 3 * (Z.of_nat (length l) + 1) + prealloc_limit.
Proof.
  pose proof (read_val_a_inv 3 ltac:(lia) false (prealloc_limit + 1) (async_prims p) (async_prims_ok p) f ty (mkS l rcx) 0) as H.
  unfold alloc_of, aread_val_alloc, ainv in *. pose proof (phi_init 3 l rcx ltac:(lia)) as Hi.
  pose proof (phi_nonneg 3 (mkS l rcx) ltac:(lia)). pose proof prealloc_limit_nonneg.
  destruct (read_val_a false (async_prims p) f ty (mkS l rcx) 0) as [o a]. cbn [fst snd] in *.
  unfold Ef in H. destruct o as [[v s']| |]; [destruct H; pose proof (phi_nonneg 3 s' ltac:(lia))|..]; lia.
Qed.

(* the form alloc <= c * (length + 1), one explicit constant for both readers *)
Corollary alloc_linear p f ty (l : list byte) rcx :
  alloc_of (read_val_alloc false p f ty (mkS l rcx) 0) <= (3 + prealloc_limit) * (Z.of_nat (length l) + 1) /\
  alloc_of (aread_val_alloc false p f ty (mkS l rcx) 0) <= (3 + prealloc_limit) * (Z.of_nat (length l) + 1).
Proof.
  pose proof (alloc_sync p f ty l rcx). pose proof (alloc_async p f ty l rcx). pose proof prealloc_limit_nonneg.
  split; nia.
Qed.

(* ================================================================== *)
(* (5) non-vacuity and sharpness *)

(* the counter does count: a 3-byte binary costs 3; a compact struct {1: list<i8> [7, 8]} costs the id-stack
   slot, two pushed elements and one pushed field; the asynchronous reader requests the declared 4096 bytes of a
   binary BEFORE anything arrives (a 4-byte stream): the additive constant of [alloc_async] is necessary *)
Example alloc_examples :
  read_val_alloc false PBinary 8 TBinary (mkS [x00; x00; x00; x03; x61; x62; x63] r0) 0
    = (Ok (VBinary [x61; x62; x63], mkS [] r0), 3) /\
  alloc_of (read_val_alloc false PCompact 9 TStruct (mkS [x19; x23; x07; x08; x00] r0) 0) = 4 /\
  fst (read_val_alloc false PCompact 9 TStruct (mkS [x19; x23; x07; x08; x00] r0) 0)
    = Ok (VStruct [(1, VList TI8 [VI8 7; VI8 8])], mkS [] r0) /\
  aread_val_alloc false PBinary 5 TBinary (mkS [x00; x00; x10; x00] r0) 0 = (Err ETransport, 4096) /\
  aread_val_alloc false PBinary 5 TBinary (mkS [x00; x00; x10; x01; x41] r0) 0 = (Err ETransport, 4096 + 2 * 1).
Proof. vm_compute. repeat split; reflexivity. Qed.

(* a client that preallocates from the headers of the ASYNCHRONOUS reader is not bounded at all: 5 bytes announce
   2^31 - 2^24 elements (the async readers cannot validate a size: finding F-09e at the generated level) *)
Example alloc_async_prealloc_unbounded :
  aread_val_alloc true PBinary 6 TList (mkS [x08; x7f; x00; x00; x00] r0) 0 = (Err ETransport, 2130706432).
Proof. vm_compute. reflexivity. Qed.

(* sharpness of [alloc_sync_prealloc]: nested lists, each announcing as many elements as bytes remain.
   checked_container_size accepts every header (size <= remaining); a client that preallocates at every level has
   requested 5 * k * (k - 1) / 2 element slots for 5 * k bytes when the read fails at the innermost level *)
Fixpoint nest (k : nat) : list byte :=
  match k with
  | O => []
  | S k' => x0f :: be_bytes 4 (Z.of_nat (5 * k')) ++ nest k'
  end.

Example alloc_sync_prealloc_superlinear :
  length (nest 200) = 1000%nat /\
  read_val_alloc true PBinary 1001 TList (mkS (nest 200) r0) 0 = (Err EInvalidData, 99500) /\
  64 * (Z.of_nat (length (nest 200)) + 1) < 99500 /\
  alloc_of (read_val_alloc false PBinary 1001 TList (mkS (nest 200) r0) 0) = 1.
Proof. vm_compute. repeat split; reflexivity. Qed.
