(* decode_async over a DELIVERY SCHEDULE: GenAsync.gen_decode_async, clause for clause, with every read going through the
   event-level primitives of PV.Thrift.AsyncEv (poll_read over chunks / empty chunks / Pending tokens / EOF; read_exact keeps
   its progress across Pending, read_varint_async goes byte by byte, read_exact_to_vec has its two paths with any poll size
   [step]).  The remaining primitives of PV.Thrift.Async (ttype, bool, struct begin / end, field / list / map headers), the
   asynchronous skipper of PV.Thrift.Skip and the loops of GenAsync.v are transcribed here over the event state
   [est] = (events left, reader context).  Model only; Proofs/AsyncEvGenP.v proves it equal to gen_decode_async on the
   delivered bytes. *)
From PV Require Export Thrift.AsyncEv Thrift.Skip.
From PVGen Require Export GenAsync.
Open Scope Z_scope.

Definition e_set_rc (s : est) (c : rctx) : est := mkE (ebuf s) c.

Definition e_ttype : em ttype := fun s =>
  let* (b, s) := e_byte s in
  match ttype_of_byte b with
  | Some t => Ok (t, s)
  | None => Err EInvalidData
  end.

Definition e_bool (p : pk) : em bool :=
  match p with
  | PCompact => fun s =>
      let c := erc s in
      match r_pbool c with
      | Some b => Ok (b, e_set_rc s (mkR (r_last c) (r_stack c) None (r_pfield c)))
      | None =>
          let* (b, s) := e_byte s in
          match ctype_of_code b with
          | Some CBooleanTrue => Ok (true, s)
          | Some CBooleanFalse => Ok (false, s)
          | Some CStop => Ok (false, s)
          | _ => Err EInvalidData
          end
      end
  | _ => fun s => let* (b, s) := e_i8 s in Ok (negb (b =? 0), s)
  end.

Definition e_struct_begin (p : pk) : em unit := fun s =>
  match p with
  | PCompact =>
      let c := erc s in
      Ok (tt, e_set_rc s (mkR 0 (r_last c :: r_stack c) (r_pbool c) (r_pfield c)))
  | _ => Ok (tt, s)
  end.
Definition e_struct_end (p : pk) : em unit := fun s =>
  match p with
  | PCompact =>
      let c := erc s in
      match r_stack c with
      | [] => Err EInvalidData
      | x :: t => Ok (tt, e_set_rc s (mkR x t (r_pbool c) (r_pfield c)))
      end
  | _ => Ok (tt, s)
  end.

Definition e_field_begin (p : pk) : em (ttype * option Z) :=
  match p with
  | PCompact => fun s =>
      let* (b, s) := e_byte s in
      let delta := b / 16 in
      let lo := b mod 16 in
      let c := erc s in
      let* (ty, s) :=
        (if lo =? ctype_code CBooleanTrue then Ok (TBool, e_set_rc s (mkR (r_last c) (r_stack c) (Some true) (r_pfield c)))
         else if lo =? ctype_code CBooleanFalse then Ok (TBool, e_set_rc s (mkR (r_last c) (r_stack c) (Some false) (r_pfield c)))
         else match ctype_of_code lo with
              | None => Err EInvalidData
              | Some ct => match ttype_of_ctype ct with
                           | Some t => Ok (t, s)
                           | None => Err EInvalidData
                           end
              end) in
      match ty with
      | TStop => Ok ((TStop, None), s)
      | _ =>
          let c := erc s in
          if negb (delta =? 0) then
            let id := wrap_s 16 (r_last c + delta) in
            Ok ((ty, Some id), e_set_rc s (mkR id (r_stack c) (r_pbool c) (r_pfield c)))
          else
            let* (id, s) := e_i16 PCompact s in
            let c := erc s in
            Ok ((ty, Some id), e_set_rc s (mkR id (r_stack c) (r_pbool c) (r_pfield c)))
      end
  | _ => fun s =>
      let* (ty, s) := e_ttype s in
      match ty with
      | TStop => Ok ((TStop, Some 0), s)
      | _ => let* (id, s) := e_i16 p s in Ok ((ty, Some id), s)
      end
  end.

Definition e_coll_begin (p : pk) : em (ttype * Z) :=
  match p with
  | PCompact => fun s =>
      let* (h, s) := e_byte s in
      let* et := ttype_of_nibble (h mod 16) in
      let cnt := h / 16 in
      if negb (cnt =? 15) then Ok ((et, cnt), s)
      else let* (n, s) := e_varint maxsize_32 s in
           Ok ((et, wrap_u 64 (wrap_s 32 n)), s)
  | _ => fun s =>
      let* (et, s) := e_ttype s in
      let* (n, s) := e_i32 p s in
      Ok ((et, wrap_u 64 n), s)
  end.

Definition e_map_begin (p : pk) : em (ttype * ttype * Z) :=
  match p with
  | PCompact => fun s =>
      let* (n, s) := e_varint maxsize_32 s in
      let cnt := wrap_s 32 n in
      if cnt =? 0 then Ok ((TStop, TStop, 0), s)
      else
        let* (h, s) := e_byte s in
        let* kt := ttype_of_nibble (h / 16) in
        let* vt := ttype_of_nibble (h mod 16) in
        Ok ((kt, vt, wrap_u 64 cnt), s)
  | _ => fun s =>
      let* (kt, s) := e_ttype s in
      let* (vt, s) := e_ttype s in
      let* (n, s) := e_i32 p s in
      Ok ((kt, vt, wrap_u 64 n), s)
  end.

(* ---------- TAsyncInputProtocol::skip ---------- *)
Section ESkip.
  Variable step : nat -> nat.
  Variable p : pk.

  Section ELoops.
    Variable rec : ttype -> est -> res (unit * est).
    Fixpoint e_askip_fields (n : nat) (s : est) {struct n} : res (unit * est) :=
      match n with
      | O => Err EOutOfFuel
      | S n' =>
          let* (h, s1) := e_field_begin p s in
          if ttype_eqb (fst h) TStop then Ok (tt, s1)
          else let* (_, s2) := rec (fst h) s1 in e_askip_fields n' s2
      end.
    Fixpoint e_askip_elems (m : nat) (et : ttype) (n : Z) (s : est) {struct m} : res (unit * est) :=
      if n <=? 0 then Ok (tt, s) else
      match m with
      | O => Err EOutOfFuel
      | S m' => let* (_, s1) := rec et s in e_askip_elems m' et (n - 1) s1
      end.
    Fixpoint e_askip_pairs (m : nat) (kt vt : ttype) (n : Z) (s : est) {struct m} : res (unit * est) :=
      if n <=? 0 then Ok (tt, s) else
      match m with
      | O => Err EOutOfFuel
      | S m' =>
          let* (_, s1) := rec kt s in
          let* (_, s2) := rec vt s1 in
          e_askip_pairs m' kt vt (n - 1) s2
      end.
  End ELoops.

  Definition e_drop {A} (m : em A) : em unit := fun s => let* (_, s') := m s in Ok (tt, s').

  Fixpoint e_askip_val (f : nat) (d : nat) (ty : ttype) (s : est) {struct f} : res (unit * est) :=
    match f with
    | O => Err EOutOfFuel
    | S f' =>
        match d with
        | O => Err EDepthLimit
        | S d' =>
            match ty with
            | TBool => e_drop (e_bool p) s
            | TI8 => e_drop e_i8 s
            | TI16 => e_drop (e_i16 p) s
            | TI32 => e_drop (e_i32 p) s
            | TI64 => e_drop (e_i64 p) s
            | TDouble => e_drop (e_double p) s
            | TBinary => e_drop (e_bytes step p) s
            | TUuid => e_drop e_uuid s
            | TStruct =>
                let* (_, s1) := e_struct_begin p s in
                let* (_, s2) := e_askip_fields (e_askip_val f' d') (S f') s1 in
                e_struct_end p s2
            | TList | TSet =>
                let* (h, s1) := e_coll_begin p s in
                e_askip_elems (e_askip_val f' d') (S f') (fst h) (snd h) s1
            | TMap =>
                let* (h, s1) := e_map_begin p s in
                e_askip_pairs (e_askip_val f' d') (S f') (fst (fst h)) (snd (fst h)) (snd h) s1
            | TStop | TVoid => Err EDepthLimit
            end
        end
    end.
  Definition e_askip (f : nat) (ty : ttype) (s : est) : res (unit * est) := e_askip_val f skip_depth ty s.
End ESkip.

(* ---------- the emitted decode_async ---------- *)
Section EDecLoops.
  Variable S : schema.
  Variable step : nat -> nat.
  Variable p : pk.
  Variable fuel_skip : nat.
  Variable rec : ty -> est -> res (gval * est).

  Fixpoint e_dec_elems (m : nat) (et : ty) (n : Z) (s : est) (acc : list gval) {struct m} : res (list gval * est) :=
    if n <=? 0 then Ok (rev acc, s) else
    match m with
    | O => Err EOutOfFuel
    | Datatypes.S m' => let* (x, s) := rec et s in e_dec_elems m' et (n - 1) s (x :: acc)
    end.

  Fixpoint e_dec_pairs (m : nat) (kt vt : ty) (n : Z) (s : est) (acc : list (gval * gval)) {struct m}
    : res (list (gval * gval) * est) :=
    if n <=? 0 then Ok (rev acc, s) else
    match m with
    | O => Err EOutOfFuel
    | Datatypes.S m' =>
        let* (a, s) := rec kt s in
        let* (b, s) := rec vt s in
        e_dec_pairs m' kt vt (n - 1) s ((a, b) :: acc)
    end.

  Fixpoint e_adec_fields (m : nat) (fs : list field) (vars : list (option gval)) (s : est) {struct m}
    : res (list (option gval) * est) :=
    match m with
    | O => Err EOutOfFuel
    | Datatypes.S m' =>
        let* (h, s) := e_field_begin p s in
        if ttype_eqb (fst h) TStop then Ok (vars, s)
        else
          let* (vars, s) :=
            match match_field S fs O (snd h) (fst h) with
            | Some (i, f) => let* (x, s) := rec (f_ty f) s in Ok (set_nth i (Some x) vars, s)
            | None => let* (_, s) := e_askip step p fuel_skip (fst h) s in Ok (vars, s)
            end in
          e_adec_fields m' fs vars s
    end.

  Fixpoint e_adec_variants (m : nat) (vs : list (Z * ty)) (ret : option (Z * gval)) (s : est) {struct m}
    : res (option (Z * gval) * est) :=
    match m with
    | O => Err EOutOfFuel
    | Datatypes.S m' =>
        let* (h, s) := e_field_begin p s in
        if ttype_eqb (fst h) TStop then Ok (ret, s)
        else
          let known := match snd h with
                       | Some id => match find_variant vs id with
                                    | Some vt => if is_void (resolve S vt) then None else Some (id, vt)
                                    | None => None
                                    end
                       | None => None
                       end in
          match known with
          | Some (id, vt) =>
              match ret with
              | None => let* (x, s) := rec vt s in e_adec_variants m' vs (Some (id, x)) s
              | Some _ => Err EInvalidData
              end
          | None =>
              let* (_, s) := e_askip step p fuel_skip (fst h) s in
              e_adec_variants m' vs ret s
          end
    end.
End EDecLoops.

Fixpoint gen_decode_async_ev (S : schema) (step : nat -> nat) (p : pk) (fuel : nat) (t : ty) (s : est) {struct fuel}
  : res (gval * est) :=
  match fuel with
  | O => Err EOutOfFuel
  | Datatypes.S f =>
      match resolve S t with
      | TyBool => let* (b, s) := e_bool p s in Ok (GBool b, s)
      | TyI8 => let* (z, s) := e_i8 s in Ok (GI8 z, s)
      | TyI16 => let* (z, s) := e_i16 p s in Ok (GI16 z, s)
      | TyI32 => let* (z, s) := e_i32 p s in Ok (GI32 z, s)
      | TyI64 => let* (z, s) := e_i64 p s in Ok (GI64 z, s)
      | TyDouble => let* (z, s) := e_double p s in Ok (GDouble z, s)
      | TyString | TyBinary => let* (l, s) := e_bytes step p s in Ok (GBytes l, s)
      | TyUuid => let* (l, s) := e_uuid s in Ok (GUuid l, s)
      | TyVoid =>
          let* (_, s) := e_struct_begin p s in
          let* (_, s) := e_struct_end p s in Ok (GVoid, s)
      | TyList et =>
          let* (h, s) := e_coll_begin p s in
          let* (l, s) := e_dec_elems (gen_decode_async_ev S step p f) (Datatypes.S f) et (snd h) s [] in
          Ok (GList l, s)
      | TySet et =>
          let* (h, s) := e_coll_begin p s in
          let* (l, s) := e_dec_elems (gen_decode_async_ev S step p f) (Datatypes.S f) et (snd h) s [] in
          Ok (GSet l, s)
      | TyMap kt vt =>
          let* (h, s) := e_map_begin p s in
          let* (l, s) := e_dec_pairs (gen_decode_async_ev S step p f) (Datatypes.S f) kt vt (snd h) s [] in
          Ok (GMap l, s)
      | TyRef n =>
          match lookup S n with
          | Some (DEnum _) => let* (z, s) := e_i32 p s in Ok (GEnum z, s)
          | Some (DStruct fs _ _) =>
              let* (_, s) := e_struct_begin p s in
              let* (vars, s) := e_adec_fields S step p f (gen_decode_async_ev S step p f) (Datatypes.S f) fs (map init_var fs) s in
              let* (_, s) := e_struct_end p s in
              let* out := finish_fields fs vars in
              Ok (GStruct out [], s)
          | Some (DUnion vs void_ok _) =>
              let* (_, s) := e_struct_begin p s in
              let* (ret, s) := e_adec_variants S step p f (gen_decode_async_ev S step p f) (Datatypes.S f) vs None s in
              let* (_, s) := e_struct_end p s in
              match ret with
              | Some (id, x) => Ok (GUnion id x, s)
              | None =>
                  if void_ok then
                    match vs with
                    | (id0, _) :: _ => Ok (GUnion id0 GVoid, s)
                    | [] => Err EInvalidData
                    end
                  else Err EInvalidData
              end
          | Some (DTypedef _) => Err EOther
          | None => Err EOther
          end
      end
  end.
