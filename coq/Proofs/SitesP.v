(* C09, tie to the code: the regenerated inventory of reader sites (Generated/ReaderSites.v) is exactly the
   list Thrift/Sites.v accounts for, and every account is admissible for its kind of site.  Both by
   computation over the regenerated table (a finite fact). *)
From Coq Require Import String List Bool.
From PV Require Import Thrift.Skip Thrift.Msg Thrift.Alloc Generated.ReaderSites Thrift.Sites.
Import ListNotations.

(* the regenerated inventory is exactly the list of sites accounted for (same sites, same order, same text) *)
Lemma sites_accounted : map fst accounted = reader_sites.
Proof. vm_compute. reflexivity. Qed.

(* every account is of a class admissible for the kind of site: a panic-capable site is guarded by a test the
   named model function transcribes, is an outcome of the model, or is outside the readers (length pass, helper
   nobody calls, caller-supplied arguments); an allocation site is charged by Thrift/Alloc.v or constant; names
   are names of model functions; every account carries its reason *)
Lemma sites_justified : forallb justified accounted = true.
Proof. vm_compute. reflexivity. Qed.

(* the names used by the accounts are the names of these definitions (renaming one breaks this file) *)
Definition model_fns_exist :=
  (r_take, r_byte, r_i8, r_len, r_split, rd_var, maxsize_32, check_size, ttype_of_byte,
   r_field_begin, r_coll_begin, r_map_begin, r_message_begin,
   a_bytes, a_field_begin, a_coll_begin, a_map_begin,
   adv, @via, hdr_count, skip_val, skip_fields, skip_elems, askip_val, askip_fields, askip_elems,
   r_bytes_alloc, a_bytes_alloc, rx_alloc, read_val_a).
Lemma model_fns_count : length model_fns = 30%nat.
Proof. reflexivity. Qed.

(* non-vacuity: the inventory is not empty, it contains the sites every version of the readers has, and the
   guarded ones are there *)
Example inventory_nonempty :
  (200 <=? length reader_sites)%nat = true /\
  existsb (fun s => String.eqb (rs_kind s) "split_to") reader_sites = true /\
  existsb (fun s => String.eqb (rs_kind s) "vec_n") reader_sites = true /\
  (20 <=? length reachable_panic_sites)%nat = true.
Proof. vm_compute. repeat split; reflexivity. Qed.

(* no account is a bare Benign for a site that can panic or allocate -- restated directly *)
Lemma no_benign_panic_site :
  forallb (fun sa => negb (mem (rs_kind (fst sa)) (panic_kinds ++ alloc_kinds)) ||
                     match snd sa with Benign _ => false | _ => true end) accounted = true.
Proof. vm_compute. reflexivity. Qed.
