(* Schema-directed model of the code pilota-build emits for protobuf messages
   (pilota-build/src/codegen/protobuf/mod.rs: codegen_encoded_len / codegen_encode / codegen_merge_field,
   codegen_struct_impl, codegen_enum_impl for oneofs) on top of the codec models, and of
   Message::{merge, decode, encode_to_vec, encoded_len} (pilota/src/prost/message.rs).

   A schema is a list of message descriptors; a descriptor is the list of the struct's fields in
   struct order.  The codec module of a declared scalar type is looked up in the REGENERATED tables
   (parser/protobuf lower_ty -> resolve.rs lower_type -> ProtobufBackend::ty_module arms), so a wrong
   arm changes this model (and breaks C06_module_table).
   Model only -- lemmas live in Proofs/. *)
From PVPb Require Export Codec.
Open Scope Z_scope.

(* ---------------------------------------------------------------- schemas *)
Inductive ty := TScalar (t : proto_type) | TMsg (i : nat).

Inductive field :=
| FSingular (tag : Z) (t : ty)                 (* FieldKind::Required, bare T: always encoded *)
| FOptional (tag : Z) (t : ty)                 (* FieldKind::Optional, Option<T> *)
| FRepeated (tag : Z) (t : ty)                 (* Vec<T>: encoded unpacked, decoded packed or unpacked *)
| FMap (tag : Z) (k : proto_type) (v : ty)     (* AHashMap<K, V> through encoding::hash_map *)
| FOneof (members : list (Z * ty)).            (* Option<enum>, one variant per member *)

Definition msgdesc := list field.
Definition schema := list msgdesc.

(* ---------------------------------------------------------------- codec selection (regenerated tables) *)
Definition guard_matches (g : arm_guard) (tg : option prost_tag) (plain_enum : bool) : bool :=
  match g with
  | GNone => true
  | GProst p => match tg with Some q => prost_tag_eqb p q | None => false end
  | GPlainEnum => plain_enum
  end.

(* first matching arm of an ordered `match` *)
Fixpoint first_arm {A} (arms : list (ty_kind * arm_guard * A)) (k : ty_kind) (tg : option prost_tag) (pe : bool) : option A :=
  match arms with
  | [] => None
  | (k', g, a) :: more => if ty_kind_eqb k' k && guard_matches g tg pe then Some a else first_arm more k tg pe
  end.

(* declared field type -> (middle kind, ProstType tag, is a plain enum) *)
Definition lowered (t : proto_type) : option (ty_kind * option prost_tag * bool) :=
  match t with
  | TYPE_ENUM => Some (KPath, None, true)        (* type_name path to an enum item *)
  | TYPE_MESSAGE => Some (KPath, None, false)    (* type_name path to a message item *)
  | _ => match lower_ty t with
         | Some (ir, tg) => Some (resolve_kind ir, tg, false)
         | None => None
         end
  end.

Definition module_of_decl (t : proto_type) : option codec_module :=
  match lowered t with
  | Some (k, tg, pe) => first_arm ty_module_arms k tg pe
  | None => None
  end.

Definition category_of_decl (t : proto_type) : option category :=
  match lowered t with
  | Some (k, tg, pe) => Some (match first_arm ty_category_arms k tg pe with Some c => c | None => ty_category_default end)
  | None => None
  end.

(* the scalar codec of a declared type: only modules of category Scalar *)
Definition scalar_module (t : proto_type) : option codec_module :=
  match category_of_decl t, module_of_decl t with
  | Some CatScalar, Some m => Some m
  | _, _ => None
  end.

(* ---------------------------------------------------------------- defaults (#[derive(Default)]) *)
Definition default_scalar (p : proto_type) : val :=
  match scalar_module p with
  | Some m => if is_len_mod m then VB [] else VI 0
  | None => VI 0
  end.

Definition default_field (dt : ty -> val) (f : field) : val :=
  match f with
  | FSingular _ t => dt t
  | FOptional _ _ => VL NNone []
  | FRepeated _ _ => VL NRep []
  | FMap _ _ _ => VL NMap []
  | FOneof _ => VL NNone []
  end.

Fixpoint default_msg (d : nat) (sc : schema) (i : nat) : val :=
  match d with
  | O => VL NMsg []
  | S d' =>
      match nth_error sc i with
      | Some fs =>
          VL NMsg (map (default_field (fun t => match t with
                                                | TScalar p => default_scalar p
                                                | TMsg j => default_msg d' sc j
                                                end)) fs)
      | None => VL NMsg []
      end
  end.

Definition default_ty (d : nat) (sc : schema) (t : ty) : val :=
  match t with TScalar p => default_scalar p | TMsg j => default_msg d sc j end.

(* ---------------------------------------------------------------- equality with the default (PartialEq) *)
(* `val == val_default` in hash_map::encode_with_default.  f32 / f64 (and OrderedFloat): +0.0 == -0.0 *)
Definition scalar_is_default (p : proto_type) (v : val) : bool :=
  match scalar_module p, v with
  | Some MFloat, VI z => (z =? 0) || (z =? 2 ^ 31)
  | Some MDouble, VI z => (z =? 0) || (z =? 2 ^ 63)
  | Some m, VI z => negb (is_len_mod m) && (z =? 0)
  | Some m, VB l => is_len_mod m && match l with [] => true | _ => false end
  | _, _ => false
  end.

Definition field_is_default (isd : ty -> val -> bool) (f : field) (x : val) : bool :=
  match f, x with
  | FSingular _ t, _ => isd t x
  | FOptional _ _, VL NNone [] => true
  | FRepeated _ _, VL NRep [] => true
  | FMap _ _ _, VL NMap [] => true
  | FOneof _, VL NNone [] => true
  | _, _ => false
  end.

Fixpoint forallb2 {A B} (f : A -> B -> bool) (l : list A) (m : list B) : bool :=
  match l, m with
  | [], [] => true
  | a :: l', b :: m' => f a b && forallb2 f l' m'
  | _, _ => false
  end.

Fixpoint msg_is_default (d : nat) (sc : schema) (i : nat) (v : val) : bool :=
  match d with
  | O => false
  | S d' =>
      match nth_error sc i, v with
      | Some fs, VL NMsg xs =>
          forallb2 (field_is_default (fun t x => match t with
                                                 | TScalar p => scalar_is_default p x
                                                 | TMsg j => msg_is_default d' sc j x
                                                 end)) fs xs
      | _, _ => false
      end
  end.

Definition ty_is_default (d : nat) (sc : schema) (t : ty) (v : val) : bool :=
  match t with TScalar p => scalar_is_default p v | TMsg j => msg_is_default d sc j v end.

(* ---------------------------------------------------------------- map keys *)
Fixpoint bytes_eqb (a b : list byte) : bool :=
  match a, b with
  | [], [] => true
  | x :: a', y :: b' => Byte.eqb x y && bytes_eqb a' b'
  | _, _ => false
  end.

(* Eq + Hash of the key types (integers, bool, FastStr) *)
Definition key_eqb (a b : val) : bool :=
  match a, b with
  | VI x, VI y => x =? y
  | VB x, VB y => bytes_eqb x y
  | _, _ => false
  end.

(* AHashMap::insert: an equal key keeps its slot and gets the new value *)
Fixpoint map_insert (k v : val) (es : list val) : list val :=
  match es with
  | [] => [VL NPair [k; v]]
  | (VL NPair [k'; v']) as e :: more =>
      if key_eqb k' k then VL NPair [k'; v] :: more else e :: map_insert k v more
  | e :: more => e :: map_insert k v more
  end.

(* ---------------------------------------------------------------- decoding *)
Fixpoint find_member (ms : list (Z * ty)) (tag : Z) (idx : nat) : option (nat * ty) :=
  match ms with
  | [] => None
  | (t, ty) :: more => if t =? tag then Some (idx, ty) else find_member more tag (S idx)
  end.

Definition field_tags (f : field) : list Z :=
  match f with
  | FSingular t _ | FOptional t _ | FRepeated t _ | FMap t _ _ => [t]
  | FOneof ms => map fst ms
  end.

Section MergeStep.
  Variable rec : nat -> val -> Z -> wire_type -> Z -> M val.   (* merge_field of message #i *)
  Variable dflt : ty -> val.                                    (* Default::default() *)

  (* <module>::merge(wire_type, value, buf, ctx) for the module of [t] *)
  Definition merge_ty (t : ty) (wt : wire_type) (x : val) (ctx : Z) : M val :=
    match t with
    | TScalar p => match scalar_module p with Some m => merge_scalar m wt | None => fail PIllTyped end
    | TMsg i => message_merge (rec i) wt x ctx
    end.

  (* <module>::merge_repeated *)
  Definition merge_rep (t : ty) (wt : wire_type) (xs : list val) (ctx : Z) : M (list val) :=
    match t with
    | TScalar p => match scalar_module p with Some m => merge_repeated m wt xs | None => fail PIllTyped end
    | TMsg i =>
        let+ _ := check_wire_type LengthDelimited wt in
        let+ v := message_merge (rec i) LengthDelimited (dflt t) ctx in
        push xs v
    end.

  (* hash_map::merge(key_merge, val_merge, &mut map, buf, ctx) *)
  Definition merge_map (k : proto_type) (vt : ty) (es : list val) (ctx : Z) : M (list val) :=
    let+ kv := map_entry_merge (fun wt x c => merge_ty (TScalar k) wt x c) (fun wt x c => merge_ty vt wt x c)
                               (dflt (TScalar k)) (dflt vt) ctx in
    let+ _ := charge 1 in
    ret (map_insert (fst kv) (snd kv) es).

  (* <Oneof>::merge(field, tag, wire_type, buf, ctx) *)
  Definition merge_oneof (ms : list (Z * ty)) (cur : val) (tag : Z) (wt : wire_type) (ctx : Z) : M val :=
    match find_member ms tag 0 with
    | None => panic SOneofTag
    | Some (idx, t) =>
        let start := match cur with
                     | VL (NOne j) [v] => if Nat.eqb j idx then v else dflt t
                     | _ => dflt t
                     end in
        let+ v' := merge_ty t wt start ctx in
        ret (VL (NOne idx) [v'])
    end.

  Definition merge_fieldval (f : field) (x : val) (tag : Z) (wt : wire_type) (ctx : Z) : M val :=
    match f with
    | FSingular _ t => merge_ty t wt x ctx
    | FOptional _ t =>                                  (* get_or_insert_with(Default::default) *)
        let cur := match x with VL NSome [v] => v | _ => dflt t end in
        let+ v' := merge_ty t wt cur ctx in ret (VL NSome [v'])
    | FRepeated _ t =>
        match x with
        | VL NRep xs => let+ xs' := merge_rep t wt xs ctx in ret (VL NRep xs')
        | _ => fail PIllTyped
        end
    | FMap _ k vt =>
        match x with
        | VL NMap es => let+ es' := merge_map k vt es ctx in ret (VL NMap es')
        | _ => fail PIllTyped
        end
    | FOneof ms => merge_oneof ms x tag wt ctx
    end.

  (* match tag { <tags of field 0> => .., <tags of field 1> => .., _ => skip_field(..) } *)
  Fixpoint merge_in_fields (fs : list field) (xs : list val) (tag : Z) (wt : wire_type) (ctx : Z) : M (list val) :=
    match fs, xs with
    | f :: fs', x :: xs' =>
        if existsb (Z.eqb tag) (field_tags f) then
          let+ x' := merge_fieldval f x tag wt ctx in ret (x' :: xs')
        else
          let+ r := merge_in_fields fs' xs' tag wt ctx in ret (x :: r)
    | _, _ => let+ _ := skip_field depth_fuel wt tag ctx in ret xs
    end.
End MergeStep.

(* Message::merge_field of message #i; [d] bounds the native recursion depth *)
Fixpoint merge_field (d : nat) (sc : schema) (i : nat) (x : val) (tag : Z) (wt : wire_type) (ctx : Z) : M val :=
  match d with
  | O => fail POutOfFuel
  | S d' =>
      match nth_error sc i, x with
      | Some fs, VL NMsg xs =>
          let+ xs' := merge_in_fields (merge_field d' sc) (default_ty d' sc) fs xs tag wt ctx in
          ret (VL NMsg xs')
      | _, _ => fail PIllTyped
      end
  end.

(* Message::merge: while buf.has_remaining() { decode_key; merge_field(.., ctx.clone()) } *)
Definition msg_merge (sc : schema) (i : nat) (x : val) : M val :=
  while_rem 0 (fun x => let+ (tag, wt) := decode_key in merge_field depth_fuel sc i x tag wt ctx_default) x.

(* Message::decode *)
Definition msg_decode (sc : schema) (i : nat) : M val := msg_merge sc i (default_msg depth_fuel sc i).

(* Message::decode_length_delimited / merge_length_delimited *)
Definition msg_decode_length_delimited (sc : schema) (i : nat) : M val :=
  message_merge (merge_field depth_fuel sc i) LengthDelimited (default_msg depth_fuel sc i) ctx_default.

(* ---------------------------------------------------------------- encoding and encoded_len *)
Section EncStep.
  Variable edv : bool.                          (* feature pb-encode-default-value *)
  Variable enc_rec : nat -> val -> list byte.   (* encode_raw of message #i *)
  Variable len_rec : nat -> val -> Z.           (* encoded_len of message #i *)
  Variable isd : ty -> val -> bool.             (* == Default::default() *)

  Definition enc_ty (tag : Z) (t : ty) (e : val) : list byte :=
    match t with
    | TScalar p => match scalar_module p with Some m => encode_scalar m tag e | None => [] end
    | TMsg j => message_encode tag (len_rec j e) (enc_rec j e)
    end.

  Definition len_ty (tag : Z) (t : ty) (e : val) : Z :=
    match t with
    | TScalar p => match scalar_module p with Some m => encoded_len_scalar m tag e | None => 0 end
    | TMsg j => message_encoded_len tag (len_rec j e)
    end.

  Definition enc_entry (tag : Z) (k : proto_type) (vt : ty) (e : val) : list byte :=
    match e with
    | VL NPair [kv; vv] =>
        map_entry_encode edv tag (isd (TScalar k) kv) (isd vt vv)
                         (len_ty 1 (TScalar k) kv) (len_ty 2 vt vv) (enc_ty 1 (TScalar k) kv) (enc_ty 2 vt vv)
    | _ => []
    end.

  Definition len_entry (k : proto_type) (vt : ty) (e : val) : Z :=
    match e with
    | VL NPair [kv; vv] =>
        map_entry_encoded_len edv (isd (TScalar k) kv) (isd vt vv) (len_ty 1 (TScalar k) kv) (len_ty 2 vt vv)
    | _ => 0
    end.

  Definition enc_field (f : field) (x : val) : list byte :=
    match f, x with
    | FSingular tag t, _ => enc_ty tag t x
    | FOptional tag t, VL NSome [e] => enc_ty tag t e
    | FRepeated tag t, VL NRep es => flat_map (enc_ty tag t) es
    | FMap tag k vt, VL NMap es => flat_map (enc_entry tag k vt) es
    | FOneof ms, VL (NOne idx) [e] =>
        match nth_error ms idx with Some (tag, t) => enc_ty tag t e | None => [] end
    | _, _ => []
    end.

  Definition len_field (f : field) (x : val) : Z :=
    match f, x with
    | FSingular tag t, _ => len_ty tag t x
    | FOptional tag t, VL NSome [e] => len_ty tag t e
    | FRepeated tag t, VL NRep es =>
        match t with
        | TScalar p => match scalar_module p with Some m => encoded_len_repeated m tag es | None => 0 end
        | TMsg j =>   (* key_len(tag) * len + sum (len + encoded_len_varint(len)) *)
            key_len tag * Z.of_nat (length es)
            + sumZ (map (fun e => let l := len_rec j e in l + encoded_len_varint l) es)
        end
    | FMap tag k vt, VL NMap es => key_len tag * Z.of_nat (length es) + sumZ (map (len_entry k vt) es)
    | FOneof ms, VL (NOne idx) [e] =>
        match nth_error ms idx with Some (tag, t) => len_ty tag t e | None => 0 end
    | _, _ => 0
    end.

  Fixpoint enc_fields (fs : list field) (xs : list val) : list byte :=
    match fs, xs with
    | f :: fs', x :: xs' => enc_field f x ++ enc_fields fs' xs'
    | _, _ => []
    end.

  Fixpoint len_fields (fs : list field) (xs : list val) : Z :=
    match fs, xs with
    | f :: fs', x :: xs' => len_field f x + len_fields fs' xs'
    | _, _ => 0
    end.
End EncStep.

(* encode_raw / encoded_len of message #i; [d] bounds the depth of the value (Rust recursion is native) *)
Fixpoint len_msg (edv : bool) (d : nat) (sc : schema) (i : nat) (v : val) : Z :=
  match d with
  | O => 0
  | S d' =>
      match nth_error sc i, v with
      | Some fs, VL NMsg xs =>
          len_fields edv (len_msg edv d' sc) (ty_is_default d' sc) fs xs
      | _, _ => 0
      end
  end.

Fixpoint enc_msg (edv : bool) (d : nat) (sc : schema) (i : nat) (v : val) : list byte :=
  match d with
  | O => []
  | S d' =>
      match nth_error sc i, v with
      | Some fs, VL NMsg xs =>
          enc_fields edv (enc_msg edv d' sc) (len_msg edv d' sc) (ty_is_default d' sc) fs xs
      | _, _ => []
      end
  end.

(* ---------------------------------------------------------------- typing of values *)
Section TypeStep.
  Variable wt_rec : nat -> val -> bool.

  Definition wt_ty (t : ty) (v : val) : bool :=
    match t with
    | TScalar p => match scalar_module p with Some m => mod_value_okb m v | None => false end
    | TMsg j => wt_rec j v
    end.

  Fixpoint keys_of (es : list val) : list val :=
    match es with
    | VL NPair [k; _] :: more => k :: keys_of more
    | _ :: more => keys_of more
    | [] => []
    end.

  Fixpoint nodup_keys (ks : list val) : bool :=
    match ks with
    | [] => true
    | k :: more => negb (existsb (key_eqb k) more) && nodup_keys more
    end.

  Definition wt_field (f : field) (x : val) : bool :=
    match f, x with
    | FSingular _ t, _ => wt_ty t x
    | FOptional _ _, VL NNone [] => true
    | FOptional _ t, VL NSome [e] => wt_ty t e
    | FRepeated _ t, VL NRep es => forallb (wt_ty t) es
    | FMap _ k vt, VL NMap es =>
        forallb (fun e => match e with VL NPair [kv; vv] => wt_ty (TScalar k) kv && wt_ty vt vv | _ => false end) es
        && nodup_keys (keys_of es)
    | FOneof _, VL NNone [] => true
    | FOneof ms, VL (NOne idx) [e] => match nth_error ms idx with Some (_, t) => wt_ty t e | None => false end
    | _, _ => false
    end.
End TypeStep.

(* [v] is a value of message #i of nesting depth at most d *)
Fixpoint wt_msg (d : nat) (sc : schema) (i : nat) (v : val) : bool :=
  match d with
  | O => false
  | S d' =>
      match nth_error sc i, v with
      | Some fs, VL NMsg xs => forallb2 (wt_field (wt_msg d' sc)) fs xs
      | _, _ => false
      end
  end.

(* ---------------------------------------------------------------- well-formed schemas *)
Definition ty_ok (sc : schema) (t : ty) : bool :=
  match t with
  | TScalar p => match scalar_module p with Some _ => true | None => false end
  | TMsg j => Nat.ltb j (length sc)
  end.

Definition key_type_ok (k : proto_type) : bool :=
  match k with
  | TYPE_INT32 | TYPE_INT64 | TYPE_UINT32 | TYPE_UINT64 | TYPE_SINT32 | TYPE_SINT64 | TYPE_FIXED32
  | TYPE_FIXED64 | TYPE_SFIXED32 | TYPE_SFIXED64 | TYPE_BOOL | TYPE_STRING => true
  | _ => false
  end.

Definition field_ok (sc : schema) (f : field) : bool :=
  match f with
  | FSingular _ t | FOptional _ t | FRepeated _ t => ty_ok sc t
  | FMap _ k vt => key_type_ok k && ty_ok sc (TScalar k) && ty_ok sc vt
  | FOneof ms => forallb (fun m => ty_ok sc (snd m)) ms
  end.

Fixpoint nodupZ (l : list Z) : bool :=
  match l with
  | [] => true
  | a :: more => negb (existsb (Z.eqb a) more) && nodupZ more
  end.

Definition msgdesc_ok (sc : schema) (fs : msgdesc) : bool :=
  forallb (field_ok sc) fs
  && forallb tag_okb (flat_map field_tags fs)
  && nodupZ (flat_map field_tags fs).

(* no by-value cycle of REQUIRED message fields (proto2 `required M m`, a bare -- boxed -- M in the struct): the derived
   Default of such a struct does not terminate (finding F-10a: `message A { required A a = 1; }` is accepted by pilota-build
   and A::default(), hence every decode, overflows the stack).  [req_ok f sc i]: every chain of required fields from
   message #i is shorter than f; with f = |sc| + 1 a longer chain would repeat a message. *)
Fixpoint req_ok (fuel : nat) (sc : schema) (i : nat) : bool :=
  match fuel with
  | O => false
  | S f =>
      match nth_error sc i with
      | Some fs => forallb (fun fld => match fld with FSingular _ (TMsg j) => req_ok f sc j | _ => true end) fs
      | None => true
      end
  end.

Definition required_acyclic (sc : schema) : bool := forallb (req_ok (S (length sc)) sc) (seq 0 (length sc)).

Definition schema_ok (sc : schema) : bool := forallb (msgdesc_ok sc) sc && required_acyclic sc.

(* ---------------------------------------------------------------- well-known wrapper impls (pilota/src/prost/types.rs) *)
(* impl Message for bool / u32 / u64 / i32 / i64 / f32 / f64 / String / Vec<u8> / Bytes: field 1 goes through
   the codec module named there ([Some m]), every other field is skipped; impl Message for (): everything is
   skipped ([None]).  The value is the bare scalar. *)
Definition wrapper_merge_field (m : option codec_module) (x : val) (tag : Z) (wt : wire_type) (ctx : Z) : M val :=
  match m with
  | Some m' => if tag =? 1 then merge_scalar m' wt else let+ _ := skip_field depth_fuel wt tag ctx in ret x
  | None => let+ _ := skip_field depth_fuel wt tag ctx in ret x
  end.

Definition wrapper_default (m : option codec_module) : val :=
  match m with
  | Some m' => if is_len_mod m' then VB [] else VI 0
  | None => VL NMsg []
  end.

Definition wrapper_merge (m : option codec_module) (x : val) : M val :=
  while_rem 0 (fun x => let+ (tag, wt) := decode_key in wrapper_merge_field m x tag wt ctx_default) x.
Definition wrapper_decode (m : option codec_module) : M val := wrapper_merge m (wrapper_default m).
Definition wrapper_decode_length_delimited (m : option codec_module) : M val :=
  message_merge (wrapper_merge_field m) LengthDelimited (wrapper_default m) ctx_default.

(* encode_raw / encoded_len write nothing when `*self` is false / == 0 / == 0.0 (float ==: -0.0 too) / empty *)
Definition wrapper_is_default (m : option codec_module) (v : val) : bool :=
  match m, v with
  | Some MFloat, VI z => (z =? 0) || (z =? 2 ^ 31)
  | Some MDouble, VI z => (z =? 0) || (z =? 2 ^ 63)
  | Some _, VI z => z =? 0
  | Some _, VB [] => true
  | None, _ => true
  | _, _ => false
  end.
Definition wrapper_enc (m : option codec_module) (v : val) : list byte :=
  match m with
  | Some m' => if wrapper_is_default m v then [] else encode_scalar m' 1 v
  | None => []
  end.
Definition wrapper_len (m : option codec_module) (v : val) : Z :=
  match m with
  | Some m' => if wrapper_is_default m v then 0 else match m' with MBool => 2 | _ => encoded_len_scalar m' 1 v end
  | None => 0
  end.
