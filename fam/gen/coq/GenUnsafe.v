(* L3 over the UNCHECKED binary codec: the same emitted code (templates of pilota-build/src/codegen/thrift/{mod.rs, ty.rs,
   decode_helper.rs}, sync instance) running on TBinaryUnsafeInputProtocol / TBinaryUnsafeOutputProtocol
   (pilota/src/thrift/binary_unsafe.rs, modelled in PV.Thrift.Unsafe: every raw access carries an explicit bounds test
   whose failure is the outcome [Panic SOob]; Bytes::advance / split_to beyond the end are [Panic SSplit]).

   What changes with respect to Gen.v / GenKeep.v is only the protocol object:
     read_* / write_*                     -> u_* / uw_*            (no remaining-length checks, `size as usize`)
     read_struct_begin/end, read_field_end, write_struct_begin/end, write_field_end   -> nothing (binary)
     field_begin_len / field_end_len / field_stop_len                                  -> the constants 3 / 0 / 1
     TInputProtocol::skip                 -> u_skip: rewind to the field header (advance(index - 3)), re-window, then the
                                             ITERATIVE skipper (skip_iter); the loop has no bound in the code -- [fk] is
                                             the model's bound on its number of turns
     get_bytes(Some(ptr), len)            -> u_get_bytes: index := 0; trans.split_to(len) -- from the START of the window,
                                             which is the field header precisely because skip() rewound to it
     get_bytes(None, len)                 -> len -= index; advance(index); index := 0; split_to(len)
     write_bytes_without_len              -> uw_bytes_without_len (copy through `buf`, or -- LinkedBytes, zero-copy on,
                                             at least ZERO_COPY_THRESHOLD bytes -- advance_mut, insert, re-window)
   [kb] = the build was made with keep_unknown_fields (then the declarations whose keep flag is set retain).
   Model only, no proofs. *)
From PV Require Export Thrift.Unsafe.
From PVGen Require Export Gen GenKeep.
Open Scope Z_scope.

(* ---------- reader ---------- *)
Definition u_get_bytes (len : Z) : um (list byte) := fun s =>
  if len <=? Z.of_nat (length (ubuf s))
  then Ok (firstn (Z.to_nat len) (ubuf s), mkU (skipn (Z.to_nat len) (ubuf s)) 0)
  else Panic SSplit.

Section UDecLoops.
  Variable S : schema.
  Variable fk : nat.                                   (* turns of the iterative skipper *)
  Variable rec : ty -> ust -> res (gval * ust).

  Fixpoint udec_elems (m : nat) (et : ty) (n : Z) (s : ust) (acc : list gval) {struct m} : res (list gval * ust) :=
    if n <=? 0 then Ok (rev acc, s) else
    match m with
    | O => Err EOutOfFuel
    | Datatypes.S m' => let* (x, s) := rec et s in udec_elems m' et (n - 1) s (x :: acc)
    end.

  Fixpoint udec_pairs (m : nat) (kt vt : ty) (n : Z) (s : ust) (acc : list (gval * gval)) {struct m}
    : res (list (gval * gval) * ust) :=
    if n <=? 0 then Ok (rev acc, s) else
    match m with
    | O => Err EOutOfFuel
    | Datatypes.S m' =>
        let* (a, s) := rec kt s in
        let* (b, s) := rec vt s in
        udec_pairs m' kt vt (n - 1) s ((a, b) :: acc)
    end.

  Definition known_by_id (vs : list (Z * ty)) (oid : option Z) : option (Z * ty) :=
    match oid with
    | Some id => match find_variant vs id with
                 | Some vt => if is_void (resolve S vt) then None else Some (id, vt)
                 | None => None
                 end
    | None => None
    end.

  (* codegen_decode_fields, plain *)
  Fixpoint udec_fields (m : nat) (fs : list field) (vars : list (option gval)) (s : ust) {struct m}
    : res (list (option gval) * ust) :=
    match m with
    | O => Err EOutOfFuel
    | Datatypes.S m' =>
        let* (h, s) := u_field_begin s in
        if ttype_eqb (fst h) TStop then Ok (vars, s)
        else
          let* (vars, s) :=
            match match_field S fs O (snd h) (fst h) with
            | Some (i, f) => let* (x, s) := rec (f_ty f) s in Ok (set_nth i (Some x) vars, s)
            | None => let* (_, s) := u_skip fk (fst h) s in Ok (vars, s)
            end in
          udec_fields m' fs vars s
    end.

  Fixpoint udec_variants (m : nat) (vs : list (Z * ty)) (ret : option (Z * gval)) (s : ust) {struct m}
    : res (option (Z * gval) * ust) :=
    match m with
    | O => Err EOutOfFuel
    | Datatypes.S m' =>
        let* (h, s) := u_field_begin s in
        if ttype_eqb (fst h) TStop then Ok (ret, s)
        else
          match known_by_id vs (snd h) with
          | Some (id, vt) =>
              match ret with
              | None => let* (x, s) := rec vt s in udec_variants m' vs (Some (id, x)) s
              | Some _ => Err EInvalidData
              end
          | None => let* (_, s) := u_skip fk (fst h) s in udec_variants m' vs ret s
          end
    end.

  (* codegen_decode_fields with keep && !is_async *)
  Fixpoint udec_fields_keep (m : nat) (fs : list field) (is_arg : bool) (vars : list (option gval)) (num : Z)
           (unk : list (list byte)) (s : ust) {struct m} : res (list (option gval) * list (list byte) * ust) :=
    match m with
    | O => Err EOutOfFuel
    | Datatypes.S m' =>
        if is_arg && (num =? 0) then
          (* `let __pilota_remaining = __protocol.buf().remaining();  get_bytes(None, __pilota_remaining - 2)`:
             buf() is the transport, whose remaining() still counts the [index] bytes read through the window *)
          let rem := Z.of_nat (length (ubuf s)) in
          if rem <? 2 then Panic SOverflow
          else if rem - 2 <? Z.of_nat (uidx s) then Panic SOverflow           (* len -= self.index *)
          else
            let* (_, s1) := u_rewindow s in
            let* (chunk, s2) := u_get_bytes (rem - 2 - Z.of_nat (uidx s)) s1 in
            Ok (vars, unk ++ [chunk], s2)
        else
          let* (h, s) := u_field_begin s in
          if ttype_eqb (fst h) TStop then Ok (vars, unk, s)
          else
            let* (r, s) :=
              match match_field S fs O (snd h) (fst h) with
              | Some (i, f) => let* (x, s) := rec (f_ty f) s in Ok ((set_nth i (Some x) vars, num - 1, unk), s)
              | None =>
                  let* (n2, s) := u_skip fk (fst h) s in
                  let* (chunk, s) := u_get_bytes (3 + n2) s in
                  Ok ((vars, num, unk ++ [chunk]), s)
              end in
            udec_fields_keep m' fs is_arg (fst (fst r)) (snd (fst r)) (snd r) s
    end.

  Fixpoint udec_variants_keep (m : nat) (vs : list (Z * ty)) (ret : uret) (s : ust) {struct m} : res (uret * ust) :=
    match m with
    | O => Err EOutOfFuel
    | Datatypes.S m' =>
        let* (h, s) := u_field_begin s in
        if ttype_eqb (fst h) TStop then Ok (ret, s)
        else
          match known_by_id vs (snd h) with
          | Some (id, vt) =>
              match ret with
              | UNone => let* (x, s) := rec vt s in udec_variants_keep m' vs (UKnown id x) s
              | _ => Err EInvalidData
              end
          | None =>
              let* (n2, s) := u_skip fk (fst h) s in
              match ret with
              | UNone => let* (chunk, s) := u_get_bytes (3 + n2) s in udec_variants_keep m' vs (UUnknown chunk) s
              | _ => Err EInvalidData
              end
          end
    end.
End UDecLoops.

Fixpoint gen_udecode (kb : bool) (S : schema) (fk : nat) (fuel : nat) (t : ty) (s : ust) {struct fuel} : res (gval * ust) :=
  match fuel with
  | O => Err EOutOfFuel
  | Datatypes.S f =>
      match resolve S t with
      | TyBool => let* (b, s) := u_bool s in Ok (GBool b, s)
      | TyI8 => let* (z, s) := u_i8 s in Ok (GI8 z, s)
      | TyI16 => let* (z, s) := u_i16 s in Ok (GI16 z, s)
      | TyI32 => let* (z, s) := u_i32 s in Ok (GI32 z, s)
      | TyI64 => let* (z, s) := u_i64 s in Ok (GI64 z, s)
      | TyDouble => let* (z, s) := u_double s in Ok (GDouble z, s)
      | TyString | TyBinary => let* (l, s) := u_bytes s in Ok (GBytes l, s)
      | TyUuid => let* (l, s) := u_uuid s in Ok (GUuid l, s)
      | TyVoid => Ok (GVoid, s)
      | TyList et =>
          let* (h, s) := u_coll_begin s in
          let* (l, s) := udec_elems (gen_udecode kb S fk f) (Datatypes.S f) et (snd h) s [] in
          Ok (GList l, s)
      | TySet et =>
          let* (h, s) := u_coll_begin s in
          let* (l, s) := udec_elems (gen_udecode kb S fk f) (Datatypes.S f) et (snd h) s [] in
          Ok (GSet l, s)
      | TyMap kt vt =>
          let* (h, s) := u_map_begin s in
          let* (l, s) := udec_pairs (gen_udecode kb S fk f) (Datatypes.S f) kt vt (snd h) s [] in
          Ok (GMap l, s)
      | TyRef n =>
          match lookup S n with
          | Some (DEnum _) => let* (z, s) := u_i32 s in Ok (GEnum z, s)
          | Some (DStruct fs keep is_arg) =>
              if kb && keep then
                let* (r, s) := udec_fields_keep S fk (gen_udecode kb S fk f) (Datatypes.S f) fs is_arg (map init_var fs)
                                                (Z.of_nat (length fs)) [] s in
                let* out := finish_fields fs (fst r) in
                Ok (GStruct out (snd r), s)
              else
                let* (vars, s) := udec_fields S fk (gen_udecode kb S fk f) (Datatypes.S f) fs (map init_var fs) s in
                let* out := finish_fields fs vars in
                Ok (GStruct out [], s)
          | Some (DUnion vs void_ok keep) =>
              if kb && keep then
                let* (ret, s) := udec_variants_keep S fk (gen_udecode kb S fk f) (Datatypes.S f) vs UNone s in
                match ret with
                | UKnown id x => Ok (GUnion id x, s)
                | UUnknown c => Ok (GUnionUnknown c, s)
                | UNone =>
                    if void_ok then
                      match vs with (id0, _) :: _ => Ok (GUnion id0 GVoid, s) | [] => Err EInvalidData end
                    else Err EInvalidData
                end
              else
                let* (ret, s) := udec_variants S fk (gen_udecode kb S fk f) (Datatypes.S f) vs None s in
                match ret with
                | Some (id, x) => Ok (GUnion id x, s)
                | None =>
                    if void_ok then
                      match vs with (id0, _) :: _ => Ok (GUnion id0 GVoid, s) | [] => Err EInvalidData end
                    else Err EInvalidData
                end
          | Some (DTypedef _) => Err EOther
          | None => Err EOther
          end
      end
  end.

(* the checked emitted decoder of the same build *)
Definition gen_cdecode (kb : bool) (S : schema) (fuel : nat) (t : ty) (s : rst) : res (gval * rst) :=
  if kb then gen_decode_keep S PBinary fuel t s else gen_decode S PBinary fuel t s.

(* ---------- writer ---------- *)
Definition uw_bytes_without_len (zc : bool) (b : list byte) : uwm := fun s =>
  match uw_room_tr s with
  | None =>
      if zc && (zero_copy_threshold <=? Z.of_nat (length b))
      then Ok ([Node b], mkUW (uw_room s) None 0 (uw_zc s + Z.of_nat (length b)))
      else uw_buf b s
  | Some _ => uw_buf b s
  end.

Section UEncode.
  Variable S : schema.
  Variable zc : bool.

  Definition uwfail : uwm := fun _ => Err EOther.

  Definition uw_unknown (chunks : list (list byte)) : uwm :=
    fold_right (fun c acc => uw_bytes_without_len zc c ;;; acc) uwnop chunks.

  Fixpoint uenc_ty (t : ty) (v : gval) {struct v} : uwm :=
    match v with
    | GBool b => match resolve S t with TyBool => uw_bool b | _ => uwfail end
    | GI8 z => match resolve S t with TyI8 => uw_i8 z | _ => uwfail end
    | GI16 z => match resolve S t with TyI16 => uw_i16 z | _ => uwfail end
    | GI32 z => match resolve S t with TyI32 => uw_i32 z | _ => uwfail end
    | GI64 z => match resolve S t with TyI64 => uw_i64 z | _ => uwfail end
    | GDouble b => match resolve S t with TyDouble => uw_double b | _ => uwfail end
    | GBytes l => match resolve S t with TyString | TyBinary => uw_bytes zc l | _ => uwfail end
    | GUuid l => match resolve S t with TyUuid => uw_uuid l | _ => uwfail end
    | GVoid => match resolve S t with TyVoid => uwnop | _ => uwfail end
    | GEnum z =>
        match resolve S t with
        | TyRef n => match lookup S n with Some (DEnum _) => uw_i32 z | _ => uwfail end
        | _ => uwfail
        end
    | GList l =>
        match resolve S t with
        | TyList et =>
            uw_coll_begin (ttype_of_ty S et) (Z.of_nat (length l)) ;;;
            (fix go (l : list gval) : uwm := match l with [] => uwnop | x :: r => uenc_ty et x ;;; go r end) l
        | _ => uwfail
        end
    | GSet l =>
        match resolve S t with
        | TySet et =>
            uw_coll_begin (ttype_of_ty S et) (Z.of_nat (length l)) ;;;
            (fix go (l : list gval) : uwm := match l with [] => uwnop | x :: r => uenc_ty et x ;;; go r end) l
        | _ => uwfail
        end
    | GMap l =>
        match resolve S t with
        | TyMap kt vt =>
            uw_map_begin (ttype_of_ty S kt) (ttype_of_ty S vt) (Z.of_nat (length l)) ;;;
            (fix go (l : list (gval * gval)) : uwm :=
               match l with [] => uwnop | (a, b) :: r => uenc_ty kt a ;;; uenc_ty vt b ;;; go r end) l
        | _ => uwfail
        end
    | GStruct fs unk =>
        match resolve S t with
        | TyRef n =>
            match lookup S n with
            | Some (DStruct dfs _ _) =>
                (fix go (fs : list (Z * gval)) : uwm :=
                   match fs with
                   | [] => uwnop
                   | (id, x) :: r =>
                       match find_field dfs id with
                       | Some f =>
                           (if is_void (resolve S (f_ty f)) then uwnop
                            else uw_field_begin (ttype_of_ty S (f_ty f)) id ;;; uenc_ty (f_ty f) x) ;;; go r
                       | None => uwfail
                       end
                   end) fs ;;;
                uw_unknown unk ;;;
                uw_field_stop
            | _ => uwfail
            end
        | _ => uwfail
        end
    | GUnion id x =>
        match resolve S t with
        | TyRef n =>
            match lookup S n with
            | Some (DUnion vs _ _) =>
                match find_variant vs id with
                | Some vt =>
                    (if is_void (resolve S vt) then uwnop
                     else uw_field_begin (ttype_of_ty S vt) id ;;; uenc_ty vt x) ;;;
                    uw_field_stop
                | None => uwfail
                end
            | _ => uwfail
            end
        | _ => uwfail
        end
    | GUnionUnknown u =>
        match resolve S t with
        | TyRef n =>
            match lookup S n with
            | Some (DUnion _ _ true) => uw_bytes_without_len zc u ;;; uw_field_stop
            | _ => uwfail
            end
        | _ => uwfail
        end
    end.
End UEncode.
