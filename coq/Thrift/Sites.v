(* C09, tie to the code: how the model accounts for every panic-capable and allocation site of the
   safe Thrift readers.

   Generated/ReaderSites.v is REGENERATED from the Rust sources on every run (tools/extract.py): every
   unwrap / expect / panic! / assert! / split_to / advance / copy_to_slice / slice index / with_capacity /
   vec![0; n] / reserve / read_to_end / conversion / push / loop / integer cast / arithmetic / unsafe in the
   in-memory and asynchronous input protocols of binary.rs, binary_le.rs, compact.rs, their helpers in
   rw_ext.rs and varint_ext.rs and the default skippers of mod.rs -- (file, block :: fn, kind, normalised line),
   in source order.  THIS file is written by hand: the same list, each site with the way the Gallina model
   accounts for it.  Proofs/SitesP.v compares the two lists by computation ([sites_accounted]) and checks that
   every account is of a class admissible for the kind of site ([sites_justified]); Properties/C09.v:
   C09_site_inventory.  A new unwrap, index, allocation ... in a reader -- or a changed line -- breaks the C09
   proof gate until it has been re-read and accounted for here.

   No proofs here. *)
From Coq Require Import String List Bool.
From PV Require Import Base.Res Generated.ReaderSites.
Import ListNotations.
Open Scope string_scope.

Inductive account :=
| Guarded (model_fn : string) (why : string)
    (* cannot fire: an explicit test in the code precedes it (an error is returned instead) and the named
       model function transcribes that test *)
| ModelledOutcome (s : site) (where_ : string)
    (* the panic is an outcome of the model: [Panic s] *)
| AllocBounded (model_fn : string) (why : string)
    (* allocation from a wire-supplied number: charged by the named function of Thrift/Alloc.v (C09_alloc) *)
| ConstAlloc (why : string)
    (* allocation of a constant size *)
| Modelled (model_fn : string) (why : string)
    (* cast / wrap / loop: its semantics is transcribed by the named model function *)
| LenPassOnly (why : string)
    (* TLengthProtocol method of the reader object: not reachable from read_* / skip *)
| WriterOnly (why : string)
| NotReached (why : string)
    (* helper no Thrift reader calls *)
| CallerSupplied (why : string)
    (* arguments supplied by the caller, not by the wire: generated level *)
| Benign (why : string).

(* the model functions the accounts name (Proofs/SitesP.v [model_fns_exist] ties the names to the definitions) *)
Definition model_fns : list string :=
  ["r_take"; "r_byte"; "r_i8"; "r_len"; "r_split"; "rd_var"; "maxsize_32"; "check_size"; "ttype_of_byte";
   "r_field_begin"; "r_coll_begin"; "r_map_begin"; "r_message_begin";
   "a_bytes"; "a_field_begin"; "a_coll_begin"; "a_map_begin";
   "adv"; "via"; "hdr_count"; "skip_val"; "skip_fields"; "skip_elems"; "askip_val"; "askip_fields"; "askip_elems";
   "r_bytes_alloc"; "a_bytes_alloc"; "rx_alloc"; "read_val_a"].

Definition accounted : list (rsite * account) :=
  [
   (("mod.rs", "trait TInputProtocol :: skip_till_depth", "advance", "self.buf().advance(1);"),
      Guarded "adv" "assert_remaining!(remaining >= n) with the same constant on the preceding line returns Err(NoRemaining) first: adv n = r_take n");
   (("mod.rs", "trait TInputProtocol :: skip_till_depth", "arith_assign", "len += 1;"),
      Benign "usize accumulator of the bytes skipped: for the binary protocols it equals the bytes consumed from an in-memory buffer (C07_skip_simulates_read), far below usize::MAX");
   (("mod.rs", "trait TInputProtocol :: skip_till_depth", "advance", "self.buf().advance(1);"),
      Guarded "adv" "assert_remaining!(remaining >= n) with the same constant on the preceding line returns Err(NoRemaining) first: adv n = r_take n");
   (("mod.rs", "trait TInputProtocol :: skip_till_depth", "arith_assign", "len += 1;"),
      Benign "usize accumulator of the bytes skipped: for the binary protocols it equals the bytes consumed from an in-memory buffer (C07_skip_simulates_read), far below usize::MAX");
   (("mod.rs", "trait TInputProtocol :: skip_till_depth", "advance", "self.buf().advance(2);"),
      Guarded "adv" "assert_remaining!(remaining >= n) with the same constant on the preceding line returns Err(NoRemaining) first: adv n = r_take n");
   (("mod.rs", "trait TInputProtocol :: skip_till_depth", "arith_assign", "len += 2;"),
      Benign "usize accumulator of the bytes skipped: for the binary protocols it equals the bytes consumed from an in-memory buffer (C07_skip_simulates_read), far below usize::MAX");
   (("mod.rs", "trait TInputProtocol :: skip_till_depth", "advance", "self.buf().advance(4);"),
      Guarded "adv" "assert_remaining!(remaining >= n) with the same constant on the preceding line returns Err(NoRemaining) first: adv n = r_take n");
   (("mod.rs", "trait TInputProtocol :: skip_till_depth", "arith_assign", "len += 4;"),
      Benign "usize accumulator of the bytes skipped: for the binary protocols it equals the bytes consumed from an in-memory buffer (C07_skip_simulates_read), far below usize::MAX");
   (("mod.rs", "trait TInputProtocol :: skip_till_depth", "advance", "self.buf().advance(8);"),
      Guarded "adv" "assert_remaining!(remaining >= n) with the same constant on the preceding line returns Err(NoRemaining) first: adv n = r_take n");
   (("mod.rs", "trait TInputProtocol :: skip_till_depth", "arith_assign", "len += 8;"),
      Benign "usize accumulator of the bytes skipped: for the binary protocols it equals the bytes consumed from an in-memory buffer (C07_skip_simulates_read), far below usize::MAX");
   (("mod.rs", "trait TInputProtocol :: skip_till_depth", "advance", "self.buf().advance(8);"),
      Guarded "adv" "assert_remaining!(remaining >= n) with the same constant on the preceding line returns Err(NoRemaining) first: adv n = r_take n");
   (("mod.rs", "trait TInputProtocol :: skip_till_depth", "arith_assign", "len += 8;"),
      Benign "usize accumulator of the bytes skipped: for the binary protocols it equals the bytes consumed from an in-memory buffer (C07_skip_simulates_read), far below usize::MAX");
   (("mod.rs", "trait TInputProtocol :: skip_till_depth", "cast", "assert_remaining!(self.buf().remaining() >= length as usize);"),
      Modelled "skip_val" "length as usize = wrap_u 64 n (sign extension of the i32)");
   (("mod.rs", "trait TInputProtocol :: skip_till_depth", "advance", "self.buf().advance(length as usize);"),
      Guarded "skip_val" "assert_remaining!(remaining >= length as usize) on the preceding line returns Err(NoRemaining) first; a negative i32 length is a usize above remaining (wrap_u 64) and is rejected");
   (("mod.rs", "trait TInputProtocol :: skip_till_depth", "cast", "self.buf().advance(length as usize);"),
      Modelled "skip_val" "length as usize = wrap_u 64 n (sign extension of the i32)");
   (("mod.rs", "trait TInputProtocol :: skip_till_depth", "cast", "len += 4 + length as usize;"),
      Modelled "skip_val" "length as usize = wrap_u 64 n (sign extension of the i32)");
   (("mod.rs", "trait TInputProtocol :: skip_till_depth", "arith_assign", "len += 4 + length as usize;"),
      Benign "usize accumulator of the bytes skipped: for the binary protocols it equals the bytes consumed from an in-memory buffer (C07_skip_simulates_read), far below usize::MAX");
   (("mod.rs", "trait TInputProtocol :: skip_till_depth", "arith", "len += 4 + length as usize;"),
      Benign "4 + length after assert_remaining!(remaining >= length): bounded by the buffer length");
   (("mod.rs", "trait TInputProtocol :: skip_till_depth", "advance", "self.buf().advance(16);"),
      Guarded "adv" "assert_remaining!(remaining >= n) with the same constant on the preceding line returns Err(NoRemaining) first: adv n = r_take n");
   (("mod.rs", "trait TInputProtocol :: skip_till_depth", "arith_assign", "len += 16;"),
      Benign "usize accumulator of the bytes skipped: for the binary protocols it equals the bytes consumed from an in-memory buffer (C07_skip_simulates_read), far below usize::MAX");
   (("mod.rs", "trait TInputProtocol :: skip_till_depth", "arith_assign", "len += self.struct_begin_len(&crate::thrift::VOID_IDENT);"),
      Benign "usize accumulator of the bytes skipped: for the binary protocols it equals the bytes consumed from an in-memory buffer (C07_skip_simulates_read), far below usize::MAX");
   (("mod.rs", "trait TInputProtocol :: skip_till_depth", "loop", "loop {"),
      Modelled "skip_fields" "fuel-bounded in the model; every iteration consumes >= 1 byte (field header), C09_total / skip totality: fuel length + 1 is never exhausted");
   (("mod.rs", "trait TInputProtocol :: skip_till_depth", "arith_assign", "len += self.field_stop_len();"),
      Benign "usize accumulator of the bytes skipped: for the binary protocols it equals the bytes consumed from an in-memory buffer (C07_skip_simulates_read), far below usize::MAX");
   (("mod.rs", "trait TInputProtocol :: skip_till_depth", "arith_assign", "len += self.field_begin_len(field_ident.field_type, field_ident.id);"),
      Benign "usize accumulator of the bytes skipped: for the binary protocols it equals the bytes consumed from an in-memory buffer (C07_skip_simulates_read), far below usize::MAX");
   (("mod.rs", "trait TInputProtocol :: skip_till_depth", "arith_assign", "len += self.skip_till_depth(field_ident.field_type, depth - 1)?;"),
      Benign "usize accumulator of the bytes skipped: for the binary protocols it equals the bytes consumed from an in-memory buffer (C07_skip_simulates_read), far below usize::MAX");
   (("mod.rs", "trait TInputProtocol :: skip_till_depth", "arith", "len += self.skip_till_depth(field_ident.field_type, depth - 1)?;"),
      Guarded "skip_val" "`if depth == 0 { return Err(DepthLimit) }` at entry, so depth >= 1 here: skip_val matches d = S d'");
   (("mod.rs", "trait TInputProtocol :: skip_till_depth", "arith_assign", "len += self.field_end_len();"),
      Benign "usize accumulator of the bytes skipped: for the binary protocols it equals the bytes consumed from an in-memory buffer (C07_skip_simulates_read), far below usize::MAX");
   (("mod.rs", "trait TInputProtocol :: skip_till_depth", "arith_assign", "len += self.struct_end_len();"),
      Benign "usize accumulator of the bytes skipped: for the binary protocols it equals the bytes consumed from an in-memory buffer (C07_skip_simulates_read), far below usize::MAX");
   (("mod.rs", "trait TInputProtocol :: skip_till_depth", "arith_assign", "len += self.list_begin_len(list_ident);"),
      Benign "usize accumulator of the bytes skipped: for the binary protocols it equals the bytes consumed from an in-memory buffer (C07_skip_simulates_read), far below usize::MAX");
   (("mod.rs", "trait TInputProtocol :: skip_till_depth", "loop", "for _ in 0..list_ident.size {"),
      Modelled "skip_elems" "the count was validated by checked_container_size (0 <= size <= remaining): check_size; skip_elems / skip_pairs");
   (("mod.rs", "trait TInputProtocol :: skip_till_depth", "arith_assign", "len += self.skip_till_depth(list_ident.element_type, depth - 1)?;"),
      Benign "usize accumulator of the bytes skipped: for the binary protocols it equals the bytes consumed from an in-memory buffer (C07_skip_simulates_read), far below usize::MAX");
   (("mod.rs", "trait TInputProtocol :: skip_till_depth", "arith", "len += self.skip_till_depth(list_ident.element_type, depth - 1)?;"),
      Guarded "skip_val" "`if depth == 0 { return Err(DepthLimit) }` at entry, so depth >= 1 here: skip_val matches d = S d'");
   (("mod.rs", "trait TInputProtocol :: skip_till_depth", "arith_assign", "len += self.list_end_len();"),
      Benign "usize accumulator of the bytes skipped: for the binary protocols it equals the bytes consumed from an in-memory buffer (C07_skip_simulates_read), far below usize::MAX");
   (("mod.rs", "trait TInputProtocol :: skip_till_depth", "arith_assign", "len += self.set_begin_len(set_ident);"),
      Benign "usize accumulator of the bytes skipped: for the binary protocols it equals the bytes consumed from an in-memory buffer (C07_skip_simulates_read), far below usize::MAX");
   (("mod.rs", "trait TInputProtocol :: skip_till_depth", "loop", "for _ in 0..set_ident.size {"),
      Modelled "skip_elems" "the count was validated by checked_container_size (0 <= size <= remaining): check_size; skip_elems / skip_pairs");
   (("mod.rs", "trait TInputProtocol :: skip_till_depth", "arith_assign", "len += self.skip_till_depth(set_ident.element_type, depth - 1)?;"),
      Benign "usize accumulator of the bytes skipped: for the binary protocols it equals the bytes consumed from an in-memory buffer (C07_skip_simulates_read), far below usize::MAX");
   (("mod.rs", "trait TInputProtocol :: skip_till_depth", "arith", "len += self.skip_till_depth(set_ident.element_type, depth - 1)?;"),
      Guarded "skip_val" "`if depth == 0 { return Err(DepthLimit) }` at entry, so depth >= 1 here: skip_val matches d = S d'");
   (("mod.rs", "trait TInputProtocol :: skip_till_depth", "arith_assign", "len += self.set_end_len();"),
      Benign "usize accumulator of the bytes skipped: for the binary protocols it equals the bytes consumed from an in-memory buffer (C07_skip_simulates_read), far below usize::MAX");
   (("mod.rs", "trait TInputProtocol :: skip_till_depth", "arith_assign", "len += self.map_begin_len(map_ident);"),
      Benign "usize accumulator of the bytes skipped: for the binary protocols it equals the bytes consumed from an in-memory buffer (C07_skip_simulates_read), far below usize::MAX");
   (("mod.rs", "trait TInputProtocol :: skip_till_depth", "loop", "for _ in 0..map_ident.size {"),
      Modelled "skip_elems" "the count was validated by checked_container_size (0 <= size <= remaining): check_size; skip_elems / skip_pairs");
   (("mod.rs", "trait TInputProtocol :: skip_till_depth", "arith_assign", "len += self.skip_till_depth(key_type, depth - 1)?;"),
      Benign "usize accumulator of the bytes skipped: for the binary protocols it equals the bytes consumed from an in-memory buffer (C07_skip_simulates_read), far below usize::MAX");
   (("mod.rs", "trait TInputProtocol :: skip_till_depth", "arith", "len += self.skip_till_depth(key_type, depth - 1)?;"),
      Guarded "skip_val" "`if depth == 0 { return Err(DepthLimit) }` at entry, so depth >= 1 here: skip_val matches d = S d'");
   (("mod.rs", "trait TInputProtocol :: skip_till_depth", "arith_assign", "len += self.skip_till_depth(val_type, depth - 1)?;"),
      Benign "usize accumulator of the bytes skipped: for the binary protocols it equals the bytes consumed from an in-memory buffer (C07_skip_simulates_read), far below usize::MAX");
   (("mod.rs", "trait TInputProtocol :: skip_till_depth", "arith", "len += self.skip_till_depth(val_type, depth - 1)?;"),
      Guarded "skip_val" "`if depth == 0 { return Err(DepthLimit) }` at entry, so depth >= 1 here: skip_val matches d = S d'");
   (("mod.rs", "trait TInputProtocol :: skip_till_depth", "arith_assign", "len += self.map_end_len();"),
      Benign "usize accumulator of the bytes skipped: for the binary protocols it equals the bytes consumed from an in-memory buffer (C07_skip_simulates_read), far below usize::MAX");
   (("mod.rs", "trait TAsyncInputProtocol :: skip_till_depth", "loop", "loop {"),
      Modelled "askip_fields" "fuel-bounded in the model; every iteration awaits >= 1 byte");
   (("mod.rs", "trait TAsyncInputProtocol :: skip_till_depth", "arith", "self.skip_till_depth(field_ident.field_type, depth - 1)"),
      Guarded "askip_val" "`if depth == 0 { return Err(DepthLimit) }` at entry, so depth >= 1 here: askip_val matches d = S d'");
   (("mod.rs", "trait TAsyncInputProtocol :: skip_till_depth", "loop", "for _ in 0..list_ident.size {"),
      Modelled "askip_elems" "the count is NOT validated (a_coll_begin / a_map_begin: up to 2^64); the loop ends with an io error when the stream is exhausted because every element costs >= 1 byte (C12_async_total, aelems_starve)");
   (("mod.rs", "trait TAsyncInputProtocol :: skip_till_depth", "arith", "self.skip_till_depth(list_ident.element_type, depth - 1)"),
      Guarded "askip_val" "`if depth == 0 { return Err(DepthLimit) }` at entry, so depth >= 1 here: askip_val matches d = S d'");
   (("mod.rs", "trait TAsyncInputProtocol :: skip_till_depth", "loop", "for _ in 0..set_ident.size {"),
      Modelled "askip_elems" "the count is NOT validated (a_coll_begin / a_map_begin: up to 2^64); the loop ends with an io error when the stream is exhausted because every element costs >= 1 byte (C12_async_total, aelems_starve)");
   (("mod.rs", "trait TAsyncInputProtocol :: skip_till_depth", "arith", "self.skip_till_depth(set_ident.element_type, depth - 1)"),
      Guarded "askip_val" "`if depth == 0 { return Err(DepthLimit) }` at entry, so depth >= 1 here: askip_val matches d = S d'");
   (("mod.rs", "trait TAsyncInputProtocol :: skip_till_depth", "loop", "for _ in 0..map_ident.size {"),
      Modelled "askip_elems" "the count is NOT validated (a_coll_begin / a_map_begin: up to 2^64); the loop ends with an io error when the stream is exhausted because every element costs >= 1 byte (C12_async_total, aelems_starve)");
   (("mod.rs", "trait TAsyncInputProtocol :: skip_till_depth", "arith", "self.skip_till_depth(key_type, depth - 1).await?;"),
      Guarded "askip_val" "`if depth == 0 { return Err(DepthLimit) }` at entry, so depth >= 1 here: askip_val matches d = S d'");
   (("mod.rs", "trait TAsyncInputProtocol :: skip_till_depth", "arith", "self.skip_till_depth(val_type, depth - 1).await?;"),
      Guarded "askip_val" "`if depth == 0 { return Err(DepthLimit) }` at entry, so depth >= 1 here: askip_val matches d = S d'");
   (("mod.rs", "TryFrom<u8> for TType :: try_from", "cast", "match TTYPE_LOOKUP.get(value as usize) {"),
      Modelled "ttype_of_byte" "u8 -> usize widening; TTYPE_LOOKUP.get(..) is the checked accessor (nth_error)");
   (("rw_ext.rs", "macro io_read_impl", "unsafe", ".map(|src| unsafe { $typ::$conv(*(src as *const _ as *const [_; SIZE])) });"),
      Benign "reinterprets the slice returned by the CHECKED chunk().get(..SIZE) (exactly SIZE bytes) as [u8; SIZE]");
   (("rw_ext.rs", "macro io_read_impl", "advance", "$this.advance(SIZE);"),
      Guarded "r_take" "`if $this.remaining() < SIZE { return Err(NoRemaining) }` at the top of the arm, and get(..SIZE) was Some");
   (("rw_ext.rs", "macro io_read_impl", "copy_to", "$this.copy_to_slice(&mut buf);"),
      Guarded "r_take" "`if $this.remaining() < SIZE { return Err(NoRemaining) }` at the top of the arm: copy_to_slice of SIZE <= remaining bytes");
   (("rw_ext.rs", "macro io_read_impl", "assert", "debug_assert!(mem::size_of::<$typ>() >= $len_to_read);"),
      NotReached "arms `le =>` / `be =>` of io_read_impl: expanded only in read_uint / read_uint_le / read_int / read_int_le, which no Thrift reader calls");
   (("rw_ext.rs", "macro io_read_impl", "copy_to", "$this.copy_to_slice(&mut buf[..($len_to_read)]);"),
      NotReached "arms `le =>` / `be =>` of io_read_impl: expanded only in read_uint / read_uint_le / read_int / read_int_le, which no Thrift reader calls");
   (("rw_ext.rs", "macro io_read_impl", "index", "$this.copy_to_slice(&mut buf[..($len_to_read)]);"),
      NotReached "arms `le =>` / `be =>` of io_read_impl: expanded only in read_uint / read_uint_le / read_int / read_int_le, which no Thrift reader calls");
   (("rw_ext.rs", "macro io_read_impl", "assert", "debug_assert!(mem::size_of::<$typ>() >= $len_to_read);"),
      NotReached "arms `le =>` / `be =>` of io_read_impl: expanded only in read_uint / read_uint_le / read_int / read_int_le, which no Thrift reader calls");
   (("rw_ext.rs", "macro io_read_impl", "copy_to", "$this.copy_to_slice(&mut buf[mem::size_of::<$typ>() - ($len_to_read)..]);"),
      NotReached "arms `le =>` / `be =>` of io_read_impl: expanded only in read_uint / read_uint_le / read_int / read_int_le, which no Thrift reader calls");
   (("rw_ext.rs", "macro io_read_impl", "index", "$this.copy_to_slice(&mut buf[mem::size_of::<$typ>() - ($len_to_read)..]);"),
      NotReached "arms `le =>` / `be =>` of io_read_impl: expanded only in read_uint / read_uint_le / read_int / read_int_le, which no Thrift reader calls");
   (("rw_ext.rs", "macro io_read_impl", "arith", "$this.copy_to_slice(&mut buf[mem::size_of::<$typ>() - ($len_to_read)..]);"),
      NotReached "arms `le =>` / `be =>` of io_read_impl: expanded only in read_uint / read_uint_le / read_int / read_int_le, which no Thrift reader calls");
   (("rw_ext.rs", "split_to_checked", "split_to", "Ok(buf.split_to(len))"),
      Guarded "r_split" "assert_remaining!(len <= buf.len()) on the preceding line returns Err(NoRemaining) first (fix F-09a)");
   (("rw_ext.rs", "checked_container_size", "cast", "if size as usize > remaining {"),
      Modelled "check_size" "after `if size < 0 { return Err(NegativeSize) }`: a non-negative i32 widened to usize");
   (("rw_ext.rs", "checked_container_size", "cast", "Ok(size as usize)"),
      Modelled "check_size" "after `if size < 0 { return Err(NegativeSize) }`: a non-negative i32 widened to usize");
   (("rw_ext.rs", "read_exact_to_vec", "vec_n", "let mut v = vec![0; len];"),
      AllocBounded "rx_alloc" "inside `if len <= PREALLOC_LIMIT`: at most prealloc_limit bytes, requested before anything is received");
   (("rw_ext.rs", "read_exact_to_vec", "with_capacity", "let mut v = Vec::with_capacity(PREALLOC_LIMIT);"),
      AllocBounded "rx_alloc" "the constant PREALLOC_LIMIT (regenerated: prealloc_limit)");
   (("rw_ext.rs", "read_exact_to_vec", "reserve", "let n = reader.take(len as u64).read_to_end(&mut v).await?;"),
      AllocBounded "rx_alloc" "read_to_end of take(len): the Vec grows (amortised doubling) with the bytes actually received: <= 2 * min(len, delivered)");
   (("rw_ext.rs", "read_exact_to_vec", "cast", "let n = reader.take(len as u64).read_to_end(&mut v).await?;"),
      Benign "usize -> u64 widening");
   (("rw_ext.rs", "read_exact_to_vec", "convert", "return Err(std::io::ErrorKind::UnexpectedEof.into());"),
      ConstAlloc "io::Error from an ErrorKind: no wire-supplied size");
   (("rw_ext.rs", "ReadExt for B :: read_to_bytes", "with_capacity", "let mut ret = bytes::BytesMut::with_capacity(len);"),
      NotReached "ReadExt::read_to_bytes is not called by any Thrift reader (and the length test precedes the allocation)");
   (("rw_ext.rs", "ReadExt for B :: read_to_string", "vec_n", "let mut vec = vec![0; len];"),
      AllocBounded "r_bytes_alloc" "assert_remaining!(len <= remaining) on the preceding lines returns Err(NoRemaining) first: len bytes, len <= bytes present");
   (("rw_ext.rs", "ReadExt for B :: read_to_string", "unchecked", "unsafe { Ok(String::from_utf8_unchecked(vec)) }"),
      Benign "no UTF-8 validation by design: strings are byte lists in the model (DESIGN 3); decoded strings are never inspected on malformed input");
   (("rw_ext.rs", "ReadExt for B :: read_to_string", "unsafe", "unsafe { Ok(String::from_utf8_unchecked(vec)) }"),
      Benign "no UTF-8 validation by design: strings are byte lists in the model (DESIGN 3); decoded strings are never inspected on malformed input");
   (("rw_ext.rs", "ReadExt for B :: read_to_slice", "copy_to", "self.copy_to_slice(dst);"),
      Guarded "r_take" "assert_remaining!(remaining >= dst.len()) precedes: copy_to_slice of dst.len() <= remaining bytes (read_uuid: 16)");
   (("rw_ext.rs", "ReadExt for B :: read_u8", "index", "let ret = self.chunk()[0];"),
      Guarded "r_byte" "assert_remaining!(remaining >= 1) precedes; chunk() of a Buf with remaining >= 1 is non-empty (bytes::Buf contract, trusted base)");
   (("rw_ext.rs", "ReadExt for B :: read_u8", "advance", "self.advance(1);"),
      Guarded "r_byte" "assert_remaining!(remaining >= 1) precedes");
   (("rw_ext.rs", "ReadExt for B :: read_i8", "index", "let ret = self.chunk()[0] as i8;"),
      Guarded "r_i8" "assert_remaining!(remaining >= 1) precedes; chunk() of a Buf with remaining >= 1 is non-empty (bytes::Buf contract, trusted base)");
   (("rw_ext.rs", "ReadExt for B :: read_i8", "cast", "let ret = self.chunk()[0] as i8;"),
      Modelled "r_i8" "u8 as i8 = wrap_s 8");
   (("rw_ext.rs", "ReadExt for B :: read_i8", "advance", "self.advance(1);"),
      Guarded "r_i8" "assert_remaining!(remaining >= 1) precedes");
   (("varint_ext.rs", "VarIntExt for VI :: varint_max_size", "arith", "(size_of::<VI>() * 8 + 7) / 7"),
      Modelled "maxsize_32" "(size_of * 8 + 7) / 7 on compile-time sizes: maxsize_16 / maxsize_32 / maxsize_64 = 3 / 5 / 10");
   (("varint_ext.rs", "VarIntProcessor :: push", "index", "self.buf[self.i] = b;"),
      Guarded "rd_var" "`if self.i >= self.maxsize { return Err(..) }` precedes and maxsize <= 10 = buf.len() for every integer type up to 64 bits: rd_var k = 0 is the Err case");
   (("varint_ext.rs", "VarIntProcessor :: push", "arith_assign", "self.i += 1;"),
      Benign "i <= maxsize <= 10");
   (("varint_ext.rs", "VarIntProcessor :: finished", "index", "self.i > 0 && (self.buf[self.i - 1] & MSB == 0)"),
      Guarded "rd_var" "`self.i > 0 &&` short-circuits: the index i - 1 is within 0..i <= 10");
   (("varint_ext.rs", "VarIntProcessor :: finished", "arith", "self.i > 0 && (self.buf[self.i - 1] & MSB == 0)"),
      Guarded "rd_var" "`self.i > 0 &&` short-circuits: the index i - 1 is within 0..i <= 10");
   (("varint_ext.rs", "VarIntProcessor :: decode", "index", "Some(VI::decode_var(&self.buf[0..self.i])?.0)"),
      Guarded "rd_var" "i <= maxsize <= 10 = buf.len() (only push increments i)");
   (("binary.rs", "TLengthProtocol for TBinaryProtocol<T> :: message_begin_len", "arith", "self.i32_len(0) + self.faststr_len(&identifier.name) + self.i32_len(0)"),
      LenPassOnly "size pass over an in-memory value (C04): 4 + the length of an existing slice; no read_* / skip method calls it");
   (("binary.rs", "TLengthProtocol for TBinaryProtocol<T> :: field_begin_len", "arith", "self.byte_len(0) + self.i16_len(0)"),
      Modelled "hdr_count" "sum of the constants 1 / 2 / 4 (called by the default skipper: field header 3, list / set header 5, map header 6)");
   (("binary.rs", "TLengthProtocol for TBinaryProtocol<T> :: bytes_len", "arith", "self.i32_len(0) + b.len()"),
      LenPassOnly "size pass over an in-memory value (C04): 4 + the length of an existing slice; no read_* / skip method calls it");
   (("binary.rs", "TLengthProtocol for TBinaryProtocol<T> :: string_len", "arith", "self.i32_len(0) + s.len()"),
      LenPassOnly "size pass over an in-memory value (C04): 4 + the length of an existing slice; no read_* / skip method calls it");
   (("binary.rs", "TLengthProtocol for TBinaryProtocol<T> :: faststr_len", "arith", "self.i32_len(0) + s.len()"),
      LenPassOnly "size pass over an in-memory value (C04): 4 + the length of an existing slice; no read_* / skip method calls it");
   (("binary.rs", "TLengthProtocol for TBinaryProtocol<T> :: list_begin_len", "arith", "self.byte_len(0) + self.i32_len(0)"),
      Modelled "hdr_count" "sum of the constants 1 / 2 / 4 (called by the default skipper: field header 3, list / set header 5, map header 6)");
   (("binary.rs", "TLengthProtocol for TBinaryProtocol<T> :: set_begin_len", "arith", "self.byte_len(0) + self.i32_len(0)"),
      Modelled "hdr_count" "sum of the constants 1 / 2 / 4 (called by the default skipper: field header 3, list / set header 5, map header 6)");
   (("binary.rs", "TLengthProtocol for TBinaryProtocol<T> :: map_begin_len", "arith", "self.byte_len(0) + self.byte_len(0) + self.i32_len(0)"),
      Modelled "hdr_count" "sum of the constants 1 / 2 / 4 (called by the default skipper: field header 3, list / set header 5, map header 6)");
   (("binary.rs", "TLengthProtocol for TBinaryProtocol<T> :: bytes_vec_len", "arith", "self.i32_len(0) + b.len()"),
      LenPassOnly "size pass over an in-memory value (C04): 4 + the length of an existing slice; no read_* / skip method calls it");
   (("binary.rs", "TInputProtocol for TBinaryProtocol<&mut Bytes> :: read_message_begin", "cast", "let type_u8 = (size & 0xf) as u8;"),
      Modelled "r_message_begin" "size & 0xf, VERSION_MASK / VERSION as i32: Z.land on the i32, wrap_s 32 of the constants (Msg.r_message_begin)");
   (("binary.rs", "TInputProtocol for TBinaryProtocol<&mut Bytes> :: read_message_begin", "cast", "let version = size & (VERSION_MASK as i32);"),
      Modelled "r_message_begin" "size & 0xf, VERSION_MASK / VERSION as i32: Z.land on the i32, wrap_s 32 of the constants (Msg.r_message_begin)");
   (("binary.rs", "TInputProtocol for TBinaryProtocol<&mut Bytes> :: read_message_begin", "cast", "if version != (VERSION_1 as i32) {"),
      Modelled "r_message_begin" "size & 0xf, VERSION_MASK / VERSION as i32: Z.land on the i32, wrap_s 32 of the constants (Msg.r_message_begin)");
   (("binary.rs", "TInputProtocol for TBinaryProtocol<&mut Bytes> :: read_bytes", "cast", "Ok(split_to_checked(self.trans, len as usize)?)"),
      Modelled "r_len" "i32 length sign-extended to usize = wrap_u 64: a negative length is above every remaining length and is rejected by split_to_checked / assert_remaining (r_split)");
   (("binary.rs", "TInputProtocol for TBinaryProtocol<&mut Bytes> :: get_bytes", "copy_from", "Ok(Bytes::copy_from_slice(unsafe {"),
      CallerSupplied "get_bytes(ptr, len): both arguments are supplied by the caller, not read from the wire here; called only by emitted decoders (zero-copy / keep-unknown-fields paths, len = difference of two reader positions): generated level (fam/gen); the ptr = None arm goes through split_to_checked");
   (("binary.rs", "TInputProtocol for TBinaryProtocol<&mut Bytes> :: get_bytes", "unsafe", "Ok(Bytes::copy_from_slice(unsafe {"),
      CallerSupplied "get_bytes(ptr, len): both arguments are supplied by the caller, not read from the wire here; called only by emitted decoders (zero-copy / keep-unknown-fields paths, len = difference of two reader positions): generated level (fam/gen); the ptr = None arm goes through split_to_checked");
   (("binary.rs", "TInputProtocol for TBinaryProtocol<&mut Bytes> :: read_string", "cast", "Ok(self.trans.read_to_string(len as usize)?)"),
      Modelled "r_len" "i32 length sign-extended to usize = wrap_u 64: a negative length is above every remaining length and is rejected by split_to_checked / assert_remaining (r_split)");
   (("binary.rs", "TInputProtocol for TBinaryProtocol<&mut Bytes> :: read_faststr", "cast", "let len = self.trans.read_i32()? as usize;"),
      Modelled "r_len" "i32 length sign-extended to usize = wrap_u 64: a negative length is above every remaining length and is rejected by split_to_checked / assert_remaining (r_split)");
   (("binary.rs", "TInputProtocol for TBinaryProtocol<&mut Bytes> :: read_faststr", "unchecked", "unsafe { Ok(FastStr::from_bytes_unchecked(bytes)) }"),
      Benign "no UTF-8 validation by design: strings are byte lists in the model (DESIGN 3); decoded strings are never inspected on malformed input");
   (("binary.rs", "TInputProtocol for TBinaryProtocol<&mut Bytes> :: read_faststr", "unsafe", "unsafe { Ok(FastStr::from_bytes_unchecked(bytes)) }"),
      Benign "no UTF-8 validation by design: strings are byte lists in the model (DESIGN 3); decoded strings are never inspected on malformed input");
   (("binary.rs", "TInputProtocol for TBinaryProtocol<&mut Bytes> :: read_bytes_vec", "cast", "let len = self.trans.read_i32()? as usize;"),
      Modelled "r_len" "i32 length sign-extended to usize = wrap_u 64: a negative length is above every remaining length and is rejected by split_to_checked / assert_remaining (r_split)");
   (("binary.rs", "TInputProtocol for TBinaryProtocol<&mut Bytes> :: read_bytes_vec", "convert", "Ok(split_to_checked(self.trans, len)?.into())"),
      AllocBounded "r_bytes_alloc" "Bytes -> Vec<u8> copies the len bytes split_to_checked has just returned (len <= bytes present)");
   (("binary.rs", "TAsyncInputProtocol for TAsyncBinaryProtocol<R> :: read_message_begin", "cast", "let type_u8 = (size & 0xf) as u8;"),
      Benign "bit mask / constant reinterpretation, the same expression as in the in-memory read_message_begin (Msg.r_message_begin); the async envelope has no panic or allocation site of its own (its name goes through read_faststr -> read_exact_to_vec)");
   (("binary.rs", "TAsyncInputProtocol for TAsyncBinaryProtocol<R> :: read_message_begin", "cast", "let version = size & (VERSION_MASK as i32);"),
      Benign "bit mask / constant reinterpretation, the same expression as in the in-memory read_message_begin (Msg.r_message_begin); the async envelope has no panic or allocation site of its own (its name goes through read_faststr -> read_exact_to_vec)");
   (("binary.rs", "TAsyncInputProtocol for TAsyncBinaryProtocol<R> :: read_message_begin", "cast", "if version != (VERSION_1 as i32) {"),
      Benign "bit mask / constant reinterpretation, the same expression as in the in-memory read_message_begin (Msg.r_message_begin); the async envelope has no panic or allocation site of its own (its name goes through read_faststr -> read_exact_to_vec)");
   (("binary.rs", "TAsyncInputProtocol for TAsyncBinaryProtocol<R> :: read_bytes", "convert", "self.read_bytes_vec().await.map(Bytes::from)"),
      AllocBounded "a_bytes_alloc" "Bytes::from(Vec) keeps or shrinks the buffer read_exact_to_vec returned: no more than was charged there");
   (("binary.rs", "TAsyncInputProtocol for TAsyncBinaryProtocol<R> :: read_bytes_vec", "cast", "Ok(read_exact_to_vec(&mut self.reader, len as usize).await?)"),
      Modelled "a_bytes" "after `if len < 0 { return Err(NegativeSize) }`: a non-negative i32 widened to usize");
   (("binary.rs", "TAsyncInputProtocol for TAsyncBinaryProtocol<R> :: read_string", "unchecked", "Ok(unsafe { String::from_utf8_unchecked(v) })"),
      Benign "no UTF-8 validation by design: strings are byte lists in the model (DESIGN 3); decoded strings are never inspected on malformed input");
   (("binary.rs", "TAsyncInputProtocol for TAsyncBinaryProtocol<R> :: read_string", "unsafe", "Ok(unsafe { String::from_utf8_unchecked(v) })"),
      Benign "no UTF-8 validation by design: strings are byte lists in the model (DESIGN 3); decoded strings are never inspected on malformed input");
   (("binary.rs", "TAsyncInputProtocol for TAsyncBinaryProtocol<R> :: read_faststr", "convert", "self.read_string().await.map(FastStr::from_string)"),
      AllocBounded "a_bytes_alloc" "FastStr::from_string takes over (or copies inline) the String of len bytes just read: no more than was charged there");
   (("binary.rs", "TAsyncInputProtocol for TAsyncBinaryProtocol<R> :: read_list_begin", "cast", "Ok(TListIdentifier::new(element_type, size as usize))"),
      Modelled "a_coll_begin" "i32 size as usize = wrap_u 64, NOT validated (no remaining length to compare with): the element loop starves on a short stream (C12_async_total); a client must not preallocate from it (F-09e, generated level)");
   (("binary.rs", "TAsyncInputProtocol for TAsyncBinaryProtocol<R> :: read_set_begin", "cast", "Ok(TSetIdentifier::new(element_type, size as usize))"),
      Modelled "a_coll_begin" "i32 size as usize = wrap_u 64, NOT validated (no remaining length to compare with): the element loop starves on a short stream (C12_async_total); a client must not preallocate from it (F-09e, generated level)");
   (("binary.rs", "TAsyncInputProtocol for TAsyncBinaryProtocol<R> :: read_map_begin", "cast", "Ok(TMapIdentifier::new(key_type, value_type, size as usize))"),
      Modelled "a_map_begin" "i32 size as usize = wrap_u 64, NOT validated (no remaining length to compare with): the element loop starves on a short stream (C12_async_total); a client must not preallocate from it (F-09e, generated level)");
   (("binary_le.rs", "TLengthProtocol for TBinaryProtocol<T> :: message_begin_len", "arith", "self.i32_len(0) + self.faststr_len(&identifier.name) + self.i32_len(0)"),
      LenPassOnly "size pass over an in-memory value (C04): 4 + the length of an existing slice; no read_* / skip method calls it");
   (("binary_le.rs", "TLengthProtocol for TBinaryProtocol<T> :: field_begin_len", "arith", "self.byte_len(0) + self.i16_len(0)"),
      Modelled "hdr_count" "sum of the constants 1 / 2 / 4 (called by the default skipper: field header 3, list / set header 5, map header 6)");
   (("binary_le.rs", "TLengthProtocol for TBinaryProtocol<T> :: bytes_len", "arith", "self.i32_len(0) + b.len()"),
      LenPassOnly "size pass over an in-memory value (C04): 4 + the length of an existing slice; no read_* / skip method calls it");
   (("binary_le.rs", "TLengthProtocol for TBinaryProtocol<T> :: string_len", "arith", "self.i32_len(0) + s.len()"),
      LenPassOnly "size pass over an in-memory value (C04): 4 + the length of an existing slice; no read_* / skip method calls it");
   (("binary_le.rs", "TLengthProtocol for TBinaryProtocol<T> :: faststr_len", "arith", "self.i32_len(0) + s.len()"),
      LenPassOnly "size pass over an in-memory value (C04): 4 + the length of an existing slice; no read_* / skip method calls it");
   (("binary_le.rs", "TLengthProtocol for TBinaryProtocol<T> :: list_begin_len", "arith", "self.byte_len(0) + self.i32_len(0)"),
      Modelled "hdr_count" "sum of the constants 1 / 2 / 4 (called by the default skipper: field header 3, list / set header 5, map header 6)");
   (("binary_le.rs", "TLengthProtocol for TBinaryProtocol<T> :: set_begin_len", "arith", "self.byte_len(0) + self.i32_len(0)"),
      Modelled "hdr_count" "sum of the constants 1 / 2 / 4 (called by the default skipper: field header 3, list / set header 5, map header 6)");
   (("binary_le.rs", "TLengthProtocol for TBinaryProtocol<T> :: map_begin_len", "arith", "self.byte_len(0) + self.byte_len(0) + self.i32_len(0)"),
      Modelled "hdr_count" "sum of the constants 1 / 2 / 4 (called by the default skipper: field header 3, list / set header 5, map header 6)");
   (("binary_le.rs", "TLengthProtocol for TBinaryProtocol<T> :: bytes_vec_len", "arith", "self.i32_len(0) + b.len()"),
      LenPassOnly "size pass over an in-memory value (C04): 4 + the length of an existing slice; no read_* / skip method calls it");
   (("binary_le.rs", "TAsyncInputProtocol for TAsyncBinaryProtocol<R> :: read_message_begin", "cast", "let type_u8 = (size & 0xf) as u8;"),
      Benign "bit mask / constant reinterpretation, the same expression as in the in-memory read_message_begin (Msg.r_message_begin); the async envelope has no panic or allocation site of its own (its name goes through read_faststr -> read_exact_to_vec)");
   (("binary_le.rs", "TAsyncInputProtocol for TAsyncBinaryProtocol<R> :: read_message_begin", "cast", "let version = size & (VERSION_MASK as i32);"),
      Benign "bit mask / constant reinterpretation, the same expression as in the in-memory read_message_begin (Msg.r_message_begin); the async envelope has no panic or allocation site of its own (its name goes through read_faststr -> read_exact_to_vec)");
   (("binary_le.rs", "TAsyncInputProtocol for TAsyncBinaryProtocol<R> :: read_message_begin", "cast", "if version != (VERSION_LE as i32) {"),
      Benign "bit mask / constant reinterpretation, the same expression as in the in-memory read_message_begin (Msg.r_message_begin); the async envelope has no panic or allocation site of its own (its name goes through read_faststr -> read_exact_to_vec)");
   (("binary_le.rs", "TAsyncInputProtocol for TAsyncBinaryProtocol<R> :: read_bytes", "convert", "self.read_bytes_vec().await.map(Bytes::from)"),
      AllocBounded "a_bytes_alloc" "Bytes::from(Vec) keeps or shrinks the buffer read_exact_to_vec returned: no more than was charged there");
   (("binary_le.rs", "TAsyncInputProtocol for TAsyncBinaryProtocol<R> :: read_bytes_vec", "cast", "Ok(read_exact_to_vec(&mut self.reader, len as usize).await?)"),
      Modelled "a_bytes" "after `if len < 0 { return Err(NegativeSize) }`: a non-negative i32 widened to usize");
   (("binary_le.rs", "TAsyncInputProtocol for TAsyncBinaryProtocol<R> :: read_string", "unchecked", "Ok(unsafe { String::from_utf8_unchecked(v) })"),
      Benign "no UTF-8 validation by design: strings are byte lists in the model (DESIGN 3); decoded strings are never inspected on malformed input");
   (("binary_le.rs", "TAsyncInputProtocol for TAsyncBinaryProtocol<R> :: read_string", "unsafe", "Ok(unsafe { String::from_utf8_unchecked(v) })"),
      Benign "no UTF-8 validation by design: strings are byte lists in the model (DESIGN 3); decoded strings are never inspected on malformed input");
   (("binary_le.rs", "TAsyncInputProtocol for TAsyncBinaryProtocol<R> :: read_faststr", "convert", "self.read_string().await.map(FastStr::from_string)"),
      AllocBounded "a_bytes_alloc" "FastStr::from_string takes over (or copies inline) the String of len bytes just read: no more than was charged there");
   (("binary_le.rs", "TAsyncInputProtocol for TAsyncBinaryProtocol<R> :: read_list_begin", "cast", "Ok(TListIdentifier::new(element_type, size as usize))"),
      Modelled "a_coll_begin" "i32 size as usize = wrap_u 64, NOT validated (no remaining length to compare with): the element loop starves on a short stream (C12_async_total); a client must not preallocate from it (F-09e, generated level)");
   (("binary_le.rs", "TAsyncInputProtocol for TAsyncBinaryProtocol<R> :: read_set_begin", "cast", "Ok(TSetIdentifier::new(element_type, size as usize))"),
      Modelled "a_coll_begin" "i32 size as usize = wrap_u 64, NOT validated (no remaining length to compare with): the element loop starves on a short stream (C12_async_total); a client must not preallocate from it (F-09e, generated level)");
   (("binary_le.rs", "TAsyncInputProtocol for TAsyncBinaryProtocol<R> :: read_map_begin", "cast", "Ok(TMapIdentifier::new(key_type, value_type, size as usize))"),
      Modelled "a_map_begin" "i32 size as usize = wrap_u 64, NOT validated (no remaining length to compare with): the element loop starves on a short stream (C12_async_total); a client must not preallocate from it (F-09e, generated level)");
   (("binary_le.rs", "TInputProtocol for TBinaryProtocol<&mut Bytes> :: read_message_begin", "cast", "let type_u8 = (size & 0xf) as u8;"),
      Modelled "r_message_begin" "size & 0xf, VERSION_MASK / VERSION as i32: Z.land on the i32, wrap_s 32 of the constants (Msg.r_message_begin)");
   (("binary_le.rs", "TInputProtocol for TBinaryProtocol<&mut Bytes> :: read_message_begin", "cast", "let version = size & (VERSION_MASK as i32);"),
      Modelled "r_message_begin" "size & 0xf, VERSION_MASK / VERSION as i32: Z.land on the i32, wrap_s 32 of the constants (Msg.r_message_begin)");
   (("binary_le.rs", "TInputProtocol for TBinaryProtocol<&mut Bytes> :: read_message_begin", "cast", "if version != (VERSION_LE as i32) {"),
      Modelled "r_message_begin" "size & 0xf, VERSION_MASK / VERSION as i32: Z.land on the i32, wrap_s 32 of the constants (Msg.r_message_begin)");
   (("binary_le.rs", "TInputProtocol for TBinaryProtocol<&mut Bytes> :: read_bytes", "cast", "Ok(split_to_checked(self.trans, len as usize)?)"),
      Modelled "r_len" "i32 length sign-extended to usize = wrap_u 64: a negative length is above every remaining length and is rejected by split_to_checked / assert_remaining (r_split)");
   (("binary_le.rs", "TInputProtocol for TBinaryProtocol<&mut Bytes> :: get_bytes", "copy_from", "Ok(Bytes::copy_from_slice(unsafe {"),
      CallerSupplied "get_bytes(ptr, len): both arguments are supplied by the caller, not read from the wire here; called only by emitted decoders (zero-copy / keep-unknown-fields paths, len = difference of two reader positions): generated level (fam/gen); the ptr = None arm goes through split_to_checked");
   (("binary_le.rs", "TInputProtocol for TBinaryProtocol<&mut Bytes> :: get_bytes", "unsafe", "Ok(Bytes::copy_from_slice(unsafe {"),
      CallerSupplied "get_bytes(ptr, len): both arguments are supplied by the caller, not read from the wire here; called only by emitted decoders (zero-copy / keep-unknown-fields paths, len = difference of two reader positions): generated level (fam/gen); the ptr = None arm goes through split_to_checked");
   (("binary_le.rs", "TInputProtocol for TBinaryProtocol<&mut Bytes> :: read_string", "cast", "Ok(self.trans.read_to_string(len as usize)?)"),
      Modelled "r_len" "i32 length sign-extended to usize = wrap_u 64: a negative length is above every remaining length and is rejected by split_to_checked / assert_remaining (r_split)");
   (("binary_le.rs", "TInputProtocol for TBinaryProtocol<&mut Bytes> :: read_faststr", "cast", "let len = self.trans.read_i32_le()? as usize;"),
      Modelled "r_len" "i32 length sign-extended to usize = wrap_u 64: a negative length is above every remaining length and is rejected by split_to_checked / assert_remaining (r_split)");
   (("binary_le.rs", "TInputProtocol for TBinaryProtocol<&mut Bytes> :: read_faststr", "unchecked", "unsafe { Ok(FastStr::from_bytes_unchecked(bytes)) }"),
      Benign "no UTF-8 validation by design: strings are byte lists in the model (DESIGN 3); decoded strings are never inspected on malformed input");
   (("binary_le.rs", "TInputProtocol for TBinaryProtocol<&mut Bytes> :: read_faststr", "unsafe", "unsafe { Ok(FastStr::from_bytes_unchecked(bytes)) }"),
      Benign "no UTF-8 validation by design: strings are byte lists in the model (DESIGN 3); decoded strings are never inspected on malformed input");
   (("binary_le.rs", "TInputProtocol for TBinaryProtocol<&mut Bytes> :: read_bytes_vec", "cast", "let len = self.trans.read_i32_le()? as usize;"),
      Modelled "r_len" "i32 length sign-extended to usize = wrap_u 64: a negative length is above every remaining length and is rejected by split_to_checked / assert_remaining (r_split)");
   (("binary_le.rs", "TInputProtocol for TBinaryProtocol<&mut Bytes> :: read_bytes_vec", "convert", "Ok(split_to_checked(self.trans, len)?.into())"),
      AllocBounded "r_bytes_alloc" "Bytes -> Vec<u8> copies the len bytes split_to_checked has just returned (len <= bytes present)");
   (("compact.rs", "TAsyncInputProtocol for TAsyncCompactProtocol<R> :: read_message_begin", "cast", "let sequence_number = self.read_varint_async::<u32>().await? as i32;"),
      Benign "bit mask / constant reinterpretation, the same expression as in the in-memory read_message_begin (Msg.r_message_begin); the async envelope has no panic or allocation site of its own (its name goes through read_faststr -> read_exact_to_vec)");
   (("compact.rs", "TAsyncInputProtocol for TAsyncCompactProtocol<R> :: read_struct_begin", "push", "self.read_field_id_stack.push(self.last_read_field_id);"),
      AllocBounded "read_val_a" "one i16 slot per struct begun: p_struct_cost = stack_cost PCompact = 1, charged at every struct begin");
   (("compact.rs", "TAsyncInputProtocol for TAsyncCompactProtocol<R> :: read_field_begin", "wrapping", "self.last_read_field_id.wrapping_add(field_delta as i16);"),
      Modelled "a_field_begin" "wrap_s 16 (r_last + delta) (fix F-01c: wrapping_add instead of +=)");
   (("compact.rs", "TAsyncInputProtocol for TAsyncCompactProtocol<R> :: read_field_begin", "cast", "self.last_read_field_id.wrapping_add(field_delta as i16);"),
      Modelled "a_field_begin" "field_delta is a nibble 1..15: fits i16");
   (("compact.rs", "TAsyncInputProtocol for TAsyncCompactProtocol<R> :: read_bytes", "convert", "self.read_bytes_vec().await.map(Bytes::from)"),
      AllocBounded "a_bytes_alloc" "Bytes::from(Vec) keeps or shrinks the buffer read_exact_to_vec returned: no more than was charged there");
   (("compact.rs", "TAsyncInputProtocol for TAsyncCompactProtocol<R> :: read_bytes_vec", "cast", "let size = self.read_varint_async::<u32>().await? as usize;"),
      Modelled "a_bytes" "u32 widened to usize: wrap_u 32 n");
   (("compact.rs", "TAsyncInputProtocol for TAsyncCompactProtocol<R> :: read_string", "unchecked", "Ok(unsafe { String::from_utf8_unchecked(v) })"),
      Benign "no UTF-8 validation by design: strings are byte lists in the model (DESIGN 3); decoded strings are never inspected on malformed input");
   (("compact.rs", "TAsyncInputProtocol for TAsyncCompactProtocol<R> :: read_string", "unsafe", "Ok(unsafe { String::from_utf8_unchecked(v) })"),
      Benign "no UTF-8 validation by design: strings are byte lists in the model (DESIGN 3); decoded strings are never inspected on malformed input");
   (("compact.rs", "TAsyncInputProtocol for TAsyncCompactProtocol<R> :: read_faststr", "convert", "self.read_string().await.map(FastStr::from_string)"),
      AllocBounded "a_bytes_alloc" "FastStr::from_string takes over (or copies inline) the String of len bytes just read: no more than was charged there");
   (("compact.rs", "TAsyncInputProtocol for TAsyncCompactProtocol<R> :: read_map_begin", "cast", "let element_count = self.read_varint_async::<u32>().await? as i32;"),
      Modelled "a_map_begin" "u32 as i32 = wrap_s 32; then as usize = wrap_u 64, NOT validated: see a_coll_begin");
   (("compact.rs", "TAsyncInputProtocol for TAsyncCompactProtocol<R> :: read_map_begin", "cast", "element_count as usize,"),
      Modelled "a_map_begin" "u32 as i32 = wrap_s 32; then as usize = wrap_u 64, NOT validated: see a_coll_begin");
   (("compact.rs", "TAsyncCompactProtocol<R> :: read_collection_begin", "cast", "possible_element_count as i32"),
      Modelled "a_coll_begin" "nibble as i32 / u32 as i32 = wrap_s 32, then as usize = wrap_u 64, NOT validated (the element loop starves: C12_async_total; F-09e for preallocating clients)");
   (("compact.rs", "TAsyncCompactProtocol<R> :: read_collection_begin", "cast", "self.read_varint_async::<u32>().await? as i32"),
      Modelled "a_coll_begin" "nibble as i32 / u32 as i32 = wrap_s 32, then as usize = wrap_u 64, NOT validated (the element loop starves: C12_async_total; F-09e for preallocating clients)");
   (("compact.rs", "TAsyncCompactProtocol<R> :: read_collection_begin", "cast", "Ok((element_type, element_count as usize))"),
      Modelled "a_coll_begin" "nibble as i32 / u32 as i32 = wrap_s 32, then as usize = wrap_u 64, NOT validated (the element loop starves: C12_async_total; F-09e for preallocating clients)");
   (("compact.rs", "TAsyncCompactProtocol<R> :: read_varint_async", "loop", "while !p.finished() {"),
      Modelled "rd_var" "at most maxsize + 1 iterations: push fails when the processor is full (rd_var k = 0)");
   (("compact.rs", "TAsyncCompactProtocol<R> :: read_varint_async", "push", "p.push(read)?;"),
      Guarded "rd_var" "VarIntProcessor::push into a fixed [u8; 10]: returns Err when full, allocates nothing");
   (("compact.rs", "TCompactInputProtocol<T> :: new", "with_capacity", "read_field_id_stack: Vec::with_capacity(24),"),
      ConstAlloc "constant capacity 24 i16 slots, not wire-supplied");
   (("compact.rs", "TCompactInputProtocol<T> :: assert_no_pending_bool_read", "panic", "panic!("""", f);"),
      ModelledOutcome SPendingBoolRead "reachable from the *_len methods only (LenPassOnly): TLengthProtocol method of the reader object: no read_* / skip method of the runtime calls it (the compact skipper counts before - after); the emitted decoders call field_begin_len / field_end_len / field_stop_len on the reader: modelled at the generated level (fam/gen Gen.r_field_begin_len, r_assert_no_pending: Panic SPendingBoolTwice / SPendingBoolRead / SUnwrap)");
   (("compact.rs", "TCompactInputProtocol<&mut Bytes> :: read_varint", "loop", "while !p.finished() {"),
      Modelled "rd_var" "at most maxsize + 1 iterations: push fails when the processor is full (rd_var k = 0)");
   (("compact.rs", "TCompactInputProtocol<&mut Bytes> :: read_varint", "push", "p.push(read)?;"),
      Guarded "rd_var" "VarIntProcessor::push into a fixed [u8; 10]: returns Err when full, allocates nothing");
   (("compact.rs", "TCompactInputProtocol<&mut Bytes> :: read_collection_begin", "cast", "possible_element_count as i32"),
      Modelled "r_coll_begin" "nibble as i32 / u32 as i32 = wrap_s 32; validated by checked_container_size (check_size) before it is returned");
   (("compact.rs", "TCompactInputProtocol<&mut Bytes> :: read_collection_begin", "cast", "self.read_varint::<u32>()? as i32"),
      Modelled "r_coll_begin" "nibble as i32 / u32 as i32 = wrap_s 32; validated by checked_container_size (check_size) before it is returned");
   (("compact.rs", "macro read_field_header_len", "cast", "let field_delta = $id as i32 - $self.last_read_field_id as i32;"),
      LenPassOnly "TLengthProtocol method of the reader object: no read_* / skip method of the runtime calls it (the compact skipper counts before - after); the emitted decoders call field_begin_len / field_end_len / field_stop_len on the reader: modelled at the generated level (fam/gen Gen.r_field_begin_len, r_assert_no_pending: Panic SPendingBoolTwice / SPendingBoolRead / SUnwrap)");
   (("compact.rs", "macro read_field_header_len", "arith", "let field_delta = $id as i32 - $self.last_read_field_id as i32;"),
      LenPassOnly "TLengthProtocol method of the reader object: no read_* / skip method of the runtime calls it (the compact skipper counts before - after); the emitted decoders call field_begin_len / field_end_len / field_stop_len on the reader: modelled at the generated level (fam/gen Gen.r_field_begin_len, r_assert_no_pending: Panic SPendingBoolTwice / SPendingBoolRead / SUnwrap)");
   (("compact.rs", "macro read_field_header_len", "arith_assign", "$ax += $self.byte_len(0);"),
      LenPassOnly "TLengthProtocol method of the reader object: no read_* / skip method of the runtime calls it (the compact skipper counts before - after); the emitted decoders call field_begin_len / field_end_len / field_stop_len on the reader: modelled at the generated level (fam/gen Gen.r_field_begin_len, r_assert_no_pending: Panic SPendingBoolTwice / SPendingBoolRead / SUnwrap)");
   (("compact.rs", "macro read_field_header_len", "cast", "$ax += $self.byte_len($field_type as u8);"),
      LenPassOnly "TLengthProtocol method of the reader object: no read_* / skip method of the runtime calls it (the compact skipper counts before - after); the emitted decoders call field_begin_len / field_end_len / field_stop_len on the reader: modelled at the generated level (fam/gen Gen.r_field_begin_len, r_assert_no_pending: Panic SPendingBoolTwice / SPendingBoolRead / SUnwrap)");
   (("compact.rs", "macro read_field_header_len", "arith_assign", "$ax += $self.byte_len($field_type as u8);"),
      LenPassOnly "TLengthProtocol method of the reader object: no read_* / skip method of the runtime calls it (the compact skipper counts before - after); the emitted decoders call field_begin_len / field_end_len / field_stop_len on the reader: modelled at the generated level (fam/gen Gen.r_field_begin_len, r_assert_no_pending: Panic SPendingBoolTwice / SPendingBoolRead / SUnwrap)");
   (("compact.rs", "macro read_field_header_len", "arith_assign", "$ax += $self.i16_len($id);"),
      LenPassOnly "TLengthProtocol method of the reader object: no read_* / skip method of the runtime calls it (the compact skipper counts before - after); the emitted decoders call field_begin_len / field_end_len / field_stop_len on the reader: modelled at the generated level (fam/gen Gen.r_field_begin_len, r_assert_no_pending: Panic SPendingBoolTwice / SPendingBoolRead / SUnwrap)");
   (("compact.rs", "TLengthProtocol for TCompactInputProtocol<T> :: message_begin_len", "cast", "2 + VarInt::required_space(ident.sequence_number as u32) + self.faststr_len(&ident.name)"),
      LenPassOnly "TLengthProtocol method of the reader object: no read_* / skip method of the runtime calls it (the compact skipper counts before - after); the emitted decoders call field_begin_len / field_end_len / field_stop_len on the reader: modelled at the generated level (fam/gen Gen.r_field_begin_len, r_assert_no_pending: Panic SPendingBoolTwice / SPendingBoolRead / SUnwrap)");
   (("compact.rs", "TLengthProtocol for TCompactInputProtocol<T> :: message_begin_len", "arith", "2 + VarInt::required_space(ident.sequence_number as u32) + self.faststr_len(&ident.name)"),
      LenPassOnly "TLengthProtocol method of the reader object: no read_* / skip method of the runtime calls it (the compact skipper counts before - after); the emitted decoders call field_begin_len / field_end_len / field_stop_len on the reader: modelled at the generated level (fam/gen Gen.r_field_begin_len, r_assert_no_pending: Panic SPendingBoolTwice / SPendingBoolRead / SUnwrap)");
   (("compact.rs", "TLengthProtocol for TCompactInputProtocol<T> :: message_end_len", "call_panics", "self.assert_no_pending_bool_read();"),
      LenPassOnly "TLengthProtocol method of the reader object: no read_* / skip method of the runtime calls it (the compact skipper counts before - after); the emitted decoders call field_begin_len / field_end_len / field_stop_len on the reader: modelled at the generated level (fam/gen Gen.r_field_begin_len, r_assert_no_pending: Panic SPendingBoolTwice / SPendingBoolRead / SUnwrap)");
   (("compact.rs", "TLengthProtocol for TCompactInputProtocol<T> :: struct_begin_len", "push", "self.read_field_id_stack.push(self.last_read_field_id);"),
      LenPassOnly "TLengthProtocol method of the reader object: no read_* / skip method of the runtime calls it (the compact skipper counts before - after); the emitted decoders call field_begin_len / field_end_len / field_stop_len on the reader: modelled at the generated level (fam/gen Gen.r_field_begin_len, r_assert_no_pending: Panic SPendingBoolTwice / SPendingBoolRead / SUnwrap)");
   (("compact.rs", "TLengthProtocol for TCompactInputProtocol<T> :: struct_end_len", "call_panics", "self.assert_no_pending_bool_read();"),
      LenPassOnly "TLengthProtocol method of the reader object: no read_* / skip method of the runtime calls it (the compact skipper counts before - after); the emitted decoders call field_begin_len / field_end_len / field_stop_len on the reader: modelled at the generated level (fam/gen Gen.r_field_begin_len, r_assert_no_pending: Panic SPendingBoolTwice / SPendingBoolRead / SUnwrap)");
   (("compact.rs", "TLengthProtocol for TCompactInputProtocol<T> :: struct_end_len", "unwrap", ".unwrap();"),
      LenPassOnly "TLengthProtocol method of the reader object: no read_* / skip method of the runtime calls it (the compact skipper counts before - after); the emitted decoders call field_begin_len / field_end_len / field_stop_len on the reader: modelled at the generated level (fam/gen Gen.r_field_begin_len, r_assert_no_pending: Panic SPendingBoolTwice / SPendingBoolRead / SUnwrap)");
   (("compact.rs", "TLengthProtocol for TCompactInputProtocol<T> :: field_begin_len", "panic", "panic!("),
      LenPassOnly "TLengthProtocol method of the reader object: no read_* / skip method of the runtime calls it (the compact skipper counts before - after); the emitted decoders call field_begin_len / field_end_len / field_stop_len on the reader: modelled at the generated level (fam/gen Gen.r_field_begin_len, r_assert_no_pending: Panic SPendingBoolTwice / SPendingBoolRead / SUnwrap)");
   (("compact.rs", "TLengthProtocol for TCompactInputProtocol<T> :: field_begin_len", "unwrap", "let tc_field_type = TCompactType::try_from(field_type).unwrap();"),
      LenPassOnly "TLengthProtocol method of the reader object: no read_* / skip method of the runtime calls it (the compact skipper counts before - after); the emitted decoders call field_begin_len / field_end_len / field_stop_len on the reader: modelled at the generated level (fam/gen Gen.r_field_begin_len, r_assert_no_pending: Panic SPendingBoolTwice / SPendingBoolRead / SUnwrap)");
   (("compact.rs", "TLengthProtocol for TCompactInputProtocol<T> :: field_begin_len", "expect", "read_field_header_len!(self, ax, tc_field_type, id.expect(""""));"),
      LenPassOnly "TLengthProtocol method of the reader object: no read_* / skip method of the runtime calls it (the compact skipper counts before - after); the emitted decoders call field_begin_len / field_end_len / field_stop_len on the reader: modelled at the generated level (fam/gen Gen.r_field_begin_len, r_assert_no_pending: Panic SPendingBoolTwice / SPendingBoolRead / SUnwrap)");
   (("compact.rs", "TLengthProtocol for TCompactInputProtocol<T> :: field_end_len", "call_panics", "self.assert_no_pending_bool_read();"),
      LenPassOnly "TLengthProtocol method of the reader object: no read_* / skip method of the runtime calls it (the compact skipper counts before - after); the emitted decoders call field_begin_len / field_end_len / field_stop_len on the reader: modelled at the generated level (fam/gen Gen.r_field_begin_len, r_assert_no_pending: Panic SPendingBoolTwice / SPendingBoolRead / SUnwrap)");
   (("compact.rs", "TLengthProtocol for TCompactInputProtocol<T> :: field_stop_len", "call_panics", "self.assert_no_pending_bool_read();"),
      LenPassOnly "TLengthProtocol method of the reader object: no read_* / skip method of the runtime calls it (the compact skipper counts before - after); the emitted decoders call field_begin_len / field_end_len / field_stop_len on the reader: modelled at the generated level (fam/gen Gen.r_field_begin_len, r_assert_no_pending: Panic SPendingBoolTwice / SPendingBoolRead / SUnwrap)");
   (("compact.rs", "TLengthProtocol for TCompactInputProtocol<T> :: field_stop_len", "cast", "self.byte_len(TType::Stop as u8)"),
      LenPassOnly "TLengthProtocol method of the reader object: no read_* / skip method of the runtime calls it (the compact skipper counts before - after); the emitted decoders call field_begin_len / field_end_len / field_stop_len on the reader: modelled at the generated level (fam/gen Gen.r_field_begin_len, r_assert_no_pending: Panic SPendingBoolTwice / SPendingBoolRead / SUnwrap)");
   (("compact.rs", "TLengthProtocol for TCompactInputProtocol<T> :: bool_len", "expect", "let field_id = pending.id.expect("""");"),
      LenPassOnly "TLengthProtocol method of the reader object: no read_* / skip method of the runtime calls it (the compact skipper counts before - after); the emitted decoders call field_begin_len / field_end_len / field_stop_len on the reader: modelled at the generated level (fam/gen Gen.r_field_begin_len, r_assert_no_pending: Panic SPendingBoolTwice / SPendingBoolRead / SUnwrap)");
   (("compact.rs", "TLengthProtocol for TCompactInputProtocol<T> :: bool_len", "cast", "TCompactType::BooleanTrue as u8"),
      LenPassOnly "TLengthProtocol method of the reader object: no read_* / skip method of the runtime calls it (the compact skipper counts before - after); the emitted decoders call field_begin_len / field_end_len / field_stop_len on the reader: modelled at the generated level (fam/gen Gen.r_field_begin_len, r_assert_no_pending: Panic SPendingBoolTwice / SPendingBoolRead / SUnwrap)");
   (("compact.rs", "TLengthProtocol for TCompactInputProtocol<T> :: bool_len", "cast", "TCompactType::BooleanFalse as u8"),
      LenPassOnly "TLengthProtocol method of the reader object: no read_* / skip method of the runtime calls it (the compact skipper counts before - after); the emitted decoders call field_begin_len / field_end_len / field_stop_len on the reader: modelled at the generated level (fam/gen Gen.r_field_begin_len, r_assert_no_pending: Panic SPendingBoolTwice / SPendingBoolRead / SUnwrap)");
   (("compact.rs", "TLengthProtocol for TCompactInputProtocol<T> :: bytes_len", "cast", "VarInt::required_space(b.len() as u32) + b.len()"),
      LenPassOnly "TLengthProtocol method of the reader object: no read_* / skip method of the runtime calls it (the compact skipper counts before - after); the emitted decoders call field_begin_len / field_end_len / field_stop_len on the reader: modelled at the generated level (fam/gen Gen.r_field_begin_len, r_assert_no_pending: Panic SPendingBoolTwice / SPendingBoolRead / SUnwrap)");
   (("compact.rs", "TLengthProtocol for TCompactInputProtocol<T> :: bytes_len", "arith", "VarInt::required_space(b.len() as u32) + b.len()"),
      LenPassOnly "TLengthProtocol method of the reader object: no read_* / skip method of the runtime calls it (the compact skipper counts before - after); the emitted decoders call field_begin_len / field_end_len / field_stop_len on the reader: modelled at the generated level (fam/gen Gen.r_field_begin_len, r_assert_no_pending: Panic SPendingBoolTwice / SPendingBoolRead / SUnwrap)");
   (("compact.rs", "TLengthProtocol for TCompactInputProtocol<T> :: string_len", "cast", "VarInt::required_space(s.len() as u32) + s.len()"),
      LenPassOnly "TLengthProtocol method of the reader object: no read_* / skip method of the runtime calls it (the compact skipper counts before - after); the emitted decoders call field_begin_len / field_end_len / field_stop_len on the reader: modelled at the generated level (fam/gen Gen.r_field_begin_len, r_assert_no_pending: Panic SPendingBoolTwice / SPendingBoolRead / SUnwrap)");
   (("compact.rs", "TLengthProtocol for TCompactInputProtocol<T> :: string_len", "arith", "VarInt::required_space(s.len() as u32) + s.len()"),
      LenPassOnly "TLengthProtocol method of the reader object: no read_* / skip method of the runtime calls it (the compact skipper counts before - after); the emitted decoders call field_begin_len / field_end_len / field_stop_len on the reader: modelled at the generated level (fam/gen Gen.r_field_begin_len, r_assert_no_pending: Panic SPendingBoolTwice / SPendingBoolRead / SUnwrap)");
   (("compact.rs", "TLengthProtocol for TCompactInputProtocol<T> :: faststr_len", "cast", "VarInt::required_space(s.len() as u32) + s.len()"),
      LenPassOnly "TLengthProtocol method of the reader object: no read_* / skip method of the runtime calls it (the compact skipper counts before - after); the emitted decoders call field_begin_len / field_end_len / field_stop_len on the reader: modelled at the generated level (fam/gen Gen.r_field_begin_len, r_assert_no_pending: Panic SPendingBoolTwice / SPendingBoolRead / SUnwrap)");
   (("compact.rs", "TLengthProtocol for TCompactInputProtocol<T> :: faststr_len", "arith", "VarInt::required_space(s.len() as u32) + s.len()"),
      LenPassOnly "TLengthProtocol method of the reader object: no read_* / skip method of the runtime calls it (the compact skipper counts before - after); the emitted decoders call field_begin_len / field_end_len / field_stop_len on the reader: modelled at the generated level (fam/gen Gen.r_field_begin_len, r_assert_no_pending: Panic SPendingBoolTwice / SPendingBoolRead / SUnwrap)");
   (("compact.rs", "TLengthProtocol for TCompactInputProtocol<T> :: list_begin_len", "cast", "((identifier.size as i32) << 4) as u8"),
      LenPassOnly "TLengthProtocol method of the reader object: no read_* / skip method of the runtime calls it (the compact skipper counts before - after); the emitted decoders call field_begin_len / field_end_len / field_stop_len on the reader: modelled at the generated level (fam/gen Gen.r_field_begin_len, r_assert_no_pending: Panic SPendingBoolTwice / SPendingBoolRead / SUnwrap)");
   (("compact.rs", "TLengthProtocol for TCompactInputProtocol<T> :: list_begin_len", "unwrap", "| (tcompact_get_compact(identifier.element_type).unwrap() as u8),"),
      LenPassOnly "TLengthProtocol method of the reader object: no read_* / skip method of the runtime calls it (the compact skipper counts before - after); the emitted decoders call field_begin_len / field_end_len / field_stop_len on the reader: modelled at the generated level (fam/gen Gen.r_field_begin_len, r_assert_no_pending: Panic SPendingBoolTwice / SPendingBoolRead / SUnwrap)");
   (("compact.rs", "TLengthProtocol for TCompactInputProtocol<T> :: list_begin_len", "cast", "| (tcompact_get_compact(identifier.element_type).unwrap() as u8),"),
      LenPassOnly "TLengthProtocol method of the reader object: no read_* / skip method of the runtime calls it (the compact skipper counts before - after); the emitted decoders call field_begin_len / field_end_len / field_stop_len on the reader: modelled at the generated level (fam/gen Gen.r_field_begin_len, r_assert_no_pending: Panic SPendingBoolTwice / SPendingBoolRead / SUnwrap)");
   (("compact.rs", "TLengthProtocol for TCompactInputProtocol<T> :: list_begin_len", "unwrap", "self.byte_len(0xF0 | (tcompact_get_compact(identifier.element_type).unwrap() as u8))"),
      LenPassOnly "TLengthProtocol method of the reader object: no read_* / skip method of the runtime calls it (the compact skipper counts before - after); the emitted decoders call field_begin_len / field_end_len / field_stop_len on the reader: modelled at the generated level (fam/gen Gen.r_field_begin_len, r_assert_no_pending: Panic SPendingBoolTwice / SPendingBoolRead / SUnwrap)");
   (("compact.rs", "TLengthProtocol for TCompactInputProtocol<T> :: list_begin_len", "cast", "self.byte_len(0xF0 | (tcompact_get_compact(identifier.element_type).unwrap() as u8))"),
      LenPassOnly "TLengthProtocol method of the reader object: no read_* / skip method of the runtime calls it (the compact skipper counts before - after); the emitted decoders call field_begin_len / field_end_len / field_stop_len on the reader: modelled at the generated level (fam/gen Gen.r_field_begin_len, r_assert_no_pending: Panic SPendingBoolTwice / SPendingBoolRead / SUnwrap)");
   (("compact.rs", "TLengthProtocol for TCompactInputProtocol<T> :: list_begin_len", "cast", "+ VarInt::required_space(identifier.size as u32)"),
      LenPassOnly "TLengthProtocol method of the reader object: no read_* / skip method of the runtime calls it (the compact skipper counts before - after); the emitted decoders call field_begin_len / field_end_len / field_stop_len on the reader: modelled at the generated level (fam/gen Gen.r_field_begin_len, r_assert_no_pending: Panic SPendingBoolTwice / SPendingBoolRead / SUnwrap)");
   (("compact.rs", "TLengthProtocol for TCompactInputProtocol<T> :: set_begin_len", "cast", "((identifier.size as i32) << 4) as u8"),
      LenPassOnly "TLengthProtocol method of the reader object: no read_* / skip method of the runtime calls it (the compact skipper counts before - after); the emitted decoders call field_begin_len / field_end_len / field_stop_len on the reader: modelled at the generated level (fam/gen Gen.r_field_begin_len, r_assert_no_pending: Panic SPendingBoolTwice / SPendingBoolRead / SUnwrap)");
   (("compact.rs", "TLengthProtocol for TCompactInputProtocol<T> :: set_begin_len", "unwrap", "| (tcompact_get_compact(identifier.element_type).unwrap() as u8),"),
      LenPassOnly "TLengthProtocol method of the reader object: no read_* / skip method of the runtime calls it (the compact skipper counts before - after); the emitted decoders call field_begin_len / field_end_len / field_stop_len on the reader: modelled at the generated level (fam/gen Gen.r_field_begin_len, r_assert_no_pending: Panic SPendingBoolTwice / SPendingBoolRead / SUnwrap)");
   (("compact.rs", "TLengthProtocol for TCompactInputProtocol<T> :: set_begin_len", "cast", "| (tcompact_get_compact(identifier.element_type).unwrap() as u8),"),
      LenPassOnly "TLengthProtocol method of the reader object: no read_* / skip method of the runtime calls it (the compact skipper counts before - after); the emitted decoders call field_begin_len / field_end_len / field_stop_len on the reader: modelled at the generated level (fam/gen Gen.r_field_begin_len, r_assert_no_pending: Panic SPendingBoolTwice / SPendingBoolRead / SUnwrap)");
   (("compact.rs", "TLengthProtocol for TCompactInputProtocol<T> :: set_begin_len", "unwrap", "self.byte_len(0xF0 | (tcompact_get_compact(identifier.element_type).unwrap() as u8))"),
      LenPassOnly "TLengthProtocol method of the reader object: no read_* / skip method of the runtime calls it (the compact skipper counts before - after); the emitted decoders call field_begin_len / field_end_len / field_stop_len on the reader: modelled at the generated level (fam/gen Gen.r_field_begin_len, r_assert_no_pending: Panic SPendingBoolTwice / SPendingBoolRead / SUnwrap)");
   (("compact.rs", "TLengthProtocol for TCompactInputProtocol<T> :: set_begin_len", "cast", "self.byte_len(0xF0 | (tcompact_get_compact(identifier.element_type).unwrap() as u8))"),
      LenPassOnly "TLengthProtocol method of the reader object: no read_* / skip method of the runtime calls it (the compact skipper counts before - after); the emitted decoders call field_begin_len / field_end_len / field_stop_len on the reader: modelled at the generated level (fam/gen Gen.r_field_begin_len, r_assert_no_pending: Panic SPendingBoolTwice / SPendingBoolRead / SUnwrap)");
   (("compact.rs", "TLengthProtocol for TCompactInputProtocol<T> :: set_begin_len", "cast", "+ VarInt::required_space(identifier.size as u32)"),
      LenPassOnly "TLengthProtocol method of the reader object: no read_* / skip method of the runtime calls it (the compact skipper counts before - after); the emitted decoders call field_begin_len / field_end_len / field_stop_len on the reader: modelled at the generated level (fam/gen Gen.r_field_begin_len, r_assert_no_pending: Panic SPendingBoolTwice / SPendingBoolRead / SUnwrap)");
   (("compact.rs", "TLengthProtocol for TCompactInputProtocol<T> :: map_begin_len", "cast", "self.byte_len(TType::Stop as u8)"),
      LenPassOnly "TLengthProtocol method of the reader object: no read_* / skip method of the runtime calls it (the compact skipper counts before - after); the emitted decoders call field_begin_len / field_end_len / field_stop_len on the reader: modelled at the generated level (fam/gen Gen.r_field_begin_len, r_assert_no_pending: Panic SPendingBoolTwice / SPendingBoolRead / SUnwrap)");
   (("compact.rs", "TLengthProtocol for TCompactInputProtocol<T> :: map_begin_len", "cast", "VarInt::required_space(identifier.size as u32)"),
      LenPassOnly "TLengthProtocol method of the reader object: no read_* / skip method of the runtime calls it (the compact skipper counts before - after); the emitted decoders call field_begin_len / field_end_len / field_stop_len on the reader: modelled at the generated level (fam/gen Gen.r_field_begin_len, r_assert_no_pending: Panic SPendingBoolTwice / SPendingBoolRead / SUnwrap)");
   (("compact.rs", "TLengthProtocol for TCompactInputProtocol<T> :: map_begin_len", "unwrap", "(tcompact_get_compact(identifier.key_type).unwrap() as u8) << 4"),
      LenPassOnly "TLengthProtocol method of the reader object: no read_* / skip method of the runtime calls it (the compact skipper counts before - after); the emitted decoders call field_begin_len / field_end_len / field_stop_len on the reader: modelled at the generated level (fam/gen Gen.r_field_begin_len, r_assert_no_pending: Panic SPendingBoolTwice / SPendingBoolRead / SUnwrap)");
   (("compact.rs", "TLengthProtocol for TCompactInputProtocol<T> :: map_begin_len", "cast", "(tcompact_get_compact(identifier.key_type).unwrap() as u8) << 4"),
      LenPassOnly "TLengthProtocol method of the reader object: no read_* / skip method of the runtime calls it (the compact skipper counts before - after); the emitted decoders call field_begin_len / field_end_len / field_stop_len on the reader: modelled at the generated level (fam/gen Gen.r_field_begin_len, r_assert_no_pending: Panic SPendingBoolTwice / SPendingBoolRead / SUnwrap)");
   (("compact.rs", "TLengthProtocol for TCompactInputProtocol<T> :: map_begin_len", "unwrap", "| (tcompact_get_compact(identifier.value_type).unwrap()) as u8,"),
      LenPassOnly "TLengthProtocol method of the reader object: no read_* / skip method of the runtime calls it (the compact skipper counts before - after); the emitted decoders call field_begin_len / field_end_len / field_stop_len on the reader: modelled at the generated level (fam/gen Gen.r_field_begin_len, r_assert_no_pending: Panic SPendingBoolTwice / SPendingBoolRead / SUnwrap)");
   (("compact.rs", "TLengthProtocol for TCompactInputProtocol<T> :: map_begin_len", "cast", "| (tcompact_get_compact(identifier.value_type).unwrap()) as u8,"),
      LenPassOnly "TLengthProtocol method of the reader object: no read_* / skip method of the runtime calls it (the compact skipper counts before - after); the emitted decoders call field_begin_len / field_end_len / field_stop_len on the reader: modelled at the generated level (fam/gen Gen.r_field_begin_len, r_assert_no_pending: Panic SPendingBoolTwice / SPendingBoolRead / SUnwrap)");
   (("compact.rs", "TInputProtocol for TCompactInputProtocol<&mut Bytes> :: read_message_begin", "cast", "let sequence_number = self.read_varint::<u32>()? as i32;"),
      Modelled "r_message_begin" "read_varint::<u32>()? as i32 = wrap_s 32 (wrap_u 32 n)");
   (("compact.rs", "TInputProtocol for TCompactInputProtocol<&mut Bytes> :: read_struct_begin", "push", "self.read_field_id_stack.push(self.last_read_field_id);"),
      AllocBounded "read_val_a" "one i16 slot per struct begun: p_struct_cost = stack_cost PCompact = 1, charged at every struct begin");
   (("compact.rs", "TInputProtocol for TCompactInputProtocol<&mut Bytes> :: read_field_begin", "wrapping", "self.last_read_field_id.wrapping_add(field_delta as i16);"),
      Modelled "r_field_begin" "wrap_s 16 (r_last + delta) (fix F-01c: wrapping_add instead of +=)");
   (("compact.rs", "TInputProtocol for TCompactInputProtocol<&mut Bytes> :: read_field_begin", "cast", "self.last_read_field_id.wrapping_add(field_delta as i16);"),
      Modelled "r_field_begin" "field_delta is a nibble 1..15: fits i16");
   (("compact.rs", "TInputProtocol for TCompactInputProtocol<&mut Bytes> :: read_bytes", "cast", "Ok(split_to_checked(self.trans, size as usize)?)"),
      Modelled "r_len" "u32 length widened to usize = wrap_u 32 n; lengths above the remaining bytes are rejected by split_to_checked / assert_remaining (r_split)");
   (("compact.rs", "TInputProtocol for TCompactInputProtocol<&mut Bytes> :: get_bytes", "copy_from", "Ok(Bytes::copy_from_slice(unsafe {"),
      CallerSupplied "get_bytes(ptr, len): both arguments are supplied by the caller, not read from the wire here; called only by emitted decoders (zero-copy / keep-unknown-fields paths, len = difference of two reader positions): generated level (fam/gen); the ptr = None arm goes through split_to_checked");
   (("compact.rs", "TInputProtocol for TCompactInputProtocol<&mut Bytes> :: get_bytes", "unsafe", "Ok(Bytes::copy_from_slice(unsafe {"),
      CallerSupplied "get_bytes(ptr, len): both arguments are supplied by the caller, not read from the wire here; called only by emitted decoders (zero-copy / keep-unknown-fields paths, len = difference of two reader positions): generated level (fam/gen); the ptr = None arm goes through split_to_checked");
   (("compact.rs", "TInputProtocol for TCompactInputProtocol<&mut Bytes> :: read_string", "cast", "let size = self.read_varint::<u32>()? as usize;"),
      Modelled "r_len" "u32 length widened to usize = wrap_u 32 n; lengths above the remaining bytes are rejected by split_to_checked / assert_remaining (r_split)");
   (("compact.rs", "TInputProtocol for TCompactInputProtocol<&mut Bytes> :: read_faststr", "cast", "let size = self.read_varint::<u32>()? as usize;"),
      Modelled "r_len" "u32 length widened to usize = wrap_u 32 n; lengths above the remaining bytes are rejected by split_to_checked / assert_remaining (r_split)");
   (("compact.rs", "TInputProtocol for TCompactInputProtocol<&mut Bytes> :: read_faststr", "unchecked", "unsafe { Ok(FastStr::from_bytes_unchecked(bytes)) }"),
      Benign "no UTF-8 validation by design: strings are byte lists in the model (DESIGN 3); decoded strings are never inspected on malformed input");
   (("compact.rs", "TInputProtocol for TCompactInputProtocol<&mut Bytes> :: read_faststr", "unsafe", "unsafe { Ok(FastStr::from_bytes_unchecked(bytes)) }"),
      Benign "no UTF-8 validation by design: strings are byte lists in the model (DESIGN 3); decoded strings are never inspected on malformed input");
   (("compact.rs", "TInputProtocol for TCompactInputProtocol<&mut Bytes> :: skip_till_depth", "loop", "loop {"),
      Modelled "skip_fields" "fuel-bounded in the model; every iteration consumes >= 1 byte (field header)");
   (("compact.rs", "TInputProtocol for TCompactInputProtocol<&mut Bytes> :: skip_till_depth", "arith", "self.skip_till_depth(field_ident.field_type, depth - 1)?;"),
      Guarded "skip_val" "`if depth == 0 { return Err(DepthLimit) }` at entry, so depth >= 1 here: skip_val matches d = S d'");
   (("compact.rs", "TInputProtocol for TCompactInputProtocol<&mut Bytes> :: skip_till_depth", "loop", "for _ in 0..list_ident.size {"),
      Modelled "skip_elems" "the count was validated by checked_container_size (0 <= size <= remaining): check_size; skip_elems / skip_pairs");
   (("compact.rs", "TInputProtocol for TCompactInputProtocol<&mut Bytes> :: skip_till_depth", "arith", "self.skip_till_depth(list_ident.element_type, depth - 1)?;"),
      Guarded "skip_val" "`if depth == 0 { return Err(DepthLimit) }` at entry, so depth >= 1 here: skip_val matches d = S d'");
   (("compact.rs", "TInputProtocol for TCompactInputProtocol<&mut Bytes> :: skip_till_depth", "loop", "for _ in 0..set_ident.size {"),
      Modelled "skip_elems" "the count was validated by checked_container_size (0 <= size <= remaining): check_size; skip_elems / skip_pairs");
   (("compact.rs", "TInputProtocol for TCompactInputProtocol<&mut Bytes> :: skip_till_depth", "arith", "self.skip_till_depth(set_ident.element_type, depth - 1)?;"),
      Guarded "skip_val" "`if depth == 0 { return Err(DepthLimit) }` at entry, so depth >= 1 here: skip_val matches d = S d'");
   (("compact.rs", "TInputProtocol for TCompactInputProtocol<&mut Bytes> :: skip_till_depth", "loop", "for _ in 0..map_ident.size {"),
      Modelled "skip_elems" "the count was validated by checked_container_size (0 <= size <= remaining): check_size; skip_elems / skip_pairs");
   (("compact.rs", "TInputProtocol for TCompactInputProtocol<&mut Bytes> :: skip_till_depth", "arith", "self.skip_till_depth(map_ident.key_type, depth - 1)?;"),
      Guarded "skip_val" "`if depth == 0 { return Err(DepthLimit) }` at entry, so depth >= 1 here: skip_val matches d = S d'");
   (("compact.rs", "TInputProtocol for TCompactInputProtocol<&mut Bytes> :: skip_till_depth", "arith", "self.skip_till_depth(map_ident.value_type, depth - 1)?;"),
      Guarded "skip_val" "`if depth == 0 { return Err(DepthLimit) }` at entry, so depth >= 1 here: skip_val matches d = S d'");
   (("compact.rs", "TInputProtocol for TCompactInputProtocol<&mut Bytes> :: skip_till_depth", "arith", "Ok(before - self.trans.len())"),
      Guarded "via" "the in-memory buffer only shrinks while reading: before >= trans.len(), consumed s s' >= 0 (every r_* is built on r_take / rd_var)");
   (("compact.rs", "TInputProtocol for TCompactInputProtocol<&mut Bytes> :: read_map_begin", "cast", "let element_count = self.read_varint::<u32>()? as i32;"),
      Modelled "r_map_begin" "u32 as i32 = wrap_s 32; validated by checked_container_size (check_size) before it is returned");
   (("compact.rs", "TInputProtocol for TCompactInputProtocol<&mut Bytes> :: read_bytes_vec", "cast", "let size = self.read_varint::<u32>()? as usize;"),
      Modelled "r_len" "u32 length widened to usize = wrap_u 32 n; lengths above the remaining bytes are rejected by split_to_checked / assert_remaining (r_split)");
   (("compact.rs", "TInputProtocol for TCompactInputProtocol<&mut Bytes> :: read_bytes_vec", "convert", "Ok(split_to_checked(self.trans, size)?.into())"),
      AllocBounded "r_bytes_alloc" "Bytes -> Vec<u8> copies the len bytes split_to_checked has just returned (len <= bytes present)")
  ].

(* ---- admissibility of an account for a kind of site (checked by computation in Proofs/SitesP.v) ---- *)
Definition rs_file (s : rsite) : string := fst (fst (fst s)).
Definition rs_fn (s : rsite) : string := snd (fst (fst s)).
Definition rs_kind (s : rsite) : string := snd (fst s).
Definition rs_snippet (s : rsite) : string := snd s.

Definition mem (x : string) (l : list string) : bool := existsb (String.eqb x) l.

Definition panic_kinds : list string :=
  ["unwrap"; "expect"; "panic"; "assert"; "call_panics"; "split_to"; "advance"; "copy_to"; "buf_get"; "index"].
Definition alloc_kinds : list string :=
  ["with_capacity"; "vec_n"; "reserve"; "copy_from"; "convert"; "push"].

Fixpoint contains (needle hay : string) : bool :=
  match hay with
  | EmptyString => String.eqb needle EmptyString
  | String _ rest => String.prefix needle hay || contains needle rest
  end.

Definition why_of (a : account) : string :=
  match a with
  | Guarded _ w | ModelledOutcome _ w | AllocBounded _ w | ConstAlloc w | Modelled _ w | LenPassOnly w
  | WriterOnly w | NotReached w | CallerSupplied w | Benign w => w
  end.

Definition named_fn_ok (a : account) : bool :=
  match a with
  | Guarded f _ | AllocBounded f _ | Modelled f _ => mem f model_fns
  | _ => true
  end.

Definition scope_ok (s : rsite) (a : account) : bool :=
  match a with
  | LenPassOnly _ => contains "TLengthProtocol" (rs_fn s) || contains "_len" (rs_fn s)
  | WriterOnly _ => contains "write" (rs_fn s)
  | _ => true
  end.

Definition class_ok (s : rsite) (a : account) : bool :=
  if mem (rs_kind s) panic_kinds then
    match a with
    | Guarded _ _ | ModelledOutcome _ _ | LenPassOnly _ | WriterOnly _ | NotReached _ | CallerSupplied _ => true
    | _ => false
    end
  else if mem (rs_kind s) alloc_kinds then
    match a with
    | AllocBounded _ _ | ConstAlloc _ | Guarded _ _ | LenPassOnly _ | WriterOnly _ | NotReached _ | CallerSupplied _ => true
    | _ => false
    end
  else true.

Definition justified (sa : rsite * account) : bool :=
  class_ok (fst sa) (snd sa) && scope_ok (fst sa) (snd sa) && named_fn_ok (snd sa) &&
  negb (String.eqb (why_of (snd sa)) "").

(* the sites that can panic and are reachable from read_* / skip: each is Guarded or a model outcome *)
Definition reachable_panic_sites : list (rsite * account) :=
  filter (fun sa => mem (rs_kind (fst sa)) panic_kinds &&
                    match snd sa with Guarded _ _ | ModelledOutcome _ _ => true | _ => false end) accounted.
