(* Clause-for-clause port of pilota-thrift-parser/src/parser/*.rs (16 files) to Gallina.

   Every definition names the Rust impl it mirrors; the order of the components of each [tuple((..))] and
   of the alternatives of each [alt((..))] is the order of the source.  All matched strings come from
   Generated/IdlConsts.v (regenerated from the source on every run).

   Fuel.  [lf] is loop fuel (handed to every nom loop combinator; an iteration consumes at least one byte).
   [df] is depth fuel: it is decremented exactly where the Rust code recurses natively --
   Ty::parse -> Type::parse -> Ty::parse (after "list" / "set" / "map" and '<') and
   ConstValue::parse -> ConstValue::parse (after '[' or '{'); [PFuel FDepth] therefore means "native
   recursion deeper than df frames of Ty::parse / ConstValue::parse".  IntConstant::parse no longer
   recurses (its minus signs are counted by many0_count since /repo 5cee6c0).
   [parse_file s] runs with lf = df = length s + 1. *)
From PVIdl Require Export Comb Ast Generated.IdlConsts.
Open Scope Z_scope.

Fixpoint bytes_eqb (a b : list byte) : bool :=
  match a, b with
  | [], [] => true
  | x :: a', y :: b' => Byte.eqb x y && bytes_eqb a' b'
  | _, _ => false
  end.

(* a generated one-character string as a byte *)
Definition one_byte (l : list byte) : byte := hd x00 l.

Section Parsers.
Variable lf : nat.

(* ---------------- mod.rs ---------------- *)

(* fn p_comment *)
Definition p_comment : parser (list byte) :=
  alt [ (fun i => do i, _ <- tag cmt_line_open i ;; take_till (fun b => bmem b cmt_line_stop) i);
        (fun i => do i, _ <- tag cmt_block_open i ;;
                  do i, c <- take_until cmt_block_until i ;;
                  do i, _ <- tag cmt_block_close i ;; POk i c);
        (fun i => do i, _ <- tag cmt_hash_open i ;; take_till (fun b => bmem b cmt_hash_stop) i) ].

(* fn p_blank *)
Definition p_blank : parser unit :=
  fun i => do i, _ <- many1 lf (alt [p_comment; multispace1]) i ;; POk i tt.

(* fn p_list_separator *)
Definition p_list_separator : parser byte :=
  fun i => do i, sep <- one_of set_list_separator i ;;
           do i, _ <- opt p_blank i ;; POk i sep.

(* fn p_alphanumeric_or_underscore : satisfy(|c| c.is_alphanumeric() || c == '_') *)
Definition p_alphanumeric_or_underscore : parser N :=
  satisfy_c (fun cp => is_alphanumeric_cp cp || N.eqb cp 95).

(* tuple((tag(k), peek(not(p_alphanumeric_or_underscore)))) : a p_keyword as a whole word *)
Definition p_keyword (k : list byte) : parser unit :=
  fun i => do i, _ <- tag k i ;;
           do i, _ <- peek (not_ p_alphanumeric_or_underscore) i ;; POk i tt.

(* ---------------- identifier.rs : impl Parser for Ident ---------------- *)
Definition p_ident : parser Ident :=
  recognize (fun i => do i, _ <- satisfy_b (fun c => is_alpha c || is_underscore c) i ;;
                      take_while (fun c => is_alnum c || is_underscore c) i).

(* mod.rs : impl Parser for Path *)
Definition p_path_sep : parser unit :=
  fun i => do i, _ <- opt p_blank i ;; do i, _ <- tag sym_path_dot i ;; do i, _ <- opt p_blank i ;; POk i tt.
Definition p_path : parser Path := separated_list1 lf p_path_sep p_ident.

(* ---------------- p_literal.rs ---------------- *)
(* gen_parse_quote!(f, q): none_of(concat!("\\", q)), control char '\\', one_of(escapable) *)
Definition p_quote_parser (q : list byte) (none_set : list byte) : parser (list byte) :=
  fun i =>
    let esc := escaped lf (none_of none_set) (one_byte lit_ctrl) (one_of set_escapable) in
    let esc_or_empty := alt [esc; tag lit_empty] in
    do i, _ <- tag q i ;; do i, s <- esc_or_empty i ;; do i, _ <- tag q i ;; POk i s.
Definition p_single_quote := p_quote_parser lit_quote_single set_none_of_single.
Definition p_double_quote := p_quote_parser lit_quote_double set_none_of_double.
(* impl Parser for Literal *)
Definition p_literal : parser Literal := alt [p_single_quote; p_double_quote].

(* ---------------- p_annotation.rs : impl Parser for Annotations ---------------- *)
Definition p_annotation_key : parser str :=
  recognize (fun i => do i, _ <- satisfy_b (fun c => is_alpha c || is_underscore c) i ;;
                      take_while (fun c => is_alnum c || is_underscore c || is_dot c) i).
Definition p_annotation : parser Annotation :=
  fun i => do i, _ <- opt p_blank i ;;
           do i, p <- p_annotation_key i ;;
           do i, _ <- opt p_blank i ;;
           do i, _ <- tag sym_ann_eq i ;;
           do i, _ <- opt p_blank i ;;
           do i, lit <- p_literal i ;;
           do i, _ <- opt p_blank i ;;
           do i, _ <- opt p_list_separator i ;;
           POk i (mkAnnotation p lit).
Definition p_annotations : parser Annotations :=
  fun i => do i, _ <- tag sym_ann_open i ;;
           do i, l <- many1 lf p_annotation i ;;
           do i, _ <- tag sym_ann_close i ;; POk i l.

Definition unwrap_or_default {A} (o : option (list A)) : list A := match o with Some l => l | None => [] end.

(* ---------------- include.rs ---------------- *)
Definition p_include : parser Literal :=
  fun i => do i, _ <- tag kw_include i ;; do i, _ <- p_blank i ;; do i, p <- p_literal i ;;
           do i, _ <- opt p_list_separator i ;; POk i p.
Definition p_cpp_include : parser Literal :=
  fun i => do i, _ <- tag kw_cpp_include i ;; do i, _ <- p_blank i ;; do i, p <- p_literal i ;;
           do i, _ <- opt p_list_separator i ;; POk i p.

(* ---------------- p_namespace.rs ---------------- *)
Definition p_scope : parser str := alt (map tag scope_tags).
Definition p_namespace : parser Namespace :=
  fun i => do i, _ <- tag kw_namespace i ;;
           do i, sc <- (fun i => do i, _ <- p_blank i ;; p_scope i) i ;;
           do i, name <- (fun i => do i, _ <- p_blank i ;; p_path i) i ;;
           do i, _ <- opt p_blank i ;;
           do i, an <- opt p_annotations i ;;
           do i, _ <- opt p_blank i ;;
           do i, _ <- opt p_list_separator i ;;
           POk i (mkNamespace sc name an).

(* ---------------- p_ty.rs ---------------- *)
(* impl Parser for CppType *)
Definition p_cpp_type : parser Literal :=
  fun i => do i, _ <- tag kw_cpp_type i ;; do i, _ <- p_blank i ;; p_literal i.

(* impl Parser for Type, with Ty::parse as a parameter (the recursive knot) *)
Definition p_type_of (p_ty : parser Ty) : parser Type_ :=
  fun i => do i, t <- p_ty i ;;
           do i, an <- opt (fun i => do i, pr <- permutation2 (opt p_blank) p_annotations i ;; POk i (snd pr)) i ;;
           POk i (MkType t (unwrap_or_default an)).

Definition p_base_ty (k : list byte) (t : Ty) : parser Ty :=
  fun i => do i, _ <- p_keyword k i ;; POk i t.

(* impl Parser for Ty *)
Fixpoint p_ty (df : nat) : parser Ty :=
  fun i =>
  match df with
  | O => PFuel FDepth
  | S d =>
    let p_type := p_type_of (p_ty d) in
    alt [ p_base_ty kw_ty_string TString;
          p_base_ty kw_ty_void TVoid;
          p_base_ty kw_ty_byte TByte;
          p_base_ty kw_ty_bool TBool;
          p_base_ty kw_ty_binary TBinary;
          p_base_ty kw_ty_i8 TI8;
          p_base_ty kw_ty_i16 TI16;
          p_base_ty kw_ty_i32 TI32;
          p_base_ty kw_ty_i64 TI64;
          p_base_ty kw_ty_double TDouble;
          p_base_ty kw_ty_uuid TUuid;
          (fun i => do i, _ <- tag kw_ty_list i ;;
                    do i, _ <- opt p_blank i ;;
                    do i, _ <- tag sym_list_lt i ;;
                    do i, _ <- opt p_blank i ;;
                    do i, inner <- p_type i ;;
                    do i, _ <- opt p_blank i ;;
                    do i, _ <- tag sym_list_gt i ;;
                    do i, cpp <- opt (fun i => do i, _ <- p_blank i ;; p_cpp_type i) i ;;
                    POk i (TList inner cpp));
          (fun i => do i, _ <- tag kw_ty_set i ;;
                    do i, cpp <- opt (fun i => do i, _ <- p_blank i ;; p_cpp_type i) i ;;
                    do i, _ <- opt p_blank i ;;
                    do i, _ <- tag sym_set_lt i ;;
                    do i, _ <- opt p_blank i ;;
                    do i, inner <- p_type i ;;
                    do i, _ <- opt p_blank i ;;
                    do i, _ <- tag sym_set_gt i ;;
                    POk i (TSet inner cpp));
          (fun i => do i, _ <- tag kw_ty_map i ;;
                    do i, cpp <- opt (fun i => do i, _ <- p_blank i ;; p_cpp_type i) i ;;
                    do i, _ <- opt p_blank i ;;
                    do i, _ <- tag sym_map_lt i ;;
                    do i, _ <- opt p_blank i ;;
                    do i, k <- p_type i ;;
                    do i, _ <- opt p_blank i ;;
                    do i, _ <- p_list_separator i ;;
                    do i, _ <- opt p_blank i ;;
                    do i, v <- p_type i ;;
                    do i, _ <- opt p_blank i ;;
                    do i, _ <- tag sym_map_gt i ;;
                    POk i (TMap k v cpp));
          pmap TPath p_path ] i
  end.

Definition p_type (df : nat) : parser Type_ := p_type_of (p_ty df).

(* ---------------- p_constant.rs ---------------- *)
(* impl Parser for IntConstant *)
Definition p_int_constant : parser Z :=
  fun i => do i, minus <- many0_count lf (tag sym_int_minus) i ;;
           do i, v <- alt [ (fun i => do i, _ <- tag sym_int_hex i ;;
                                      map_res hex_digit1 (parse_unsigned 16 i64_max) i);
                            map_res digit1 (parse_unsigned 10 i64_max) ] i ;;
           (* Ok((input, if minus % 2 == 1 { IntConstant(-v.0) } else { v })): the negation is the one panic-capable
              operation of the parser files (inventory: Generated/IdlPanics.v); it panics on i64::MIN *)
           if Nat.odd minus then match checked_neg v with Some n => POk i n | None => PPanic SiteNeg end
           else POk i v.

(* tuple((tag_no_case("e"), IntConstant::parse)) *)
Definition p_exponent (e : list byte) : parser unit :=
  fun i => do i, _ <- tag_no_case e i ;; do i, _ <- p_int_constant i ;; POk i tt.

(* impl Parser for DoubleConstant: the recognised text is kept, the conversion closure cannot fail *)
Definition p_double_constant : parser str :=
  map_res
    (recognize (fun i =>
       do i, _ <- opt (tag sym_dbl_minus) i ;;
       do i, _ <- opt (tag sym_dbl_plus) i ;;
       alt [ (fun i => do i, _ <- digit1 i ;; do i, _ <- tag sym_dbl_dot_a i ;;
                       do i, _ <- opt digit1 i ;; do i, _ <- opt (p_exponent sym_dbl_exp_a) i ;; POk i tt);
             (fun i => do i, _ <- opt digit1 i ;; do i, _ <- tag sym_dbl_dot_b i ;;
                       do i, _ <- digit1 i ;; do i, _ <- opt (p_exponent sym_dbl_exp_b) i ;; POk i tt);
             (fun i => do i, _ <- digit1 i ;; do i, _ <- tag_no_case sym_dbl_exp_c i ;;
                       do i, _ <- p_int_constant i ;; POk i tt) ] i))
    (fun d_str => Some d_str).

(* impl Parser for ConstValue *)
Fixpoint p_const_value (df : nat) : parser ConstValue :=
  fun i =>
  match df with
  | O => PFuel FDepth
  | S d =>
    let cv := p_const_value d in
    alt [ pmap CString p_literal;
          (fun i => do i, _ <- p_keyword kw_true i ;; POk i (CBool true));
          (fun i => do i, _ <- p_keyword kw_false i ;; POk i (CBool false));
          pmap CPath p_path;
          pmap CDouble p_double_constant;
          pmap CInt p_int_constant;
          (fun i => do i, _ <- tag sym_clist_open i ;;
                    do i, els <- many0 lf (fun i => do i, _ <- opt p_blank i ;;
                                                    do i, e <- cv i ;;
                                                    do i, _ <- opt p_blank i ;;
                                                    do i, _ <- opt p_list_separator i ;; POk i e) i ;;
                    do i, _ <- opt p_blank i ;;
                    do i, _ <- tag sym_clist_close i ;;
                    POk i (CList els));
          (fun i => do i, _ <- tag sym_cmap_open i ;;
                    do i, kvs <- many0 lf (fun i => do i, _ <- opt p_blank i ;;
                                                    do i, k <- cv i ;;
                                                    do i, _ <- opt p_blank i ;;
                                                    do i, _ <- tag sym_cmap_colon i ;;
                                                    do i, _ <- opt p_blank i ;;
                                                    do i, v <- cv i ;;
                                                    do i, _ <- opt p_blank i ;;
                                                    do i, _ <- opt p_list_separator i ;; POk i (k, v)) i ;;
                    do i, _ <- opt p_blank i ;;
                    do i, _ <- tag sym_cmap_close i ;;
                    POk i (CMap kvs)) ] i
  end.

(* impl Parser for Constant *)
Definition p_constant (df : nat) : parser Constant :=
  fun i => do i, _ <- tag kw_const i ;;
           do i, t <- (fun i => do i, _ <- p_blank i ;; p_type df i) i ;;
           do i, name <- (fun i => do i, _ <- p_blank i ;; p_ident i) i ;;
           do i, _ <- (fun i => do i, _ <- opt p_blank i ;; tag sym_const_eq i) i ;;
           do i, v <- (fun i => do i, _ <- opt p_blank i ;; p_const_value df i) i ;;
           do i, _ <- opt p_blank i ;;
           do i, an <- opt p_annotations i ;;
           do i, _ <- opt p_list_separator i ;;
           POk i (mkConstant name t v (unwrap_or_default an)).

(* ---------------- p_typedef.rs ---------------- *)
Definition p_typedef (df : nat) : parser Typedef :=
  fun i => do i, _ <- tag kw_typedef i ;;
           do i, _ <- p_blank i ;;
           do i, t <- p_type df i ;;
           do i, _ <- p_blank i ;;
           do i, alias <- p_ident i ;;
           do i, _ <- opt p_blank i ;;
           do i, an <- opt p_annotations i ;;
           do i, _ <- opt p_list_separator i ;;
           POk i (mkTypedef t alias (unwrap_or_default an)).

(* ---------------- p_field.rs ---------------- *)
(* impl Parser for Attribute *)
Definition p_attribute : parser Attribute :=
  alt [ (fun i => do i, _ <- p_keyword kw_required i ;; POk i ARequired);
        (fun i => do i, _ <- p_keyword kw_optional i ;; POk i AOptional) ].

(* map_res(tuple((digit1, opt(p_blank), tag(":"))), |(id, _, _)| id.parse::<i32>()) *)
Definition p_field_id : parser Z :=
  map_res (fun i => do i, id <- digit1 i ;; do i, _ <- opt p_blank i ;; do i, _ <- tag sym_field_colon i ;; POk i id)
          (parse_unsigned 10 i32_max).

Definition attr_or_default (o : option Attribute) : Attribute := match o with Some a => a | None => ADefault end.

(* impl Parser for Field *)
Definition p_field (df : nat) : parser Field :=
  fun i => do i, id <- p_field_id i ;;
           do i, _ <- opt p_blank i ;;
           do i, attr <- opt p_attribute i ;;
           do i, _ <- opt p_blank i ;;
           do i, t <- p_type df i ;;
           do i, _ <- opt p_blank i ;;
           do i, name <- p_ident i ;;
           do i, _ <- opt p_blank i ;;
           do i, default <- opt (fun i => do i, _ <- tag sym_field_eq i ;;
                                          do i, _ <- opt p_blank i ;; p_const_value df i) i ;;
           do i, _ <- opt p_blank i ;;
           do i, an <- opt p_annotations i ;;
           do i, _ <- opt p_blank i ;;
           do i, _ <- opt p_list_separator i ;;
           POk i (mkField id name (attr_or_default attr) t default (unwrap_or_default an)).

(* ---------------- p_struct.rs ---------------- *)
(* impl Parser for StructLike *)
Definition p_struct_like (df : nat) : parser StructLike :=
  fun i => do i, name <- p_ident i ;;
           do i, _ <- opt p_blank i ;;
           do i, _ <- tag sym_struct_open i ;;
           do i, fields <- many0 lf (fun i => do i, _ <- opt p_blank i ;; p_field df i) i ;;
           do i, _ <- opt p_blank i ;;
           do i, _ <- tag sym_struct_close i ;;
           do i, _ <- opt p_blank i ;;
           do i, an <- opt p_annotations i ;;
           do i, _ <- opt p_list_separator i ;;
           POk i (mkStructLike name fields (unwrap_or_default an)).

Definition p_struct (df : nat) : parser StructLike :=
  fun i => do i, _ <- tag kw_struct i ;; do i, _ <- p_blank i ;; p_struct_like df i.
Definition p_union (df : nat) : parser StructLike :=
  fun i => do i, _ <- tag kw_union i ;; do i, _ <- p_blank i ;; p_struct_like df i.
Definition p_exception (df : nat) : parser StructLike :=
  fun i => do i, _ <- tag kw_exception i ;; do i, _ <- p_blank i ;; p_struct_like df i.

(* ---------------- p_enum.rs ---------------- *)
Definition p_enum_value : parser EnumValue :=
  fun i => do i, name <- p_ident i ;;
           do i, _ <- opt p_blank i ;;
           do i, value <- opt (fun i => do i, _ <- tag sym_enum_eq i ;;
                                        do i, _ <- opt p_blank i ;; p_int_constant i) i ;;
           do i, _ <- opt p_blank i ;;
           do i, an <- opt p_annotations i ;;
           do i, _ <- opt p_list_separator i ;;
           do i, _ <- opt p_blank i ;;
           POk i (mkEnumValue name value (unwrap_or_default an)).

Definition p_enum : parser Enum :=
  fun i => do i, _ <- tag kw_enum i ;;
           do i, _ <- p_blank i ;;
           do i, name <- p_ident i ;;
           do i, _ <- opt p_blank i ;;
           do i, _ <- tag sym_enum_open i ;;
           do i, _ <- opt p_blank i ;;
           do i, values <- many0 lf p_enum_value i ;;
           do i, _ <- opt p_blank i ;;
           do i, _ <- tag sym_enum_close i ;;
           do i, _ <- opt p_blank i ;;
           do i, an <- opt p_annotations i ;;
           POk i (mkEnum name values (unwrap_or_default an)).

(* ---------------- p_function.rs ---------------- *)
Definition default_to_required (f : Field) : Field :=
  match f_attribute f with
  | ADefault => mkField (f_id f) (f_name f) ARequired (f_ty f) (f_default f) (f_annotations f)
  | _ => f
  end.

Definition is_some {A} (o : option A) : bool := match o with Some _ => true | None => false end.

Definition p_function (df : nat) : parser Function :=
  fun i => do i, oneway <- pmap is_some (opt (fun i => do i, _ <- tag kw_oneway i ;; p_blank i)) i ;;
           do i, t <- p_type df i ;;
           do i, _ <- p_blank i ;;
           do i, name <- p_ident i ;;
           do i, _ <- opt p_blank i ;;
           do i, _ <- tag sym_fn_open i ;;
           do i, arguments <- opt (many1 lf (fun i => do i, _ <- opt p_blank i ;; p_field df i)) i ;;
           do i, _ <- opt p_blank i ;;
           do i, _ <- tag sym_fn_close i ;;
           do i, _ <- opt p_blank i ;;
           do i, throws <- opt (fun i => do i, _ <- tag kw_throws i ;;
                                         do i, _ <- opt p_blank i ;;
                                         do i, _ <- tag sym_throws_open i ;;
                                         do i, fs <- many1 lf (fun i => do i, _ <- opt p_blank i ;; p_field df i) i ;;
                                         do i, _ <- opt p_blank i ;;
                                         do i, _ <- tag sym_throws_close i ;; POk i fs) i ;;
           do i, _ <- opt p_blank i ;;
           do i, an <- opt p_annotations i ;;
           do i, _ <- opt p_list_separator i ;;
           POk i (mkFunction name oneway t (map default_to_required (unwrap_or_default arguments))
                             (unwrap_or_default throws) (unwrap_or_default an)).

(* ---------------- p_service.rs ---------------- *)
Definition p_service (df : nat) : parser Service :=
  fun i => do i, _ <- tag kw_service i ;;
           do i, _ <- p_blank i ;;
           do i, name <- p_ident i ;;
           do i, extends <- opt (fun i => do i, _ <- p_blank i ;; do i, _ <- tag kw_extends i ;;
                                          do i, _ <- p_blank i ;; p_path i) i ;;
           do i, _ <- opt p_blank i ;;
           do i, _ <- tag sym_service_open i ;;
           do i, functions <- many0 lf (fun i => do i, _ <- opt p_blank i ;; p_function df i) i ;;
           do i, _ <- opt p_blank i ;;
           do i, _ <- tag sym_service_close i ;;
           do i, _ <- opt p_blank i ;;
           do i, an <- opt p_annotations i ;;
           do i, _ <- opt p_list_separator i ;;
           POk i (mkService name extends functions (unwrap_or_default an)).

(* ---------------- thrift.rs ---------------- *)
(* impl Parser for Item: peek the leading word, dispatch on it; an unknown word is a *Failure* *)
Definition p_item_keyword : parser (list byte) :=
  peek (recognize (fun i => do i, _ <- satisfy_b is_alpha i ;;
                            take_while (fun c => is_alnum c || is_underscore c) i)).

Definition p_item (df : nat) : parser Item :=
  fun input =>
    do input, kw <- p_item_keyword input ;;
    if bytes_eqb kw arm_include then pmap IInclude p_include input
    else if bytes_eqb kw arm_cpp_include then pmap ICppInclude p_cpp_include input
    else if bytes_eqb kw arm_namespace then pmap INamespace p_namespace input
    else if bytes_eqb kw arm_typedef then pmap ITypedef (p_typedef df) input
    else if bytes_eqb kw arm_const then pmap IConstant (p_constant df) input
    else if bytes_eqb kw arm_enum then pmap IEnum p_enum input
    else if bytes_eqb kw arm_struct then pmap IStruct (p_struct df) input
    else if bytes_eqb kw arm_union then pmap IUnion (p_union df) input
    else if bytes_eqb kw arm_exception then pmap IException (p_exception df) input
    else if bytes_eqb kw arm_service then pmap IService (p_service df) input
    else PFail input KFail.

(* t.package: the name of the first p_namespace p_item whose p_scope is "rs" *)
Fixpoint package_of (items : list Item) : option Path :=
  match items with
  | [] => None
  | INamespace n :: rest => if bytes_eqb (ns_scope n) package_scope then Some (ns_name n) else package_of rest
  | _ :: rest => package_of rest
  end.

(* impl Parser for File *)
Definition p_file (df : nat) : parser File :=
  fun input =>
    (* a document may consist of blanks only: the leading blank is skipped before the loop (since /repo 25b7876) *)
    do input, _ <- opt p_blank input ;;
    do remain, items <- many_till lf (fun i => do i, _ <- opt p_blank i ;;
                                               do i, it <- p_item df i ;;
                                               do i, _ <- opt p_blank i ;; POk i it) eof input ;;
    POk remain (mkFile (package_of (fst items)) (fst items)).

End Parsers.

(* File::parse(text) *)
Definition parse_file (s : input) : pres File := p_file (S (length s)) (S (length s)) s.
